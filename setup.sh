#!/bin/sh
# Build the framework from files on disk only (offline): Rust harness binaries + the Coq development.
# Each check rebuilds what it needs anyway; this only warms the caches, so a failure of one
# component is reported but does not stop the others.
cd "$(dirname "$0")"
export CARGO_NET_OFFLINE=true
mkdir -p .work evidence/replays coq/Generated
[ -f harness/Cargo.lock ] || cp /repo/Cargo.lock harness/Cargo.lock
status=0
for d in harness/crates/c*; do
  name="dl-$(basename "$d")"
  (cd harness && cargo build --release --offline -q -p "$name") || { echo "setup: build of $name failed"; status=1; }
done
sh coq/gen_project.sh
targets=$(cd coq && ls Properties/*.v | sed 's/\.v$/.vo/')
(cd coq && timeout 3000 make -j16 $targets) || { echo "setup: coq build failed"; status=1; }
echo "setup done (status $status)"
exit $status
