#!/bin/sh
# Build the framework from files on disk only (offline): Rust harness + the Coq development.
set -e
cd "$(dirname "$0")"
export CARGO_NET_OFFLINE=true
mkdir -p .work evidence/replays
[ -f harness/Cargo.lock ] || cp /repo/Cargo.lock harness/Cargo.lock
(cd harness && cargo build --release --offline -q --workspace) || { cp /repo/Cargo.lock harness/Cargo.lock; (cd harness && cargo build --release --offline -q --workspace); }
mkdir -p coq/Generated
sh coq/gen_project.sh
(cd coq && timeout 3000 make -j16)
echo "setup done"
