#!/bin/sh
# Build the framework from files on disk only (offline): Rust harness binaries + the Coq development.
# Each check rebuilds what it needs anyway; this only warms the caches, so a failure of one
# component is reported but does not stop the others.
cd "$(dirname "$0")"
export CARGO_NET_OFFLINE=true
mkdir -p .work evidence/replays coq/Generated
[ -f harness/Cargo.lock ] || cp /repo/Cargo.lock harness/Cargo.lock
status=0
# the properties claimed in MANIFEST.json (others may be work in progress)
claimed=$(python3 -c "import json;print(' '.join(c['property_id'].lower() for c in json.load(open('MANIFEST.json'))['checks']))")
for m in $claimed; do
  name="dl-$m"
  [ -d "harness/crates/$m" ] || continue
  (cd harness && cargo build --release --offline -q -p "$name") || { echo "setup: build of $name failed"; status=1; }
done
sh coq/gen_project.sh
targets=""
for m in $claimed; do
  id=$(echo "$m" | tr c C)
  [ -f "coq/Properties/$id.v" ] && targets="$targets Properties/$id.vo"
done
(cd coq && timeout 3000 make -j16 $targets) || { echo "setup: coq build failed"; status=1; }
echo "setup done (status $status)"
exit $status
