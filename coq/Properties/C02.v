(** C02 — Dense and readable generators emit code that means the same tree.
    Only statements, closed by [exact], with their assumptions printed. *)
From DL Require Import Lib.Bytes Model.Lexer Proof.LexerFacts.
Open Scope N_scope.

Theorem C02_lexer_is_a_fold : forall x y st,
  run st (x ++ y) =
  let '(o1, s1) := run st x in
  let '(o2, s2) := run s1 y in
  (o1 ++ o2, s2).
Proof. exact run_app. Qed.
Print Assumptions C02_lexer_is_a_fold.
Check C02_lexer_is_a_fold : forall x y st,
  run st (x ++ y) =
  let '(o1, s1) := run st x in
  let '(o2, s2) := run s1 y in
  (o1 ++ o2, s2).
