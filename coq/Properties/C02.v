(** C02 — Dense and readable generators emit code that means the same tree.
    Only statements, closed by [exact], with their assumptions printed. *)
From DL Require Import Lib.Bytes Model.Lexer Model.DenseGen Model.Precedence Model.C02Spec Proof.DenseGenFacts
  Proof.PrecedenceFacts Proof.C02FrozenTables Proof.C02Examples Proof.C02StatementFacts Proof.C02DeclFacts.
Open Scope N_scope.

Theorem C02_no_fusion_stream : forall T span items,
  stream_ok T items = true ->
  lex_all (emit T span items) = lex_all (canon items)
  /\ lex (emit T span items) = lex (canon items).
Proof. exact no_fusion_stream. Qed.
Print Assumptions C02_no_fusion_stream.
Check C02_no_fusion_stream : forall T span items,
  stream_ok T items = true ->
  lex_all (emit T span items) = lex_all (canon items)
  /\ lex (emit T span items) = lex (canon items).

Theorem C02_no_fusion : forall T, spacing_ok T = true ->
  forall span items, adjacency_ok items = true ->
  lex (emit T span items) = lex (canon items).
Proof. exact no_fusion. Qed.
Print Assumptions C02_no_fusion.
Check C02_no_fusion : forall T, spacing_ok T = true ->
  forall span items, adjacency_ok items = true ->
  lex (emit T span items) = lex (canon items).

Theorem C02_frozen_table_ok : spacing_ok Proof.C02FrozenTables.tbl = true.
Proof. exact frozen_table_ok. Qed.
Print Assumptions C02_frozen_table_ok.
Check C02_frozen_table_ok : spacing_ok Proof.C02FrozenTables.tbl = true.

Theorem C02_no_fusion_unrestricted_refuted :
  exists items span, lex (emit Proof.C02FrozenTables.tbl span items) <> lex (canon items).
Proof. exact no_fusion_unrestricted_refuted. Qed.
Print Assumptions C02_no_fusion_unrestricted_refuted.
Check C02_no_fusion_unrestricted_refuted :
  exists items span, lex (emit Proof.C02FrozenTables.tbl span items) <> lex (canon items).

Theorem C02_paren_roundtrip : forall P, prec_ok P = true ->
  forall e, parse_expr (tokens_of_expr P e) = Some (parenthesize P e).
Proof. exact paren_roundtrip. Qed.
Print Assumptions C02_paren_roundtrip.
Check C02_paren_roundtrip : forall P, prec_ok P = true ->
  forall e, parse_expr (tokens_of_expr P e) = Some (parenthesize P e).

Theorem C02_paren_roundtrip_nesting : forall P, prec_ok P = true ->
  forall e, exists e', parse_expr (tokens_of_expr P e) = Some e' /\ strip e' = strip e.
Proof. exact paren_roundtrip_nesting. Qed.
Print Assumptions C02_paren_roundtrip_nesting.
Check C02_paren_roundtrip_nesting : forall P, prec_ok P = true ->
  forall e, exists e', parse_expr (tokens_of_expr P e) = Some e' /\ strip e' = strip e.

Theorem C02_reference_parser_reads_well_parenthesised_trees :
  forall e, wp e = true -> parse_expr (print_plain e) = Some e.
Proof. exact parse_print_plain. Qed.
Print Assumptions C02_reference_parser_reads_well_parenthesised_trees.
Check C02_reference_parser_reads_well_parenthesised_trees :
  forall e, wp e = true -> parse_expr (print_plain e) = Some e.

Theorem C02_frozen_prec_ok : prec_ok Proof.C02FrozenTables.ptbl = true.
Proof. exact frozen_prec_ok. Qed.
Print Assumptions C02_frozen_prec_ok.
Check C02_frozen_prec_ok : prec_ok Proof.C02FrozenTables.ptbl = true.

Theorem C02_merge_char_glues : forall span g,
  exists pre, out (merge_char span g [40]) = pre ++ last_push g ++ [40].
Proof. exact merge_char_glues. Qed.
Print Assumptions C02_merge_char_glues.
Check C02_merge_char_glues : forall span g,
  exists pre, out (merge_char span g [40]) = pre ++ last_push g ++ [40].

Theorem C02_semicolon_rule_partial : forall isp P e,
  right_spine_plain P e = true ->
  ends_prefix isp e = closes_prefix isp (tokens_of_expr P e).
Proof. exact semicolon_rule_partial. Qed.
Print Assumptions C02_semicolon_rule_partial.
Check C02_semicolon_rule_partial : forall isp P e,
  right_spine_plain P e = true ->
  ends_prefix isp e = closes_prefix isp (tokens_of_expr P e).

Theorem C02_semicolon_rule_refuted :
  exists e, ends_prefix (fun a => a <? 50) e = false
            /\ closes_prefix (fun a => a <? 50) (tokens_of_expr Proof.C02FrozenTables.ptbl e) = true.
Proof. exact semicolon_rule_refuted. Qed.
Print Assumptions C02_semicolon_rule_refuted.
Check C02_semicolon_rule_refuted :
  exists e, ends_prefix (fun a => a <? 50) e = false
            /\ closes_prefix (fun a => a <? 50) (tokens_of_expr Proof.C02FrozenTables.ptbl e) = true.

Theorem C02_const_padding_neutral : forall (skip : dval -> bool) n vals,
  (forall v, last_dval vals = Some v -> skip v = d_multi v) ->
  forall i, receives (written_values skip n vals) i = receives vals i.
Proof. exact const_padding_neutral. Qed.
Print Assumptions C02_const_padding_neutral.
Check C02_const_padding_neutral : forall (skip : dval -> bool) n vals,
  (forall v, last_dval vals = Some v -> skip v = d_multi v) ->
  forall i, receives (written_values skip n vals) i = receives vals i.

Theorem C02_const_padding_refuted_for_wrong_decision :
  exists skip n vals i, receives (written_values skip n vals) i <> receives vals i.
Proof. exact const_padding_refuted_for_wrong_decision. Qed.
Print Assumptions C02_const_padding_refuted_for_wrong_decision.
Check C02_const_padding_refuted_for_wrong_decision :
  exists skip n vals i, receives (written_values skip n vals) i <> receives vals i.
