(** C05 - A bundle behaves like the program with its modules required normally.
    Graph-level theorems about the bundling algorithm (Model/Bundle.v).  Only statements, closed
    by [exact], with their assumptions printed; then the code-level theorems about the emitted
    accessor (wrapper_hit / wrapper_miss / wrapper_once, in Lua/Sem.v terms).  NOT proved: the
    whole-program statement "run (bundle) = run (entry under a standard require)" - it needs a
    simulation between the two stores (the frame conditions of wrapper_miss for arbitrary module
    bodies); it is validated by execution on every run (vlib/c05.py). *)
From Coq Require Import NArith List Bool.
From DL Require Import Lib.Bytes Lua.Syntax Lua.Sem Model.Rename Model.Bundle Model.BundleWrapper
  Proof.BundleSpec Proof.BundleTheorems Proof.BundleNames Proof.BundleWrapperBase Proof.BundleWrapperFacts.
Import ListNotations.
Open Scope N_scope.

(** the bundler never runs out of fuel: whatever the graph (cyclic, with missing or malformed files), it stops *)
Theorem C05_bundle_terminates : forall g roots, bundle g roots <> OutOfFuel.
Proof. exact bundle_terminates. Qed.
Print Assumptions C05_bundle_terminates.
Check C05_bundle_terminates : forall g roots, bundle g roots <> OutOfFuel.

(** more fuel never changes the result *)
Theorem C05_bundle_fuel_stable : forall g roots fuel, (enough_fuel g <= fuel)%nat -> bundle_with fuel g roots = bundle g roots.
Proof. exact bundle_fuel_stable. Qed.
Print Assumptions C05_bundle_fuel_stable.
Check C05_bundle_fuel_stable : forall g roots fuel, (enough_fuel g <= fuel)%nat -> bundle_with fuel g roots = bundle g roots.

(** success exactly on well-formed acyclic projects *)
Theorem C05_bundled_iff : forall g roots,
  (exists ms sites, bundle g roots = Bundled ms sites) <-> (well_formed g roots /\ ~ cyclic g roots).
Proof. exact bundled_iff. Qed.
Print Assumptions C05_bundled_iff.
Check C05_bundled_iff : forall g roots,
  (exists ms sites, bundle g roots = Bundled ms sites) <-> (well_formed g roots /\ ~ cyclic g roots).

(** an error is produced iff the reachable graph has a cycle (never a loop: bundle_terminates) *)
Theorem C05_cycle_iff_error : forall g roots, well_formed g roots ->
  ((exists es, bundle g roots = Failed es) <-> cyclic g roots).
Proof. exact cycle_iff_error. Qed.
Print Assumptions C05_cycle_iff_error.
Check C05_cycle_iff_error : forall g roots, well_formed g roots ->
  ((exists es, bundle g roots = Failed es) <-> cyclic g roots).

(** and the error is a cyclic-require error naming a genuine cycle of files *)
Theorem C05_cycle_reported : forall g roots, well_formed g roots -> cyclic g roots ->
  exists es chain, bundle g roots = Failed es /\ In (ECyclic chain) es /\ names_cycle g chain.
Proof. exact cycle_reported. Qed.
Print Assumptions C05_cycle_reported.
Check C05_cycle_reported : forall g roots, well_formed g roots -> cyclic g roots ->
  exists es chain, bundle g roots = Failed es /\ In (ECyclic chain) es /\ names_cycle g chain.

Theorem C05_cyclic_error_names_cycle : forall g roots es chain,
  bundle g roots = Failed es -> In (ECyclic chain) es -> names_cycle g chain.
Proof. exact cyclic_error_names_cycle. Qed.
Print Assumptions C05_cyclic_error_names_cycle.
Check C05_cyclic_error_names_cycle : forall g roots es chain,
  bundle g roots = Failed es -> In (ECyclic chain) es -> names_cycle g chain.

(** every reported error is about a file the entry reaches and says what is wrong with it *)
Theorem C05_error_justified : forall g roots es e, bundle g roots = Failed es -> In e es ->
  match e with
  | ENotFound lit => In (RNotFound lit) roots \/ exists f reqs r, reach g roots f /\ lookup g f = Some (KLua reqs r) /\ In (RNotFound lit) reqs
  | ECyclic chain => names_cycle g chain /\ exists f, hd_error chain = Some f /\ reach g roots f
  | EResource f => reach g roots f /\ (lookup g f = None \/ lookup g f = Some KBroken)
  | EModule f => reach g roots f /\ exists reqs r, lookup g f = Some (KLua reqs r) /\ r <> Some 1%nat
  end.
Proof. exact error_justified. Qed.
Print Assumptions C05_error_justified.
Check C05_error_justified : forall g roots es e, bundle g roots = Failed es -> In e es ->
  match e with
  | ENotFound lit => In (RNotFound lit) roots \/ exists f reqs r, reach g roots f /\ lookup g f = Some (KLua reqs r) /\ In (RNotFound lit) reqs
  | ECyclic chain => names_cycle g chain /\ exists f, hd_error chain = Some f /\ reach g roots f
  | EResource f => reach g roots f /\ (lookup g f = None \/ lookup g f = Some KBroken)
  | EModule f => reach g roots f /\ exists reqs r, lookup g f = Some (KLua reqs r) /\ r <> Some 1%nat
  end.

(** once only: a file has at most one definition in the bundle *)
Theorem C05_once_only : forall g roots ms sites, bundle g roots = Bundled ms sites -> NoDup (map fst ms).
Proof. exact once_only. Qed.
Print Assumptions C05_once_only.
Check C05_once_only : forall g roots ms sites, bundle g roots = Bundled ms sites -> NoDup (map fst ms).

(** shared instance: every call site, in the entry and in every module, denotes the definition of the file it resolves to *)
Theorem C05_shared_instance : forall g roots ms sites, bundle g roots = Bundled ms sites ->
  Forall2 (site_ok ms) roots sites /\ defs_ok g ms.
Proof. exact shared_instance. Qed.
Print Assumptions C05_shared_instance.
Check C05_shared_instance : forall g roots ms sites, bundle g roots = Bundled ms sites ->
  Forall2 (site_ok ms) roots sites /\ defs_ok g ms.

(** same resolved path => same module definition *)
Theorem C05_same_path_same_module : forall ms f k1 k2, NoDup (map fst ms) ->
  site_ok ms (RFile f) (Some k1) -> site_ok ms (RFile f) (Some k2) -> k1 = k2.
Proof. exact same_path_same_module. Qed.
Print Assumptions C05_same_path_same_module.
Check C05_same_path_same_module : forall ms f k1 k2, NoDup (map fst ms) ->
  site_ok ms (RFile f) (Some k1) -> site_ok ms (RFile f) (Some k2) -> k1 = k2.

(** the bundle defines exactly the files the entry reaches *)
Theorem C05_reachable_defined : forall g roots ms sites, bundle g roots = Bundled ms sites ->
  forall f, reach g roots f <-> In f (map fst ms).
Proof. exact reachable_defined. Qed.
Print Assumptions C05_reachable_defined.
Check C05_reachable_defined : forall g roots ms sites, bundle g roots = Bundled ms sites ->
  forall f, reach g roots f <-> In f (map fst ms).

(** distinct definitions have distinct names, none of them `cache` *)
Theorem C05_module_names_nodup : forall n, NoDup (module_names n).
Proof. exact module_names_nodup. Qed.
Print Assumptions C05_module_names_nodup.
Check C05_module_names_nodup : forall n, NoDup (module_names n).

Theorem C05_module_names_not_cache : forall n, ~ In (of_string "cache") (module_names n).
Proof. exact module_names_not_cache. Qed.
Print Assumptions C05_module_names_not_cache.
Check C05_module_names_not_cache : forall n, ~ In (of_string "cache") (module_names n).


(** accessor names (generate_module_name), for every number n of modules: valid identifiers *)
Theorem C05_module_names_valid : forall n, Forall (fun x => valid_ident x = true) (module_names n).
Proof. exact module_names_valid. Qed.
Print Assumptions C05_module_names_valid.
Check C05_module_names_valid : forall n, Forall (fun x => valid_ident x = true) (module_names n).

(** ... that is: identifier shape, not a keyword, not `cache` *)
Theorem C05_module_names_identifier : forall n x, In x (module_names n) ->
  ident_shape x = true /\ ~ In x keywords /\ x <> of_string "cache".
Proof. exact module_names_identifier. Qed.
Print Assumptions C05_module_names_identifier.
Check C05_module_names_identifier : forall n x, In x (module_names n) ->
  ident_shape x = true /\ ~ In x keywords /\ x <> of_string "cache".

(** ... and pairwise distinct *)
Theorem C05_module_names_distinct : forall n i j,
  (i < List.length (module_names n))%nat -> (j < List.length (module_names n))%nat ->
  nth i (module_names n) [] = nth j (module_names n) [] -> i = j.
Proof. exact module_names_distinct. Qed.
Print Assumptions C05_module_names_distinct.
Check C05_module_names_distinct : forall n i j,
  (i < List.length (module_names n))%nat -> (j < List.length (module_names n))%nat ->
  nth i (module_names n) [] = nth j (module_names n) [] -> i = j.

(** the indexed name function of the correspondence check, up to names_bound = 1000 modules (the generator does not run dry there: computed) *)
Theorem C05_module_name_valid_bounded : forall k, (k < names_bound)%nat ->
  ident_shape (module_name k) = true /\ ~ In (module_name k) keywords /\ module_name k <> of_string "cache".
Proof. exact module_name_valid_bounded. Qed.
Print Assumptions C05_module_name_valid_bounded.
Check C05_module_name_valid_bounded : forall k, (k < names_bound)%nat ->
  ident_shape (module_name k) = true /\ ~ In (module_name k) keywords /\ module_name k <> of_string "cache".

Theorem C05_module_name_inj_bounded : forall i j, (i < names_bound)%nat -> (j < names_bound)%nat ->
  module_name i = module_name j -> i = j.
Proof. exact module_name_inj_bounded. Qed.
Print Assumptions C05_module_name_inj_bounded.
Check C05_module_name_inj_bounded : forall i j, (i < names_bound)%nat -> (j < names_bound)%nat ->
  module_name i = module_name j -> i = j.

(** ---------------------------------------------------------------------------------------
    Code level (Lua/Sem.v): the emitted accessor [accessor_block M nm] (Model/BundleWrapper.v;
    vlib/c05.py checks on every run that real bundles contain exactly this code).
    A cache hit returns the boxed value - nil and false included - without running anything
    (the store only gains the local `v`; the trace is unchanged). *)
Theorem C05_wrapper_hit : forall (d : dialect) (n0 : nat) (M : name) (nm : bytes) (rho : env) (va : list value)
    (s : store) (aM tM : N) (tblM : table) (tc : N) (tblC : table) (tb : N) (tblB : table),
  M <> s_v ->
  Sem.lookup rho M = Some aM ->
  nth_N (cells s) (N.to_nat aM) = Some (VTable tM) ->
  nth_N (tables s) (N.to_nat tM) = Some tblM ->
  raw_get (t_entries tblM) (VStr s_cache) = VTable tc ->
  nth_N (tables s) (N.to_nat tc) = Some tblC ->
  raw_get (t_entries tblC) (VStr nm) = VTable tb ->
  nth_N (tables s) (N.to_nat tb) = Some tblB ->
  t_meta tblB = None ->
  exec_block d (9 + n0) rho va (accessor_block M nm) s =
  Ok (SigReturn [raw_get (t_entries tblB) (VStr s_c)]) (add_cell s (VTable tb)).
Proof. exact wrapper_hit. Qed.
Print Assumptions C05_wrapper_hit.
Check C05_wrapper_hit : forall (d : dialect) (n0 : nat) (M : name) (nm : bytes) (rho : env) (va : list value)
    (s : store) (aM tM : N) (tblM : table) (tc : N) (tblC : table) (tb : N) (tblB : table),
  M <> s_v ->
  Sem.lookup rho M = Some aM ->
  nth_N (cells s) (N.to_nat aM) = Some (VTable tM) ->
  nth_N (tables s) (N.to_nat tM) = Some tblM ->
  raw_get (t_entries tblM) (VStr s_cache) = VTable tc ->
  nth_N (tables s) (N.to_nat tc) = Some tblC ->
  raw_get (t_entries tblC) (VStr nm) = VTable tb ->
  nth_N (tables s) (N.to_nat tb) = Some tblB ->
  t_meta tblB = None ->
  exec_block d (9 + n0) rho va (accessor_block M nm) s =
  Ok (SigReturn [raw_get (t_entries tblB) (VStr s_c)]) (add_cell s (VTable tb)).

Theorem C05_wrapper_hit_call : forall (d : dialect) (n0 : nat) (a : N) (args : list value) (c : closure)
    (M nm : name) (s : store) (aM tM : N) (tblM : table) (tc : N) (tblC : table) (tb : N) (tblB : table),
  nth_N (closures s) (N.to_nat a) = Some c ->
  c_body c = accessor M nm ->
  c_self c = false ->
  M <> s_v ->
  Sem.lookup (c_env c) M = Some aM ->
  nth_N (cells s) (N.to_nat aM) = Some (VTable tM) ->
  nth_N (tables s) (N.to_nat tM) = Some tblM ->
  raw_get (t_entries tblM) (VStr s_cache) = VTable tc ->
  nth_N (tables s) (N.to_nat tc) = Some tblC ->
  raw_get (t_entries tblC) (VStr nm) = VTable tb ->
  nth_N (tables s) (N.to_nat tb) = Some tblB ->
  t_meta tblB = None ->
  call d (10 + n0) (VClosure a) args s =
  Ok [raw_get (t_entries tblB) (VStr s_c)] (add_cell s (VTable tb)).
Proof. exact wrapper_hit_call. Qed.
Print Assumptions C05_wrapper_hit_call.
Check C05_wrapper_hit_call : forall (d : dialect) (n0 : nat) (a : N) (args : list value) (c : closure)
    (M nm : name) (s : store) (aM tM : N) (tblM : table) (tc : N) (tblC : table) (tb : N) (tblB : table),
  nth_N (closures s) (N.to_nat a) = Some c ->
  c_body c = accessor M nm ->
  c_self c = false ->
  M <> s_v ->
  Sem.lookup (c_env c) M = Some aM ->
  nth_N (cells s) (N.to_nat aM) = Some (VTable tM) ->
  nth_N (tables s) (N.to_nat tM) = Some tblM ->
  raw_get (t_entries tblM) (VStr s_cache) = VTable tc ->
  nth_N (tables s) (N.to_nat tc) = Some tblC ->
  raw_get (t_entries tblC) (VStr nm) = VTable tb ->
  nth_N (tables s) (N.to_nat tb) = Some tblB ->
  t_meta tblB = None ->
  call d (10 + n0) (VClosure a) args s =
  Ok [raw_get (t_entries tblB) (VStr s_c)] (add_cell s (VTable tb)).

(** a cache miss runs the module body exactly once (the single call of __modImpl, given as a hypothesis with the frame conditions on the store it leaves), boxes its first value and stores the box *)
Theorem C05_wrapper_miss : forall (d : dialect) (n0 : nat) (M : name) (nm : bytes) (rho : env) (va : list value)
    (s : store) (aM tM : N) (tblM : table) (tc : N) (tblC : table) (aI : N)
    (fv : value) (vs : list value) (s2 : store) (tblM2 tblC2 : table),
  M <> s_v ->
  Sem.lookup rho M = Some aM ->
  nth_N (cells s) (N.to_nat aM) = Some (VTable tM) ->
  nth_N (tables s) (N.to_nat tM) = Some tblM ->
  raw_get (t_entries tblM) (VStr s_cache) = VTable tc ->
  nth_N (tables s) (N.to_nat tc) = Some tblC ->
  raw_get (t_entries tblC) (VStr nm) = VNil ->
  t_meta tblC = None ->
  Sem.lookup rho s_impl = Some aI ->
  nth_N (cells s) (N.to_nat aI) = Some fv ->
  call d (2 + n0) fv [] (miss_pre s) = Ok vs s2 ->
  nth_N (cells s2) (N.to_nat aM) = Some (VTable tM) ->
  nth_N (tables s2) (N.to_nat tM) = Some tblM2 ->
  raw_get (t_entries tblM2) (VStr s_cache) = VTable tc ->
  nth_N (tables s2) (N.to_nat tc) = Some tblC2 ->
  t_meta tblC2 = None ->
  nth_N (tables s2) (List.length (tables s)) = Some (mkTable [] None) ->
  (List.length (cells s) < List.length (cells s2))%nat ->
  exec_block d (14 + n0) rho va (accessor_block M nm) s =
  Ok (SigReturn [first vs]) (miss_post s s2 tc tblC2 nm (first vs)).
Proof. exact wrapper_miss. Qed.
Print Assumptions C05_wrapper_miss.
Check C05_wrapper_miss : forall (d : dialect) (n0 : nat) (M : name) (nm : bytes) (rho : env) (va : list value)
    (s : store) (aM tM : N) (tblM : table) (tc : N) (tblC : table) (aI : N)
    (fv : value) (vs : list value) (s2 : store) (tblM2 tblC2 : table),
  M <> s_v ->
  Sem.lookup rho M = Some aM ->
  nth_N (cells s) (N.to_nat aM) = Some (VTable tM) ->
  nth_N (tables s) (N.to_nat tM) = Some tblM ->
  raw_get (t_entries tblM) (VStr s_cache) = VTable tc ->
  nth_N (tables s) (N.to_nat tc) = Some tblC ->
  raw_get (t_entries tblC) (VStr nm) = VNil ->
  t_meta tblC = None ->
  Sem.lookup rho s_impl = Some aI ->
  nth_N (cells s) (N.to_nat aI) = Some fv ->
  call d (2 + n0) fv [] (miss_pre s) = Ok vs s2 ->
  nth_N (cells s2) (N.to_nat aM) = Some (VTable tM) ->
  nth_N (tables s2) (N.to_nat tM) = Some tblM2 ->
  raw_get (t_entries tblM2) (VStr s_cache) = VTable tc ->
  nth_N (tables s2) (N.to_nat tc) = Some tblC2 ->
  t_meta tblC2 = None ->
  nth_N (tables s2) (List.length (tables s)) = Some (mkTable [] None) ->
  (List.length (cells s) < List.length (cells s2))%nat ->
  exec_block d (14 + n0) rho va (accessor_block M nm) s =
  Ok (SigReturn [first vs]) (miss_post s s2 tc tblC2 nm (first vs)).

(** wrapper_sound: after the first call every later call is a hit returning the same value, with no further event *)
Theorem C05_wrapper_once : forall (d : dialect) (n0 : nat) (M : name) (nm : bytes) (rho : env) (va : list value)
    (s : store) (aM tM : N) (tblM : table) (tc : N) (tblC : table) (aI : N)
    (fv : value) (vs : list value) (s2 : store) (tblM2 tblC2 : table),
  M <> s_v ->
  Sem.lookup rho M = Some aM ->
  nth_N (cells s) (N.to_nat aM) = Some (VTable tM) ->
  nth_N (tables s) (N.to_nat tM) = Some tblM ->
  raw_get (t_entries tblM) (VStr s_cache) = VTable tc ->
  nth_N (tables s) (N.to_nat tc) = Some tblC ->
  raw_get (t_entries tblC) (VStr nm) = VNil ->
  t_meta tblC = None ->
  tM <> tc ->
  Sem.lookup rho s_impl = Some aI ->
  nth_N (cells s) (N.to_nat aI) = Some fv ->
  call d (2 + n0) fv [] (miss_pre s) = Ok vs s2 ->
  nth_N (cells s2) (N.to_nat aM) = Some (VTable tM) ->
  nth_N (tables s2) (N.to_nat tM) = Some tblM2 ->
  raw_get (t_entries tblM2) (VStr s_cache) = VTable tc ->
  nth_N (tables s2) (N.to_nat tc) = Some tblC2 ->
  t_meta tblC2 = None ->
  nth_N (tables s2) (List.length (tables s)) = Some (mkTable [] None) ->
  (List.length (cells s) < List.length (cells s2))%nat ->
  let s4 := miss_post s s2 tc tblC2 nm (first vs) in
  exec_block d (14 + n0) rho va (accessor_block M nm) s = Ok (SigReturn [first vs]) s4 /\
  Sem.trace s4 = Sem.trace s2 /\
  (forall (m : nat) (va' : list value),
   exec_block d (9 + m) rho va' (accessor_block M nm) s4 =
   Ok (SigReturn [first vs]) (add_cell s4 (VTable (N.of_nat (List.length (tables s))))) /\
   Sem.trace (add_cell s4 (VTable (N.of_nat (List.length (tables s))))) = Sem.trace s2).
Proof. exact wrapper_once. Qed.
Print Assumptions C05_wrapper_once.
Check C05_wrapper_once : forall (d : dialect) (n0 : nat) (M : name) (nm : bytes) (rho : env) (va : list value)
    (s : store) (aM tM : N) (tblM : table) (tc : N) (tblC : table) (aI : N)
    (fv : value) (vs : list value) (s2 : store) (tblM2 tblC2 : table),
  M <> s_v ->
  Sem.lookup rho M = Some aM ->
  nth_N (cells s) (N.to_nat aM) = Some (VTable tM) ->
  nth_N (tables s) (N.to_nat tM) = Some tblM ->
  raw_get (t_entries tblM) (VStr s_cache) = VTable tc ->
  nth_N (tables s) (N.to_nat tc) = Some tblC ->
  raw_get (t_entries tblC) (VStr nm) = VNil ->
  t_meta tblC = None ->
  tM <> tc ->
  Sem.lookup rho s_impl = Some aI ->
  nth_N (cells s) (N.to_nat aI) = Some fv ->
  call d (2 + n0) fv [] (miss_pre s) = Ok vs s2 ->
  nth_N (cells s2) (N.to_nat aM) = Some (VTable tM) ->
  nth_N (tables s2) (N.to_nat tM) = Some tblM2 ->
  raw_get (t_entries tblM2) (VStr s_cache) = VTable tc ->
  nth_N (tables s2) (N.to_nat tc) = Some tblC2 ->
  t_meta tblC2 = None ->
  nth_N (tables s2) (List.length (tables s)) = Some (mkTable [] None) ->
  (List.length (cells s) < List.length (cells s2))%nat ->
  let s4 := miss_post s s2 tc tblC2 nm (first vs) in
  exec_block d (14 + n0) rho va (accessor_block M nm) s = Ok (SigReturn [first vs]) s4 /\
  Sem.trace s4 = Sem.trace s2 /\
  (forall (m : nat) (va' : list value),
   exec_block d (9 + m) rho va' (accessor_block M nm) s4 =
   Ok (SigReturn [first vs]) (add_cell s4 (VTable (N.of_nat (List.length (tables s))))) /\
   Sem.trace (add_cell s4 (VTable (N.of_nat (List.length (tables s))))) = Sem.trace s2).
