(** C15 — Requires resolve as documented and conversions keep the target.
    Only statements, closed by [exact], with their assumptions printed. *)
From DL Require Import Lib.Bytes Model.Paths Model.Require Proof.PathsBasics Proof.PathsFacts
  Proof.RequireFacts Proof.PathsRoundtrip Proof.PathsConvert Proof.PathsConvertFinal Proof.PathsBounded.
Open Scope N_scope.

(** the candidate list is the documented list *)
Theorem C15_candidates_documented_order : forall p mfn m,
  parse_path mfn = [Norm m] -> candidates p mfn = documented_candidates p m.
Proof. exact candidates_documented_order. Qed.
Print Assumptions C15_candidates_documented_order.
Check C15_candidates_documented_order : forall p mfn m,
  parse_path mfn = [Norm m] -> candidates p mfn = documented_candidates p m.

Theorem C15_candidates_six : forall q n mfn m,
  parse_path mfn = [Norm m] -> is_lua_ext (name_ext n) = false -> name_ext m = None ->
  candidates (q ++ [Norm n]) mfn =
  [ q ++ [Norm n];
    q ++ [Norm (n ++ dot :: luau_ext)];
    q ++ [Norm (n ++ dot :: lua_ext)];
    q ++ [Norm n; Norm m];
    q ++ [Norm n; Norm (m ++ dot :: luau_ext)];
    q ++ [Norm n; Norm (m ++ dot :: lua_ext)] ].
Proof. exact candidates_six. Qed.
Print Assumptions C15_candidates_six.
Check C15_candidates_six : forall q n mfn m,
  parse_path mfn = [Norm m] -> is_lua_ext (name_ext n) = false -> name_ext m = None ->
  candidates (q ++ [Norm n]) mfn =
  [ q ++ [Norm n];
    q ++ [Norm (n ++ dot :: luau_ext)];
    q ++ [Norm (n ++ dot :: lua_ext)];
    q ++ [Norm n; Norm m];
    q ++ [Norm n; Norm (m ++ dot :: luau_ext)];
    q ++ [Norm n; Norm (m ++ dot :: lua_ext)] ].

Theorem C15_candidates_lua_extension : forall p mfn,
  is_lua_ext (extension p) = true -> candidates p mfn = [p].
Proof. exact candidates_lua_extension. Qed.
Print Assumptions C15_candidates_lua_extension.
Check C15_candidates_lua_extension : forall p mfn,
  is_lua_ext (extension p) = true -> candidates p mfn = [p].

Theorem C15_module_folder_name_is_a_name : forall n, wf_name n = true -> parse_path n = [Norm n].
Proof. exact parse_path_wf_name. Qed.
Print Assumptions C15_module_folder_name_is_a_name.
Check C15_module_folder_name_is_a_name : forall n, wf_name n = true -> parse_path n = [Norm n].

(** the locators return the first existing candidate, from the documented head *)
Theorem C15_first_existing : forall c f p r,
  locate c f p = Found r <->
  exists l1 q l2,
    candidates (normalize true p) (module_folder_name c) = l1 ++ q :: l2 /\
    is_file f q = true /\ (forall x, In x l1 -> is_file f x = false) /\ r = normalize true q.
Proof. exact first_existing. Qed.
Print Assumptions C15_first_existing.
Check C15_first_existing : forall c f p r,
  locate c f p = Found r <->
  exists l1 q l2,
    candidates (normalize true p) (module_folder_name c) = l1 ++ q :: l2 /\
    is_file f q = true /\ (forall x, In x l1 -> is_file f x = false) /\ r = normalize true q.

Theorem C15_find_require_path_first_existing : forall c rcs f src p r,
  find_require_path c rcs f src p = Found r <->
  exists h l1 q l2,
    head_path c (rc_aliases c rcs src) src p = inl h /\
    candidates (normalize true h) (module_folder_name c) = l1 ++ q :: l2 /\
    is_file f q = true /\ (forall x, In x l1 -> is_file f x = false) /\ r = normalize true q.
Proof. exact find_require_path_first_existing. Qed.
Print Assumptions C15_find_require_path_first_existing.
Check C15_find_require_path_first_existing : forall c rcs f src p r,
  find_require_path c rcs f src p = Found r <->
  exists h l1 q l2,
    head_path c (rc_aliases c rcs src) src p = inl h /\
    candidates (normalize true h) (module_folder_name c) = l1 ++ q :: l2 /\
    is_file f q = true /\ (forall x, In x l1 -> is_file f x = false) /\ r = normalize true q.

Theorem C15_find_require_path_errors : forall c rcs f src p e,
  find_require_path c rcs f src p = Failed e ->
  (e = ENotFound /\ exists h, head_path c (rc_aliases c rcs src) src p = inl h /\
      forall x, In x (candidates (normalize true h) (module_folder_name c)) -> is_file f x = false)
  \/ head_path c (rc_aliases c rcs src) src p = inr e.
Proof. exact find_require_path_errors. Qed.
Print Assumptions C15_find_require_path_errors.
Check C15_find_require_path_errors : forall c rcs f src p e,
  find_require_path c rcs f src p = Failed e ->
  (e = ENotFound /\ exists h, head_path c (rc_aliases c rcs src) src p = inl h /\
      forall x, In x (candidates (normalize true h) (module_folder_name c)) -> is_file f x = false)
  \/ head_path c (rc_aliases c rcs src) src p = inr e.

(** head selection *)
Theorem C15_head_relative_path_mode : forall c rc src p,
  c_luau c = false -> is_require_relative p = true -> head_path c rc src p = inl (join (pop src) p).
Proof. exact head_relative_path_mode. Qed.
Print Assumptions C15_head_relative_path_mode.
Check C15_head_relative_path_mode : forall c rc src p,
  c_luau c = false -> is_require_relative p = true -> head_path c rc src p = inl (join (pop src) p).

Theorem C15_head_relative_luau_mode : forall c rc src p,
  c_luau c = true -> is_require_relative p = true ->
  head_path c rc src p =
  inl (join (if is_module_folder_name c src
             then get_relative_parent_path (get_relative_parent_path src)
             else get_relative_parent_path src) p).
Proof. exact head_relative_luau_mode. Qed.
Print Assumptions C15_head_relative_luau_mode.
Check C15_head_relative_luau_mode : forall c rc src p,
  c_luau c = true -> is_require_relative p = true ->
  head_path c rc src p =
  inl (join (if is_module_folder_name c src
             then get_relative_parent_path (get_relative_parent_path src)
             else get_relative_parent_path src) p).

Theorem C15_head_absolute : forall c rc src p,
  is_require_relative p = false -> has_root p = true -> head_path c rc src p = inl p.
Proof. exact head_absolute. Qed.
Print Assumptions C15_head_absolute.
Check C15_head_absolute : forall c rc src p,
  is_require_relative p = false -> has_root p = true -> head_path c rc src p = inl p.

Theorem C15_head_source_path_mode : forall c rc src name rest,
  c_luau c = false ->
  head_path c rc src (Norm name :: rest) =
  match get_source c rc name (project_location c src) with
  | Some loc => inl (extend loc rest)
  | None => inr EUnknownSource
  end.
Proof. exact head_source_path_mode. Qed.
Print Assumptions C15_head_source_path_mode.
Check C15_head_source_path_mode : forall c rc src name rest,
  c_luau c = false ->
  head_path c rc src (Norm name :: rest) =
  match get_source c rc name (project_location c src) with
  | Some loc => inl (extend loc rest)
  | None => inr EUnknownSource
  end.

Theorem C15_head_self_luau_mode : forall c rc src rest,
  c_luau c = true ->
  head_path c rc src (Norm self_name :: rest) = inl (join (get_relative_parent_path src) rest).
Proof. exact head_self_luau_mode. Qed.
Print Assumptions C15_head_self_luau_mode.
Check C15_head_self_luau_mode : forall c rc src rest,
  c_luau c = true ->
  head_path c rc src (Norm self_name :: rest) = inl (join (get_relative_parent_path src) rest).

Theorem C15_head_alias_luau_mode : forall c rc src a name rest,
  c_luau c = true -> bytes_eqb (at_sign :: name) self_name = false -> a = at_sign ->
  head_path c rc src (Norm (a :: name) :: rest) =
  match get_source c rc (a :: name) (project_location c src) with
  | Some loc => inl (extend loc rest)
  | None => inr EUnknownSource
  end.
Proof. exact head_alias_luau_mode. Qed.
Print Assumptions C15_head_alias_luau_mode.
Check C15_head_alias_luau_mode : forall c rc src a name rest,
  c_luau c = true -> bytes_eqb (at_sign :: name) self_name = false -> a = at_sign ->
  head_path c rc src (Norm (a :: name) :: rest) =
  match get_source c rc (a :: name) (project_location c src) with
  | Some loc => inl (extend loc rest)
  | None => inr EUnknownSource
  end.

(** recorded deviation: a luau-mode first component without `@` is never an alias *)
Theorem C15_head_plain_luau_mode : forall c rc src a name rest,
  c_luau c = true -> (a =? at_sign) = false ->
  head_path c rc src (Norm (a :: name) :: rest) = inl (Norm (a :: name) :: rest).
Proof. exact head_plain_luau_mode. Qed.
Print Assumptions C15_head_plain_luau_mode.
Check C15_head_plain_luau_mode : forall c rc src a name rest,
  c_luau c = true -> (a =? at_sign) = false ->
  head_path c rc src (Norm (a :: name) :: rest) = inl (Norm (a :: name) :: rest).

Theorem C15_relative_to_requiring_file : forall c rc d s r,
  d <> [] -> (c_luau c = false \/ is_module_folder_name c (d ++ [Norm s]) = false) ->
  head_path c rc (d ++ [Norm s]) (Cur :: r) = inl (d ++ r).
Proof. exact relative_to_requiring_file. Qed.
Print Assumptions C15_relative_to_requiring_file.
Check C15_relative_to_requiring_file : forall c rc d s r,
  d <> [] -> (c_luau c = false \/ is_module_folder_name c (d ++ [Norm s]) = false) ->
  head_path c rc (d ++ [Norm s]) (Cur :: r) = inl (d ++ r).

Theorem C15_relative_to_parent_of_module_folder : forall c rc d0 x s r,
  d0 <> [] -> c_luau c = true -> is_module_folder_name c ((d0 ++ [Norm x]) ++ [Norm s]) = true ->
  head_path c rc ((d0 ++ [Norm x]) ++ [Norm s]) (Cur :: r) = inl (d0 ++ r).
Proof. exact relative_to_parent_of_module_folder. Qed.
Print Assumptions C15_relative_to_parent_of_module_folder.
Check C15_relative_to_parent_of_module_folder : forall c rc d0 x s r,
  d0 <> [] -> c_luau c = true -> is_module_folder_name c ((d0 ++ [Norm x]) ++ [Norm s]) = true ->
  head_path c rc ((d0 ++ [Norm x]) ++ [Norm s]) (Cur :: r) = inl (d0 ++ r).

(** recorded deviation: a module-folder file directly in the working directory *)
Theorem C15_toplevel_module_folder_file_stays : forall c rc s r,
  c_luau c = true -> head_path c rc [Norm s] (Cur :: r) = inl (Cur :: r).
Proof. exact toplevel_module_folder_file_stays. Qed.
Print Assumptions C15_toplevel_module_folder_file_stays.
Check C15_toplevel_module_folder_file_stays : forall c rc s r,
  c_luau c = true -> head_path c rc [Norm s] (Cur :: r) = inl (Cur :: r).


(** what each kind of alias is relative to: configured sources/aliases to the configuration location
    (wherever it is), .luaurc aliases to the directory of the nearest .luaurc (never joined again) *)
Theorem C15_head_luaurc_alias_path_mode : forall c rcs src d al k v rest,
  c_luau c = false -> c_use_rc c = true ->
  first_rc rcs (ancestors src) = Some (d, al) -> assoc k al = Some v ->
  assoc (at_sign :: k) (c_sources c) = None ->
  head_path c (rc_aliases c rcs src) src (Norm (at_sign :: k) :: rest) = inl (extend (normalize false (join d v)) rest).
Proof. exact head_luaurc_alias_path_mode. Qed.
Print Assumptions C15_head_luaurc_alias_path_mode.
Check C15_head_luaurc_alias_path_mode : forall c rcs src d al k v rest,
  c_luau c = false -> c_use_rc c = true ->
  first_rc rcs (ancestors src) = Some (d, al) -> assoc k al = Some v ->
  assoc (at_sign :: k) (c_sources c) = None ->
  head_path c (rc_aliases c rcs src) src (Norm (at_sign :: k) :: rest) = inl (extend (normalize false (join d v)) rest).

Theorem C15_head_luaurc_alias_luau_mode : forall c rcs src d al k v rest,
  c_luau c = true -> c_use_rc c = true ->
  first_rc rcs (ancestors src) = Some (d, al) -> assoc k al = Some v ->
  bytes_eqb (at_sign :: k) self_name = false ->
  head_path c (rc_aliases c rcs src) src (Norm (at_sign :: k) :: rest) = inl (extend (normalize false (join d v)) rest).
Proof. exact head_luaurc_alias_luau_mode. Qed.
Print Assumptions C15_head_luaurc_alias_luau_mode.
Check C15_head_luaurc_alias_luau_mode : forall c rcs src d al k v rest,
  c_luau c = true -> c_use_rc c = true ->
  first_rc rcs (ancestors src) = Some (d, al) -> assoc k al = Some v ->
  bytes_eqb (at_sign :: k) self_name = false ->
  head_path c (rc_aliases c rcs src) src (Norm (at_sign :: k) :: rest) = inl (extend (normalize false (join d v)) rest).

Theorem C15_head_configured_source_path_mode : forall c rc src location name alias rest,
  c_luau c = false -> c_project c = Some location -> assoc name (c_sources c) = Some alias ->
  head_path c rc src (Norm name :: rest) = inl (extend (join location alias) rest).
Proof. exact head_configured_source_path_mode. Qed.
Print Assumptions C15_head_configured_source_path_mode.
Check C15_head_configured_source_path_mode : forall c rc src location name alias rest,
  c_luau c = false -> c_project c = Some location -> assoc name (c_sources c) = Some alias ->
  head_path c rc src (Norm name :: rest) = inl (extend (join location alias) rest).

Theorem C15_head_configured_alias_luau_mode : forall c rc src location k alias rest,
  c_luau c = true -> c_project c = Some location -> bytes_eqb (at_sign :: k) self_name = false ->
  rc_lookup rc (at_sign :: k) = None -> assoc (at_sign :: k) (c_sources c) = Some alias ->
  head_path c rc src (Norm (at_sign :: k) :: rest) = inl (extend (join location alias) rest).
Proof. exact head_configured_alias_luau_mode. Qed.
Print Assumptions C15_head_configured_alias_luau_mode.
Check C15_head_configured_alias_luau_mode : forall c rc src location k alias rest,
  c_luau c = true -> c_project c = Some location -> bytes_eqb (at_sign :: k) self_name = false ->
  rc_lookup rc (at_sign :: k) = None -> assoc (at_sign :: k) (c_sources c) = Some alias ->
  head_path c rc src (Norm (at_sign :: k) :: rest) = inl (extend (join location alias) rest).

Theorem C15_first_rc_nearest : forall rcs dirs d al,
  first_rc rcs dirs = Some (d, al) ->
  exists l1 l2, dirs = l1 ++ d :: l2 /\ rc_at rcs d = Some al /\ (forall x, In x l1 -> rc_at rcs x = None).
Proof. exact first_rc_nearest. Qed.
Print Assumptions C15_first_rc_nearest.
Check C15_first_rc_nearest : forall rcs dirs d al,
  first_rc rcs dirs = Some (d, al) ->
  exists l1 l2, dirs = l1 ++ d :: l2 /\ rc_at rcs d = Some al /\ (forall x, In x l1 -> rc_at rcs x = None).

Theorem C15_nearest_luaurc_without_aliases_hides_outer : forall c rcs src d name,
  first_rc rcs (ancestors src) = Some (d, []) -> rc_lookup (rc_aliases c rcs src) name = None.
Proof. exact rc_lookup_nearest_without_aliases. Qed.
Print Assumptions C15_nearest_luaurc_without_aliases_hides_outer.
Check C15_nearest_luaurc_without_aliases_hides_outer : forall c rcs src d name,
  first_rc rcs (ancestors src) = Some (d, []) -> rc_lookup (rc_aliases c rcs src) name = None.

(** the written argument is read back as the generated path *)
Theorem C15_parse_write_roundtrip : forall p, wf_rel p = true -> parse_path (write_require_path p) = p.
Proof. exact parse_write_roundtrip. Qed.
Print Assumptions C15_parse_write_roundtrip.
Check C15_parse_write_roundtrip : forall p, wf_rel p = true -> parse_path (write_require_path p) = p.

(** conversions keep the target *)
Theorem C15_convert_keeps_target :
  forall (tgt : config) (rcs : rc_files) (f : fs) (d : path) (s : bytes) (t : path) (m : bytes),
    c_sources tgt = [] ->
    parse_path (module_folder_name tgt) = [Norm m] ->
    simple d = true -> simple t = true ->
    path_prefix t d = false ->
    strip_target tgt t <> [] ->
    forallb wf_comp (strip_target tgt t) = true ->
    unambiguous tgt f t ->
    exists t',
      find_require tgt rcs f (d ++ [Norm s]) (generate_require tgt (d ++ [Norm s]) t) = Found t' /\
      same_file t' t = true.
Proof. exact convert_keeps_target. Qed.
Print Assumptions C15_convert_keeps_target.
Check C15_convert_keeps_target :
  forall (tgt : config) (rcs : rc_files) (f : fs) (d : path) (s : bytes) (t : path) (m : bytes),
    c_sources tgt = [] ->
    parse_path (module_folder_name tgt) = [Norm m] ->
    simple d = true -> simple t = true ->
    path_prefix t d = false ->
    strip_target tgt t <> [] ->
    forallb wf_comp (strip_target tgt t) = true ->
    unambiguous tgt f t ->
    exists t',
      find_require tgt rcs f (d ++ [Norm s]) (generate_require tgt (d ++ [Norm s]) t) = Found t' /\
      same_file t' t = true.

Theorem C15_convert_keeps_target_toplevel :
  forall (tgt : config) (rcs : rc_files) (f : fs) (s : bytes) (t : path) (m : bytes),
    parse_path (module_folder_name tgt) = [Norm m] ->
    init_source tgt [Norm s] = false ->
    simple t = true ->
    strip_target tgt t <> [] ->
    forallb wf_comp (strip_target tgt t) = true ->
    unambiguous tgt f t ->
    exists t',
      find_require tgt rcs f [Norm s] (generate_require tgt [Norm s] (Cur :: t)) = Found t' /\
      same_file t' (Cur :: t) = true.
Proof. exact convert_keeps_target_toplevel. Qed.
Print Assumptions C15_convert_keeps_target_toplevel.
Check C15_convert_keeps_target_toplevel :
  forall (tgt : config) (rcs : rc_files) (f : fs) (s : bytes) (t : path) (m : bytes),
    parse_path (module_folder_name tgt) = [Norm m] ->
    init_source tgt [Norm s] = false ->
    simple t = true ->
    strip_target tgt t <> [] ->
    forallb wf_comp (strip_target tgt t) = true ->
    unambiguous tgt f t ->
    exists t',
      find_require tgt rcs f [Norm s] (generate_require tgt [Norm s] (Cur :: t)) = Found t' /\
      same_file t' (Cur :: t) = true.



(** a target source/alias whose value is exactly the resolved file (also a module-folder file): the
    alias name alone is written, nothing is popped, the file is found again *)
Theorem C15_convert_keeps_target_file_alias : forall (tgt : config) (rcs : rc_files) (f : fs) (src t : path) (name : bytes),
    simple t = true -> t <> [] ->
    best_alias (project_location tgt src) t (c_sources tgt) None = Some (name, t) ->
    wf_name name = true ->
    is_module_folder_name tgt [Norm name] = false -> is_lua_ext (name_ext name) = false ->
    head_path tgt (rc_aliases tgt rcs src) src [Norm name] = inl t ->
    is_file f t = true ->
    generate_require tgt src t = name /\
    find_require tgt rcs f src (generate_require tgt src t) = Found t.
Proof. exact convert_keeps_target_file_alias. Qed.
Print Assumptions C15_convert_keeps_target_file_alias.
Check C15_convert_keeps_target_file_alias : forall (tgt : config) (rcs : rc_files) (f : fs) (src t : path) (name : bytes),
    simple t = true -> t <> [] ->
    best_alias (project_location tgt src) t (c_sources tgt) None = Some (name, t) ->
    wf_name name = true ->
    is_module_folder_name tgt [Norm name] = false -> is_lua_ext (name_ext name) = false ->
    head_path tgt (rc_aliases tgt rcs src) src [Norm name] = inl t ->
    is_file f t = true ->
    generate_require tgt src t = name /\
    find_require tgt rcs f src (generate_require tgt src t) = Found t.

(** bounded complement (aliases, custom module folder name, absolute targets; 6 configuration pairs x
    128 file subsets x 6 requiring files x 35 require strings, by evaluation) *)
Theorem C15_convert_keeps_target_bounded :
  forall cur tgt mask src lit t,
    In (cur, tgt) bounded_pairs -> In mask bounded_masks -> In src bounded_sources -> In lit bounded_literals ->
    find_require cur [] (bounded_fs mask) src lit = Found t ->
    ambiguousb tgt (bounded_fs mask) t = false ->
    relative_result src t = false ->
    exists t', find_require tgt [] (bounded_fs mask) src (generate_require tgt src t) = Found t' /\ same_file t' t = true.
Proof. exact convert_keeps_target_bounded. Qed.
Print Assumptions C15_convert_keeps_target_bounded.
Check C15_convert_keeps_target_bounded :
  forall cur tgt mask src lit t,
    In (cur, tgt) bounded_pairs -> In mask bounded_masks -> In src bounded_sources -> In lit bounded_literals ->
    find_require cur [] (bounded_fs mask) src lit = Found t ->
    ambiguousb tgt (bounded_fs mask) t = false ->
    relative_result src t = false ->
    exists t', find_require tgt [] (bounded_fs mask) src (generate_require tgt src t) = Found t' /\ same_file t' t = true.

(** the unrestricted statement is refuted in the model (and on the code: known findings) *)
Theorem C15_convert_keeps_target_refuted : ~ convert_full_statement.
Proof. exact convert_keeps_target_refuted. Qed.
Print Assumptions C15_convert_keeps_target_refuted.
Check C15_convert_keeps_target_refuted : ~ convert_full_statement.

Theorem C15_convert_relative_result_refuted :
  exists (f : fs) (src : path) (literal : bytes) (t : path),
    find_require path_mode_pkg [] f src literal = Found t /\
    unambiguous luau_mode_pkg f t /\
    is_require_relative t = true /\
    find_require luau_mode_pkg [] f src (generate_require luau_mode_pkg src t) = Failed ENotFound.
Proof. exact convert_relative_result_refuted. Qed.
Print Assumptions C15_convert_relative_result_refuted.
Check C15_convert_relative_result_refuted :
  exists (f : fs) (src : path) (literal : bytes) (t : path),
    find_require path_mode_pkg [] f src literal = Found t /\
    unambiguous luau_mode_pkg f t /\
    is_require_relative t = true /\
    find_require luau_mode_pkg [] f src (generate_require luau_mode_pkg src t) = Failed ENotFound.
