(** C15 — Requires resolve as documented and conversions keep the target. *)
From DL Require Import Lib.Bytes Model.Paths Model.Require Proof.PathsBasics.
Open Scope N_scope.

Theorem C15_candidates_head : forall p mfn, exists r, candidates p mfn = p :: r.
Proof. exact candidates_head. Qed.
Print Assumptions C15_candidates_head.
Check C15_candidates_head : forall p mfn, exists r, candidates p mfn = p :: r.
