(** C09 — Renaming variables never changes which binding a name refers to.
    Only statements, closed by [exact], with their assumptions printed and pinned. *)
From Coq Require Import NArith List Bool.
From DL Require Import Lib.Bytes Lua.Syntax Lua.Resolve Model.Rename Proof.RenameStream Proof.RenameInv
  Proof.RenameSelf Proof.RenameGlobals Proof.ResolveFacts Proof.ResolveIdem Proof.RenameExamples.
Import ListNotations.
Open Scope N_scope.

(** (a) the specification: the alpha-normaliser is idempotent ... *)
Theorem C09_nameless_idempotent : forall b,
  canon_free b = true -> nameless (nameless b) = nameless b.
Proof. exact nameless_idempotent. Qed.
Print Assumptions C09_nameless_idempotent.
Check C09_nameless_idempotent : forall b,
  canon_free b = true -> nameless (nameless b) = nameless b.

(** ... and invariant under every capture-free renaming of local binders *)
Theorem C09_nameless_rename_invariant : forall (pick : renv -> Syntax.name -> Syntax.name) (b : block),
  rename_ok pick b = true -> nameless (ren_block pick [] b) = nameless b.
Proof. exact nameless_rename_invariant. Qed.
Print Assumptions C09_nameless_rename_invariant.
Check C09_nameless_rename_invariant : forall (pick : renv -> Syntax.name -> Syntax.name) (b : block),
  rename_ok pick b = true -> nameless (ren_block pick [] b) = nameless b.

(** (d, partial) binding preservation for every renamer whose choices satisfy what the scope
    stack invariant guarantees: new names fresh among the live new names, outside a set G that
    contains the program's free identifiers, never [self].
    MISSING for the full theorem about darklua: a model of ScopeVisitor's traversal driving
    [Rename.step], and the proof that its output is [ren_block pick [] p] for such a [pick];
    that part is validated per run (vlib/c09.py: nameless(OUT) = nameless(IN) in Coq). *)
Theorem C09_rename_preserves_binding_partial :
  forall (pick : renv -> Syntax.name -> Syntax.name) (G : list Syntax.name) (p : block),
  (forall env x, ~ In (pick env x) (map snd env)) ->
  (forall env x, gmem G (pick env x) = false) ->
  (forall env x, pick env x <> self_name) ->
  free_in pick G p = true ->
  fingerprint (nameless (ren_block pick [] p)) = fingerprint (nameless p).
Proof. exact rename_preserves_binding_partial. Qed.
Print Assumptions C09_rename_preserves_binding_partial.
Check C09_rename_preserves_binding_partial :
  forall (pick : renv -> Syntax.name -> Syntax.name) (G : list Syntax.name) (p : block),
  (forall env x, ~ In (pick env x) (map snd env)) ->
  (forall env x, gmem G (pick env x) = false) ->
  (forall env x, pick env x <> self_name) ->
  free_in pick G p = true ->
  fingerprint (nameless (ren_block pick [] p)) = fingerprint (nameless p).

(** (b) the scope stack of RenameProcessor, over ALL operation sequences *)
Theorem C09_scope_invariant : forall avoid0 ops,
  let s := run avoid0 ops in
  NoDup (live_gen s ++ lost_gen s ++ pool s) /\
  (forall n, In n (live_gen s ++ lost_gen s ++ pool s) ->
     valid_ident n = true /\ ~ In n keywords /\ ~ In n avoid0 /\ exists q, q < pos s /\ nth_raw q = n) /\
  incl (avoid0 ++ keywords) (avoid s).
Proof. exact scope_invariant. Qed.
Print Assumptions C09_scope_invariant.
Check C09_scope_invariant : forall avoid0 ops,
  let s := run avoid0 ops in
  NoDup (live_gen s ++ lost_gen s ++ pool s) /\
  (forall n, In n (live_gen s ++ lost_gen s ++ pool s) ->
     valid_ident n = true /\ ~ In n keywords /\ ~ In n avoid0 /\ exists q, q < pos s /\ nth_raw q = n) /\
  incl (avoid0 ++ keywords) (avoid s).

(** generated names never collide with the names kept as they are (local function names that
    were given as names to avoid, and the method receiver), below the position of "self" *)
Theorem C09_generated_disjoint_from_kept : forall avoid0 ops,
  let s := run avoid0 ops in
  incl (keeps ops) avoid0 -> pos s <= self_index ->
  forall n, In n (live_gen s ++ lost_gen s ++ pool s) -> ~ In n (live_kept s).
Proof. exact generated_disjoint_from_kept. Qed.
Print Assumptions C09_generated_disjoint_from_kept.
Check C09_generated_disjoint_from_kept : forall avoid0 ops,
  let s := run avoid0 ops in
  incl (keeps ops) avoid0 -> pos s <= self_index ->
  forall n, In n (live_gen s ++ lost_gen s ++ pool s) -> ~ In n (live_kept s).

(** REFUTED without the bound (known finding self-generated-after-4.7M-names) *)
Theorem C09_generated_disjoint_from_kept_refuted : forall avoid0, ~ In self avoid0 ->
  exists ops, let s := run avoid0 ops in
    incl (keeps ops) avoid0 /\ exists n, In n (live_gen s) /\ In n (live_kept s).
Proof. exact generated_disjoint_from_kept_refuted. Qed.
Print Assumptions C09_generated_disjoint_from_kept_refuted.
Check C09_generated_disjoint_from_kept_refuted : forall avoid0, ~ In self avoid0 ->
  exists ops, let s := run avoid0 ops in
    incl (keeps ops) avoid0 /\ exists n, In n (live_gen s) /\ In n (live_kept s).

(** the configured avoid set is the union over the `globals` list, whatever its order: a listed name is
    avoided wherever "$default" / "$roblox" stand in the list and however often they are repeated;
    with C09_scope_invariant (avoid0 := configured globals ++ ...) no generated name is a listed global *)
Theorem C09_configured_globals_union : forall dflt roblox l x,
  In x (configured_globals dflt roblox l) <->
  In x dflt \/ exists e, In e l /\ In x (expand_entry dflt roblox e).
Proof. exact configured_globals_union. Qed.
Print Assumptions C09_configured_globals_union.
Check C09_configured_globals_union : forall dflt roblox l x,
  In x (configured_globals dflt roblox l) <->
  In x dflt \/ exists e, In e l /\ In x (expand_entry dflt roblox e).

Theorem C09_configured_globals_order_independent : forall dflt roblox l l',
  (forall e, In e l <-> In e l') ->
  forall x, In x (configured_globals dflt roblox l) <-> In x (configured_globals dflt roblox l').
Proof. exact configured_globals_order_independent. Qed.
Print Assumptions C09_configured_globals_order_independent.
Check C09_configured_globals_order_independent : forall dflt roblox l l',
  (forall e, In e l <-> In e l') ->
  forall x, In x (configured_globals dflt roblox l) <-> In x (configured_globals dflt roblox l').

Theorem C09_listed_name_avoided : forall dflt roblox l extra x,
  In (GName x) l -> In x (avoid (init (configured_globals dflt roblox l ++ extra))).
Proof. exact listed_name_avoided. Qed.
Print Assumptions C09_listed_name_avoided.
Check C09_listed_name_avoided : forall dflt roblox l extra x,
  In (GName x) l -> In x (avoid (init (configured_globals dflt roblox l ++ extra))).

(** the dictionaries resolve like scopes *)
Theorem C09_lookup_after_add : forall s real obf reuse,
  get_obfuscated (stack (add s real obf reuse)) real = Some obf.
Proof. exact lookup_after_add. Qed.
Print Assumptions C09_lookup_after_add.
Check C09_lookup_after_add : forall s real obf reuse,
  get_obfuscated (stack (add s real obf reuse)) real = Some obf.

Theorem C09_lookup_other_after_add : forall s real obf reuse x,
  real <> x -> get_obfuscated (stack (add s real obf reuse)) x = get_obfuscated (stack s) x.
Proof. exact lookup_other_after_add. Qed.
Print Assumptions C09_lookup_other_after_add.
Check C09_lookup_other_after_add : forall s real obf reuse x,
  real <> x -> get_obfuscated (stack (add s real obf reuse)) x = get_obfuscated (stack s) x.

(** the reuse pool's order is total on generated names (HashMap iteration order is irrelevant) *)
Theorem C09_pool_order_total : forall a b,
  Forall (fun c => is_ident_char c = true) a -> Forall (fun c => is_ident_char c = true) b ->
  cmp_ident a b = Eq -> a = b.
Proof. exact cmp_ident_total. Qed.
Print Assumptions C09_pool_order_total.
Check C09_pool_order_total : forall a b,
  Forall (fun c => is_ident_char c = true) a -> Forall (fun c => is_ident_char c = true) b ->
  cmp_ident a b = Eq -> a = b.

(** (c) the name stream: the permutator never repeats (unbounded) ... *)
Theorem C09_name_stream_injective : forall n m, nth_raw n = nth_raw m -> n = m.
Proof. exact nth_raw_inj. Qed.
Print Assumptions C09_name_stream_injective.
Check C09_name_stream_injective : forall n m, nth_raw n = nth_raw m -> n = m.

(** ... what the processor's filter lets through is a valid identifier and no keyword ... *)
Theorem C09_filtered_name_valid : forall av q,
  incl keywords av -> filter_identifier av (nth_raw q) = true ->
  valid_ident (nth_raw q) = true /\ ~ In (nth_raw q) keywords.
Proof. exact filtered_name_valid. Qed.
Print Assumptions C09_filtered_name_valid.
Check C09_filtered_name_valid : forall av q,
  incl keywords av -> filter_identifier av (nth_raw q) = true ->
  valid_ident (nth_raw q) = true /\ ~ In (nth_raw q) keywords.

(** ... and so is every name of generate_identifier's stream, which never repeats either *)
Theorem C09_generated_stream : forall n,
  Forall (fun x => valid_ident x = true) (gen_stream n) /\ NoDup (gen_stream n).
Proof. exact generated_stream. Qed.
Print Assumptions C09_generated_stream.
Check C09_generated_stream : forall n,
  Forall (fun x => valid_ident x = true) (gen_stream n) /\ NoDup (gen_stream n).

(** non-vacuity *)
Example C09_example_rename :
  rename_ok (x_to (nm "q")) sample = true /\ ren_block (x_to (nm "q")) [] sample <> sample /\
  nameless (ren_block (x_to (nm "q")) [] sample) = nameless sample.
Proof. exact rename_ok_sample. Qed.
Example C09_example_capture :
  rename_ok (x_to (nm "a")) sample = false /\
  nameless (ren_block (x_to (nm "a")) [] sample) <> nameless sample.
Proof. exact rename_capture_sample. Qed.
Example C09_example_fresh :
  nameless (ren_block bang_pick [] sample) = nameless sample /\ ren_block bang_pick [] sample <> sample.
Proof. exact fresh_sample. Qed.
Example C09_example_idempotent : canon_free sample = true /\ nameless sample <> sample.
Proof. exact idempotent_sample. Qed.
Example C09_example_run : incl (keeps sample_ops) [nm "f"; nm "b"] /\ pos (run [nm "f"; nm "b"] sample_ops) <= self_index.
Proof. exact sample_keeps. Qed.
