(** C13 — String and number literals survive generation exactly.
    Only statements, closed by [exact], with their assumptions printed and pinned. *)
From DL Require Import Lib.Bytes Model.StringLit Proof.StringLitBasics Proof.StringLitFacts
  Proof.StringLitSegment.
Open Scope N_scope.

(** Every byte string, in whatever quoting form [write_string] picks (single, double,
    long bracket of any level), is read back by Luau's escape rules as the same bytes. *)
Theorem C13_write_string_roundtrip_luau : forall s,
  wf_bytes s = true -> decode_literal true (write_string s) = Some s.
Proof. exact write_string_roundtrip. Qed.
Print Assumptions C13_write_string_roundtrip_luau.
Check C13_write_string_roundtrip_luau : forall s,
  wf_bytes s = true -> decode_literal true (write_string s) = Some s.

Theorem C13_quoted_roundtrip_luau : forall s,
  wf_bytes s = true -> decode_quoted true (write_quoted s) = Some s.
Proof. exact quoted_roundtrip_luau. Qed.
Print Assumptions C13_quoted_roundtrip_luau.
Check C13_quoted_roundtrip_luau : forall s,
  wf_bytes s = true -> decode_quoted true (write_quoted s) = Some s.

(** Lua 5.1's rules read it back too unless the literal needs a \u{...} escape, i.e.
    unless the value is valid UTF-8 containing a non-ASCII character. *)
Theorem C13_quoted_roundtrip_51 : forall s, wf_bytes s = true ->
  (utf8_decode s = None \/ forallb (fun c => c <? 128) s = true) ->
  decode_quoted false (write_quoted s) = Some s.
Proof. exact quoted_roundtrip_51. Qed.
Print Assumptions C13_quoted_roundtrip_51.
Check C13_quoted_roundtrip_51 : forall s, wf_bytes s = true ->
  (utf8_decode s = None \/ forallb (fun c => c <? 128) s = true) ->
  decode_quoted false (write_quoted s) = Some s.

(** Long brackets: the chosen level's closer first occurs at the very end of the literal. *)
Theorem C13_long_roundtrip : forall s t, wf_bytes s = true ->
  existsb needs_quoted_string s = false ->
  write_long_bracket s = Some t -> decode_long t = Some (s, []).
Proof. exact long_roundtrip. Qed.
Print Assumptions C13_long_roundtrip.
Check C13_long_roundtrip : forall s t, wf_bytes s = true ->
  existsb needs_quoted_string s = false ->
  write_long_bracket s = Some t -> decode_long t = Some (s, []).

Theorem C13_utf8_roundtrip : forall s cps,
  utf8_decode s = Some cps -> flat_map utf8_encode cps = s.
Proof. exact utf8_roundtrip. Qed.
Print Assumptions C13_utf8_roundtrip.
Check C13_utf8_roundtrip : forall s cps,
  utf8_decode s = Some cps -> flat_map utf8_encode cps = s.

(** Interpolated strings: the literal part of a backtick string between two holes, as
    [write_interpolated_string_segment] writes it (backtick and opening brace escaped with a
    backslash), is read back by Luau's rules as the same bytes. *)
Theorem C13_segment_roundtrip : forall s,
  wf_bytes s = true -> decode_segment (segment_bytes s) = Some s.
Proof. exact segment_roundtrip. Qed.
Print Assumptions C13_segment_roundtrip.
Check C13_segment_roundtrip : forall s,
  wf_bytes s = true -> decode_segment (segment_bytes s) = Some s.

(** non-vacuity: hypotheses are met by non-trivial values *)
Example C13_example_long :
  let s := repeat 97 68 ++ [93; 93; 98; 93; 61] in
  wf_bytes s = true /\ existsb needs_quoted_string s = false /\
  exists t, write_long_bracket s = Some t /\ decode_long t = Some (s, []).
Proof. vm_compute. repeat split. eexists; split; reflexivity. Qed.
