(** C13 — String and number literals survive generation exactly.
    Only statements, closed by [exact], with their assumptions printed and pinned. *)
From DL Require Import Lib.Bytes Model.StringLit Proof.StringLitBasics Proof.StringLitFacts
  Proof.StringLitSegment.
From DL Require Import Lib.F64 Lua.Syntax Model.NumberLit Model.NumberWrite Model.NumberValue Proof.NumberWrite Proof.NumberWriteValue Proof.NumberWriteAll.
From Coq Require Import Floats.SpecFloat.
Open Scope N_scope.

(** Every byte string, in whatever quoting form [write_string] picks (single, double,
    long bracket of any level), is read back by Luau's escape rules as the same bytes. *)
Theorem C13_write_string_roundtrip_luau : forall s,
  wf_bytes s = true -> decode_literal true (write_string s) = Some s.
Proof. exact write_string_roundtrip. Qed.
Print Assumptions C13_write_string_roundtrip_luau.
Check C13_write_string_roundtrip_luau : forall s,
  wf_bytes s = true -> decode_literal true (write_string s) = Some s.

Theorem C13_quoted_roundtrip_luau : forall s,
  wf_bytes s = true -> decode_quoted true (write_quoted s) = Some s.
Proof. exact quoted_roundtrip_luau. Qed.
Print Assumptions C13_quoted_roundtrip_luau.
Check C13_quoted_roundtrip_luau : forall s,
  wf_bytes s = true -> decode_quoted true (write_quoted s) = Some s.

(** Lua 5.1's rules read it back too unless the literal needs a \u{...} escape, i.e.
    unless the value is valid UTF-8 containing a non-ASCII character. *)
Theorem C13_quoted_roundtrip_51 : forall s, wf_bytes s = true ->
  (utf8_decode s = None \/ forallb (fun c => c <? 128) s = true) ->
  decode_quoted false (write_quoted s) = Some s.
Proof. exact quoted_roundtrip_51. Qed.
Print Assumptions C13_quoted_roundtrip_51.
Check C13_quoted_roundtrip_51 : forall s, wf_bytes s = true ->
  (utf8_decode s = None \/ forallb (fun c => c <? 128) s = true) ->
  decode_quoted false (write_quoted s) = Some s.

(** Long brackets: the chosen level's closer first occurs at the very end of the literal. *)
Theorem C13_long_roundtrip : forall s t, wf_bytes s = true ->
  existsb needs_quoted_string s = false ->
  write_long_bracket s = Some t -> decode_long t = Some (s, []).
Proof. exact long_roundtrip. Qed.
Print Assumptions C13_long_roundtrip.
Check C13_long_roundtrip : forall s t, wf_bytes s = true ->
  existsb needs_quoted_string s = false ->
  write_long_bracket s = Some t -> decode_long t = Some (s, []).

Theorem C13_utf8_roundtrip : forall s cps,
  utf8_decode s = Some cps -> flat_map utf8_encode cps = s.
Proof. exact utf8_roundtrip. Qed.
Print Assumptions C13_utf8_roundtrip.
Check C13_utf8_roundtrip : forall s cps,
  utf8_decode s = Some cps -> flat_map utf8_encode cps = s.

(** Interpolated strings: the literal part of a backtick string between two holes, as
    [write_interpolated_string_segment] writes it (backtick and opening brace escaped with a
    backslash), is read back by Luau's rules as the same bytes. *)
Theorem C13_segment_roundtrip : forall s,
  wf_bytes s = true -> decode_segment (segment_bytes s) = Some s.
Proof. exact segment_roundtrip. Qed.
Print Assumptions C13_segment_roundtrip.
Check C13_segment_roundtrip : forall s,
  wf_bytes s = true -> decode_segment (segment_bytes s) = Some s.

(** Numbers.  [Model/NumberWrite.v] is the writer ([write_number]) for hexadecimal and binary nodes,
    the non-finite spellings and integer-valued decimal nodes; [Model/NumberLit.from_str] is darklua's
    reader (both tied to the code on every run).  Every hexadecimal node a [u64] / [u32] pair can hold
    is written to a text that reads back as the SAME node (value, case of the x, exponent and its
    case), so the value cannot change through generation and re-parsing. *)
Theorem C13_write_hex_roundtrip : forall v u e, v < 2 ^ 64 ->
  (forall ex up, e = Some (ex, up) -> ex < 2 ^ 32) ->
  from_str (write_hex v u e) = Some (NHex v u e).
Proof. exact write_hex_roundtrip. Qed.
Print Assumptions C13_write_hex_roundtrip.
Check C13_write_hex_roundtrip : forall v u e, v < 2 ^ 64 ->
  (forall ex up, e = Some (ex, up) -> ex < 2 ^ 32) ->
  from_str (write_hex v u e) = Some (NHex v u e).

Theorem C13_write_bin_roundtrip : forall v u, v < 2 ^ 64 ->
  from_str (write_bin v u) = Some (NBin v u).
Proof. exact write_bin_roundtrip. Qed.
Print Assumptions C13_write_bin_roundtrip.
Check C13_write_bin_roundtrip : forall v u, v < 2 ^ 64 ->
  from_str (write_bin v u) = Some (NBin v u).

(** the integer formatter ([{:x}], [{:b}], [{}]) against the integer parsers, any radix 2..16, any bound *)
Theorem C13_fmt_radix_parse : forall radix bound v, 2 <= radix -> radix <= 16 -> v <= bound ->
  parse_digits radix bound (fmt_radix radix v) 0 = Some v.
Proof. exact fmt_radix_parse. Qed.
Print Assumptions C13_fmt_radix_parse.
Check C13_fmt_radix_parse : forall radix bound v, 2 <= radix -> radix <= 16 -> v <= bound ->
  parse_digits radix bound (fmt_radix radix v) 0 = Some v.

(** what is written is a non-empty run of digits / lower-case hexadecimal letters: no sign, no
    underscore, no exponent letter that the reader could take for something else *)
Theorem C13_fmt_radix_digits : forall radix v c, 2 <= radix -> radix <= 16 -> In c (fmt_radix radix v) ->
  (48 <= c /\ c <= 57) \/ (97 <= c /\ c <= 102).
Proof. exact fmt_radix_digits. Qed.
Print Assumptions C13_fmt_radix_digits.
Check C13_fmt_radix_digits : forall radix v c, 2 <= radix -> radix <= 16 -> In c (fmt_radix radix v) ->
  (48 <= c /\ c <= 57) \/ (97 <= c /\ c <= 102).

Theorem C13_fmt_radix_nonempty : forall radix v, fmt_radix radix v <> [].
Proof. exact fmt_radix_nonempty. Qed.
Print Assumptions C13_fmt_radix_nonempty.
Check C13_fmt_radix_nonempty : forall radix v, fmt_radix radix v <> [].

(** decimal nodes holding an integer (either sign, the negative zero included) and no exponent: the
    written digits read back as a decimal node whose double is that integer correctly rounded
    (below 2^53: exactly that integer).  Uses the float-validity lemma of Proof/EvaluatorF64.v
    (Flocq: the four classical / extensionality axioms of the standard library). *)
Theorem C13_write_dec_int_reads_value : forall neg m, m < 2 ^ 53 ->
  exists bits, from_str (write_dec_int neg m) = Some (NDec bits None) /\
               of_bits bits = (if neg then fneg (of_N m) else of_N m).
Proof. exact write_dec_int_reads_value. Qed.
Print Assumptions C13_write_dec_int_reads_value.
Check C13_write_dec_int_reads_value : forall neg m, m < 2 ^ 53 ->
  exists bits, from_str (write_dec_int neg m) = Some (NDec bits None) /\
               of_bits bits = (if neg then fneg (of_N m) else of_N m).

(** The per-run oracle itself ([Model/NumberValue.v]: [value_kept n t] = the text [t] is one of the
    three non-finite spellings or a Lua numeral that darklua's reader gives the value of [n]) holds of
    every text the modelled writer arms produce: hexadecimal and binary nodes over the whole [u64] /
    [u32] range, the non-finite values whatever exponent they record, and integer-valued decimal nodes
    of either sign below 2^53 (the negative zero included).  For these arms the per-run comparison of
    the code's bytes with the model's bytes is all that ties the property to the code. *)
Theorem C13_write_hex_value_kept : forall v u e, v < 2 ^ 64 ->
  (forall ex up, e = Some (ex, up) -> ex < 2 ^ 32) ->
  value_kept (NHex v u e) (write_hex v u e) = true.
Proof. exact write_hex_value_kept. Qed.
Print Assumptions C13_write_hex_value_kept.
Check C13_write_hex_value_kept : forall v u e, v < 2 ^ 64 ->
  (forall ex up, e = Some (ex, up) -> ex < 2 ^ 32) ->
  value_kept (NHex v u e) (write_hex v u e) = true.

Theorem C13_write_bin_value_kept : forall v u, v < 2 ^ 64 ->
  value_kept (NBin v u) (write_bin v u) = true.
Proof. exact write_bin_value_kept. Qed.
Print Assumptions C13_write_bin_value_kept.
Check C13_write_bin_value_kept : forall v u, v < 2 ^ 64 ->
  value_kept (NBin v u) (write_bin v u) = true.

Theorem C13_write_nonfinite_value_kept : forall bits ex t,
  (of_bits bits = S754_nan \/ exists s, of_bits bits = S754_infinity s) ->
  write_number_model (NDec bits ex) = Some t ->
  value_kept (NDec bits ex) t = true.
Proof. exact write_nonfinite_value_kept. Qed.
Print Assumptions C13_write_nonfinite_value_kept.
Check C13_write_nonfinite_value_kept : forall bits ex t,
  (of_bits bits = S754_nan \/ exists s, of_bits bits = S754_infinity s) ->
  write_number_model (NDec bits ex) = Some t ->
  value_kept (NDec bits ex) t = true.

Theorem C13_write_dec_int_value_kept : forall (neg : bool) m, m < 2 ^ 53 ->
  write_number_model (NDec (to_bits (if neg then fneg (of_N m) else of_N m)) None)
    = Some (write_dec_int neg m) /\
  value_kept (NDec (to_bits (if neg then fneg (of_N m) else of_N m)) None) (write_dec_int neg m) = true.
Proof. exact write_dec_int_value_kept. Qed.
Print Assumptions C13_write_dec_int_value_kept.
Check C13_write_dec_int_value_kept : forall (neg : bool) m, m < 2 ^ 53 ->
  write_number_model (NDec (to_bits (if neg then fneg (of_N m) else of_N m)) None)
    = Some (write_dec_int neg m) /\
  value_kept (NDec (to_bits (if neg then fneg (of_N m) else of_N m)) None) (write_dec_int neg m) = true.

(** Capstone: for EVERY node on which the writer model is defined - every hexadecimal and binary
    node, every non-finite decimal node, the zeros, and every finite decimal node without recorded
    exponent whose value is an integer below 2^53 in magnitude, given by its bit pattern - the
    written text satisfies the per-run oracle.  What remains per run for these arms is only that the
    code writes the bytes the model writes. *)
Theorem C13_write_number_model_value_kept : forall n t, number_wf n ->
  write_number_model n = Some t -> value_kept n t = true.
Proof. exact write_number_model_value_kept. Qed.
Print Assumptions C13_write_number_model_value_kept.
Check C13_write_number_model_value_kept : forall n t, number_wf n ->
  write_number_model n = Some t -> value_kept n t = true.

Example C13_example_hex :
  write_hex 255 true (Some (4, false)) = of_string "0Xffp4" /\
  from_str (of_string "0Xffp4") = Some (NHex 255 true (Some (4, false))) /\
  write_number_model (NDec (to_bits (fneg (of_N 1234567))) None) = Some (of_string "-1234567").
Proof. vm_compute. repeat split. Qed.

(** non-vacuity: hypotheses are met by non-trivial values *)
Example C13_example_long :
  let s := repeat 97 68 ++ [93; 93; 98; 93; 61] in
  wf_bytes s = true /\ existsb needs_quoted_string s = false /\
  exists t, write_long_bracket s = Some t /\ decode_long t = Some (s, []).
Proof. vm_compute. repeat split. eexists; split; reflexivity. Qed.
