(** C13 — String and number literals survive generation exactly.
    Only statements, closed by [exact], with their assumptions printed. *)
From DL Require Import Lib.Bytes Model.StringLit Proof.StringLitBasics.
Open Scope N_scope.

Theorem C13_quoted_is_delimited : forall s,
  exists q, (q = 39 \/ q = 34) /\ write_quoted s = q :: quoted_body s ++ [q].
Proof. exact write_quoted_delimited. Qed.
Print Assumptions C13_quoted_is_delimited.
Check C13_quoted_is_delimited : forall s,
  exists q, (q = 39 \/ q = 34) /\ write_quoted s = q :: quoted_body s ++ [q].
