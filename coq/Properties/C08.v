(** C08 — Static evaluation never disagrees with real execution.
    (interim: the soundness theorems are being proved in Proof/EvaluatorSound.v) *)
From DL Require Import Lib.Bytes Lib.F64 Lua.Syntax Lua.Sem Model.Evaluator Lua.EvalSpec.
Open Scope N_scope.

Theorem C08_prefix_side_effects_is_conservative : forall pm p,
  match p with ECall _ _ _ => has_side_effects pm p = true | _ => True end.
Proof. intros pm [] ; exact I || reflexivity. Qed.
Print Assumptions C08_prefix_side_effects_is_conservative.
Check C08_prefix_side_effects_is_conservative : forall pm p,
  match p with ECall _ _ _ => has_side_effects pm p = true | _ => True end.
