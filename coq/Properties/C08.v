(** C08 — Static evaluation never disagrees with real execution.
    Only statements, closed by [exact], with their assumptions printed and pinned.
    [eval] is the reference semantics (Lua/Sem.v); [evaluate], [has_side_effects],
    [can_return_multiple_values] the model of darklua's evaluator (Model/Evaluator.v). *)
From DL Require Import Lib.Bytes Lib.F64 Lua.Syntax Lua.Sem Model.Evaluator Lua.EvalSpec Lua.EvalSpec2
  Proof.EvaluatorSound.
Open Scope N_scope.

(** A definite static value is the value execution yields (bit-exact on numbers), for every
    dialect, fuel, environment, varargs and store, unless execution errs.  Preconditions:
    the expression does not depend on behaviour where the two dialects render numbers / compute
    [%] differently ([deep_safe]), the table constructors it looks past have pure entries
    ([ctor_pure]), globals table and string metatable are the pristine ones ([env_plain]). *)
Theorem C08_evaluate_sound : forall d e n rho va s vs s',
  deep_safe d e = true -> ctor_pure d e = true -> env_plain s ->
  eval d n rho va e s = Ok vs s' -> lv_matches s' (evaluate e) (first vs).
Proof. exact evaluate_sound. Qed.
Print Assumptions C08_evaluate_sound.
Check C08_evaluate_sound : forall d e n rho va s vs s',
  deep_safe d e = true -> ctor_pure d e = true -> env_plain s ->
  eval d n rho va e s = Ok vs s' -> lv_matches s' (evaluate e) (first vs).

(** "No side effects" means: no event, no oracle consumption, every existing cell, table and
    closure unchanged - execution only adds fresh allocations (so no external call and no
    metamethod ran). *)
Theorem C08_pure_sound : forall d e n rho va s vs s',
  has_side_effects false e = false -> deep_safe d e = true -> env_plain s ->
  eval d n rho va e s = Ok vs s' -> store_extends s s'.
Proof. exact pure_sound. Qed.
Print Assumptions C08_pure_sound.
Check C08_pure_sound : forall d e n rho va s vs s',
  has_side_effects false e = false -> deep_safe d e = true -> env_plain s ->
  eval d n rho va e s = Ok vs s' -> store_extends s s'.

(** ... and then its value is the static one as well (no [ctor_pure] needed). *)
Theorem C08_pure_evaluate_sound : forall d e n rho va s vs s',
  has_side_effects false e = false -> deep_safe d e = true -> env_plain s ->
  eval d n rho va e s = Ok vs s' -> lv_matches s' (evaluate e) (first vs).
Proof. exact pure_evaluate_sound. Qed.
Print Assumptions C08_pure_evaluate_sound.
Check C08_pure_evaluate_sound : forall d e n rho va s vs s',
  has_side_effects false e = false -> deep_safe d e = true -> env_plain s ->
  eval d n rho va e s = Ok vs s' -> lv_matches s' (evaluate e) (first vs).

(** "Single value" verdicts are right, unconditionally. *)
Theorem C08_single_sound : forall d n rho va e s vs s',
  can_return_multiple_values e = false ->
  eval d n rho va e s = Ok vs s' -> List.length vs = 1%nat.
Proof. exact single_sound. Qed.
Print Assumptions C08_single_sound.
Check C08_single_sound : forall d n rho va e s vs s',
  can_return_multiple_values e = false ->
  eval d n rho va e s = Ok vs s' -> List.length vs = 1%nat.

(** the preconditions are necessary (witnesses by computation) *)
Theorem C08_refuted_without_dialect_agreement : exists d e n rho va s vs s',
  ctor_pure d e = true /\ env_plain s /\ eval d n rho va e s = Ok vs s' /\
  ~ lv_matches s' (evaluate e) (first vs).
Proof. exact evaluate_sound_refuted_dialect. Qed.
Print Assumptions C08_refuted_without_dialect_agreement.
Check C08_refuted_without_dialect_agreement : exists d e n rho va s vs s',
  ctor_pure d e = true /\ env_plain s /\ eval d n rho va e s = Ok vs s' /\
  ~ lv_matches s' (evaluate e) (first vs).
