(** C11 — Batch runs map files one-to-one, isolate failures and are deterministic.
    Only statements, closed by [exact], with their assumptions printed. *)
From Coq Require Import Permutation.
From DL Require Import Lib.Bytes Model.WorkerFs Model.Batch Proof.BatchFacts.
Open Scope N_scope.

Theorem C11_collect_mirror :
  forall (f : fs) (input out : path) (items : list bitem),
    fs_is_file f input = false ->
    collect f input (Some out) = Some items ->
    (forall s o, In (s, o) items <->
                 (fs_get f s <> None /\ starts_with input s = true /\ is_lua_path s = true) /\
                 o = rebase input out s) /\
    NoDup (map fst items).
Proof. exact collect_dir_mirror. Qed.
Print Assumptions C11_collect_mirror.
Check C11_collect_mirror :
  forall (f : fs) (input out : path) (items : list bitem),
    fs_is_file f input = false ->
    collect f input (Some out) = Some items ->
    (forall s o, In (s, o) items <->
                 (fs_get f s <> None /\ starts_with input s = true /\ is_lua_path s = true) /\
                 o = rebase input out s) /\
    NoDup (map fst items).

Theorem C11_collect_in_place :
  forall (f : fs) (input : path) (items : list bitem),
    collect f input None = Some items ->
    (forall s o, In (s, o) items <->
                 (fs_get f s <> None /\ starts_with input s = true /\ is_lua_path s = true) /\ o = s) /\
    NoDup (map fst items).
Proof. exact collect_in_place. Qed.
Print Assumptions C11_collect_in_place.
Check C11_collect_in_place :
  forall (f : fs) (input : path) (items : list bitem),
    collect f input None = Some items ->
    (forall s o, In (s, o) items <->
                 (fs_get f s <> None /\ starts_with input s = true /\ is_lua_path s = true) /\ o = s) /\
    NoDup (map fst items).

Theorem C11_one_to_one :
  forall (cfg : Type) (xform : cfg -> path -> content -> fs -> option content * list path)
         (c : cfg) (items : list bitem) (f : fs),
    wf_items items -> reads_no_output cfg xform c items ->
    (forall p, fs_get (fst (run_batch cfg xform false c items f)) p = spec_get cfg xform c f items f p) /\
    snd (run_batch cfg xform false c items f) =
    map (fun it => (fst it, is_some (outcome cfg xform c f it))) items.
Proof. exact batch_one_to_one. Qed.
Print Assumptions C11_one_to_one.
Check C11_one_to_one :
  forall (cfg : Type) (xform : cfg -> path -> content -> fs -> option content * list path)
         (c : cfg) (items : list bitem) (f : fs),
    wf_items items -> reads_no_output cfg xform c items ->
    (forall p, fs_get (fst (run_batch cfg xform false c items f)) p = spec_get cfg xform c f items f p) /\
    snd (run_batch cfg xform false c items f) =
    map (fun it => (fst it, is_some (outcome cfg xform c f it))) items.

Theorem C11_item_result :
  forall (cfg : Type) (xform : cfg -> path -> content -> fs -> option content * list path)
         (c : cfg) (items : list bitem) (f : fs) (it : bitem),
    wf_items items -> reads_no_output cfg xform c items -> In it items ->
    fs_get (fst (run_batch cfg xform false c items f)) (snd it) =
    match outcome cfg xform c f it with Some o => Some o | None => fs_get f (snd it) end.
Proof. exact batch_item_result. Qed.
Print Assumptions C11_item_result.
Check C11_item_result :
  forall (cfg : Type) (xform : cfg -> path -> content -> fs -> option content * list path)
         (c : cfg) (items : list bitem) (f : fs) (it : bitem),
    wf_items items -> reads_no_output cfg xform c items -> In it items ->
    fs_get (fst (run_batch cfg xform false c items f)) (snd it) =
    match outcome cfg xform c f it with Some o => Some o | None => fs_get f (snd it) end.

Theorem C11_inputs_untouched :
  forall (cfg : Type) (xform : cfg -> path -> content -> fs -> option content * list path)
         (c : cfg) (f : fs) (input out : path) (items : list bitem) (p : path),
    fs_is_file f input = false ->
    collect f input (Some out) = Some items ->
    (forall s, In s (fs_collect f input) -> starts_with out s = false) ->
    reads_no_output cfg xform c items ->
    starts_with out p = false ->
    fs_get (fst (run_batch cfg xform false c items f)) p = fs_get f p.
Proof. exact inputs_untouched. Qed.
Print Assumptions C11_inputs_untouched.
Check C11_inputs_untouched :
  forall (cfg : Type) (xform : cfg -> path -> content -> fs -> option content * list path)
         (c : cfg) (f : fs) (input out : path) (items : list bitem) (p : path),
    fs_is_file f input = false ->
    collect f input (Some out) = Some items ->
    (forall s, In s (fs_collect f input) -> starts_with out s = false) ->
    reads_no_output cfg xform c items ->
    starts_with out p = false ->
    fs_get (fst (run_batch cfg xform false c items f)) p = fs_get f p.

Theorem C11_isolation :
  forall (cfg : Type) (xform : cfg -> path -> content -> fs -> option content * list path)
         (c : cfg) (items : list bitem) (f : fs) (j it : bitem),
    wf_items items -> reads_no_output cfg xform c items -> ignores cfg xform c (fst j) ->
    In j items -> In it items -> fst it <> fst j ->
    fs_get (fst (run_batch cfg xform false c items f)) (snd it) =
    fs_get (fst (run_batch cfg xform false c (without j items) (fs_del f (fst j)))) (snd it)
    /\ outcome cfg xform c f it = outcome cfg xform c (fs_del f (fst j)) it.
Proof. exact isolation. Qed.
Print Assumptions C11_isolation.
Check C11_isolation :
  forall (cfg : Type) (xform : cfg -> path -> content -> fs -> option content * list path)
         (c : cfg) (items : list bitem) (f : fs) (j it : bitem),
    wf_items items -> reads_no_output cfg xform c items -> ignores cfg xform c (fst j) ->
    In j items -> In it items -> fst it <> fst j ->
    fs_get (fst (run_batch cfg xform false c items f)) (snd it) =
    fs_get (fst (run_batch cfg xform false c (without j items) (fs_del f (fst j)))) (snd it)
    /\ outcome cfg xform c f it = outcome cfg xform c (fs_del f (fst j)) it.

Theorem C11_order_irrelevant :
  forall (cfg : Type) (xform : cfg -> path -> content -> fs -> option content * list path)
         (c : cfg) (items items' : list bitem) (f : fs),
    Permutation items items' -> wf_items items -> reads_no_output cfg xform c items ->
    (forall p, fs_get (fst (run_batch cfg xform false c items f)) p =
               fs_get (fst (run_batch cfg xform false c items' f)) p) /\
    Permutation (snd (run_batch cfg xform false c items f)) (snd (run_batch cfg xform false c items' f)).
Proof. exact order_irrelevant. Qed.
Print Assumptions C11_order_irrelevant.
Check C11_order_irrelevant :
  forall (cfg : Type) (xform : cfg -> path -> content -> fs -> option content * list path)
         (c : cfg) (items items' : list bitem) (f : fs),
    Permutation items items' -> wf_items items -> reads_no_output cfg xform c items ->
    (forall p, fs_get (fst (run_batch cfg xform false c items f)) p =
               fs_get (fst (run_batch cfg xform false c items' f)) p) /\
    Permutation (snd (run_batch cfg xform false c items f)) (snd (run_batch cfg xform false c items' f)).

Theorem C11_fail_fast_prefix :
  forall (cfg : Type) (xform : cfg -> path -> content -> fs -> option content * list path)
         (c : cfg) (all : list bitem) (f : fs),
    wf_items all -> reads_no_output cfg xform c all ->
    forall items g,
      incl items all -> NoDup (map snd items) ->
      (forall p, ~ In p (map snd all) -> fs_get g p = fs_get f p) ->
      (forall it, In it items -> fs_get g (fst it) = fs_get f (fst it)) ->
      run_batch cfg xform true c items g = run_batch cfg xform false c (until_failure cfg xform c f items) g.
Proof. exact fail_fast_prefix. Qed.
Print Assumptions C11_fail_fast_prefix.
Check C11_fail_fast_prefix :
  forall (cfg : Type) (xform : cfg -> path -> content -> fs -> option content * list path)
         (c : cfg) (all : list bitem) (f : fs),
    wf_items all -> reads_no_output cfg xform c all ->
    forall items g,
      incl items all -> NoDup (map snd items) ->
      (forall p, ~ In p (map snd all) -> fs_get g p = fs_get f p) ->
      (forall it, In it items -> fs_get g (fst it) = fs_get f (fst it)) ->
      run_batch cfg xform true c items g = run_batch cfg xform false c (until_failure cfg xform c f items) g.

Theorem C11_collect_wf :
  forall (f : fs) (input out : path) (items : list bitem),
    fs_is_file f input = false ->
    collect f input (Some out) = Some items ->
    (forall s, In s (fs_collect f input) -> starts_with out s = false) ->
    wf_items items.
Proof. exact collect_dir_wf. Qed.
Print Assumptions C11_collect_wf.
Check C11_collect_wf :
  forall (f : fs) (input out : path) (items : list bitem),
    fs_is_file f input = false ->
    collect f input (Some out) = Some items ->
    (forall s, In s (fs_collect f input) -> starts_with out s = false) ->
    wf_items items.

Theorem C11_collect_in_place_wf :
  forall (f : fs) (input : path) (items : list bitem),
    collect f input None = Some items -> wf_items items.
Proof. exact collect_in_place_wf. Qed.
Print Assumptions C11_collect_in_place_wf.
Check C11_collect_in_place_wf :
  forall (f : fs) (input : path) (items : list bitem),
    collect f input None = Some items -> wf_items items.

Theorem C11_in_place_order_refuted :
  Permutation b_items_in_place (rev b_items_in_place) /\
  fs_get (fst (run_batch N b_xform false 0 b_items_in_place b_fs)) b_main <>
  fs_get (fst (run_batch N b_xform false 0 (rev b_items_in_place) b_fs)) b_main.
Proof. exact in_place_order_refuted. Qed.
Print Assumptions C11_in_place_order_refuted.
Check C11_in_place_order_refuted :
  Permutation b_items_in_place (rev b_items_in_place) /\
  fs_get (fst (run_batch N b_xform false 0 b_items_in_place b_fs)) b_main <>
  fs_get (fst (run_batch N b_xform false 0 (rev b_items_in_place) b_fs)) b_main.

Theorem C11_fail_fast_order_refuted :
  Permutation b_items_dir (rev b_items_dir) /\
  fs_get (fst (run_batch N b_xform true 0 b_items_dir b_fs_bad)) (b_out b_a) <>
  fs_get (fst (run_batch N b_xform true 0 (rev b_items_dir) b_fs_bad)) (b_out b_a).
Proof. exact fail_fast_order_refuted. Qed.
Print Assumptions C11_fail_fast_order_refuted.
Check C11_fail_fast_order_refuted :
  Permutation b_items_dir (rev b_items_dir) /\
  fs_get (fst (run_batch N b_xform true 0 b_items_dir b_fs_bad)) (b_out b_a) <>
  fs_get (fst (run_batch N b_xform true 0 (rev b_items_dir) b_fs_bad)) (b_out b_a).

Theorem C11_instance_order_irrelevant :
  forall items' f,
    Permutation b_items_dir items' ->
    forall p, fs_get (fst (run_batch N b_xform false 0 b_items_dir f)) p =
              fs_get (fst (run_batch N b_xform false 0 items' f)) p.
Proof. exact b_dir_order_irrelevant. Qed.
Print Assumptions C11_instance_order_irrelevant.
Check C11_instance_order_irrelevant :
  forall items' f,
    Permutation b_items_dir items' ->
    forall p, fs_get (fst (run_batch N b_xform false 0 b_items_dir f)) p =
              fs_get (fst (run_batch N b_xform false 0 items' f)) p.

Theorem C11_collect_single_file :
  forall (f : fs) (input out : path) (items : list bitem),
    fs_is_file f input = true ->
    collect f input (Some out) = Some items ->
    exists o, items = [(input, o)] /\
              match output_decision (fs_is_dir f out) (fs_is_file f out) (is_some (path_extension out)) with
              | AsFile => o = out
              | InsideDirectory => exists n, file_name input = Some n /\ o = (out ++ [n])%list
              end.
Proof. exact collect_single_file. Qed.
Print Assumptions C11_collect_single_file.
Check C11_collect_single_file :
  forall (f : fs) (input out : path) (items : list bitem),
    fs_is_file f input = true ->
    collect f input (Some out) = Some items ->
    exists o, items = [(input, o)] /\
              match output_decision (fs_is_dir f out) (fs_is_file f out) (is_some (path_extension out)) with
              | AsFile => o = out
              | InsideDirectory => exists n, file_name input = Some n /\ o = (out ++ [n])%list
              end.

Theorem C11_collect_single_in_place :
  forall (f : fs) (input : path) (items : list bitem),
    fs_is_file f input = true -> fs_is_dir f input = false ->
    collect f input None = Some items ->
    forall s o, In (s, o) items <-> (s = input /\ o = input /\ is_lua_path input = true).
Proof. exact collect_single_in_place. Qed.
Print Assumptions C11_collect_single_in_place.
Check C11_collect_single_in_place :
  forall (f : fs) (input : path) (items : list bitem),
    fs_is_file f input = true -> fs_is_dir f input = false ->
    collect f input None = Some items ->
    forall s o, In (s, o) items <-> (s = input /\ o = input /\ is_lua_path input = true).

Theorem C11_stateless_run :
  forall (cfg st : Type) (xform : cfg -> path -> content -> fs -> option content * list path)
         (sxform : st -> cfg -> path -> content -> fs -> (option content * list path) * st)
         (ff : bool) (c : cfg),
    stateless cfg st xform sxform ->
    forall items f s,
      fst (run_batch_st cfg st sxform ff c items f s) = run_batch cfg xform ff c items f.
Proof. exact stateless_run. Qed.
Print Assumptions C11_stateless_run.
Check C11_stateless_run :
  forall (cfg st : Type) (xform : cfg -> path -> content -> fs -> option content * list path)
         (sxform : st -> cfg -> path -> content -> fs -> (option content * list path) * st)
         (ff : bool) (c : cfg),
    stateless cfg st xform sxform ->
    forall items f s,
      fst (run_batch_st cfg st sxform ff c items f s) = run_batch cfg xform ff c items f.

Theorem C11_earlier_state_irrelevant :
  forall (cfg st : Type) (xform : cfg -> path -> content -> fs -> option content * list path)
         (sxform : st -> cfg -> path -> content -> fs -> (option content * list path) * st)
         (ff : bool) (c : cfg) items f s s',
    stateless cfg st xform sxform ->
    fst (run_batch_st cfg st sxform ff c items f s) = fst (run_batch_st cfg st sxform ff c items f s').
Proof. exact earlier_state_irrelevant. Qed.
Print Assumptions C11_earlier_state_irrelevant.
Check C11_earlier_state_irrelevant :
  forall (cfg st : Type) (xform : cfg -> path -> content -> fs -> option content * list path)
         (sxform : st -> cfg -> path -> content -> fs -> (option content * list path) * st)
         (ff : bool) (c : cfg) items f s s',
    stateless cfg st xform sxform ->
    fst (run_batch_st cfg st sxform ff c items f s) = fst (run_batch_st cfg st sxform ff c items f s').

Theorem C11_shared_cache_order_refuted :
  Permutation rc_items (rev rc_items) /\
  fs_get (fst (fst (run_batch_st N (option content) rc_sxform false 0 rc_items rc_fs None)))
         ["out"; "nested"; "low.lua"]%string <>
  fs_get (fst (fst (run_batch_st N (option content) rc_sxform false 0 (rev rc_items) rc_fs None)))
         ["out"; "nested"; "low.lua"]%string /\
  fs_get (fst (fst (run_batch_st N (option content) rc_sxform false 0 rc_items rc_fs (Some [9]))))
         ["out"; "top.lua"]%string <>
  fs_get (fst (run_batch N rc_xform false 0 rc_items rc_fs)) ["out"; "top.lua"]%string.
Proof. exact shared_cache_order_refuted. Qed.
Print Assumptions C11_shared_cache_order_refuted.
Check C11_shared_cache_order_refuted :
  Permutation rc_items (rev rc_items) /\
  fs_get (fst (fst (run_batch_st N (option content) rc_sxform false 0 rc_items rc_fs None)))
         ["out"; "nested"; "low.lua"]%string <>
  fs_get (fst (fst (run_batch_st N (option content) rc_sxform false 0 (rev rc_items) rc_fs None)))
         ["out"; "nested"; "low.lua"]%string /\
  fs_get (fst (fst (run_batch_st N (option content) rc_sxform false 0 rc_items rc_fs (Some [9]))))
         ["out"; "top.lua"]%string <>
  fs_get (fst (run_batch N rc_xform false 0 rc_items rc_fs)) ["out"; "top.lua"]%string.
