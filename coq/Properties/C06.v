(** C06 — Luau-lowering rules preserve program behaviour: LOCAL equivalences.
    Only statements, closed by [exact], with their assumptions printed and pinned.

    Each theorem relates one rewrite of Model/Lowering.v (the model of the rule's node-level
    rewrite, tied to the Rust code on every run by vlib/lowering_gen.py) to the reference
    interpreter Lua/Sem.v: same values, same store (cells, tables, closures, trace, oracle),
    for every dialect, fuel, environment, varargs and store; the rewritten node may need more
    fuel ([exists n']).  The lifting of these local equivalences to whole programs (the
    rewritten node sits in an arbitrary context, closures capture rewritten bodies) is NOT
    proved: whole-program equivalence is validated per run by the translation-validation
    stream of vlib/c06.py (original and output executed in the Coq reference interpreter). *)
From DL Require Import Lib.Bytes Lib.F64 Lua.Syntax Lua.Sem Model.Evaluator Lua.EvalSpec Lua.EvalSpec2
  Model.Visit Model.Lowering Proof.LoweringSoundBasic Proof.LoweringSoundIf Proof.LoweringSoundBoxed
  Proof.LoweringSoundArith Proof.LoweringSoundTypes Proof.LoweringSoundInterp.
Open Scope N_scope.

(** remove_if_expression, and/or form: the condition the rule checks ([evaluate r] is a known
    truthy value) makes [c and r or e] equivalent to [if c then r else e].  [preserves_plain]:
    evaluating the condition leaves the globals table without metatable and the string
    metatable pristine (the precondition of C08's [evaluate_sound] for the store in which
    [r] runs). *)
Theorem C06_ifexpr_andor_sound : forall d n rho va c r els s vs s',
  is_truthy (evaluate r) = Some true -> deep_safe d r = true -> ctor_pure d r = true ->
  env_plain s -> preserves_plain d rho va c ->
  eval d n rho va (EIf [EBranch c r] els) s = Ok vs s' ->
  exists n', eval d n' rho va (EBinary BOr (EBinary BAnd c r) els) s = Ok vs s'.
Proof. exact ifexpr_andor_sound. Qed.
Print Assumptions C06_ifexpr_andor_sound.
Check C06_ifexpr_andor_sound : forall d n rho va c r els s vs s',
  is_truthy (evaluate r) = Some true -> deep_safe d r = true -> ctor_pure d r = true ->
  env_plain s -> preserves_plain d rho va c ->
  eval d n rho va (EIf [EBranch c r] els) s = Ok vs s' ->
  exists n', eval d n' rho va (EBinary BOr (EBinary BAnd c r) els) s = Ok vs s'.

(** ... and the rule's fold over any number of [elseif] branches (every result known truthy) *)
Theorem C06_ifexpr_andor_fold_sound : forall d n rho va bs els s vs s',
  bs <> nil -> Forall (branch_ok d rho va) bs -> env_plain s ->
  eval d n rho va (EIf bs els) s = Ok vs s' ->
  exists n', eval d n' rho va (rw_if_expression (EIf bs els)) s = Ok vs s'.
Proof. exact ifexpr_andor_fold_sound. Qed.
Print Assumptions C06_ifexpr_andor_fold_sound.
Check C06_ifexpr_andor_fold_sound : forall d n rho va bs els s vs s',
  bs <> nil -> Forall (branch_ok d rho va) bs -> env_plain s ->
  eval d n rho va (EIf bs els) s = Ok vs s' ->
  exists n', eval d n' rho va (rw_if_expression (EIf bs els)) s = Ok vs s'.

(** boxed form [(c and {r} or {e})[1]], PARTIAL: for literal / local-variable results; same
    values, final store = the original final store plus one table (the box) at the end.
    Missing: results that allocate tables (their addresses shift by one: equality only up to
    a renaming of table addresses, which needs the frame property of the whole interpreter). *)
Theorem C06_ifexpr_boxed_partial : forall d n rho va c r els s vs s',
  is_truthy (evaluate r) <> Some true -> atomic rho r = true -> atomic rho els = true ->
  eval d n rho va (EIf [EBranch c r] els) s = Ok vs s' ->
  exists n' t, eval d n' rho va (rw_if_expression (EIf [EBranch c r] els)) s = Ok vs (with_table s' t) /\
               t_meta t = None.
Proof. exact ifexpr_boxed_rule_partial. Qed.
Print Assumptions C06_ifexpr_boxed_partial.
Check C06_ifexpr_boxed_partial : forall d n rho va c r els s vs s',
  is_truthy (evaluate r) <> Some true -> atomic rho r = true -> atomic rho els = true ->
  eval d n rho va (EIf [EBranch c r] els) s = Ok vs s' ->
  exists n' t, eval d n' rho va (rw_if_expression (EIf [EBranch c r] els)) s = Ok vs (with_table s' t) /\
               t_meta t = None.

(** remove_floor_division on operands that evaluate to numbers or numeric strings, [math] not
    shadowed and bound to the library table.  Operands with metatables are outside the claim
    ([__idiv] of the original vs [__div] then [math.floor] of the output differ). *)
Theorem C06_floordiv_sound : forall d n rho va a b s vs s',
  lookup rho (lnm "math") = None -> math_floor_bound s ->
  numeric d rho va a -> numeric d rho va b ->
  eval d n rho va (EBinary BIDiv a b) s = Ok vs s' ->
  exists n', eval d n' rho va (rw_floor_division (EBinary BIDiv a b)) s = Ok vs s'.
Proof. exact floordiv_sound. Qed.
Print Assumptions C06_floordiv_sound.
Check C06_floordiv_sound : forall d n rho va a b s vs s',
  lookup rho (lnm "math") = None -> math_floor_bound s ->
  numeric d rho va a -> numeric d rho va b ->
  eval d n rho va (EBinary BIDiv a b) s = Ok vs s' ->
  exists n', eval d n' rho va (rw_floor_division (EBinary BIDiv a b)) s = Ok vs s'.

Theorem C06_initial_store_math_floor : forall orc, math_floor_bound (initial_store orc).
Proof. exact initial_store_math_floor. Qed.
Print Assumptions C06_initial_store_math_floor.
Check C06_initial_store_math_floor : forall orc, math_floor_bound (initial_store orc).

(** remove_compound_assignment on a local variable: [x op= e] => [x = x op e], provided
    evaluating [e] does not change [x] (the output reads [x] before [e], the original after) *)
Theorem C06_compound_local_sound : forall d n rho va op x a e s r s',
  lookup rho x = Some a -> compound_op op = true -> leaves_cell d rho va e s a ->
  exec_stmt d n rho va (SCompound op (EIdent x) e) s = Ok r s' ->
  exists n', exec_stmt d n' rho va (rw_compound_assign (SCompound op (EIdent x) e)) s = Ok r s'.
Proof. exact compound_local_sound. Qed.
Print Assumptions C06_compound_local_sound.
Check C06_compound_local_sound : forall d n rho va op x a e s r s',
  lookup rho x = Some a -> compound_op op = true -> leaves_cell d rho va e s a ->
  exec_stmt d n rho va (SCompound op (EIdent x) e) s = Ok r s' ->
  exists n', exec_stmt d n' rho va (rw_compound_assign (SCompound op (EIdent x) e)) s = Ok r s'.

(** ... on a global variable (not an [ext...] name, which reads as an external function when
    nil): same proviso, and the globals table keeps no metatable *)
Theorem C06_compound_global_sound : forall d n rho va op x e s r s',
  lookup rho x = None -> is_ext_name x = false -> compound_op op = true -> leaves_global d rho va e s x ->
  exec_stmt d n rho va (SCompound op (EIdent x) e) s = Ok r s' ->
  exists n', exec_stmt d n' rho va (rw_compound_assign (SCompound op (EIdent x) e)) s = Ok r s'.
Proof. exact compound_global_sound. Qed.
Print Assumptions C06_compound_global_sound.
Check C06_compound_global_sound : forall d n rho va op x e s r s',
  lookup rho x = None -> is_ext_name x = false -> compound_op op = true -> leaves_global d rho va e s x ->
  exec_stmt d n rho va (SCompound op (EIdent x) e) s = Ok r s' ->
  exists n', exec_stmt d n' rho va (rw_compound_assign (SCompound op (EIdent x) e)) s = Ok r s'.

(** ... and without that proviso the two differ in the reference semantics *)
Theorem C06_compound_order_refuted :
  exists rho st s r s' r2 s2,
    exec_stmt Luau 20 rho nil st s = Ok r s' /\
    exec_stmt Luau 20 rho nil (rw_compound_assign st) s = Ok r2 s2 /\ cells s' <> cells s2.
Proof. exact compound_order_refuted. Qed.
Print Assumptions C06_compound_order_refuted.
Check C06_compound_order_refuted :
  exists rho st s r s' r2 s2,
    exec_stmt Luau 20 rho nil st s = Ok r s' /\
    exec_stmt Luau 20 rho nil (rw_compound_assign st) s = Ok r2 s2 /\ cells s' <> cells s2.

(** regression witness of the repaired interpolated-string-key defect: the key is evaluated once *)
Theorem C06_compound_interp_key_once :
  run_chunk Luau 100 nil interp_key_witness = OutOk nil (RNum 4622382067542392832 :: RNum 4607182418800017408 :: nil) /\
  run_chunk Luau 100 nil (rule_compound_assign interp_key_witness) = OutOk nil (RNum 4622382067542392832 :: RNum 4607182418800017408 :: nil) /\
  run_chunk L51 100 nil (rule_compound_assign interp_key_witness) = OutOk nil (RNum 4622382067542392832 :: RNum 4607182418800017408 :: nil).
Proof. exact compound_interp_key_once. Qed.
Print Assumptions C06_compound_interp_key_once.
Check C06_compound_interp_key_once :
  run_chunk Luau 100 nil interp_key_witness = OutOk nil (RNum 4622382067542392832 :: RNum 4607182418800017408 :: nil) /\
  run_chunk Luau 100 nil (rule_compound_assign interp_key_witness) = OutOk nil (RNum 4622382067542392832 :: RNum 4607182418800017408 :: nil) /\
  run_chunk L51 100 nil (rule_compound_assign interp_key_witness) = OutOk nil (RNum 4622382067542392832 :: RNum 4607182418800017408 :: nil).

(** remove_interpolated_string, one value segment (both strategies): [`{v}`] => [tostring(v)],
    [tostring] not shadowed and bound to the builtin.  (Several segments go through
    [string.format]: no local theorem.) *)
Theorem C06_interp_single_sound : forall st d n rho va v s vs s',
  lookup rho (lnm "tostring") = None -> tostring_bound s ->
  eval d n rho va (EInterp (ISExpr v :: nil)) s = Ok vs s' ->
  exists n', eval d n' rho va (rw_interpolated_string st (EInterp (ISExpr v :: nil))) s = Ok vs s'.
Proof. exact interp_single_sound. Qed.
Print Assumptions C06_interp_single_sound.
Check C06_interp_single_sound : forall st d n rho va v s vs s',
  lookup rho (lnm "tostring") = None -> tostring_bound s ->
  eval d n rho va (EInterp (ISExpr v :: nil)) s = Ok vs s' ->
  exists n', eval d n' rho va (rw_interpolated_string st (EInterp (ISExpr v :: nil))) s = Ok vs s'.

(** convert_luau_number: the literal's value is unchanged, bit for bit *)
Theorem C06_luau_number_sound : forall n, number_value (rw_luau_number n) = number_value n.
Proof. exact luau_number_sound. Qed.
Print Assumptions C06_luau_number_sound.
Check C06_luau_number_sound : forall n, number_value (rw_luau_number n) = number_value n.

Theorem C06_luau_number_eval_sound : forall d n rho va x s,
  eval d n rho va (rw_luau_number_expr (ENumber x)) s = eval d n rho va (ENumber x) s.
Proof. exact luau_number_eval_sound. Qed.
Print Assumptions C06_luau_number_eval_sound.
Check C06_luau_number_eval_sound : forall d n rho va x s,
  eval d n rho va (rw_luau_number_expr (ENumber x)) s = eval d n rho va (ENumber x) s.

(** make_assignment_local *)
Theorem C06_const_sound : forall d n rho va c vars vals s,
  exec_stmt d n rho va (rw_const (SLocal c vars vals)) s = exec_stmt d n rho va (SLocal c vars vals) s.
Proof. exact const_sound. Qed.
Print Assumptions C06_const_sound.
Check C06_const_sound : forall d n rho va c vars vals s,
  exec_stmt d n rho va (rw_const (SLocal c vars vals)) s = exec_stmt d n rho va (SLocal c vars vals) s.

(** remove_types: a cast is the first value of its operand *)
Theorem C06_types_cast_first : forall d n rho va e t s,
  eval d (S (S n)) rho va (ETypeCast e t) s = (vs <- eval d n rho va e ;; ret (first vs :: nil)) s.
Proof. exact types_cast_first. Qed.
Print Assumptions C06_types_cast_first.
Check C06_types_cast_first : forall d n rho va e t s,
  eval d (S (S n)) rho va (ETypeCast e t) s = (vs <- eval d n rho va e ;; ret (first vs :: nil)) s.

(** ... so erasing nested casts / instantiations (parentheses around a callee that may return
    several values) keeps values and store *)
Theorem C06_strip_types_sound : forall e d n rho va s vs s',
  eval d n rho va e s = Ok vs s' ->
  exists n', (n' <= n)%nat /\ eval d n' rho va (strip_types e) s = Ok vs s'.
Proof. exact strip_types_sound. Qed.
Print Assumptions C06_strip_types_sound.
Check C06_strip_types_sound : forall e d n rho va s vs s',
  eval d n rho va e s = Ok vs s' ->
  exists n', (n' <= n)%nat /\ eval d n' rho va (strip_types e) s = Ok vs s'.

Theorem C06_types_prefix_sound : forall p d n rho va s v s',
  eval1 d n rho va p s = Ok v s' ->
  exists n', (n' <= n)%nat /\ eval1 d n' rho va (rw_types_prefix p) s = Ok v s'.
Proof. exact types_prefix_sound. Qed.
Print Assumptions C06_types_prefix_sound.
Check C06_types_prefix_sound : forall p d n rho va s v s',
  eval1 d n rho va p s = Ok v s' ->
  exists n', (n' <= n)%nat /\ eval1 d n' rho va (rw_types_prefix p) s = Ok v s'.

(** annotations on declared locals *)
Theorem C06_types_local_sound : forall d n rho va c vars vals s,
  exec_stmt d n rho va (rw_types_stmt (SLocal c vars vals)) s = exec_stmt d n rho va (SLocal c vars vals) s.
Proof. exact types_local_sound. Qed.
Print Assumptions C06_types_local_sound.
Check C06_types_local_sound : forall d n rho va c vars vals s,
  exec_stmt d n rho va (rw_types_stmt (SLocal c vars vals)) s = exec_stmt d n rho va (SLocal c vars vals) s.

(** dropping the type declarations of a block *)
Theorem C06_types_block_sound : forall d n rho va b s r s',
  exec_block d n rho va b s = Ok r s' ->
  exists n', exec_block d n' rho va (rw_types_block b) s = Ok r s'.
Proof. exact types_block_sound. Qed.
Print Assumptions C06_types_block_sound.
Check C06_types_block_sound : forall d n rho va b s r s',
  exec_block d n rho va b s = Ok r s' ->
  exists n', exec_block d n' rho va (rw_types_block b) s = Ok r s'.
