(** C06 — interim property file: the local-equivalence lemmas are being proved. *)
From DL Require Import Lib.Bytes Lua.Syntax Lua.Sem Lua.RunCheck.
Open Scope N_scope.

Theorem C06_outcome_eqb_refl_nil : outcome_eqb (OutOk [] []) (OutOk [] []) = true.
Proof. reflexivity. Qed.
Print Assumptions C06_outcome_eqb_refl_nil.
Check C06_outcome_eqb_refl_nil : outcome_eqb (OutOk [] []) (OutOk [] []) = true.
