(** C17 - Removal and injection rules change exactly what they name.
    Only statements, closed by [exact], with their assumptions printed and pinned.

    LOCAL theorems about the Gallina models (Model/Removal.v) of what remove_assertions,
    remove_debug_profiling and inject_global_value put in place of a node, against the reference
    interpreter (Lua/Sem.v): for every dialect, fuel, environment, varargs and store.  They are
    RELATIONAL: the original node is run with the targeted function bound to a no-op / to
    [function(...) return ... end] / the global preset, the replacement in the unmodified
    environment.  Statements have the form "if the original evaluates (without error, with enough
    fuel) to this result and store, so does the replacement for every sufficiently large fuel"
    (the property quantifies over error-free original runs); fuel monotonicity: Proof/LoweringFuel.v.

    NOT proved: the lifting of these local equivalences to whole programs (the traversal, i.e.
    that every occurrence is rewritten under the right scope and nothing else is).  Whole-program
    equivalence is VALIDATED on every run by the translation-validation streams of vlib/c17.py
    (generated programs and templates pushed through the real rules, reference run vs run of the
    output in the Coq interpreter), and the models are tied to the Rust code by the correspondence
    stream (block_eqb (model_rule IN) OUT on templates hitting every arm).  Three recorded
    findings are stated as [_refuted] witnesses. *)
From Coq Require Import ZArith NArith List Bool String.
From DL Require Import Lib.Bytes Lib.F64 Lua.Syntax Lua.Sem Lua.EvalSpec Lua.DataSpec Lua.RunCheck.
From DL Require Import Model.Evaluator Model.Removal Model.RemovalKnown.
From DL Require Import Proof.RefactorSem Proof.RemovalSoundValue Proof.RemovalSoundStmt Proof.RemovalSoundInject Proof.RemovalSoundNested.
From DL Require Import Proof.SerializerSound Proof.SerializerTheorems.
Import ListNotations.
Open Scope N_scope.

(** VALUE POSITION. What the rules leave for the kept arguments [es] of a removed call, [(e1 or true) and ((e2 or true) and nil)], evaluates every [e] once, in order, and yields [nil] ... *)
Theorem C17_expressions_as_expression_sound :
  forall (d : dialect) (rho : env) (va : list value) (es : list expr) (s s' : store),
  evals_in_order d rho va es s s' ->
  exists m : nat,
  forall j : nat, (m <= j)%nat -> eval d j rho va (expressions_as_expression es) s = Ok [VNil] s'.
Proof. exact expressions_as_expression_sound. Qed.
Print Assumptions C17_expressions_as_expression_sound.
Check C17_expressions_as_expression_sound :
  forall (d : dialect) (rho : env) (va : list value) (es : list expr) (s s' : store),
  evals_in_order d rho va es s s' ->
  exists m : nat,
  forall j : nat, (m <= j)%nat -> eval d j rho va (expressions_as_expression es) s = Ok [VNil] s'.

(** ... and can do nothing else. *)
Theorem C17_expressions_as_expression_inv :
  forall (d : dialect) (rho : env) (va : list value) (es : list expr) (j : nat) 
  (s : store) (r : list value) (s' : store),
  eval d j rho va (expressions_as_expression es) s = Ok r s' ->
  r = [VNil] /\ evals_in_order d rho va es s s'.
Proof. exact expressions_as_expression_inv. Qed.
Print Assumptions C17_expressions_as_expression_inv.
Check C17_expressions_as_expression_inv :
  forall (d : dialect) (rho : env) (va : list value) (es : list expr) (j : nat) 
  (s : store) (r : list value) (s' : store),
  eval d j rho va (expressions_as_expression es) s = Ok r s' ->
  r = [VNil] /\ evals_in_order d rho va es s s'.

(** remove_debug_profiling, single-value position: the call of a no-op ([noop_callee]: the callee evaluates without effect to a function that returns nothing and leaves the store alone when called on these arguments) yields [nil] and leaves the store the replacement leaves. Arguments are either kept ([has_side_effects]) or dropped and quiet (their evaluation changes no store; [simple_quiet_quiet]: literals, locals, [...], parentheses, [not]). *)
Theorem C17_profile_value_removal_sound :
  forall (d : dialect) (rho : env) (va : list value) (n : nat) (p : expr) (es : list expr) 
  (s : store) (v : value) (s' : store),
  noop_callee d rho va p es s ->
  Forall (kept_or_quiet d rho va) es ->
  eval1 d n rho va (ECall p None (ATuple es)) s = Ok v s' ->
  v = VNil /\
  (exists m : nat,
  forall j : nat,
  (m <= j)%nat ->
  eval1 d j rho va (expressions_as_expression (preserve_args (ATuple es))) s = Ok VNil s').
Proof. exact profile_value_removal_sound. Qed.
Print Assumptions C17_profile_value_removal_sound.
Check C17_profile_value_removal_sound :
  forall (d : dialect) (rho : env) (va : list value) (n : nat) (p : expr) (es : list expr) 
  (s : store) (v : value) (s' : store),
  noop_callee d rho va p es s ->
  Forall (kept_or_quiet d rho va) es ->
  eval1 d n rho va (ECall p None (ATuple es)) s = Ok v s' ->
  v = VNil /\
  (exists m : nat,
  forall j : nat,
  (m <= j)%nat ->
  eval1 d j rho va (expressions_as_expression (preserve_args (ATuple es))) s = Ok VNil s').

Theorem C17_simple_quiet_quiet :
  forall (d : dialect) (rho : env) (va : list value) (e : expr),
  simple_quiet rho e = true -> quiet d rho va e.
Proof. exact simple_quiet_quiet. Qed.
Print Assumptions C17_simple_quiet_quiet.
Check C17_simple_quiet_quiet :
  forall (d : dialect) (rho : env) (va : list value) (e : expr),
  simple_quiet rho e = true -> quiet d rho va e.

(** Recorded finding (key remove_call:removed-call-in-multivalue-tail-yields-one-nil): in multi-value position the no-op yields NO value, the replacement ONE. *)
Theorem C17_profile_value_tail_refuted :
  exists
  (dl : dialect) (rho : env) (va : list value) (p : expr) (s : store) (r1 r2 : list value)
  (s1 s2 : store),
  eval dl 12 rho va (ECall p None (ATuple [])) s = Ok r1 s1 /\
  eval dl 12 rho va (expressions_as_expression (preserve_args (ATuple []))) s = Ok r2 s2 /\
  r1 = [] /\ r2 = [VNil].
Proof. exact profile_value_tail_refuted. Qed.
Print Assumptions C17_profile_value_tail_refuted.
Check C17_profile_value_tail_refuted :
  exists
  (dl : dialect) (rho : env) (va : list value) (p : expr) (s : store) (r1 r2 : list value)
  (s1 s2 : store),
  eval dl 12 rho va (ECall p None (ATuple [])) s = Ok r1 s1 /\
  eval dl 12 rho va (expressions_as_expression (preserve_args (ATuple []))) s = Ok r2 s2 /\
  r1 = [] /\ r2 = [VNil].

Theorem C17_profile_tail_refuted :
  run_chunk L51 40 [] (with_noop_profiling (count_values call_profileend)) =
  OutOk [] [RNum (to_bits (of_Z 0))] /\
  run_chunk L51 40 [] (rule_remove_debug_profiling true (count_values call_profileend)) =
  OutOk [] [RNum (to_bits (of_Z 1))].
Proof. exact profile_tail_refuted. Qed.
Print Assumptions C17_profile_tail_refuted.
Check C17_profile_tail_refuted :
  run_chunk L51 40 [] (with_noop_profiling (count_values call_profileend)) =
  OutOk [] [RNum (to_bits (of_Z 0))] /\
  run_chunk L51 40 [] (rule_remove_debug_profiling true (count_values call_profileend)) =
  OutOk [] [RNum (to_bits (of_Z 1))].

Theorem C17_assert_tail_refuted :
  run_chunk L51 40 [] (with_identity_assert (count_values (call_assert []))) =
  OutOk [] [RNum (to_bits (of_Z 0))] /\
  run_chunk L51 40 [] (rule_remove_assertions true (count_values (call_assert []))) =
  OutOk [] [RNum (to_bits (of_Z 1))].
Proof. exact assert_tail_refuted. Qed.
Print Assumptions C17_assert_tail_refuted.
Check C17_assert_tail_refuted :
  run_chunk L51 40 [] (with_identity_assert (count_values (call_assert []))) =
  OutOk [] [RNum (to_bits (of_Z 0))] /\
  run_chunk L51 40 [] (rule_remove_assertions true (count_values (call_assert []))) =
  OutOk [] [RNum (to_bits (of_Z 1))].

(** remove_assertions, value position, [assert] bound to [function(...) return ... end] ([identity_callee]): [assert()] yields no value and has no effect (the rule writes [nil]: equal in single-value position only, see above); [assert(e)] is [e] with all its values; [assert(e1, e2, ...)] is [select(1, e1, e2, ...)] where [sel] ([select] or the alias the rule declares when [select] is shadowed) denotes the builtin. *)
Theorem C17_assert_value_removal_sound_0 :
  forall (d : dialect) (rho : env) (va : list value) (n : nat) (p : expr) (s : store) 
  (r : list value) (s' : store),
  identity_callee d rho va p [] s ->
  eval d n rho va (ECall p None (ATuple [])) s = Ok r s' ->
  r = [] /\ s' = s /\ assert_result false [] = ENil.
Proof. exact assert_value_removal_sound_0. Qed.
Print Assumptions C17_assert_value_removal_sound_0.
Check C17_assert_value_removal_sound_0 :
  forall (d : dialect) (rho : env) (va : list value) (n : nat) (p : expr) (s : store) 
  (r : list value) (s' : store),
  identity_callee d rho va p [] s ->
  eval d n rho va (ECall p None (ATuple [])) s = Ok r s' ->
  r = [] /\ s' = s /\ assert_result false [] = ENil.

Theorem C17_assert_value_removal_sound_1 :
  forall (d : dialect) (rho : env) (va : list value) (n : nat) (p e : expr) 
  (s : store) (r : list value) (s' : store),
  identity_callee d rho va p [e] s ->
  eval d n rho va (ECall p None (ATuple [e])) s = Ok r s' ->
  assert_result false [e] = e /\ (forall j : nat, (n <= j)%nat -> eval d j rho va e s = Ok r s').
Proof. exact assert_value_removal_sound_1. Qed.
Print Assumptions C17_assert_value_removal_sound_1.
Check C17_assert_value_removal_sound_1 :
  forall (d : dialect) (rho : env) (va : list value) (n : nat) (p e : expr) 
  (s : store) (r : list value) (s' : store),
  identity_callee d rho va p [e] s ->
  eval d n rho va (ECall p None (ATuple [e])) s = Ok r s' ->
  assert_result false [e] = e /\ (forall j : nat, (n <= j)%nat -> eval d j rho va e s = Ok r s').

Theorem C17_assert_value_removal_sound_many :
  forall (d : dialect) (rho : env) (va : list value) (n : nat) (p : expr) (sel : name) 
  (es : list expr) (s : store) (r : list value) (s' : store),
  identity_callee d rho va p es s ->
  (2 <= Datatypes.length es)%nat ->
  reads rho sel s (VBuiltin B_select) ->
  eval d n rho va (ECall p None (ATuple es)) s = Ok r s' ->
  forall j : nat,
  (n + 4 <= j)%nat -> eval d j rho va (ECall (EIdent sel) None (ATuple (one :: es))) s = Ok r s'.
Proof. exact assert_value_removal_sound_many. Qed.
Print Assumptions C17_assert_value_removal_sound_many.
Check C17_assert_value_removal_sound_many :
  forall (d : dialect) (rho : env) (va : list value) (n : nat) (p : expr) (sel : name) 
  (es : list expr) (s : store) (r : list value) (s' : store),
  identity_callee d rho va p es s ->
  (2 <= Datatypes.length es)%nat ->
  reads rho sel s (VBuiltin B_select) ->
  eval d n rho va (ECall p None (ATuple es)) s = Ok r s' ->
  forall j : nat,
  (n + 4 <= j)%nat -> eval d j rho va (ECall (EIdent sel) None (ATuple (one :: es))) s = Ok r s'.

(** STATEMENT POSITION. Kept arguments that are calls (under parentheses / casts) become call statements: the statement [expressions_as_statement] builds runs them in order, same environment, same store. *)
Theorem C17_calls_as_statement_sound :
  forall (d : dialect) (rho : env) (va : list value) (es : list expr) (s s' : store),
  evals_in_order d rho va es s s' ->
  Forall (fun e : expr => is_call (inner_expr e) = true) es ->
  exists m : nat,
  forall j : nat,
  (m <= j)%nat -> exec_stmt d j rho va (expressions_as_statement es) s = Ok (rho, SigNone) s'.
Proof. exact calls_as_statement_sound. Qed.
Print Assumptions C17_calls_as_statement_sound.
Check C17_calls_as_statement_sound :
  forall (d : dialect) (rho : env) (va : list value) (es : list expr) (s s' : store),
  evals_in_order d rho va es s s' ->
  Forall (fun e : expr => is_call (inner_expr e) = true) es ->
  exists m : nat,
  forall j : nat,
  (m <= j)%nat -> exec_stmt d j rho va (expressions_as_statement es) s = Ok (rho, SigNone) s'.

(** The removed call statement, callee a no-op or the identity, dropped arguments quiet, kept arguments calls: the original (run with that callee) and what the rule leaves end in the same environment and the same store. *)
Theorem C17_removed_call_stmt_sound :
  forall (d : dialect) (rho : env) (va : list value) (n : nat) (p : expr) (es : list expr) 
  (s : store) (rho' : env) (sg : signal) (s' : store),
  noop_callee d rho va p es s \/ identity_callee d rho va p es s ->
  Forall (kept_or_quiet d rho va) es ->
  Forall (fun e : expr => is_call (inner_expr e) = true) (filter hse es) ->
  exec_stmt d n rho va (SCall (ECall p None (ATuple es))) s = Ok (rho', sg) s' ->
  exists m : nat,
  forall j : nat,
  (m <= j)%nat ->
  exec_stmt d j rho va (expressions_as_statement (preserve_args (ATuple es))) s = Ok (rho', sg) s'.
Proof. exact removed_call_stmt_sound. Qed.
Print Assumptions C17_removed_call_stmt_sound.
Check C17_removed_call_stmt_sound :
  forall (d : dialect) (rho : env) (va : list value) (n : nat) (p : expr) (es : list expr) 
  (s : store) (rho' : env) (sg : signal) (s' : store),
  noop_callee d rho va p es s \/ identity_callee d rho va p es s ->
  Forall (kept_or_quiet d rho va) es ->
  Forall (fun e : expr => is_call (inner_expr e) = true) (filter hse es) ->
  exec_stmt d n rho va (SCall (ECall p None (ATuple es))) s = Ok (rho', sg) s' ->
  exists m : nat,
  forall j : nat,
  (m <= j)%nat ->
  exec_stmt d j rho va (expressions_as_statement (preserve_args (ATuple es))) s = Ok (rho', sg) s'.

Theorem C17_removed_call_stmt_sound_at :
  forall (d : dialect) (rho : env) (va : list value) (n : nat) (p : expr) (es : list expr) 
  (s : store) (rho' : env) (sg : signal) (s' : store),
  inert_callee_at d rho va p es s ->
  Forall (kept_or_quiet d rho va) es ->
  Forall (fun e : expr => is_call (inner_expr e) = true) (filter hse es) ->
  exec_stmt d n rho va (SCall (ECall p None (ATuple es))) s = Ok (rho', sg) s' ->
  exists m : nat,
  forall j : nat,
  (m <= j)%nat ->
  exec_stmt d j rho va (expressions_as_statement (preserve_args (ATuple es))) s = Ok (rho', sg) s'.
Proof. exact removed_call_stmt_sound_at. Qed.
Print Assumptions C17_removed_call_stmt_sound_at.
Check C17_removed_call_stmt_sound_at :
  forall (d : dialect) (rho : env) (va : list value) (n : nat) (p : expr) (es : list expr) 
  (s : store) (rho' : env) (sg : signal) (s' : store),
  inert_callee_at d rho va p es s ->
  Forall (kept_or_quiet d rho va) es ->
  Forall (fun e : expr => is_call (inner_expr e) = true) (filter hse es) ->
  exec_stmt d n rho va (SCall (ECall p None (ATuple es))) s = Ok (rho', sg) s' ->
  exists m : nat,
  forall j : nat,
  (m <= j)%nat ->
  exec_stmt d j rho va (expressions_as_statement (preserve_args (ATuple es))) s = Ok (rho', sg) s'.

(** ... instantiated on the models of the two rules' [process_statement] ([rc_stmt]); the name must not be shadowed ([in_scope ... = false], the tracker of Model/Removal.v). *)
Theorem C17_assert_removal_sound :
  forall (d : dialect) (rho : env) (va : list value) (n : nat) (sc : list name) 
  (es : list expr) (s : store) (rho' : env) (sg : signal) (s' : store),
  in_scope nm_assert sc = false ->
  noop_callee d rho va (EIdent nm_assert) es s \/ identity_callee d rho va (EIdent nm_assert) es s ->
  Forall (kept_or_quiet d rho va) es ->
  Forall (fun e : expr => is_call (inner_expr e) = true) (filter hse es) ->
  exec_stmt d n rho va (SCall (ECall (EIdent nm_assert) None (ATuple es))) s = Ok (rho', sg) s' ->
  exists m : nat,
  forall j : nat,
  (m <= j)%nat ->
  exec_stmt d j rho va
  (rc_stmt assert_matcher true sc (SCall (ECall (EIdent nm_assert) None (ATuple es)))) s =
  Ok (rho', sg) s'.
Proof. exact assert_removal_sound. Qed.
Print Assumptions C17_assert_removal_sound.
Check C17_assert_removal_sound :
  forall (d : dialect) (rho : env) (va : list value) (n : nat) (sc : list name) 
  (es : list expr) (s : store) (rho' : env) (sg : signal) (s' : store),
  in_scope nm_assert sc = false ->
  noop_callee d rho va (EIdent nm_assert) es s \/ identity_callee d rho va (EIdent nm_assert) es s ->
  Forall (kept_or_quiet d rho va) es ->
  Forall (fun e : expr => is_call (inner_expr e) = true) (filter hse es) ->
  exec_stmt d n rho va (SCall (ECall (EIdent nm_assert) None (ATuple es))) s = Ok (rho', sg) s' ->
  exists m : nat,
  forall j : nat,
  (m <= j)%nat ->
  exec_stmt d j rho va
  (rc_stmt assert_matcher true sc (SCall (ECall (EIdent nm_assert) None (ATuple es)))) s =
  Ok (rho', sg) s'.

Theorem C17_profile_removal_sound :
  forall (d : dialect) (rho : env) (va : list value) (n : nat) (sc : list name) 
  (f : name) (es : list expr) (s : store) (rho' : env) (sg : signal) (s' : store),
  in_scope nm_debug sc = false ->
  f = nm_profilebegin \/ f = nm_profileend ->
  noop_callee d rho va (EField (EIdent nm_debug) f) es s \/
  identity_callee d rho va (EField (EIdent nm_debug) f) es s ->
  Forall (kept_or_quiet d rho va) es ->
  Forall (fun e : expr => is_call (inner_expr e) = true) (filter hse es) ->
  exec_stmt d n rho va (SCall (ECall (EField (EIdent nm_debug) f) None (ATuple es))) s =
  Ok (rho', sg) s' ->
  exists m : nat,
  forall j : nat,
  (m <= j)%nat ->
  exec_stmt d j rho va
  (rc_stmt profile_matcher true sc (SCall (ECall (EField (EIdent nm_debug) f) None (ATuple es)))) s =
  Ok (rho', sg) s'.
Proof. exact profile_removal_sound. Qed.
Print Assumptions C17_profile_removal_sound.
Check C17_profile_removal_sound :
  forall (d : dialect) (rho : env) (va : list value) (n : nat) (sc : list name) 
  (f : name) (es : list expr) (s : store) (rho' : env) (sg : signal) (s' : store),
  in_scope nm_debug sc = false ->
  f = nm_profilebegin \/ f = nm_profileend ->
  noop_callee d rho va (EField (EIdent nm_debug) f) es s \/
  identity_callee d rho va (EField (EIdent nm_debug) f) es s ->
  Forall (kept_or_quiet d rho va) es ->
  Forall (fun e : expr => is_call (inner_expr e) = true) (filter hse es) ->
  exec_stmt d n rho va (SCall (ECall (EField (EIdent nm_debug) f) None (ATuple es))) s =
  Ok (rho', sg) s' ->
  exists m : nat,
  forall j : nat,
  (m <= j)%nat ->
  exec_stmt d j rho va
  (rc_stmt profile_matcher true sc (SCall (ECall (EField (EIdent nm_debug) f) None (ATuple es)))) s =
  Ok (rho', sg) s'.

(** The hypotheses on the callee are satisfiable by real closures ([function() end], [function(...) return ... end]). *)
Theorem C17_noop_callee_example :
  noop_callee L51 rho_noop [] (EIdent (of_string "f")) es3 st_noop.
Proof. exact noop_callee_example. Qed.
Print Assumptions C17_noop_callee_example.
Check C17_noop_callee_example :
  noop_callee L51 rho_noop [] (EIdent (of_string "f")) es3 st_noop.

Theorem C17_identity_callee_example :
  identity_callee L51 rho_noop [] (EIdent (of_string "f")) es3 st_ident.
Proof. exact identity_callee_example. Qed.
Print Assumptions C17_identity_callee_example.
Check C17_identity_callee_example :
  identity_callee L51 rho_noop [] (EIdent (of_string "f")) es3 st_ident.

(** A kept argument that is not a call becomes [local _ = e]: evaluated once; the store differs from the reference ONLY by one fresh cell, the environment by a binding of [_] ... *)
Theorem C17_local_underscore_sound :
  forall (d : dialect) (rho : env) (va : list value) (k : nat) (e : expr) (s : store) 
  (vs : list value) (s1 : store),
  eval d k rho va e s = Ok vs s1 ->
  is_call (inner_expr e) = false ->
  exists (k' : nat) (vs' : list value),
  eval d k' rho va (inner_expr e) s = Ok vs' s1 /\
  first vs' = first vs /\
  (forall j : nat,
  (k' + 2 <= j)%nat ->
  exec_stmt d j rho va (expressions_as_statement [e]) s =
  Ok ((nm_underscore, N.of_nat (Datatypes.length (cells s1))) :: rho, SigNone)
  {|
  cells := cells s1 ++ [first vs'];
  tables := tables s1;
  closures := closures s1;
  trace := trace s1;
  oracle := oracle s1;
  fresh := fresh s1
  |}).
Proof. exact local_underscore_sound. Qed.
Print Assumptions C17_local_underscore_sound.
Check C17_local_underscore_sound :
  forall (d : dialect) (rho : env) (va : list value) (k : nat) (e : expr) (s : store) 
  (vs : list value) (s1 : store),
  eval d k rho va e s = Ok vs s1 ->
  is_call (inner_expr e) = false ->
  exists (k' : nat) (vs' : list value),
  eval d k' rho va (inner_expr e) s = Ok vs' s1 /\
  first vs' = first vs /\
  (forall j : nat,
  (k' + 2 <= j)%nat ->
  exec_stmt d j rho va (expressions_as_statement [e]) s =
  Ok ((nm_underscore, N.of_nat (Datatypes.length (cells s1))) :: rho, SigNone)
  {|
  cells := cells s1 ++ [first vs'];
  tables := tables s1;
  closures := closures s1;
  trace := trace s1;
  oracle := oracle s1;
  fresh := fresh s1
  |}).

(** ... which can shadow a user variable (recorded finding, key expressions_as_statement:local-underscore-shadows-user-variable). *)
Theorem C17_local_underscore_shadows_rule_refuted :
  exists (b : block) (tr1 : list event) (v1 : rvalue) (tr2 : list event) (v2 : rvalue),
  run_chunk L51 30 [] b = OutOk tr1 [v1] /\
  run_chunk L51 30 [] (rule_remove_debug_profiling true b) = OutOk tr2 [v2] /\
  v1 = RNum (to_bits (of_Z 5)) /\ v2 = RBool true.
Proof. exact local_underscore_shadows_rule_refuted. Qed.
Print Assumptions C17_local_underscore_shadows_rule_refuted.
Check C17_local_underscore_shadows_rule_refuted :
  exists (b : block) (tr1 : list event) (v1 : rvalue) (tr2 : list event) (v2 : rvalue),
  run_chunk L51 30 [] b = OutOk tr1 [v1] /\
  run_chunk L51 30 [] (rule_remove_debug_profiling true b) = OutOk tr2 [v2] /\
  v1 = RNum (to_bits (of_Z 5)) /\ v2 = RBool true.

(** Recorded finding (key remove_call:directly-nested-removed-call-survives): the node a hook leaves is not processed again. *)
Theorem C17_assert_nested_refuted :
  rule_remove_assertions true nested_assert = Block [SCall (call_assert [EFalse])] None /\
  run_chunk L51 40 [] (with_identity_assert nested_assert) = OutOk [] [] /\
  run_chunk L51 40 [] (rule_remove_assertions true nested_assert) = OutErr [].
Proof. exact assert_nested_refuted. Qed.
Print Assumptions C17_assert_nested_refuted.
Check C17_assert_nested_refuted :
  rule_remove_assertions true nested_assert = Block [SCall (call_assert [EFalse])] None /\
  run_chunk L51 40 [] (with_identity_assert nested_assert) = OutOk [] [] /\
  run_chunk L51 40 [] (rule_remove_assertions true nested_assert) = OutErr [].

Theorem C17_assert_nested_value_refuted :
  run_chunk L51 40 [] (with_identity_assert nested_assert_value) = OutOk [] [RBool false] /\
  run_chunk L51 40 [] (rule_remove_assertions true nested_assert_value) = OutErr [].
Proof. exact assert_nested_value_refuted. Qed.
Print Assumptions C17_assert_nested_value_refuted.
Check C17_assert_nested_value_refuted :
  run_chunk L51 40 [] (with_identity_assert nested_assert_value) = OutOk [] [RBool false] /\
  run_chunk L51 40 [] (rule_remove_assertions true nested_assert_value) = OutErr [].

(** INJECTION. The literal the rule writes for a scalar JSON value evaluates to that value, in any environment and store, without effect (integers below 2^53: no axiom; all integers: Flocq's rounding theorem). *)
Theorem C17_inject_scalar_expr_sound_exact :
  forall (d : dialect) (j : json) (v : value) (e : expr) (rho : env) (va : list value) (s : store),
  ints_exact (json_data j) ->
  scalar_value j = Some v ->
  value_expr j = Some e -> forall k : nat, (5 <= k)%nat -> eval d k rho va e s = Ok [v] s.
Proof. exact inject_scalar_expr_sound_exact. Qed.
Print Assumptions C17_inject_scalar_expr_sound_exact.
Check C17_inject_scalar_expr_sound_exact :
  forall (d : dialect) (j : json) (v : value) (e : expr) (rho : env) (va : list value) (s : store),
  ints_exact (json_data j) ->
  scalar_value j = Some v ->
  value_expr j = Some e -> forall k : nat, (5 <= k)%nat -> eval d k rho va e s = Ok [v] s.

Theorem C17_inject_scalar_expr_sound :
  forall (d : dialect) (j : json) (v : value) (e : expr) (rho : env) (va : list value) (s : store),
  scalar_value j = Some v ->
  value_expr j = Some e -> forall k : nat, (5 <= k)%nat -> eval d k rho va e s = Ok [v] s.
Proof. exact inject_scalar_expr_sound. Qed.
Print Assumptions C17_inject_scalar_expr_sound.
Check C17_inject_scalar_expr_sound :
  forall (d : dialect) (j : json) (v : value) (e : expr) (rho : env) (va : list value) (s : store),
  scalar_value j = Some v ->
  value_expr j = Some e -> forall k : nat, (5 <= k)%nat -> eval d k rho va e s = Ok [v] s.

(** Reading the unshadowed global [x] that holds [v] ([reads]: no metamethod runs) and evaluating what the rule puts there give the same value and leave the store alone; likewise for [_G.x], [_G["x"]] when [_G] is the globals table, and in prefix position (parenthesised literal). *)
Theorem C17_inject_ident_sound_exact :
  forall (d : dialect) (j : json) (v : value) (e : expr) (x : name) (sc : list name) 
  (rho : env) (va : list value) (s : store),
  ints_exact (json_data j) ->
  scalar_value j = Some v ->
  value_expr j = Some e ->
  in_scope x sc = false ->
  reads rho x s v ->
  forall k : nat,
  (5 <= k)%nat ->
  eval d k rho va (EIdent x) s = Ok [v] s /\
  eval d k rho va (inject_expr x e sc (EIdent x)) s = Ok [v] s.
Proof. exact inject_ident_sound_exact. Qed.
Print Assumptions C17_inject_ident_sound_exact.
Check C17_inject_ident_sound_exact :
  forall (d : dialect) (j : json) (v : value) (e : expr) (x : name) (sc : list name) 
  (rho : env) (va : list value) (s : store),
  ints_exact (json_data j) ->
  scalar_value j = Some v ->
  value_expr j = Some e ->
  in_scope x sc = false ->
  reads rho x s v ->
  forall k : nat,
  (5 <= k)%nat ->
  eval d k rho va (EIdent x) s = Ok [v] s /\
  eval d k rho va (inject_expr x e sc (EIdent x)) s = Ok [v] s.

Theorem C17_inject_field_sound_exact :
  forall (d : dialect) (j : json) (v : value) (e : expr) (x : name) (sc : list name) 
  (rho : env) (va : list value) (s : store),
  ints_exact (json_data j) ->
  scalar_value j = Some v ->
  value_expr j = Some e ->
  in_scope nm_G sc = false ->
  G_is_globals rho s ->
  global_holds x s v ->
  forall k : nat,
  (5 <= k)%nat ->
  eval d k rho va (EField (EIdent nm_G) x) s = Ok [v] s /\
  eval d k rho va (inject_expr x e sc (EField (EIdent nm_G) x)) s = Ok [v] s.
Proof. exact inject_field_sound_exact. Qed.
Print Assumptions C17_inject_field_sound_exact.
Check C17_inject_field_sound_exact :
  forall (d : dialect) (j : json) (v : value) (e : expr) (x : name) (sc : list name) 
  (rho : env) (va : list value) (s : store),
  ints_exact (json_data j) ->
  scalar_value j = Some v ->
  value_expr j = Some e ->
  in_scope nm_G sc = false ->
  G_is_globals rho s ->
  global_holds x s v ->
  forall k : nat,
  (5 <= k)%nat ->
  eval d k rho va (EField (EIdent nm_G) x) s = Ok [v] s /\
  eval d k rho va (inject_expr x e sc (EField (EIdent nm_G) x)) s = Ok [v] s.

Theorem C17_inject_index_sound_exact :
  forall (d : dialect) (j : json) (v : value) (e : expr) (x : name) (sc : list name) 
  (rho : env) (va : list value) (s : store),
  ints_exact (json_data j) ->
  scalar_value j = Some v ->
  value_expr j = Some e ->
  in_scope nm_G sc = false ->
  G_is_globals rho s ->
  global_holds x s v ->
  forall k : nat,
  (5 <= k)%nat ->
  eval d k rho va (EIndex (EIdent nm_G) (EString x)) s = Ok [v] s /\
  eval d k rho va (inject_expr x e sc (EIndex (EIdent nm_G) (EString x))) s = Ok [v] s.
Proof. exact inject_index_sound_exact. Qed.
Print Assumptions C17_inject_index_sound_exact.
Check C17_inject_index_sound_exact :
  forall (d : dialect) (j : json) (v : value) (e : expr) (x : name) (sc : list name) 
  (rho : env) (va : list value) (s : store),
  ints_exact (json_data j) ->
  scalar_value j = Some v ->
  value_expr j = Some e ->
  in_scope nm_G sc = false ->
  G_is_globals rho s ->
  global_holds x s v ->
  forall k : nat,
  (5 <= k)%nat ->
  eval d k rho va (EIndex (EIdent nm_G) (EString x)) s = Ok [v] s /\
  eval d k rho va (inject_expr x e sc (EIndex (EIdent nm_G) (EString x))) s = Ok [v] s.

Theorem C17_inject_prefix_sound_exact :
  forall (d : dialect) (j : json) (v : value) (e : expr) (x : name) (sc : list name) 
  (rho : env) (va : list value) (s : store),
  ints_exact (json_data j) ->
  scalar_value j = Some v ->
  value_expr j = Some e ->
  in_scope x sc = false ->
  reads rho x s v ->
  forall k : nat,
  (7 <= k)%nat ->
  inject_prefix x e sc (EIdent x) = EParen e /\
  eval d k rho va (EIdent x) s = Ok [v] s /\ eval d k rho va (EParen e) s = Ok [v] s.
Proof. exact inject_prefix_sound_exact. Qed.
Print Assumptions C17_inject_prefix_sound_exact.
Check C17_inject_prefix_sound_exact :
  forall (d : dialect) (j : json) (v : value) (e : expr) (x : name) (sc : list name) 
  (rho : env) (va : list value) (s : store),
  ints_exact (json_data j) ->
  scalar_value j = Some v ->
  value_expr j = Some e ->
  in_scope x sc = false ->
  reads rho x s v ->
  forall k : nat,
  (7 <= k)%nat ->
  inject_prefix x e sc (EIdent x) = EParen e /\
  eval d k rho va (EIdent x) s = Ok [v] s /\ eval d k rho va (EParen e) s = Ok [v] s.

Theorem C17_inject_ident_sound :
  forall (d : dialect) (j : json) (v : value) (e : expr) (x : name) (sc : list name) 
  (rho : env) (va : list value) (s : store),
  scalar_value j = Some v ->
  value_expr j = Some e ->
  in_scope x sc = false ->
  reads rho x s v ->
  forall k : nat,
  (5 <= k)%nat ->
  eval d k rho va (EIdent x) s = Ok [v] s /\
  eval d k rho va (inject_expr x e sc (EIdent x)) s = Ok [v] s.
Proof. exact inject_ident_sound. Qed.
Print Assumptions C17_inject_ident_sound.
Check C17_inject_ident_sound :
  forall (d : dialect) (j : json) (v : value) (e : expr) (x : name) (sc : list name) 
  (rho : env) (va : list value) (s : store),
  scalar_value j = Some v ->
  value_expr j = Some e ->
  in_scope x sc = false ->
  reads rho x s v ->
  forall k : nat,
  (5 <= k)%nat ->
  eval d k rho va (EIdent x) s = Ok [v] s /\
  eval d k rho va (inject_expr x e sc (EIdent x)) s = Ok [v] s.

(** Arrays and objects: the expression is the serializer's (C14), and evaluates to a FRESH table with the configured content ... *)
Theorem C17_inject_table_sound :
  forall (j : json) (e : expr),
  value_expr j = Some e -> is_table_json j -> Serializer.to_expression (json_data j) = Some e.
Proof. exact inject_table_sound. Qed.
Print Assumptions C17_inject_table_sound.
Check C17_inject_table_sound :
  forall (j : json) (e : expr),
  value_expr j = Some e -> is_table_json j -> Serializer.to_expression (json_data j) = Some e.

Theorem C17_inject_table_value_sound_exact :
  forall (d : dialect) (j : json) (e : expr),
  ints_exact (json_data j) ->
  value_expr j = Some e ->
  is_table_json j ->
  wf_keys (json_data j) ->
  seq_len_ok (json_data j) ->
  forall (k : nat) (rho : env) (va : list value) (s : store),
  (size (json_data j) <= k)%nat ->
  exists (a : N) (s' : store),
  eval d k rho va e s = Ok [VTable a] s' /\
  (Datatypes.length (tables s) <= N.to_nat a)%nat /\
  (forall (b : nat) (t : table), nth_N (tables s) b = Some t -> nth_N (tables s') b = Some t) /\
  value_denotes_from (Datatypes.length (tables s)) s' (VTable a) (json_data j).
Proof. exact inject_table_value_sound_exact. Qed.
Print Assumptions C17_inject_table_value_sound_exact.
Check C17_inject_table_value_sound_exact :
  forall (d : dialect) (j : json) (e : expr),
  ints_exact (json_data j) ->
  value_expr j = Some e ->
  is_table_json j ->
  wf_keys (json_data j) ->
  seq_len_ok (json_data j) ->
  forall (k : nat) (rho : env) (va : list value) (s : store),
  (size (json_data j) <= k)%nat ->
  exists (a : N) (s' : store),
  eval d k rho va e s = Ok [VTable a] s' /\
  (Datatypes.length (tables s) <= N.to_nat a)%nat /\
  (forall (b : nat) (t : table), nth_N (tables s) b = Some t -> nth_N (tables s') b = Some t) /\
  value_denotes_from (Datatypes.length (tables s)) s' (VTable a) (json_data j).

(** ... fresh at every occurrence: a program that compares [X == X] can tell the preset global from the literals. *)
Theorem C17_inject_table_identity_refuted :
  exists (j : json) (e : expr) (s0 s1 s2 : store),
  value_expr j = Some e /\
  is_table_json j /\
  reads [] nm_X s0 (VTable 7) /\
  value_denotes s0 (VTable 7) (json_data j) /\
  eval L51 8 [] [] (EBinary BEq (EIdent nm_X) (EIdent nm_X)) s0 = Ok [VBool true] s1 /\
  eval L51 8 [] []
  (EBinary BEq (inject_expr nm_X e [] (EIdent nm_X)) (inject_expr nm_X e [] (EIdent nm_X))) s0 =
  Ok [VBool false] s2.
Proof. exact inject_table_identity_refuted. Qed.
Print Assumptions C17_inject_table_identity_refuted.
Check C17_inject_table_identity_refuted :
  exists (j : json) (e : expr) (s0 s1 s2 : store),
  value_expr j = Some e /\
  is_table_json j /\
  reads [] nm_X s0 (VTable 7) /\
  value_denotes s0 (VTable 7) (json_data j) /\
  eval L51 8 [] [] (EBinary BEq (EIdent nm_X) (EIdent nm_X)) s0 = Ok [VBool true] s1 /\
  eval L51 8 [] []
  (EBinary BEq (inject_expr nm_X e [] (EIdent nm_X)) (inject_expr nm_X e [] (EIdent nm_X))) s0 =
  Ok [VBool false] s2.
