(** C20 — File and rule filters select exactly the matching files.
    Only statements, closed by [exact], with their assumptions printed.
    Every theorem is for every glob engine [matches], parser, bundler, generator and rule bodies. *)
From Coq Require Import List.
From DL Require Import Model.Filters Model.FiltersGlob Proof.FiltersFacts Proof.FiltersExamples Proof.FiltersGlobFacts.
Import ListNotations.

Theorem C20_should_apply_spec :
  forall (pattern path : Type) (matches : pattern -> path -> bool) (flt : filter pattern) (f : path),
  should_apply matches flt f = true <->
  (apply_to flt = [] \/ exists p, In p (apply_to flt) /\ matches p f = true) /\
  (forall p, In p (skip flt) -> matches p f = false).
Proof. exact should_apply_selected. Qed.
Print Assumptions C20_should_apply_spec.
Check C20_should_apply_spec :
  forall (pattern path : Type) (matches : pattern -> path -> bool) (flt : filter pattern) (f : path),
  should_apply matches flt f = true <->
  (apply_to flt = [] \/ exists p, In p (apply_to flt) /\ matches p f = true) /\
  (forall p, In p (skip flt) -> matches p f = false).

Theorem C20_global_filter_spec :
  forall (pattern path text block : Type) (matches : pattern -> path -> bool)
         (parse : text -> option block) (bundle : path -> block -> option block)
         (generate : block -> text -> text)
         (c : config pattern path block) (f : path) (src : text) (b0 b1 : block),
  parse src = Some b0 -> bundle f b0 = Some b1 ->
  (selected matches (c_filter c) f ->
     process_file matches parse bundle generate c f src =
     process_file matches parse bundle generate (set_filter no_filter c) f src /\
     process_file matches parse bundle generate c f src <> Skipped) /\
  (~ selected matches (c_filter c) f ->
     process_file matches parse bundle generate c f src = Skipped).
Proof. exact global_filter_spec. Qed.
Print Assumptions C20_global_filter_spec.
Check C20_global_filter_spec :
  forall (pattern path text block : Type) (matches : pattern -> path -> bool)
         (parse : text -> option block) (bundle : path -> block -> option block)
         (generate : block -> text -> text)
         (c : config pattern path block) (f : path) (src : text) (b0 b1 : block),
  parse src = Some b0 -> bundle f b0 = Some b1 ->
  (selected matches (c_filter c) f ->
     process_file matches parse bundle generate c f src =
     process_file matches parse bundle generate (set_filter no_filter c) f src /\
     process_file matches parse bundle generate c f src <> Skipped) /\
  (~ selected matches (c_filter c) f ->
     process_file matches parse bundle generate c f src = Skipped).

Theorem C20_rule_filter_skip :
  forall (pattern path block : Type) (matches : pattern -> path -> bool)
         (rs1 rs2 : list (rule pattern path block)) (r : rule pattern path block) (f : path) (b : block),
  should_apply matches (r_filter r) f = false ->
  run_rules matches (rs1 ++ r :: rs2) f b = run_rules matches (rs1 ++ rs2) f b.
Proof. exact rule_filter_skip. Qed.
Print Assumptions C20_rule_filter_skip.
Check C20_rule_filter_skip :
  forall (pattern path block : Type) (matches : pattern -> path -> bool)
         (rs1 rs2 : list (rule pattern path block)) (r : rule pattern path block) (f : path) (b : block),
  should_apply matches (r_filter r) f = false ->
  run_rules matches (rs1 ++ r :: rs2) f b = run_rules matches (rs1 ++ rs2) f b.

Theorem C20_rule_filter_apply :
  forall (pattern path block : Type) (matches : pattern -> path -> bool)
         (rs1 rs2 : list (rule pattern path block)) (r : rule pattern path block) (f : path) (b : block),
  should_apply matches (r_filter r) f = true ->
  run_rules matches (rs1 ++ r :: rs2) f b = run_rules matches (rs1 ++ unfiltered r :: rs2) f b.
Proof. exact rule_filter_apply. Qed.
Print Assumptions C20_rule_filter_apply.
Check C20_rule_filter_apply :
  forall (pattern path block : Type) (matches : pattern -> path -> bool)
         (rs1 rs2 : list (rule pattern path block)) (r : rule pattern path block) (f : path) (b : block),
  should_apply matches (r_filter r) f = true ->
  run_rules matches (rs1 ++ r :: rs2) f b = run_rules matches (rs1 ++ unfiltered r :: rs2) f b.

Theorem C20_file_rule_filter_skip :
  forall (pattern path text block : Type) (matches : pattern -> path -> bool)
         (parse : text -> option block) (bundle : path -> block -> option block)
         (generate : block -> text -> text)
         (c : config pattern path block) (rs1 rs2 : list (rule pattern path block))
         (r : rule pattern path block) (f : path) (src : text),
  ~ selected matches (r_filter r) f ->
  process_file matches parse bundle generate (set_rules (rs1 ++ r :: rs2) c) f src =
  process_file matches parse bundle generate (set_rules (rs1 ++ rs2) c) f src.
Proof. exact file_rule_filter_skip. Qed.
Print Assumptions C20_file_rule_filter_skip.
Check C20_file_rule_filter_skip :
  forall (pattern path text block : Type) (matches : pattern -> path -> bool)
         (parse : text -> option block) (bundle : path -> block -> option block)
         (generate : block -> text -> text)
         (c : config pattern path block) (rs1 rs2 : list (rule pattern path block))
         (r : rule pattern path block) (f : path) (src : text),
  ~ selected matches (r_filter r) f ->
  process_file matches parse bundle generate (set_rules (rs1 ++ r :: rs2) c) f src =
  process_file matches parse bundle generate (set_rules (rs1 ++ rs2) c) f src.

Theorem C20_file_rule_filter_apply :
  forall (pattern path text block : Type) (matches : pattern -> path -> bool)
         (parse : text -> option block) (bundle : path -> block -> option block)
         (generate : block -> text -> text)
         (c : config pattern path block) (rs1 rs2 : list (rule pattern path block))
         (r : rule pattern path block) (f : path) (src : text),
  selected matches (r_filter r) f ->
  process_file matches parse bundle generate (set_rules (rs1 ++ r :: rs2) c) f src =
  process_file matches parse bundle generate (set_rules (rs1 ++ unfiltered r :: rs2) c) f src.
Proof. exact file_rule_filter_apply. Qed.
Print Assumptions C20_file_rule_filter_apply.
Check C20_file_rule_filter_apply :
  forall (pattern path text block : Type) (matches : pattern -> path -> bool)
         (parse : text -> option block) (bundle : path -> block -> option block)
         (generate : block -> text -> text)
         (c : config pattern path block) (rs1 rs2 : list (rule pattern path block))
         (r : rule pattern path block) (f : path) (src : text),
  selected matches (r_filter r) f ->
  process_file matches parse bundle generate (set_rules (rs1 ++ r :: rs2) c) f src =
  process_file matches parse bundle generate (set_rules (rs1 ++ unfiltered r :: rs2) c) f src.

Theorem C20_filters_local :
  forall (pattern path text block : Type) (matches : pattern -> path -> bool)
         (parse : text -> option block) (bundle : path -> block -> option block)
         (generate : block -> text -> text)
         (c c' : config pattern path block) (files : list (path * text)),
  length (process_tree matches parse bundle generate c files) =
  length (process_tree matches parse bundle generate c' files) /\
  forall (n : nat) (f : path) (src : text), nth_error files n = Some (f, src) ->
    configs_agree matches f c c' ->
    nth_error (process_tree matches parse bundle generate c files) n =
      Some (f, process_file matches parse bundle generate c f src) /\
    nth_error (process_tree matches parse bundle generate c' files) n =
      Some (f, process_file matches parse bundle generate c f src).
Proof. exact filters_local. Qed.
Print Assumptions C20_filters_local.
Check C20_filters_local :
  forall (pattern path text block : Type) (matches : pattern -> path -> bool)
         (parse : text -> option block) (bundle : path -> block -> option block)
         (generate : block -> text -> text)
         (c c' : config pattern path block) (files : list (path * text)),
  length (process_tree matches parse bundle generate c files) =
  length (process_tree matches parse bundle generate c' files) /\
  forall (n : nat) (f : path) (src : text), nth_error files n = Some (f, src) ->
    configs_agree matches f c c' ->
    nth_error (process_tree matches parse bundle generate c files) n =
      Some (f, process_file matches parse bundle generate c f src) /\
    nth_error (process_tree matches parse bundle generate c' files) n =
      Some (f, process_file matches parse bundle generate c f src).

Theorem C20_rule_filter_local :
  forall (pattern path block : Type) (matches : pattern -> path -> bool)
         (f : path) (rs1 rs2 : list (rule pattern path block)) (r : rule pattern path block)
         (flt' : filter pattern),
  should_apply matches (r_filter r) f = should_apply matches flt' f ->
  rules_agree matches f (rs1 ++ r :: rs2) (rs1 ++ with_filter flt' r :: rs2).
Proof. exact rules_agree_one. Qed.
Print Assumptions C20_rule_filter_local.
Check C20_rule_filter_local :
  forall (pattern path block : Type) (matches : pattern -> path -> bool)
         (f : path) (rs1 rs2 : list (rule pattern path block)) (r : rule pattern path block)
         (flt' : filter pattern),
  should_apply matches (r_filter r) f = should_apply matches flt' f ->
  rules_agree matches f (rs1 ++ r :: rs2) (rs1 ++ with_filter flt' r :: rs2).

Theorem C20_glob_tree_prefix :
  forall (g : glob) (pre ps : list (list Ascii.ascii)),
  match_comps g ps = true -> match_comps (CTree :: g) (pre ++ ps) = true.
Proof. exact tree_prefix. Qed.
Print Assumptions C20_glob_tree_prefix.
Check C20_glob_tree_prefix :
  forall (g : glob) (pre ps : list (list Ascii.ascii)),
  match_comps g ps = true -> match_comps (CTree :: g) (pre ++ ps) = true.

Theorem C20_glob_tree_prefix_inv :
  forall (g : glob) (ps : list (list Ascii.ascii)),
  match_comps (CTree :: g) ps = true -> exists pre suf, ps = pre ++ suf /\ match_comps g suf = true.
Proof. exact tree_prefix_inv. Qed.
Print Assumptions C20_glob_tree_prefix_inv.
Check C20_glob_tree_prefix_inv :
  forall (g : glob) (ps : list (list Ascii.ascii)),
  match_comps (CTree :: g) ps = true -> exists pre suf, ps = pre ++ suf /\ match_comps g suf = true.

Theorem C20_levels_agree :
  forall (pattern path text block : Type) (matches : pattern -> path -> bool)
         (parse : text -> option block) (bundle : path -> block -> option block)
         (generate : block -> text -> text)
         (rs : list (rule pattern path block)) (flt : filter pattern) (f : path) (src : text) (b0 b1 : block),
  parse src = Some b0 -> bundle f b0 = Some b1 ->
  (process_file matches parse bundle generate (Config flt (map unfiltered rs)) f src = Skipped <->
   run_rules matches (map (with_filter flt) rs) f b1 = Some b1 /\ should_apply matches flt f = false) /\
  (should_apply matches flt f = true ->
   process_file matches parse bundle generate (Config flt (map unfiltered rs)) f src =
   process_file matches parse bundle generate (Config no_filter (map (with_filter flt) rs)) f src).
Proof. exact levels_agree. Qed.
Print Assumptions C20_levels_agree.
Check C20_levels_agree :
  forall (pattern path text block : Type) (matches : pattern -> path -> bool)
         (parse : text -> option block) (bundle : path -> block -> option block)
         (generate : block -> text -> text)
         (rs : list (rule pattern path block)) (flt : filter pattern) (f : path) (src : text) (b0 b1 : block),
  parse src = Some b0 -> bundle f b0 = Some b1 ->
  (process_file matches parse bundle generate (Config flt (map unfiltered rs)) f src = Skipped <->
   run_rules matches (map (with_filter flt) rs) f b1 = Some b1 /\ should_apply matches flt f = false) /\
  (should_apply matches flt f = true ->
   process_file matches parse bundle generate (Config flt (map unfiltered rs)) f src =
   process_file matches parse bundle generate (Config no_filter (map (with_filter flt) rs)) f src).
