(** C18 — Comment and whitespace rules never touch code.
    Only statements, closed by [exact], with their assumptions printed and pinned.

    Model: [Model/CommentText.v] ([comment_of] = [AppendTextComment::text], [shift_amount],
    [is_single_line_comment] of the token generator, the trivia filters of [nodes/token.rs]).
    Specification: [lex_comment], the comment rule of the Lua manual / Luau lexer.
    NOT modelled (tied by the correspondence run only): the per-node visitors that apply the
    filters to every token of the tree, the parser, and the re-lexing of the generated text
    into the same code tokens — hence [C18_code_tokens_kept_partial]. *)
From DL Require Import Lib.Bytes Model.CommentText Proof.CommentTextFacts Model.TokenGen Proof.TokenGenFacts.
Open Scope N_scope.

(** The appended comment is read by the reference lexer as exactly one comment of exactly the
    bytes the rule wrote: it is not terminated early and swallows nothing after it.  For EVERY
    non-empty text (since /repo commit d1a6e5c; before, texts starting with a long-bracket
    opener and texts with a carriage return had to be excluded and were refuted by witnesses):
    texts written in the long form ([block_form]: a line break, a carriage return, a leading
    opener) whatever follows; the others when followed by a line break or the end of the file
    (what the generator emits after a line comment, [C18_reference_line_comment_then_token]). *)
Theorem C18_comment_closed : forall text follow, text <> [] ->
  (block_form text = true \/ line_follow follow = true) ->
  lex_comment (comment_of text ++ follow) = Some (List.length (comment_of text)).
Proof. exact comment_closed. Qed.
Print Assumptions C18_comment_closed.
Check C18_comment_closed : forall text follow, text <> [] ->
  (block_form text = true \/ line_follow follow = true) ->
  lex_comment (comment_of text ++ follow) = Some (List.length (comment_of text)).

Theorem C18_block_comment_closed : forall text follow, block_form text = true ->
  lex_comment (comment_of text ++ follow) = Some (List.length (comment_of text)).
Proof. exact block_comment_closed. Qed.
Print Assumptions C18_block_comment_closed.
Check C18_block_comment_closed : forall text follow, block_form text = true ->
  lex_comment (comment_of text ++ follow) = Some (List.length (comment_of text)).

(** The same for a Lua 5.1 lexer, which also rejects "[[" nested in a level-0 long bracket. *)
Theorem C18_comment_closed_51 : forall text follow, text <> [] ->
  (block_form text = true \/ line_follow follow = true) ->
  lex_comment51 (comment_of text ++ follow) = Some (List.length (comment_of text)).
Proof. exact comment_closed_51. Qed.
Print Assumptions C18_comment_closed_51.
Check C18_comment_closed_51 : forall text follow, text <> [] ->
  (block_form text = true \/ line_follow follow = true) ->
  lex_comment51 (comment_of text ++ follow) = Some (List.length (comment_of text)).

(** The chosen long-bracket level: neither its closer nor its opener occurs in the text, and it is
    the least such level. *)
Theorem C18_comment_level_ok : forall text,
  find_sub (long_closer (comment_level text)) text = false /\
  find_sub (long_opener (comment_level text)) text = false.
Proof. exact comment_level_ok. Qed.
Print Assumptions C18_comment_level_ok.
Check C18_comment_level_ok : forall text,
  find_sub (long_closer (comment_level text)) text = false /\
  find_sub (long_opener (comment_level text)) text = false.

Theorem C18_comment_level_least : forall text m, (m < comment_level text)%nat ->
  find_sub (long_closer m) text || find_sub (long_opener m) text = true.
Proof. exact comment_level_least. Qed.
Print Assumptions C18_comment_level_least.
Check C18_comment_level_least : forall text m, (m < comment_level text)%nat ->
  find_sub (long_closer m) text || find_sub (long_opener m) text = true.

(** The text appears verbatim inside the comment, between "--" (or "--[=*[\n") and the closer. *)
Theorem C18_text_inside : forall text, text <> [] ->
  exists pre post, comment_of text = pre ++ text ++ post /\
    (block_form text = false -> pre = [45; 45] /\ post = []) /\
    (block_form text = true -> pre = [45; 45] ++ long_opener (comment_level text) ++ [10] /\
                               post = [10] ++ long_closer (comment_level text)).
Proof. exact text_inside. Qed.
Print Assumptions C18_text_inside.
Check C18_text_inside : forall text, text <> [] ->
  exists pre post, comment_of text = pre ++ text ++ post /\
    (block_form text = false -> pre = [45; 45] /\ post = []) /\
    (block_form text = true -> pre = [45; 45] ++ long_opener (comment_level text) ++ [10] /\
                               post = [10] ++ long_closer (comment_level text)).

(** Location [start]: the line shift applied to every token equals the number of line breaks
    put in front of the file (comment + "\n"). *)
Theorem C18_shift_exact : forall text, text <> [] ->
  shift_amount text = count_lf (start_insertion text).
Proof. exact shift_exact. Qed.
Print Assumptions C18_shift_exact.
Check C18_shift_exact : forall text, text <> [] ->
  shift_amount text = count_lf (start_insertion text).

(** The generator's own classification of the appended comment (it decides whether a line
    break is forced before the next token) is the form the rule chose, for every text. *)
Theorem C18_comment_form_recognised : forall text, text <> [] ->
  is_single_line_comment (comment_of text) = negb (block_form text).
Proof. exact comment_form_recognised. Qed.
Print Assumptions C18_comment_form_recognised.
Check C18_comment_form_recognised : forall text, text <> [] ->
  is_single_line_comment (comment_of text) = negb (block_form text).

(** The generator's classification of ANY comment is the reference lexer's (a long comment exactly
    when a long-bracket opener follows "--").  Before /repo commit fc507f0 this was refuted by
    "--[a[" ([C18_singleline_recognised_refuted], now gone). *)
Theorem C18_classifier_agrees : forall t,
  is_multiline_comment (45 :: 45 :: t) = match long_open t with Some _ => true | None => false end.
Proof. exact classifier_agrees. Qed.
Print Assumptions C18_classifier_agrees.
Check C18_classifier_agrees : forall t,
  is_multiline_comment (45 :: 45 :: t) = match long_open t with Some _ => true | None => false end.

(** Token level: the filters of remove_comments (any [except] oracle [keep]), remove_spaces and
    the two insertions of append_text_comment keep the code part of every token, remove exactly
    the comments not selected by [keep] / all white space, and add exactly one comment.
    Partial: the visitors applying them to each node's tokens are not modelled. *)
Theorem C18_code_tokens_kept_partial : forall (A : Type) (keep : bytes -> bool) (l : list (ttoken A)),
  (code_tokens (map (filter_comments keep) l) = code_tokens l /\
   comments_of (map (filter_comments keep) l) = filter keep (comments_of l) /\
   whitespaces_of (map (filter_comments keep) l) = whitespaces_of l) /\
  (code_tokens (map clear_comments l) = code_tokens l /\
   comments_of (map clear_comments l) = [] /\
   whitespaces_of (map clear_comments l) = whitespaces_of l) /\
  (code_tokens (map clear_whitespaces l) = code_tokens l /\
   whitespaces_of (map clear_whitespaces l) = [] /\
   comments_of (map clear_whitespaces l) = comments_of l).
Proof.
  exact (fun A keep l =>
    conj (conj (code_tokens_filter keep l) (conj (comments_filter keep l) (whitespaces_filter keep l)))
   (conj (conj (code_tokens_clear TComment l) (clear_comments_spec l))
         (conj (code_tokens_clear TWhitespace l) (clear_whitespaces_spec l)))).
Qed.
Print Assumptions C18_code_tokens_kept_partial.
Check C18_code_tokens_kept_partial : forall (A : Type) (keep : bytes -> bool) (l : list (ttoken A)),
  (code_tokens (map (filter_comments keep) l) = code_tokens l /\
   comments_of (map (filter_comments keep) l) = filter keep (comments_of l) /\
   whitespaces_of (map (filter_comments keep) l) = whitespaces_of l) /\
  (code_tokens (map clear_comments l) = code_tokens l /\
   comments_of (map clear_comments l) = [] /\
   whitespaces_of (map clear_comments l) = whitespaces_of l) /\
  (code_tokens (map clear_whitespaces l) = code_tokens l /\
   whitespaces_of (map clear_whitespaces l) = [] /\
   comments_of (map clear_whitespaces l) = comments_of l).

Theorem C18_append_keeps_code_partial : forall (A : Type) comment (t : ttoken A) (l : list (ttoken A)),
  (code_tokens (append_start comment t :: l) = code_tokens (t :: l) /\
   comments_of (append_start comment t :: l) = comment :: comments_of (t :: l)) /\
  (code_tokens (l ++ [append_end comment t]) = code_tokens (l ++ [t]) /\
   comments_of (l ++ [append_end comment t]) = comments_of (l ++ [t]) ++ [comment]).
Proof. exact (fun A c t l => conj (append_start_spec c t l) (append_end_spec c l t)). Qed.
Print Assumptions C18_append_keeps_code_partial.
Check C18_append_keeps_code_partial : forall (A : Type) comment (t : ttoken A) (l : list (ttoken A)),
  (code_tokens (append_start comment t :: l) = code_tokens (t :: l) /\
   comments_of (append_start comment t :: l) = comment :: comments_of (t :: l)) /\
  (code_tokens (l ++ [append_end comment t]) = code_tokens (l ++ [t]) /\
   comments_of (l ++ [append_end comment t]) = comments_of (l ++ [t]) ++ [comment]).

(** Generator level ([Model/TokenGen.v]): after a comment that the generator classifies as a line
    comment, the next non-empty token or symbol starts on a new line — this discharges the
    [line_follow] hypothesis of [C18_comment_closed] ... *)
Theorem C18_line_comment_then_token : forall st c x t l sc, is_single_line_comment c = true ->
  exists rest, g_out (write_token (write_trivia st KComment c) (x :: t) l sc) = g_out st ++ c ++ 10 :: rest.
Proof. exact line_comment_then_token. Qed.
Print Assumptions C18_line_comment_then_token.
Check C18_line_comment_then_token : forall st c x t l sc, is_single_line_comment c = true ->
  exists rest, g_out (write_token (write_trivia st KComment c) (x :: t) l sc) = g_out st ++ c ++ 10 :: rest.

Theorem C18_line_comment_then_symbol : forall st c x t sc, is_single_line_comment c = true ->
  exists rest, g_out (write_symbol (write_trivia st KComment c) (x :: t) sc) = g_out st ++ c ++ 10 :: rest.
Proof. exact line_comment_then_symbol. Qed.
Print Assumptions C18_line_comment_then_symbol.
Check C18_line_comment_then_symbol : forall st c x t sc, is_single_line_comment c = true ->
  exists rest, g_out (write_symbol (write_trivia st KComment c) (x :: t) sc) = g_out st ++ c ++ 10 :: rest.

(** ... for every comment that the reference lexer reads as a short comment (the former
    misclassification of "--[a[" is repaired: fc507f0). *)
Theorem C18_reference_line_comment_then_token : forall st t x r l sc, long_open t = None ->
  exists rest, g_out (write_token (write_trivia st KComment (45 :: 45 :: t)) (x :: r) l sc)
               = g_out st ++ (45 :: 45 :: t) ++ 10 :: rest.
Proof. exact reference_line_comment_then_token. Qed.
Print Assumptions C18_reference_line_comment_then_token.
Check C18_reference_line_comment_then_token : forall st t x r l sc, long_open t = None ->
  exists rest, g_out (write_token (write_trivia st KComment (45 :: 45 :: t)) (x :: r) l sc)
               = g_out st ++ (45 :: 45 :: t) ++ 10 :: rest.

(** Two ways in which the generated text still lets a comment swallow code (recorded defects):
    a raw push after a line comment, and a "-" token glued to a following comment once white
    space is removed. *)
Theorem C18_generator_swallows_refuted :
  (let c := of_string "--c" in
   is_single_line_comment c = true /\
   g_out (run g_init [RToken [40] (Some 1%nat) true; RTrivia KComment c; RRaw [46; 46; 46]])
     = [40] ++ c ++ [46; 46; 46]) /\
  (let c := of_string "-- c" in
   g_out (run g_init [RToken [97] (Some 1%nat) true; RToken [45] (Some 1%nat) true; RTrivia KComment c])
     = of_string "a--- c" /\
   lex_comment (of_string "--- c") = Some 5%nat).
Proof. exact (conj raw_push_swallowed minus_glued_to_comment). Qed.
Print Assumptions C18_generator_swallows_refuted.
Check C18_generator_swallows_refuted :
  (let c := of_string "--c" in
   is_single_line_comment c = true /\
   g_out (run g_init [RToken [40] (Some 1%nat) true; RTrivia KComment c; RRaw [46; 46; 46]])
     = [40] ++ c ++ [46; 46; 46]) /\
  (let c := of_string "-- c" in
   g_out (run g_init [RToken [97] (Some 1%nat) true; RToken [45] (Some 1%nat) true; RTrivia KComment c])
     = of_string "a--- c" /\
   lex_comment (of_string "--- c") = Some 5%nat).

(** non-vacuity, and the formerly recorded witnesses *)
Example C18_example_multiline :
  let text := [120; 93; 93; 10; 121; 93; 61; 93; 10; 122; 93] in   (* "x]]\ny]=]\nz]" *)
  text <> [] /\ block_form text = true /\ comment_level text = 2%nat /\
  lex_comment51 (comment_of text ++ [10; 102; 40; 41]) = Some (List.length (comment_of text)).
Proof. vm_compute. repeat split. discriminate. Qed.

Example C18_example_singleline :
  let text := [93; 93; 32; 45; 45; 32; 91; 97; 91] in   (* "]] -- [a[" *)
  text <> [] /\ block_form text = false /\ line_follow [10; 102] = true /\
  lex_comment (comment_of text ++ [10; 102]) = Some (List.length (comment_of text)).
Proof. vm_compute. repeat split. discriminate. Qed.

Example C18_example_formerly_refuted :
  (let text := of_string "[[ hello" in
   block_form text = true /\ comment_level text = 1%nat /\
   lex_comment51 (comment_of text ++ of_string "print(1)]]") = Some (List.length (comment_of text))) /\
  (let text := [97; 13; 112; 114; 105; 110; 116; 40; 50; 41] in   (* "a\rprint(2)" *)
   block_form text = true /\ lex_comment (comment_of text ++ [10]) = Some (List.length (comment_of text))) /\
  comment_level [97; 10; 91; 91; 98] = 1%nat.   (* "a\n[[b": level 1, no "[[" nested at level 0 *)
Proof. vm_compute. repeat split. Qed.
