(** C14 — Data files convert to Lua values equal to the data.
    Only statements, closed by [exact], with their assumptions printed and pinned.
    [to_expression] : Model/Serializer.v (model of src/process/expression_serializer.rs);
    [eval], [initial_store] : Lua/Sem.v (reference interpreter); [value_denotes], [wf_keys],
    [seq_len_ok] : Lua/DataSpec.v (specification). *)
From Coq Require Import ZArith NArith List.
From DL Require Import Lib.Bytes Lib.F64 Lua.Syntax Lua.Sem Lua.DataSpec Model.Serializer.
From DL Require Import Proof.SerializerSound Proof.SerializerTheorems.
From DL Require Model.Lexer.
Import ListNotations.
Open Scope N_scope.

(** The expression built for a document evaluates, under either dialect, without error to one
    value that is the document: sequences in order, mappings with exactly the document's keys
    (last binding wins), strings byte-identical, integers the nearest double, floats
    bit-identical, booleans, null = nil / absent.  Every i64 / u64 integer; depends on Flocq's
    proof that rounding returns a canonical float (classical real numbers). *)
Theorem C14_serialize_sound : forall d e,
  wf_keys d -> seq_len_ok d -> to_expression d = Some e ->
  forall dialect, exists n vs s',
    eval dialect n [] [] e (initial_store []) = Ok vs s' /\ value_denotes s' (first vs) d.
Proof. exact serialize_sound. Qed.
Print Assumptions C14_serialize_sound.
Check C14_serialize_sound : forall d e,
  wf_keys d -> seq_len_ok d -> to_expression d = Some e ->
  forall dialect, exists n vs s',
    eval dialect n [] [] e (initial_store []) = Ok vs s' /\ value_denotes s' (first vs) d.

(** The same without any axiom when every integer of the document is below 2^53 in absolute
    value (exactly representable). *)
Theorem C14_serialize_sound_exact_ints : forall d e,
  ints_exact d -> wf_keys d -> seq_len_ok d -> to_expression d = Some e ->
  forall dialect, exists n vs s',
    eval dialect n [] [] e (initial_store []) = Ok vs s' /\ value_denotes s' (first vs) d.
Proof. exact serialize_sound_exact_ints. Qed.
Print Assumptions C14_serialize_sound_exact_ints.
Check C14_serialize_sound_exact_ints : forall d e,
  ints_exact d -> wf_keys d -> seq_len_ok d -> to_expression d = Some e ->
  forall dialect, exists n vs s',
    eval dialect n [] [] e (initial_store []) = Ok vs s' /\ value_denotes s' (first vs) d.

(** Explicit fuel ([size d]), any environment and any store: the tables of the store are left
    alone and the value lives in freshly allocated tables (so requiring a data file inside a
    bundle cannot disturb the program around it). *)
Theorem C14_serialize_sound_fuel : forall d e,
  ints_ok d -> wf_keys d -> seq_len_ok d -> to_expression d = Some e ->
  forall dialect n rho va s, (size d <= n)%nat ->
  exists v s', eval dialect n rho va e s = Ok [v] s' /\
    (forall b t, nth_N (tables s) b = Some t -> nth_N (tables s') b = Some t) /\
    value_denotes_from (List.length (tables s)) s' v d.
Proof. exact serialize_sound_fuel. Qed.
Print Assumptions C14_serialize_sound_fuel.
Check C14_serialize_sound_fuel : forall d e,
  ints_ok d -> wf_keys d -> seq_len_ok d -> to_expression d = Some e ->
  forall dialect n rho va s, (size d <= n)%nat ->
  exists v s', eval dialect n rho va e s = Ok [v] s' /\
    (forall b t, nth_N (tables s) b = Some t -> nth_N (tables s') b = Some t) /\
    value_denotes_from (List.length (tables s)) s' v d.

(** The serializer expresses every document whose integers fit i64 / u64. *)
Theorem C14_serialize_total : forall d, ints_supported d -> exists e, to_expression d = Some e.
Proof. exact serialize_total. Qed.
Print Assumptions C14_serialize_total.
Check C14_serialize_total : forall d, ints_supported d -> exists e, to_expression d = Some e.

(** Refutation outside [wf_keys] (YAML only): a null key and a NaN key are emitted as
    [[nil] = v] / [[(0/0)] = v], which raise "table index is nil / NaN" when the constructor
    runs.  Replayed on the real code by the check (known finding yaml-null-key / yaml-nan-key). *)
Theorem C14_null_key_refuted :
  exists d e, to_expression d = Some e /\
    forall dialect, exists s', eval dialect 4 [] [] e (initial_store []) = Err (ERun 12) s'.
Proof. exact serialize_null_key_refuted. Qed.
Print Assumptions C14_null_key_refuted.
Check C14_null_key_refuted :
  exists d e, to_expression d = Some e /\
    forall dialect, exists s', eval dialect 4 [] [] e (initial_store []) = Err (ERun 12) s'.

Theorem C14_nan_key_refuted :
  exists d e, to_expression d = Some e /\
    forall dialect, exists s', eval dialect 4 [] [] e (initial_store []) = Err (ERun 12) s'.
Proof. exact serialize_nan_key_refuted. Qed.
Print Assumptions C14_nan_key_refuted.
Check C14_nan_key_refuted :
  exists d e, to_expression d = Some e /\
    forall dialect, exists s', eval dialect 4 [] [] e (initial_store []) = Err (ERun 12) s'.

(** A key written bare ([name = v]) is a Lua name and not a reserved word, in the terms of the
    reference lexer (Model/Lexer.v); every other key is written [["..."] = v] (the split is
    [table_entry] in the model). *)
Theorem C14_field_names_are_names : forall s, is_valid_identifier s = true ->
  exists c r, s = c :: r /\ Lexer.is_ident_start c = true /\
              forallb Lexer.is_ident_char r = true /\ Lexer.is_keyword s = false.
Proof. exact field_names_are_names. Qed.
Print Assumptions C14_field_names_are_names.
Check C14_field_names_are_names : forall s, is_valid_identifier s = true ->
  exists c r, s = c :: r /\ Lexer.is_ident_start c = true /\
              forallb Lexer.is_ident_char r = true /\ Lexer.is_keyword s = false.

(** non-vacuity: a document with keyword / non-identifier / duplicate / integer keys, nulls and
    an integer beyond 2^53 meets the hypotheses *)
Example C14_example_hypotheses :
  wf_keys example_doc /\ seq_len_ok example_doc /\ ints_supported example_doc /\
  exists e, to_expression example_doc = Some e.
Proof. exact example_doc_hypotheses. Qed.
