(** C19 — Configurations are read strictly and round-trip without loss.
    Only statements, closed by [exact], with their assumptions printed.

    The model (Model/Config.v, Model/ConfigRules.v) is darklua's rule / configuration (de)serializer with every
    rule's property table; the oracles (glob, regex and identifier validity, normal forms of `globals`, of
    require-mode values and of the bundle block, JSON held by environment variables) are universally
    quantified, with their assumed behaviour ([oracles_ok], [bundle_ok]) as hypotheses.

    Full-strength statement (REFUTED for the code as it is, see the [_refuted] theorems):
      every accepted rule reads back from its written form as an equivalent rule, and rules written
      identically are equivalent.
    Proved instead: the same under the decidable carve-out [writes_all] = "the configured rule keeps none of
    the properties listed in C19_carve_out_is_exactly" (convert_require.current/target: required by `configure`,
    never written by `serialize_to_properties`; remove_comments.except and remove_attribute.match left the
    list with darklua commit 1875b55). *)
From Coq Require Import List Bool String.
From DL Require Import Model.Config Model.ConfigRules Proof.ConfigFacts Proof.ConfigTop Proof.ConfigRulesFacts.
Import ListNotations.
Open Scope string_scope.

Definition C19_full_statement : Prop :=
  forall (valid_glob valid_regex valid_ident : string -> bool) (norm_globals : list string -> list string) (norm_reqmode : json -> option json) (env_json_ok : string -> bool),
  oracles_ok valid_ident norm_globals norm_reqmode ->
  forall (j : json) (r : rule_cfg), deserialize_rule valid_glob valid_regex valid_ident norm_globals norm_reqmode env_json_ok rule_specs j = Some r ->
  exists r', deserialize_rule valid_glob valid_regex valid_ident norm_globals norm_reqmode env_json_ok rule_specs (serialize_rule rule_specs r) = Some r' /\ rule_equiv r r'.

Theorem C19_rule_strict :
  forall (valid_glob valid_regex valid_ident : string -> bool) (norm_globals : list string -> list string) (norm_reqmode : json -> option json) (env_json_ok : string -> bool) (kvs : list (string * json)) (r : rule_cfg),
  deserialize_rule valid_glob valid_regex valid_ident norm_globals norm_reqmode env_json_ok rule_specs (JObj kvs) = Some r ->
  exists s, find_spec rule_specs (r_name r) = Some s /\
  forall k j, In (k, j) kvs ->
    In k reserved \/
    exists p, find_prop s k = Some p /\
              accepts_kind valid_regex valid_ident env_json_ok (p_kind p) (classify norm_reqmode j) = true.
Proof. exact (fun vg vr vi ng nr ej => rule_strict vg vr vi ng nr ej rule_specs). Qed.
Print Assumptions C19_rule_strict.
Check C19_rule_strict :
  forall (valid_glob valid_regex valid_ident : string -> bool) (norm_globals : list string -> list string) (norm_reqmode : json -> option json) (env_json_ok : string -> bool) (kvs : list (string * json)) (r : rule_cfg),
  deserialize_rule valid_glob valid_regex valid_ident norm_globals norm_reqmode env_json_ok rule_specs (JObj kvs) = Some r ->
  exists s, find_spec rule_specs (r_name r) = Some s /\
  forall k j, In (k, j) kvs ->
    In k reserved \/
    exists p, find_prop s k = Some p /\
              accepts_kind valid_regex valid_ident env_json_ok (p_kind p) (classify norm_reqmode j) = true.

Theorem C19_rule_no_duplicate_key :
  forall (valid_glob valid_regex valid_ident : string -> bool) (norm_globals : list string -> list string) (norm_reqmode : json -> option json) (env_json_ok : string -> bool) (kvs : list (string * json)) (r : rule_cfg),
  deserialize_rule valid_glob valid_regex valid_ident norm_globals norm_reqmode env_json_ok rule_specs (JObj kvs) = Some r -> NoDup (map fst kvs).
Proof. exact (fun vg vr vi ng nr ej => rule_no_duplicate_key vg vr vi ng nr ej rule_specs). Qed.
Print Assumptions C19_rule_no_duplicate_key.
Check C19_rule_no_duplicate_key :
  forall (valid_glob valid_regex valid_ident : string -> bool) (norm_globals : list string -> list string) (norm_reqmode : json -> option json) (env_json_ok : string -> bool) (kvs : list (string * json)) (r : rule_cfg),
  deserialize_rule valid_glob valid_regex valid_ident norm_globals norm_reqmode env_json_ok rule_specs (JObj kvs) = Some r -> NoDup (map fst kvs).

Theorem C19_config_strict :
  forall (valid_glob valid_regex valid_ident : string -> bool) (norm_globals : list string -> list string) (norm_reqmode : json -> option json) (env_json_ok : string -> bool) (norm_bundle : json -> option json) (kvs : list (string * json)) (c : config),
  deserialize_config valid_glob valid_regex valid_ident norm_globals norm_reqmode env_json_ok norm_bundle rule_specs default_rule_names (JObj kvs) = Some c ->
  (forall k, In k (map fst kvs) -> In k top_keys) /\ NoDup (map fst kvs).
Proof. exact (fun vg vr vi ng nr ej nb => config_strict vg vr vi ng nr ej nb rule_specs default_rule_names). Qed.
Print Assumptions C19_config_strict.
Check C19_config_strict :
  forall (valid_glob valid_regex valid_ident : string -> bool) (norm_globals : list string -> list string) (norm_reqmode : json -> option json) (env_json_ok : string -> bool) (norm_bundle : json -> option json) (kvs : list (string * json)) (c : config),
  deserialize_config valid_glob valid_regex valid_ident norm_globals norm_reqmode env_json_ok norm_bundle rule_specs default_rule_names (JObj kvs) = Some c ->
  (forall k, In k (map fst kvs) -> In k top_keys) /\ NoDup (map fst kvs).

Theorem C19_rule_roundtrip :
  forall (valid_glob valid_regex valid_ident : string -> bool) (norm_globals : list string -> list string) (norm_reqmode : json -> option json) (env_json_ok : string -> bool),
  oracles_ok valid_ident norm_globals norm_reqmode ->
  forall (j : json) (r : rule_cfg),
  deserialize_rule valid_glob valid_regex valid_ident norm_globals norm_reqmode env_json_ok rule_specs j = Some r -> writes_all rule_specs r = true ->
  exists r', deserialize_rule valid_glob valid_regex valid_ident norm_globals norm_reqmode env_json_ok rule_specs (serialize_rule rule_specs r) = Some r' /\ rule_equiv r r'.
Proof. exact (fun vg vr vi ng nr ej => rule_roundtrip_darklua vg vr vi ng nr ej (fun _ => None)). Qed.
Print Assumptions C19_rule_roundtrip.
Check C19_rule_roundtrip :
  forall (valid_glob valid_regex valid_ident : string -> bool) (norm_globals : list string -> list string) (norm_reqmode : json -> option json) (env_json_ok : string -> bool),
  oracles_ok valid_ident norm_globals norm_reqmode ->
  forall (j : json) (r : rule_cfg),
  deserialize_rule valid_glob valid_regex valid_ident norm_globals norm_reqmode env_json_ok rule_specs j = Some r -> writes_all rule_specs r = true ->
  exists r', deserialize_rule valid_glob valid_regex valid_ident norm_globals norm_reqmode env_json_ok rule_specs (serialize_rule rule_specs r) = Some r' /\ rule_equiv r r'.

Theorem C19_rule_injective :
  forall (valid_glob valid_regex valid_ident : string -> bool) (norm_globals : list string -> list string) (norm_reqmode : json -> option json) (env_json_ok : string -> bool),
  oracles_ok valid_ident norm_globals norm_reqmode ->
  forall (j1 j2 : json) (r1 r2 : rule_cfg),
  deserialize_rule valid_glob valid_regex valid_ident norm_globals norm_reqmode env_json_ok rule_specs j1 = Some r1 -> deserialize_rule valid_glob valid_regex valid_ident norm_globals norm_reqmode env_json_ok rule_specs j2 = Some r2 ->
  writes_all rule_specs r1 = true -> writes_all rule_specs r2 = true ->
  serialize_rule rule_specs r1 = serialize_rule rule_specs r2 -> rule_equiv r1 r2.
Proof. exact (fun vg vr vi ng nr ej => rule_injective_darklua vg vr vi ng nr ej (fun _ => None)). Qed.
Print Assumptions C19_rule_injective.
Check C19_rule_injective :
  forall (valid_glob valid_regex valid_ident : string -> bool) (norm_globals : list string -> list string) (norm_reqmode : json -> option json) (env_json_ok : string -> bool),
  oracles_ok valid_ident norm_globals norm_reqmode ->
  forall (j1 j2 : json) (r1 r2 : rule_cfg),
  deserialize_rule valid_glob valid_regex valid_ident norm_globals norm_reqmode env_json_ok rule_specs j1 = Some r1 -> deserialize_rule valid_glob valid_regex valid_ident norm_globals norm_reqmode env_json_ok rule_specs j2 = Some r2 ->
  writes_all rule_specs r1 = true -> writes_all rule_specs r2 = true ->
  serialize_rule rule_specs r1 = serialize_rule rule_specs r2 -> rule_equiv r1 r2.

Theorem C19_config_roundtrip :
  forall (valid_glob valid_regex valid_ident : string -> bool) (norm_globals : list string -> list string) (norm_reqmode : json -> option json) (env_json_ok : string -> bool) (norm_bundle : json -> option json),
  oracles_ok valid_ident norm_globals norm_reqmode -> bundle_ok norm_bundle ->
  forall (j : json) (c : config),
  deserialize_config valid_glob valid_regex valid_ident norm_globals norm_reqmode env_json_ok norm_bundle rule_specs default_rule_names j = Some c -> forallb (writes_all rule_specs) (c_rules c) = true ->
  exists c', deserialize_config valid_glob valid_regex valid_ident norm_globals norm_reqmode env_json_ok norm_bundle rule_specs default_rule_names (serialize_config rule_specs c) = Some c' /\ config_equiv c c'.
Proof. exact (config_roundtrip_darklua). Qed.
Print Assumptions C19_config_roundtrip.
Check C19_config_roundtrip :
  forall (valid_glob valid_regex valid_ident : string -> bool) (norm_globals : list string -> list string) (norm_reqmode : json -> option json) (env_json_ok : string -> bool) (norm_bundle : json -> option json),
  oracles_ok valid_ident norm_globals norm_reqmode -> bundle_ok norm_bundle ->
  forall (j : json) (c : config),
  deserialize_config valid_glob valid_regex valid_ident norm_globals norm_reqmode env_json_ok norm_bundle rule_specs default_rule_names j = Some c -> forallb (writes_all rule_specs) (c_rules c) = true ->
  exists c', deserialize_config valid_glob valid_regex valid_ident norm_globals norm_reqmode env_json_ok norm_bundle rule_specs default_rule_names (serialize_config rule_specs c) = Some c' /\ config_equiv c c'.

Theorem C19_config_injective :
  forall (valid_glob valid_regex valid_ident : string -> bool) (norm_globals : list string -> list string) (norm_reqmode : json -> option json) (env_json_ok : string -> bool) (norm_bundle : json -> option json),
  oracles_ok valid_ident norm_globals norm_reqmode -> bundle_ok norm_bundle ->
  forall (j1 j2 : json) (c1 c2 : config),
  deserialize_config valid_glob valid_regex valid_ident norm_globals norm_reqmode env_json_ok norm_bundle rule_specs default_rule_names j1 = Some c1 -> deserialize_config valid_glob valid_regex valid_ident norm_globals norm_reqmode env_json_ok norm_bundle rule_specs default_rule_names j2 = Some c2 ->
  forallb (writes_all rule_specs) (c_rules c1) = true -> forallb (writes_all rule_specs) (c_rules c2) = true ->
  serialize_config rule_specs c1 = serialize_config rule_specs c2 -> config_equiv c1 c2.
Proof. exact (config_injective_darklua). Qed.
Print Assumptions C19_config_injective.
Check C19_config_injective :
  forall (valid_glob valid_regex valid_ident : string -> bool) (norm_globals : list string -> list string) (norm_reqmode : json -> option json) (env_json_ok : string -> bool) (norm_bundle : json -> option json),
  oracles_ok valid_ident norm_globals norm_reqmode -> bundle_ok norm_bundle ->
  forall (j1 j2 : json) (c1 c2 : config),
  deserialize_config valid_glob valid_regex valid_ident norm_globals norm_reqmode env_json_ok norm_bundle rule_specs default_rule_names j1 = Some c1 -> deserialize_config valid_glob valid_regex valid_ident norm_globals norm_reqmode env_json_ok norm_bundle rule_specs default_rule_names j2 = Some c2 ->
  forallb (writes_all rule_specs) (c_rules c1) = true -> forallb (writes_all rule_specs) (c_rules c2) = true ->
  serialize_config rule_specs c1 = serialize_config rule_specs c2 -> config_equiv c1 c2.

Theorem C19_carve_out_is_exactly :
  dropped_properties rule_specs =
  [("convert_require", "current"); ("convert_require", "target")].
Proof. exact (dropped_properties_today). Qed.
Print Assumptions C19_carve_out_is_exactly.
Check C19_carve_out_is_exactly :
  dropped_properties rule_specs =
  [("convert_require", "current"); ("convert_require", "target")].

Theorem C19_roundtrip_refuted_unreadable :
  forall (valid_glob valid_regex valid_ident : string -> bool) (norm_globals : list string -> list string) (norm_reqmode : json -> option json) (env_json_ok : string -> bool),
  exists r, deserialize_rule valid_glob valid_regex valid_ident norm_globals norm_reqmode env_json_ok rule_specs w_convert_require = Some r /\
            serialize_rule rule_specs r = JStr "convert_require" /\
            deserialize_rule valid_glob valid_regex valid_ident norm_globals norm_reqmode env_json_ok rule_specs (serialize_rule rule_specs r) = None.
Proof. exact (roundtrip_refuted_unreadable). Qed.
Print Assumptions C19_roundtrip_refuted_unreadable.
Check C19_roundtrip_refuted_unreadable :
  forall (valid_glob valid_regex valid_ident : string -> bool) (norm_globals : list string -> list string) (norm_reqmode : json -> option json) (env_json_ok : string -> bool),
  exists r, deserialize_rule valid_glob valid_regex valid_ident norm_globals norm_reqmode env_json_ok rule_specs w_convert_require = Some r /\
            serialize_rule rule_specs r = JStr "convert_require" /\
            deserialize_rule valid_glob valid_regex valid_ident norm_globals norm_reqmode env_json_ok rule_specs (serialize_rule rule_specs r) = None.

Theorem C19_injective_refuted :
  forall (valid_glob valid_regex valid_ident : string -> bool) (norm_globals : list string -> list string) (norm_reqmode : json -> option json) (env_json_ok : string -> bool),
  exists r1 r2, deserialize_rule valid_glob valid_regex valid_ident norm_globals norm_reqmode env_json_ok rule_specs w_convert_require = Some r1 /\
                deserialize_rule valid_glob valid_regex valid_ident norm_globals norm_reqmode env_json_ok rule_specs w_convert_require_luau = Some r2 /\
                serialize_rule rule_specs r1 = serialize_rule rule_specs r2 /\ ~ rule_equiv r1 r2.
Proof. exact (injective_refuted). Qed.
Print Assumptions C19_injective_refuted.
Check C19_injective_refuted :
  forall (valid_glob valid_regex valid_ident : string -> bool) (norm_globals : list string -> list string) (norm_reqmode : json -> option json) (env_json_ok : string -> bool),
  exists r1 r2, deserialize_rule valid_glob valid_regex valid_ident norm_globals norm_reqmode env_json_ok rule_specs w_convert_require = Some r1 /\
                deserialize_rule valid_glob valid_regex valid_ident norm_globals norm_reqmode env_json_ok rule_specs w_convert_require_luau = Some r2 /\
                serialize_rule rule_specs r1 = serialize_rule rule_specs r2 /\ ~ rule_equiv r1 r2.

Theorem C19_strict_refuted_generator_keys :
  deserialize_generator (JObj [("name", JStr "retain_lines"); ("column_span", JStr "not even a number"); ("foo", JNull)])
  = Some GRetainLines.
Proof. exact (generator_extra_key_accepted). Qed.
Print Assumptions C19_strict_refuted_generator_keys.
Check C19_strict_refuted_generator_keys :
  deserialize_generator (JObj [("name", JStr "retain_lines"); ("column_span", JStr "not even a number"); ("foo", JNull)])
  = Some GRetainLines.

