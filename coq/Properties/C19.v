(** C19 placeholder while the proofs are being written *)
From DL Require Import Model.Config Model.ConfigRules.
