(** C16 — interim property file: the local-equivalence lemmas are being proved. *)
From DL Require Import Lib.Bytes Lua.Syntax Lua.Sem Lua.RunCheck.
Open Scope N_scope.

Theorem C16_outcome_eqb_refl_nil : outcome_eqb (OutOk [] []) (OutOk [] []) = true.
Proof. reflexivity. Qed.
Print Assumptions C16_outcome_eqb_refl_nil.
Check C16_outcome_eqb_refl_nil : outcome_eqb (OutOk [] []) (OutOk [] []) = true.
