(** C16 - Optional refactoring rules preserve program behaviour.
    Only statements, closed by [exact], with their assumptions printed and pinned.

    LOCAL theorems about the Gallina models (Model/Refactor.v) of the rewrites performed by
    group_local_assignment, convert_local_function_to_assign, convert_function_to_assignment,
    remove_method_call and convert_square_root_call, against the reference interpreter
    (Lua/Sem.v): for every dialect, fuel, environment, varargs and store.  Two forms:
    - "if the original evaluates (without error, with fuel n) to this result and store, so does
      the output for every fuel >= n + c" (the property quantifies over error-free original
      runs; fuel monotonicity: Proof/LoweringFuel.v);
    - same-fuel relations [res_rel] covering every outcome (closure-representation independence).
    Stores are compared with [=] or, where the rewrite changes the record kept for a function
    value (captured environment, method flag vs explicit [self], annotations), with [store_rel]
    (Proof/RefactorSimDefs.v), which the interpreter provably cannot observe ([sim_*]).

    NOT proved: the lifting of these local equivalences to whole programs (the traversal; for
    group_local_assignment with second initialisers outside [frame_simple] and for function
    paths with [__index] metamethods the equivalence holds only up to a renaming of store
    addresses, which is not formalised).  Whole-program equivalence is VALIDATED on every run by
    the translation-validation streams of vlib/c16.py (generated programs and templates pushed
    through the real rules, run of the input vs run of the output in the Coq interpreter), and
    the models are tied to the Rust code by the correspondence stream (block_eqb (model_rule IN)
    OUT on templates hitting every arm). *)
From Coq Require Import ZArith NArith List Bool String.
From Coq Require Import Floats.SpecFloat.
From DL Require Import Lib.Bytes Lib.F64 Lua.Syntax Lua.Sem Lua.EvalSpec Lua.RunCheck.
From DL Require Import Model.Evaluator Model.Removal Model.Refactor.
From DL Require Import Proof.EvaluatorF64 Proof.DefaultRulesSem Proof.RefactorSem Proof.RefactorSimDefs.
From DL Require Import Proof.RefactorSoundCall Proof.RefactorSoundSqrt Proof.RefactorSoundFunction Proof.RefactorSoundGroup.
From DL Require Import Proof.RefactorSim Proof.RefactorSimLocalFunction Proof.RefactorSoundFinal.
Import ListNotations.
Open Scope N_scope.

(** remove_method_call, identifier receiver: [x:m(args)] and [x.m(x, args)] give the same values and the same store when reading [x] runs no code ([pure_ident]: a local, or a global of a globals table without metatable) and the lookup of [m] (which may run [__index]) leaves the binding of [x] alone. The receiver is evaluated once in the original, twice (without effect) in the output. *)
Theorem C16_method_call_sound :
  forall (d : dialect) (n : nat) (rho : env) (va : list value) (x : name) (m : bytes) 
  (a : args) (s : store) (r : list value) (s' : store),
  pure_ident rho x s ->
  (forall (o : value) (k : nat) (f : value) (s1 : store),
  reads rho x s o -> index d k o (VStr m) s = Ok f s1 -> reads rho x s1 o) ->
  eval d n rho va (ECall (EIdent x) (Some m) a) s = Ok r s' ->
  forall k : nat,
  (n + 7 <= k)%nat -> eval d k rho va (rw_method_call (ECall (EIdent x) (Some m) a)) s = Ok r s'.
Proof. exact method_call_sound. Qed.
Print Assumptions C16_method_call_sound.
Check C16_method_call_sound :
  forall (d : dialect) (n : nat) (rho : env) (va : list value) (x : name) (m : bytes) 
  (a : args) (s : store) (r : list value) (s' : store),
  pure_ident rho x s ->
  (forall (o : value) (k : nat) (f : value) (s1 : store),
  reads rho x s o -> index d k o (VStr m) s = Ok f s1 -> reads rho x s1 o) ->
  eval d n rho va (ECall (EIdent x) (Some m) a) s = Ok r s' ->
  forall k : nat,
  (n + 7 <= k)%nat -> eval d k rho va (rw_method_call (ECall (EIdent x) (Some m) a)) s = Ok r s'.

Theorem C16_method_call_sound_quiet_lookup :
  forall (d : dialect) (n : nat) (rho : env) (va : list value) (x : name) (m : bytes) 
  (a : args) (s : store) (r : list value) (s' : store),
  pure_ident rho x s ->
  (forall (o : value) (k : nat) (f : value) (s1 : store),
  reads rho x s o -> index d k o (VStr m) s = Ok f s1 -> s1 = s) ->
  eval d n rho va (ECall (EIdent x) (Some m) a) s = Ok r s' ->
  forall k : nat,
  (n + 7 <= k)%nat -> eval d k rho va (rw_method_call (ECall (EIdent x) (Some m) a)) s = Ok r s'.
Proof. exact method_call_sound_quiet_lookup. Qed.
Print Assumptions C16_method_call_sound_quiet_lookup.
Check C16_method_call_sound_quiet_lookup :
  forall (d : dialect) (n : nat) (rho : env) (va : list value) (x : name) (m : bytes) 
  (a : args) (s : store) (r : list value) (s' : store),
  pure_ident rho x s ->
  (forall (o : value) (k : nat) (f : value) (s1 : store),
  reads rho x s o -> index d k o (VStr m) s = Ok f s1 -> s1 = s) ->
  eval d n rho va (ECall (EIdent x) (Some m) a) s = Ok r s' ->
  forall k : nat,
  (n + 7 <= k)%nat -> eval d k rho va (rw_method_call (ECall (EIdent x) (Some m) a)) s = Ok r s'.

(** literal receiver ([("s"):m(args)] -> [("s").m(("s"), args)]): no hypothesis. *)
Theorem C16_method_call_literal_sound :
  forall (d : dialect) (n : nat) (rho : env) (va : list value) (lit : expr) 
  (m : name) (a : args) (s : store) (r : list value) (s' : store),
  is_literal lit = true ->
  eval d n rho va (ECall (EParen lit) (Some m) a) s = Ok r s' ->
  forall k : nat,
  (n + 7 <= k)%nat -> eval d k rho va (rw_method_call (ECall (EParen lit) (Some m) a)) s = Ok r s'.
Proof. exact method_call_literal_sound. Qed.
Print Assumptions C16_method_call_literal_sound.
Check C16_method_call_literal_sound :
  forall (d : dialect) (n : nat) (rho : env) (va : list value) (lit : expr) 
  (m : name) (a : args) (s : store) (r : list value) (s' : store),
  is_literal lit = true ->
  eval d n rho va (ECall (EParen lit) (Some m) a) s = Ok r s' ->
  forall k : nat,
  (n + 7 <= k)%nat -> eval d k rho va (rw_method_call (ECall (EParen lit) (Some m) a)) s = Ok r s'.

(** convert_square_root_call on numbers: [pow(x, 0.5) = sqrt(x)] except for [-0] and [-inf] ... *)
Theorem C16_fpow_half_sqrt :
  forall x : f64, valid x -> x <> neg_zero -> x <> neg_inf -> fpow x half_f = Some (fsqrt x).
Proof. exact fpow_half_sqrt. Qed.
Print Assumptions C16_fpow_half_sqrt.
Check C16_fpow_half_sqrt :
  forall x : f64, valid x -> x <> neg_zero -> x <> neg_inf -> fpow x half_f = Some (fsqrt x).

(** ... and on expressions: [math.sqrt(e)] -> [e ^ 0.5] when [math] is not a local and the global [math.sqrt] is the library function: same values, same store, for arguments other than [-0] / [-inf] (carve-out) ... *)
Theorem C16_sqrt_sound :
  forall (d : dialect) (n : nat) (rho : env) (va : list value) (e : expr) (s : store) 
  (r : list value) (s' : store),
  lookup rho nm_math = None ->
  math_pristine s ->
  eval d n rho va (sqrt_call e) s = Ok r s' ->
  (forall (k : nat) (vs : list value) (s1 : store) (x : f64),
  eval d k rho va e s = Ok vs s1 ->
  tonum (first vs) = Some x -> valid x /\ x <> neg_zero /\ x <> neg_inf) ->
  forall k : nat, (n + 4 <= k)%nat -> eval d k rho va (EBinary BPow e half) s = Ok r s'.
Proof. exact sqrt_sound. Qed.
Print Assumptions C16_sqrt_sound.
Check C16_sqrt_sound :
  forall (d : dialect) (n : nat) (rho : env) (va : list value) (e : expr) (s : store) 
  (r : list value) (s' : store),
  lookup rho nm_math = None ->
  math_pristine s ->
  eval d n rho va (sqrt_call e) s = Ok r s' ->
  (forall (k : nat) (vs : list value) (s1 : store) (x : f64),
  eval d k rho va e s = Ok vs s1 ->
  tonum (first vs) = Some x -> valid x /\ x <> neg_zero /\ x <> neg_inf) ->
  forall k : nat, (n + 4 <= k)%nat -> eval d k rho va (EBinary BPow e half) s = Ok r s'.

(** ... which is necessary (recorded finding, key convert_square_root_call:negative-zero-or-negative-infinity). *)
Theorem C16_sqrt_refuted :
  exists
  (dl : dialect) (e : expr) (rho : env) (va : list value) (s : store) (r1 r2 : list value)
  (s1 s2 : store),
  lookup rho nm_math = None /\
  math_pristine s /\
  rw_sqrt [] (sqrt_call e) = EBinary BPow e half /\
  eval dl 9 rho va (sqrt_call e) s = Ok r1 s1 /\
  eval dl 13 rho va (EBinary BPow e half) s = Ok r2 s2 /\
  r1 = [VNum neg_zero] /\ r2 = [VNum fzero] /\ r1 <> r2.
Proof. exact sqrt_refuted. Qed.
Print Assumptions C16_sqrt_refuted.
Check C16_sqrt_refuted :
  exists
  (dl : dialect) (e : expr) (rho : env) (va : list value) (s : store) (r1 r2 : list value)
  (s1 s2 : store),
  lookup rho nm_math = None /\
  math_pristine s /\
  rw_sqrt [] (sqrt_call e) = EBinary BPow e half /\
  eval dl 9 rho va (sqrt_call e) s = Ok r1 s1 /\
  eval dl 13 rho va (EBinary BPow e half) s = Ok r2 s2 /\
  r1 = [VNum neg_zero] /\ r2 = [VNum fzero] /\ r1 <> r2.

(** Closure-representation independence of the reference interpreter: stores that differ only in details of closure records that [call] does not read ([clos_rel]: same parameter names, variadic flag and body; captured environments agree on the names the body mentions that are not parameters) and environments that agree on the names a piece of syntax mentions cannot be told apart - same fuel, every outcome. Function values are addresses, so values are compared with [eq]. [store_rel] keeps cells, tables, trace, oracle equal: observation (trace, rendered results) is equal. *)
Theorem C16_sim_eval :
  forall (d : dialect) (n : nat) (P : name -> bool) (rho1 rho2 : env) (va : list value) 
  (e : expr) (s1 s2 : store),
  covers_expr P e ->
  env_agree P rho1 rho2 -> store_rel s1 s2 -> res_rel eq (eval d n rho1 va e s1) (eval d n rho2 va e s2).
Proof. exact sim_eval. Qed.
Print Assumptions C16_sim_eval.
Check C16_sim_eval :
  forall (d : dialect) (n : nat) (P : name -> bool) (rho1 rho2 : env) (va : list value) 
  (e : expr) (s1 s2 : store),
  covers_expr P e ->
  env_agree P rho1 rho2 -> store_rel s1 s2 -> res_rel eq (eval d n rho1 va e s1) (eval d n rho2 va e s2).

Theorem C16_sim_call :
  forall (d : dialect) (n : nat) (f : value) (args : list value) (s1 s2 : store),
  store_rel s1 s2 -> res_rel eq (call d n f args s1) (call d n f args s2).
Proof. exact sim_call. Qed.
Print Assumptions C16_sim_call.
Check C16_sim_call :
  forall (d : dialect) (n : nat) (f : value) (args : list value) (s1 s2 : store),
  store_rel s1 s2 -> res_rel eq (call d n f args s1) (call d n f args s2).

Theorem C16_sim_exec_stmts :
  forall (d : dialect) (n : nat) (P : name -> bool) (rho1 rho2 : env) (va : list value) 
  (ss : list stmt) (last : option laststmt) (s1 s2 : store),
  (forall x : name, existsb (ment_stmt [x]) ss || optb (ment_last [x]) last = true -> P x = true) ->
  env_agree P rho1 rho2 ->
  store_rel s1 s2 -> res_rel eq (exec_stmts d n rho1 va ss last s1) (exec_stmts d n rho2 va ss last s2).
Proof. exact sim_exec_stmts. Qed.
Print Assumptions C16_sim_exec_stmts.
Check C16_sim_exec_stmts :
  forall (d : dialect) (n : nat) (P : name -> bool) (rho1 rho2 : env) (va : list value) 
  (ss : list stmt) (last : option laststmt) (s1 s2 : store),
  (forall x : name, existsb (ment_stmt [x]) ss || optb (ment_last [x]) last = true -> P x = true) ->
  env_agree P rho1 rho2 ->
  store_rel s1 s2 -> res_rel eq (exec_stmts d n rho1 va ss last s1) (exec_stmts d n rho2 va ss last s2).

Theorem C16_sim_exec_block :
  forall (d : dialect) (n : nat) (P : name -> bool) (rho1 rho2 : env) (va : list value) 
  (b : block) (s1 s2 : store),
  covers_block P b ->
  env_agree P rho1 rho2 ->
  store_rel s1 s2 -> res_rel eq (exec_block d n rho1 va b s1) (exec_block d n rho2 va b s2).
Proof. exact sim_exec_block. Qed.
Print Assumptions C16_sim_exec_block.
Check C16_sim_exec_block :
  forall (d : dialect) (n : nat) (P : name -> bool) (rho1 rho2 : env) (va : list value) 
  (b : block) (s1 s2 : store),
  covers_block P b ->
  env_agree P rho1 rho2 ->
  store_rel s1 s2 -> res_rel eq (exec_block d n rho1 va b s1) (exec_block d n rho2 va b s2).

Theorem C16_store_rel_observation :
  forall (s1 s2 : store) (vs : list value),
  store_rel s1 s2 -> rev (trace s1) = rev (trace s2) /\ map (render 3 s1) vs = map (render 3 s2) vs.
Proof. exact store_rel_observation. Qed.
Print Assumptions C16_store_rel_observation.
Check C16_store_rel_observation :
  forall (s1 s2 : store) (vs : list value),
  store_rel s1 s2 -> rev (trace s1) = rev (trace s2) /\ map (render 3 s1) vs = map (render 3 s2) vs.

(** convert_local_function_to_assign: where the rule fires ([f] is a parameter or the body does not mention [f]), [local function f ... end] and [local f = function ... end] followed by ANY statements behave alike (same fuel, every outcome; stores related as above): the closure's captured environment differs by the binding of [f], which the body never looks up ... *)
Theorem C16_local_function_sound :
  forall (d : dialect) (n : nat) (rho : env) (va : list value) (x : name) (f : fbody) 
  (rest : list stmt) (last : option laststmt) (s : store),
  rw_local_function (SLocalFunction x f) <> SLocalFunction x f ->
  (4 <= n)%nat ->
  res_rel eq (exec_stmts d n rho va (SLocalFunction x f :: rest) last s)
  (exec_stmts d n rho va (rw_local_function (SLocalFunction x f) :: rest) last s).
Proof. exact local_function_sound. Qed.
Print Assumptions C16_local_function_sound.
Check C16_local_function_sound :
  forall (d : dialect) (n : nat) (rho : env) (va : list value) (x : name) (f : fbody) 
  (rest : list stmt) (last : option laststmt) (s : store),
  rw_local_function (SLocalFunction x f) <> SLocalFunction x f ->
  (4 <= n)%nat ->
  res_rel eq (exec_stmts d n rho va (SLocalFunction x f :: rest) last s)
  (exec_stmts d n rho va (rw_local_function (SLocalFunction x f) :: rest) last s).

(** ... and the side condition is needed: for a recursive function the unguarded rewrite changes the result. *)
Theorem C16_local_function_recursive_refuted :
  exists
  (d : dialect) (n : nat) (rho : env) (va : list value) (x : name) (f : fbody)
  (rest : list stmt) (last : option laststmt) (s : store),
  rw_local_function (SLocalFunction x f) = SLocalFunction x f /\
  returned (exec_stmts d n rho va (SLocalFunction x f :: rest) last s) = Some [VNum (of_Z 0)] /\
  is_err (exec_stmts d n rho va (SLocal false [Param x None] [EFunction f] :: rest) last s) = true.
Proof. exact local_function_recursive_refuted. Qed.
Print Assumptions C16_local_function_recursive_refuted.
Check C16_local_function_recursive_refuted :
  exists
  (d : dialect) (n : nat) (rho : env) (va : list value) (x : name) (f : fbody)
  (rest : list stmt) (last : option laststmt) (s : store),
  rw_local_function (SLocalFunction x f) = SLocalFunction x f /\
  returned (exec_stmts d n rho va (SLocalFunction x f :: rest) last s) = Some [VNum (of_Z 0)] /\
  is_err (exec_stmts d n rho va (SLocal false [Param x None] [EFunction f] :: rest) last s) = true.

(** convert_function_to_assignment: [function a.b.c(ps)] / [function a.b:m(ps)] vs the assignment of [function(ps)] / [function(self, ps)]. Same result, stores related as above (the record keeps the method flag vs an explicit [self] parameter; annotations dropped). For field paths: the base is read without effect and every field of the path but the last is present in its table ([path_raw]: no [__index] runs) - the statement allocates the closure before walking the path, the assignment after. *)
Theorem C16_function_to_assign_sound :
  forall (d : dialect) (n : nat) (rho : env) (va : list value) (base : name) 
  (fields : list name) (method : option name) (f : fbody) (s : store) (r : env * signal)
  (sL : store),
  exec_stmt d n rho va (SFunction base fields method f) s = Ok r sL ->
  (fields ++ opt_list method <> [] ->
  exists o : value, reads rho base s o /\ path_raw (tables s) o (fields ++ opt_list method)) ->
  exists m : nat,
  forall j : nat,
  (m <= j)%nat ->
  exists sR : store,
  exec_stmt d j rho va (rw_function_to_assign (SFunction base fields method f)) s = Ok r sR /\
  store_rel sL sR.
Proof. exact function_to_assign_sound_closed. Qed.
Print Assumptions C16_function_to_assign_sound.
Check C16_function_to_assign_sound :
  forall (d : dialect) (n : nat) (rho : env) (va : list value) (base : name) 
  (fields : list name) (method : option name) (f : fbody) (s : store) (r : env * signal)
  (sL : store),
  exec_stmt d n rho va (SFunction base fields method f) s = Ok r sL ->
  (fields ++ opt_list method <> [] ->
  exists o : value, reads rho base s o /\ path_raw (tables s) o (fields ++ opt_list method)) ->
  exists m : nat,
  forall j : nat,
  (m <= j)%nat ->
  exists sR : store,
  exec_stmt d j rho va (rw_function_to_assign (SFunction base fields method f)) s = Ok r sR /\
  store_rel sL sR.

(** group_local_assignment: [local vars1 = vals1  local vars2 = vals2] vs the merged declaration, under the rule's guard [should_merge] (|vals1| = |vars1| or no values; no value of vals2 mentions a name of vars1) for second initialisers whose evaluation neither allocates nor reads freshly allocated cells ([frame_simple]: literals, locals of the enclosing scope, [...], parentheses, casts, [not]): same environment, same store, then the same continuation. *)
Theorem C16_group_local_sound_partial :
  forall (d : dialect) (n : nat) (rho : env) (va : list value) (k1 : bool) (vars1 : list param)
  (vals1 : list expr) (k2 : bool) (vars2 : list param) (vals2 : list expr)
  (rest : list stmt) (last : option laststmt) (s : store) (r : signal) (s' : store),
  should_merge vars1 vals1 vals2 = true ->
  forallb (frame_simple rho) vals2 = true ->
  (forall (y : name) (c : N), lookup rho y = Some c -> (N.to_nat c < Datatypes.length (cells s))%nat) ->
  (forall (k : nat) (vs : list value) (s1 : store),
  eval_list d k rho va vals1 s = Ok vs s1 ->
  (Datatypes.length (cells s) <= Datatypes.length (cells s1))%nat) ->
  exec_stmts d n rho va (SLocal k1 vars1 vals1 :: SLocal k2 vars2 vals2 :: rest) last s = Ok r s' ->
  exists m : nat,
  forall j : nat,
  (m <= j)%nat ->
  exec_stmts d j rho va (SLocal k1 (vars1 ++ vars2) (merge_values vars1 vals1 vars2 vals2) :: rest)
  last s = Ok r s'.
Proof. exact group_local_sound_partial. Qed.
Print Assumptions C16_group_local_sound_partial.
Check C16_group_local_sound_partial :
  forall (d : dialect) (n : nat) (rho : env) (va : list value) (k1 : bool) (vars1 : list param)
  (vals1 : list expr) (k2 : bool) (vars2 : list param) (vals2 : list expr)
  (rest : list stmt) (last : option laststmt) (s : store) (r : signal) (s' : store),
  should_merge vars1 vals1 vals2 = true ->
  forallb (frame_simple rho) vals2 = true ->
  (forall (y : name) (c : N), lookup rho y = Some c -> (N.to_nat c < Datatypes.length (cells s))%nat) ->
  (forall (k : nat) (vs : list value) (s1 : store),
  eval_list d k rho va vals1 s = Ok vs s1 ->
  (Datatypes.length (cells s) <= Datatypes.length (cells s1))%nat) ->
  exec_stmts d n rho va (SLocal k1 vars1 vals1 :: SLocal k2 vars2 vals2 :: rest) last s = Ok r s' ->
  exists m : nat,
  forall j : nat,
  (m <= j)%nat ->
  exec_stmts d j rho va (SLocal k1 (vars1 ++ vars2) (merge_values vars1 vals1 vars2 vals2) :: rest)
  last s = Ok r s'.

(** Exact equality of stores is not available for arbitrary second initialisers (a call allocates a cell; the values agree, the cell order differs) - the reason the theorem is partial; observational equivalence of such programs is validated per run. *)
Theorem C16_group_local_exact_refuted_call :
  exists
  (dl : dialect) (rho : env) (va : list value) (vars1 : list param) (vals1 : list expr)
  (vars2 : list param) (vals2 : list expr) (last : option laststmt) (s : store)
  (vs : list value) (s1 s2 : store),
  should_merge vars1 vals1 vals2 = true /\
  (forall (y : name) (c : N), lookup rho y = Some c -> (N.to_nat c < Datatypes.length (cells s))%nat) /\
  exec_stmts dl 14 rho va [SLocal false vars1 vals1; SLocal false vars2 vals2] last s =
  Ok (SigReturn vs) s1 /\
  exec_stmts dl 14 rho va [SLocal false (vars1 ++ vars2) (merge_values vars1 vals1 vars2 vals2)] last
  s = Ok (SigReturn vs) s2 /\
  vs = [VNum (of_Z 1); VNum (of_Z 2)] /\
  cells s1 = [VNum (of_Z 1); VNum (of_Z 2); VNum (of_Z 2)] /\
  cells s2 = [VNum (of_Z 2); VNum (of_Z 1); VNum (of_Z 2)] /\ s1 <> s2.
Proof. exact group_local_exact_refuted_call. Qed.
Print Assumptions C16_group_local_exact_refuted_call.
Check C16_group_local_exact_refuted_call :
  exists
  (dl : dialect) (rho : env) (va : list value) (vars1 : list param) (vals1 : list expr)
  (vars2 : list param) (vals2 : list expr) (last : option laststmt) (s : store)
  (vs : list value) (s1 s2 : store),
  should_merge vars1 vals1 vals2 = true /\
  (forall (y : name) (c : N), lookup rho y = Some c -> (N.to_nat c < Datatypes.length (cells s))%nat) /\
  exec_stmts dl 14 rho va [SLocal false vars1 vals1; SLocal false vars2 vals2] last s =
  Ok (SigReturn vs) s1 /\
  exec_stmts dl 14 rho va [SLocal false (vars1 ++ vars2) (merge_values vars1 vals1 vars2 vals2)] last
  s = Ok (SigReturn vs) s2 /\
  vs = [VNum (of_Z 1); VNum (of_Z 2)] /\
  cells s1 = [VNum (of_Z 1); VNum (of_Z 2); VNum (of_Z 2)] /\
  cells s2 = [VNum (of_Z 2); VNum (of_Z 1); VNum (of_Z 2)] /\ s1 <> s2.

(** The guards are needed: more values than variables (the defect repaired by the `fix:` commit e2101c3), and a second initialiser mentioning a variable of the first. *)
Theorem C16_group_local_unguarded_refuted :
  exists
  (dl : dialect) (vars1 : list param) (vals1 : list expr) (vars2 : list param)
  (vals2 : list expr) (last : option laststmt),
  should_merge vars1 vals1 vals2 = false /\
  rw_group_local [SLocal false vars1 vals1; SLocal false vars2 vals2] =
  [SLocal false vars1 vals1; SLocal false vars2 vals2] /\
  run_chunk dl 12 [] (Block [SLocal false vars1 vals1; SLocal false vars2 vals2] last) =
  OutOk [] [RNum (to_bits (of_Z 3))] /\
  run_chunk dl 12 []
  (Block [SLocal false (vars1 ++ vars2) (merge_values vars1 vals1 vars2 vals2)] last) =
  OutOk [] [RNum (to_bits (of_Z 2))].
Proof. exact group_local_unguarded_refuted. Qed.
Print Assumptions C16_group_local_unguarded_refuted.
Check C16_group_local_unguarded_refuted :
  exists
  (dl : dialect) (vars1 : list param) (vals1 : list expr) (vars2 : list param)
  (vals2 : list expr) (last : option laststmt),
  should_merge vars1 vals1 vals2 = false /\
  rw_group_local [SLocal false vars1 vals1; SLocal false vars2 vals2] =
  [SLocal false vars1 vals1; SLocal false vars2 vals2] /\
  run_chunk dl 12 [] (Block [SLocal false vars1 vals1; SLocal false vars2 vals2] last) =
  OutOk [] [RNum (to_bits (of_Z 3))] /\
  run_chunk dl 12 []
  (Block [SLocal false (vars1 ++ vars2) (merge_values vars1 vals1 vars2 vals2)] last) =
  OutOk [] [RNum (to_bits (of_Z 2))].

Theorem C16_group_local_mention_refuted :
  exists
  (dl : dialect) (vars1 : list param) (vals1 : list expr) (vars2 : list param)
  (vals2 : list expr) (last : option laststmt),
  should_merge vars1 vals1 vals2 = false /\
  rw_group_local [SLocal false vars1 vals1; SLocal false vars2 vals2] =
  [SLocal false vars1 vals1; SLocal false vars2 vals2] /\
  run_chunk dl 12 [] (Block [SLocal false vars1 vals1; SLocal false vars2 vals2] last) =
  OutOk [] [RNum (to_bits (of_Z 1))] /\
  run_chunk dl 12 []
  (Block [SLocal false (vars1 ++ vars2) (merge_values vars1 vals1 vars2 vals2)] last) =
  OutOk [] [RNil].
Proof. exact group_local_mention_refuted. Qed.
Print Assumptions C16_group_local_mention_refuted.
Check C16_group_local_mention_refuted :
  exists
  (dl : dialect) (vars1 : list param) (vals1 : list expr) (vars2 : list param)
  (vals2 : list expr) (last : option laststmt),
  should_merge vars1 vals1 vals2 = false /\
  rw_group_local [SLocal false vars1 vals1; SLocal false vars2 vals2] =
  [SLocal false vars1 vals1; SLocal false vars2 vals2] /\
  run_chunk dl 12 [] (Block [SLocal false vars1 vals1; SLocal false vars2 vals2] last) =
  OutOk [] [RNum (to_bits (of_Z 1))] /\
  run_chunk dl 12 []
  (Block [SLocal false (vars1 ++ vars2) (merge_values vars1 vals1 vars2 vals2)] last) =
  OutOk [] [RNil].
