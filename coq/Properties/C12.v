(** C12 — No input or configuration crashes darklua (PARTIAL by nature, see DESIGN.md).

    A Coq model cannot exhibit a Rust panic, a native stack overflow or a hang; what is
    stated here is the absence of the LOGIC-LEVEL failure at panic / loop sites that sit in
    modelled code: each partial or looping operation of the models is total on the states it
    can reach.  The theorems are proved in the developments of the properties that own the
    models; arbitrary bytes into the parser, rule chains, generators and the re-parse of
    every output are exercised by the catch_unwind / watchdog runs of vlib/c12.py (a test,
    not a proof). *)
From Coq Require Import NArith List Bool.
From DL Require Import Lib.Bytes Model.StringLit Proof.StringLitFacts.
From DL Require Import Model.Rename Model.Bundle Proof.BundleTheorems Proof.RenameStream.
From DL Require Import Model.WorkerFs Model.Worker Proof.WorkerLoop.
From DL Require Import Model.CommentText Model.TokenGen Proof.TokenGenFacts.
Open Scope N_scope.

(** the literal writer is total and its result always decodes: no value makes it fail *)
Theorem C12_write_string_total : forall s, wf_bytes s = true ->
  exists t, write_string s = t /\ decode_literal true t = Some s.
Proof. intros s H. exists (write_string s). split; [reflexivity | exact (write_string_roundtrip s H)]. Qed.
Print Assumptions C12_write_string_total.
Check C12_write_string_total : forall s, wf_bytes s = true ->
  exists t, write_string s = t /\ decode_literal true t = Some s.

(** bundling never loops: the inlining of requires ends on every module graph (cycles are
    reported, not followed) *)
Theorem C12_bundle_terminates : forall g roots, bundle g roots <> Bundle.OutOfFuel.
Proof. exact bundle_terminates. Qed.
Print Assumptions C12_bundle_terminates.
Check C12_bundle_terminates : forall g roots, bundle g roots <> Bundle.OutOfFuel.

(** the identifier generator is productive: every prefix of its stream consists of valid
    identifiers without repetition (the `.unwrap()` / `.expect` sites of generate_identifier) *)
Theorem C12_generated_stream : forall n,
  Forall (fun x => valid_ident x = true) (gen_stream n) /\ NoDup (gen_stream n).
Proof. exact generated_stream. Qed.
Print Assumptions C12_generated_stream.
Check C12_generated_stream : forall n,
  Forall (fun x => valid_ident x = true) (gen_stream n) /\ NoDup (gen_stream n).

(** the worker's processing pass always ends: the work loop exits after one sweep with
    nothing pending, and a pass never fails to return *)
Theorem C12_work_loop_one_pass :
  forall (cfg : Type) (xform : cfg -> path -> content -> fs -> option content * list path)
         (c : cfg) (t : wtree) (f : fs) (k : nat),
    exists t' f', work_loop cfg xform (S k) c t f (count_pending (slots t)) = Some (t', f') /\
                  count_pending (slots t') = 0%nat.
Proof. exact work_loop_one_pass. Qed.
Print Assumptions C12_work_loop_one_pass.
Check C12_work_loop_one_pass :
  forall (cfg : Type) (xform : cfg -> path -> content -> fs -> option content * list path)
         (c : cfg) (t : wtree) (f : fs) (k : nat),
    exists t' f', work_loop cfg xform (S k) c t f (count_pending (slots t)) = Some (t', f') /\
                  count_pending (slots t') = 0%nat.

Theorem C12_process_total :
  forall (cfg : Type) (hash : cfg -> N)
         (xform : cfg -> path -> content -> fs -> option content * list path)
         (c : cfg) (t : wtree) (f : fs),
    process cfg hash xform c t f <> None.
Proof. exact process_total. Qed.
Print Assumptions C12_process_total.
Check C12_process_total :
  forall (cfg : Type) (hash : cfg -> N)
         (xform : cfg -> path -> content -> fs -> option content * list path)
         (c : cfg) (t : wtree) (f : fs),
    process cfg hash xform c t f <> None.

(** token reads of the retain-lines generator stay inside the source text: when the recorded
    write requests tile the source, generation succeeds (no out-of-range byte slice) and
    reproduces it *)
Theorem C12_token_reads_in_bounds : forall src evs lps,
  layout evs = Some lps ->
  tiles (List.length src) 0 lps = true ->
  lines_true src lps = true ->
  cm_ok false (map (lp_resolve src) lps) = true ->
  no_adjacent_break src lps = true ->
  generate src evs = Some src.
Proof. exact identity. Qed.
Print Assumptions C12_token_reads_in_bounds.
Check C12_token_reads_in_bounds : forall src evs lps,
  layout evs = Some lps ->
  tiles (List.length src) 0 lps = true ->
  lines_true src lps = true ->
  cm_ok false (map (lp_resolve src) lps) = true ->
  no_adjacent_break src lps = true ->
  generate src evs = Some src.
