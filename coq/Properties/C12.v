(** C12 — No input or configuration crashes darklua (partial by nature).
    interim: totality theorems are imported from the models of C09 / C02 / C03 when available. *)
From DL Require Import Lib.Bytes Model.StringLit Proof.StringLitFacts.
Open Scope N_scope.

(** the literal writer is total and its result always decodes: no input makes it fail *)
Theorem C12_write_string_total : forall s, wf_bytes s = true ->
  exists t, write_string s = t /\ decode_literal true t = Some s.
Proof. intros s H. exists (write_string s). split; [reflexivity | exact (write_string_roundtrip s H)]. Qed.
Print Assumptions C12_write_string_total.
Check C12_write_string_total : forall s, wf_bytes s = true ->
  exists t, write_string s = t /\ decode_literal true t = Some s.
