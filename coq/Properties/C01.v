(** C01 — Default rules preserve program behaviour.

    PART 1.  LOCAL semantic equivalences of the rewrites performed by the default rules, stated
    about the models of [Model/DefaultRules.v] (tied to the Rust rules on every run by the
    correspondence stream "default rules: node-level model ..." of vlib/defaultrules.py) against
    the reference interpreter [Lua/Sem.v], for every dialect, fuel, environment, varargs and store.

    PART 2 (end of the file, "Lifting").  WHOLE-PROGRAM theorems about [run_chunk]: the
    fundamental lemma (a forward same-fuel simulation of the interpreter between a program and
    any rewriting of it generated, pre-order, from node-level refinements; closures hold
    rewritten bodies, the stores differ in their closure records only) and its instances
    for the traversal [apply_hooks] and for the rules remove_function_call_parens,
    remove_empty_do, filter_after_early_return, remove_method_definition (unconditional) and
    convert_index_to_field, remove_unused_while, remove_unused_if_branch restricted to LITERAL
    keys / conditions ([..._literal], [..._partial]: the general rules rest on the static
    evaluator, whose soundness needs the store invariant [env_plain] and holds up to fresh
    garbage only); the same three rules and compute_expression (without its [and]/[or] operand
    selection) restricted to CLOSED CONSTANT expressions ([..._const]), and with the static
    evaluator abstracted as an oracle ([..._oracle]).  NOT proved: remove_nil_declaration as a
    whole-program statement, the general (non-constant) cases just named, and every subset /
    order of the rules.  Whole-program equivalence of those is VALIDATED PER RUN by the
    translation-validation stream of vlib/c01.py (vlib/rulecheck.py: original and output are
    executed in this same reference interpreter under both dialects and several oracle streams).
    remove_unused_variable and rename_variables are outside this file.

    Reading guide.  [store_extends s s1]: [s1] is [s] plus fresh allocations only (no event, no
    oracle consumption, nothing existing changed).  Where a rewrite drops a side-effect-free
    expression, the original run continues in such an [s1] while the rewritten program continues
    in [s]: the theorems say so explicitly ("exists s1, store_extends s s1 /\ ... s1 ...").
    Preconditions [deep_safe], [ctor_pure], [env_plain] are those of the C08 theorems.
    Only statements, closed by [exact], with their assumptions printed and pinned. *)
From Coq Require Import List.
From DL Require Import Lib.Bytes Lib.F64 Lua.Syntax Lua.Sem Model.Evaluator Model.DefaultRules
  Lua.EvalSpec Lua.EvalSpec2 Proof.DefaultRulesSem Proof.DefaultRulesSoundBlock Proof.DefaultRulesSoundExpr
  Proof.DefaultRulesSoundCond Proof.DefaultRulesSoundFuel Proof.DefaultRulesSoundFuelInst.
From DL Require Import Proof.LoweringFuel Proof.LiftingDefs Proof.LiftingSim Proof.LiftingVisit
  Proof.LiftingRulesExpr Proof.LiftingRulesBlock Proof.LiftingRulesIf Proof.LiftingConst
  Proof.LiftingRulesConst Proof.LiftingCompose Proof.LiftingExamples.
Import ListNotations.
Open Scope N_scope.

(** ** compute_expression *)

(** A side-effect-free unary / binary / if node whose static value is nil, a boolean, a string
    or a number is replaced by the literal of that value: the literal evaluates, in the original
    store and with any fuel >= 5, to exactly the node's value list (numbers bit for bit); the
    node itself only added fresh allocations. *)
Theorem C01_compute_replace_sound : forall d e lit n rho va s vs s',
  computable_shape e = true ->
  has_side_effects false e = false -> deep_safe d e = true -> env_plain s ->
  lit_of_lv (evaluate e) = Some lit ->
  eval d n rho va e s = Ok vs s' ->
  store_extends s s' /\
  forall n', (5 <= n')%nat -> eval d n' rho va lit s = Ok vs s.
Proof. exact compute_replace_sound. Qed.
Print Assumptions C01_compute_replace_sound.
Check C01_compute_replace_sound : forall d e lit n rho va s vs s',
  computable_shape e = true ->
  has_side_effects false e = false -> deep_safe d e = true -> env_plain s ->
  lit_of_lv (evaluate e) = Some lit ->
  eval d n rho va e s = Ok vs s' ->
  store_extends s s' /\
  forall n', (5 <= n')%nat -> eval d n' rho va lit s = Ok vs s.

(** ... and that literal is what the model of the rule leaves at the node. *)
Theorem C01_rw_compute_literal : forall e lit,
  computable_shape e = true -> has_side_effects false e = false ->
  lit_of_lv (evaluate e) = Some lit -> rw_compute e = lit.
Proof. exact rw_compute_literal. Qed.
Print Assumptions C01_rw_compute_literal.
Check C01_rw_compute_literal : forall e lit,
  computable_shape e = true -> has_side_effects false e = false ->
  lit_of_lv (evaluate e) = Some lit -> rw_compute e = lit.

(** [l and r] / [l or r] with [l] side-effect free and of known truthiness, in a single-value
    position: the kept operand yields the value of the whole expression. *)
Theorem C01_compute_andor_sound : forall d op l r n rho va s vs s' b,
  (op = BAnd \/ op = BOr) ->
  has_side_effects false l = false -> deep_safe d l = true -> env_plain s ->
  is_truthy (evaluate l) = Some b ->
  eval d n rho va (EBinary op l r) s = Ok vs s' ->
  exists m, n = S m /\
    if Bool.eqb b (is_and op)
    then exists s1 v, store_extends s s1 /\ eval1 d m rho va r s1 = Ok v s' /\ vs = [v]
    else exists v, eval1 d m rho va l s = Ok v s' /\ vs = [v].
Proof. exact compute_andor_sound. Qed.
Print Assumptions C01_compute_andor_sound.
Check C01_compute_andor_sound : forall d op l r n rho va s vs s' b,
  (op = BAnd \/ op = BOr) ->
  has_side_effects false l = false -> deep_safe d l = true -> env_plain s ->
  is_truthy (evaluate l) = Some b ->
  eval d n rho va (EBinary op l r) s = Ok vs s' ->
  exists m, n = S m /\
    if Bool.eqb b (is_and op)
    then exists s1 v, store_extends s s1 /\ eval1 d m rho va r s1 = Ok v s' /\ vs = [v]
    else exists v, eval1 d m rho va l s = Ok v s' /\ vs = [v].

Theorem C01_rw_compute_andor : forall op l r b,
  (op = BAnd \/ op = BOr) -> has_side_effects false (EBinary op l r) = true ->
  has_side_effects false l = false -> is_truthy (evaluate l) = Some b ->
  rw_compute (EBinary op l r) = if Bool.eqb b (is_and op) then r else l.
Proof. exact rw_compute_andor. Qed.
Print Assumptions C01_rw_compute_andor.
Check C01_rw_compute_andor : forall op l r b,
  (op = BAnd \/ op = BOr) -> has_side_effects false (EBinary op l r) = true ->
  has_side_effects false l = false -> is_truthy (evaluate l) = Some b ->
  rw_compute (EBinary op l r) = if Bool.eqb b (is_and op) then r else l.

(** REFUTED in a multi-value position (recorded finding: [return true and f()] becomes
    [return f()]). *)
Theorem C01_compute_multivalue_refuted : exists d n rho va s e vs s' vs2 s2,
  env_plain s /\
  eval_list d n rho va [e] s = Ok vs s' /\ eval_list d n rho va [rw_compute e] s = Ok vs2 s2 /\
  List.length vs = 1%nat /\ List.length vs2 = 2%nat.
Proof. exact compute_multivalue_refuted. Qed.
Print Assumptions C01_compute_multivalue_refuted.
Check C01_compute_multivalue_refuted : exists d n rho va s e vs s' vs2 s2,
  env_plain s /\
  eval_list d n rho va [e] s = Ok vs s' /\ eval_list d n rho va [rw_compute e] s = Ok vs2 s2 /\
  List.length vs = 1%nat /\ List.length vs2 = 2%nat.

(** ** remove_unused_if_branch *)

Theorem C01_if_branch_true_sound : forall d c B rest els n rho va s r s',
  has_side_effects false c = false -> deep_safe d c = true -> env_plain s ->
  is_truthy (evaluate c) = Some true ->
  exec_stmt d n rho va (SIf (SBranch c B :: rest) els) s = Ok r s' ->
  exists s1, store_extends s s1 /\ exec_stmt d n rho va (SDo B) s1 = Ok r s'.
Proof. exact if_branch_true_sound. Qed.
Print Assumptions C01_if_branch_true_sound.
Check C01_if_branch_true_sound : forall d c B rest els n rho va s r s',
  has_side_effects false c = false -> deep_safe d c = true -> env_plain s ->
  is_truthy (evaluate c) = Some true ->
  exec_stmt d n rho va (SIf (SBranch c B :: rest) els) s = Ok r s' ->
  exists s1, store_extends s s1 /\ exec_stmt d n rho va (SDo B) s1 = Ok r s'.

Theorem C01_if_branch_false_sound : forall d c B rest els n rho va s r s',
  has_side_effects false c = false -> deep_safe d c = true -> env_plain s ->
  is_truthy (evaluate c) = Some false ->
  exec_stmt d n rho va (SIf (SBranch c B :: rest) els) s = Ok r s' ->
  exists s1, store_extends s s1 /\
    match rest, els with
    | [], None => r = (rho, SigNone) /\ s' = s1
    | [], Some eb => exec_stmt d n rho va (SDo eb) s1 = Ok r s'
    | _, _ => exec_stmt d n rho va (SIf rest els) s1 = Ok r s'
    end.
Proof. exact if_branch_false_sound. Qed.
Print Assumptions C01_if_branch_false_sound.
Check C01_if_branch_false_sound : forall d c B rest els n rho va s r s',
  has_side_effects false c = false -> deep_safe d c = true -> env_plain s ->
  is_truthy (evaluate c) = Some false ->
  exec_stmt d n rho va (SIf (SBranch c B :: rest) els) s = Ok r s' ->
  exists s1, store_extends s s1 /\
    match rest, els with
    | [], None => r = (rho, SigNone) /\ s' = s1
    | [], Some eb => exec_stmt d n rho va (SDo eb) s1 = Ok r s'
    | _, _ => exec_stmt d n rho va (SIf rest els) s1 = Ok r s'
    end.

(** what the model answers in these two situations *)
Theorem C01_simplify_if_true : forall c B rest els,
  has_side_effects false c = false -> is_truthy (evaluate c) = Some true ->
  simplify_if_statement (SBranch c B :: rest) els =
  if block_is_empty B then FRemove else FReplace (SDo B).
Proof. exact simplify_if_true. Qed.
Print Assumptions C01_simplify_if_true.
Check C01_simplify_if_true : forall c B rest els,
  has_side_effects false c = false -> is_truthy (evaluate c) = Some true ->
  simplify_if_statement (SBranch c B :: rest) els =
  if block_is_empty B then FRemove else FReplace (SDo B).

(** a kept condition (side effects allowed) that is statically truthy / falsy: the code the
    rule deletes behind it is dead; identical runs for every outcome *)
Theorem C01_if_true_rest_dead : forall d c B rest els n rho va s,
  deep_safe d c = true -> ctor_pure d c = true -> env_plain s ->
  is_truthy (evaluate c) = Some true ->
  exec_stmt d n rho va (SIf (SBranch c B :: rest) els) s =
  exec_stmt d n rho va (SIf [SBranch c B] None) s.
Proof. exact if_true_rest_dead. Qed.
Print Assumptions C01_if_true_rest_dead.
Check C01_if_true_rest_dead : forall d c B rest els n rho va s,
  deep_safe d c = true -> ctor_pure d c = true -> env_plain s ->
  is_truthy (evaluate c) = Some true ->
  exec_stmt d n rho va (SIf (SBranch c B :: rest) els) s =
  exec_stmt d n rho va (SIf [SBranch c B] None) s.

Theorem C01_if_false_block_dead : forall d c B rest els n rho va s,
  deep_safe d c = true -> ctor_pure d c = true -> env_plain s ->
  is_truthy (evaluate c) = Some false ->
  exec_stmt d n rho va (SIf (SBranch c B :: rest) els) s =
  exec_stmt d n rho va (SIf (SBranch c empty_block :: rest) els) s.
Proof. exact if_false_block_dead. Qed.
Print Assumptions C01_if_false_block_dead.
Check C01_if_false_block_dead : forall d c B rest els n rho va s,
  deep_safe d c = true -> ctor_pure d c = true -> env_plain s ->
  is_truthy (evaluate c) = Some false ->
  exec_stmt d n rho va (SIf (SBranch c B :: rest) els) s =
  exec_stmt d n rho va (SIf (SBranch c empty_block :: rest) els) s.

(** the same in semantic form ([always d rho va s c b]: whenever [c] evaluates in [s], its value
    has truthiness [b]), with the instance that occurs in practice: a table constructor with
    effectful entries ([if {f()} then ...]), which [ctor_pure] excludes above *)
Theorem C01_if_true_rest_dead_sem : forall d c B rest els n rho va s,
  always d rho va s c true ->
  exec_stmt d n rho va (SIf (SBranch c B :: rest) els) s =
  exec_stmt d n rho va (SIf [SBranch c B] None) s.
Proof. exact if_true_rest_dead_sem. Qed.
Print Assumptions C01_if_true_rest_dead_sem.
Check C01_if_true_rest_dead_sem : forall d c B rest els n rho va s,
  always d rho va s c true ->
  exec_stmt d n rho va (SIf (SBranch c B :: rest) els) s =
  exec_stmt d n rho va (SIf [SBranch c B] None) s.

Theorem C01_if_false_block_dead_sem : forall d c B rest els n rho va s,
  always d rho va s c false ->
  exec_stmt d n rho va (SIf (SBranch c B :: rest) els) s =
  exec_stmt d n rho va (SIf (SBranch c empty_block :: rest) els) s.
Proof. exact if_false_block_dead_sem. Qed.
Print Assumptions C01_if_false_block_dead_sem.
Check C01_if_false_block_dead_sem : forall d c B rest els n rho va s,
  always d rho va s c false ->
  exec_stmt d n rho va (SIf (SBranch c B :: rest) els) s =
  exec_stmt d n rho va (SIf (SBranch c empty_block :: rest) els) s.

Theorem C01_always_table : forall d ens rho va s, always d rho va s (ETable ens) true.
Proof. exact always_table. Qed.
Print Assumptions C01_always_table.
Check C01_always_table : forall d ens rho va s, always d rho va s (ETable ens) true.

Theorem C01_always_not : forall d c b rho va s,
  always d rho va s c b -> always d rho va s (EUnary UNot c) (negb b).
Proof. exact always_not. Qed.
Print Assumptions C01_always_not.
Check C01_always_not : forall d c b rho va s,
  always d rho va s c b -> always d rho va s (EUnary UNot c) (negb b).

Theorem C01_if_empty_else_sound : forall d bs n rho va s r,
  exec_stmt d n rho va (SIf bs (Some empty_block)) s = r -> r <> Fuel ->
  exec_stmt d n rho va (SIf bs None) s = r.
Proof. exact if_empty_else_sound. Qed.
Print Assumptions C01_if_empty_else_sound.
Check C01_if_empty_else_sound : forall d bs n rho va s r,
  exec_stmt d n rho va (SIf bs (Some empty_block)) s = r -> r <> Fuel ->
  exec_stmt d n rho va (SIf bs None) s = r.

(** the if-EXPRESSION form *)
Theorem C01_if_expr_true_sound : forall d c r rest els n rho va s vs s',
  has_side_effects false c = false -> deep_safe d c = true -> env_plain s ->
  is_truthy (evaluate c) = Some true ->
  eval d n rho va (EIf (EBranch c r :: rest) els) s = Ok vs s' ->
  rw_if_expr (EIf (EBranch c r :: rest) els) = paren_if_multi r /\
  exists s1 n', store_extends s s1 /\ eval d n' rho va (paren_if_multi r) s1 = Ok vs s'.
Proof. exact if_expr_true_sound. Qed.
Print Assumptions C01_if_expr_true_sound.
Check C01_if_expr_true_sound : forall d c r rest els n rho va s vs s',
  has_side_effects false c = false -> deep_safe d c = true -> env_plain s ->
  is_truthy (evaluate c) = Some true ->
  eval d n rho va (EIf (EBranch c r :: rest) els) s = Ok vs s' ->
  rw_if_expr (EIf (EBranch c r :: rest) els) = paren_if_multi r /\
  exists s1 n', store_extends s s1 /\ eval d n' rho va (paren_if_multi r) s1 = Ok vs s'.

Theorem C01_if_expr_false_sound : forall d c r rest els n rho va s vs s',
  has_side_effects false c = false -> deep_safe d c = true -> env_plain s ->
  is_truthy (evaluate c) = Some false ->
  eval d n rho va (EIf (EBranch c r :: rest) els) s = Ok vs s' ->
  exists s1 n', store_extends s s1 /\
    eval d n' rho va (match rest with [] => paren_if_multi els | _ => EIf rest els end) s1 = Ok vs s'.
Proof. exact if_expr_false_sound. Qed.
Print Assumptions C01_if_expr_false_sound.
Check C01_if_expr_false_sound : forall d c r rest els n rho va s vs s',
  has_side_effects false c = false -> deep_safe d c = true -> env_plain s ->
  is_truthy (evaluate c) = Some false ->
  eval d n rho va (EIf (EBranch c r :: rest) els) s = Ok vs s' ->
  exists s1 n', store_extends s s1 /\
    eval d n' rho va (match rest with [] => paren_if_multi els | _ => EIf rest els end) s1 = Ok vs s'.

(** ** remove_unused_while *)

Theorem C01_while_false_sound : forall d c b n rho va s r s',
  has_side_effects false c = false -> deep_safe d c = true -> env_plain s ->
  is_truthy (evaluate c) = Some false ->
  exec_stmt d n rho va (SWhile c b) s = Ok r s' ->
  r = (rho, SigNone) /\ store_extends s s'.
Proof. exact while_false_sound. Qed.
Print Assumptions C01_while_false_sound.
Check C01_while_false_sound : forall d c b n rho va s r s',
  has_side_effects false c = false -> deep_safe d c = true -> env_plain s ->
  is_truthy (evaluate c) = Some false ->
  exec_stmt d n rho va (SWhile c b) s = Ok r s' ->
  r = (rho, SigNone) /\ store_extends s s'.

Theorem C01_while_kept_false : forall c b,
  while_kept (SWhile c b) = false <->
  has_side_effects false c = false /\ is_truthy (evaluate c) = Some false.
Proof. exact while_kept_false. Qed.
Print Assumptions C01_while_kept_false.
Check C01_while_kept_false : forall c b,
  while_kept (SWhile c b) = false <->
  has_side_effects false c = false /\ is_truthy (evaluate c) = Some false.

(** ** filter_after_early_return: the rule's rewrite of a block leaves the run of the block
    unchanged, at the same fuel, for every outcome (values, Lua error, out of fuel) *)
Theorem C01_early_return_sound : forall d b n rho va s,
  exec_block d n rho va (rw_early_return b) s = exec_block d n rho va b s.
Proof. exact early_return_sound. Qed.
Print Assumptions C01_early_return_sound.
Check C01_early_return_sound : forall d b n rho va s,
  exec_block d n rho va (rw_early_return b) s = exec_block d n rho va b s.

Theorem C01_early_return_stmts : forall d pre st rest last n rho va s,
  stmt_returns st = true ->
  exec_stmts d n rho va (pre ++ st :: rest) last s = exec_stmts d n rho va (pre ++ [st]) None s.
Proof. exact early_return_stmts. Qed.
Print Assumptions C01_early_return_stmts.
Check C01_early_return_stmts : forall d pre st rest last n rho va s,
  stmt_returns st = true ->
  exec_stmts d n rho va (pre ++ st :: rest) last s = exec_stmts d n rho va (pre ++ [st]) None s.

(** ** remove_empty_do *)

Theorem C01_empty_do_stmt_sound : forall d n rho va s r s',
  exec_stmt d n rho va (SDo (Block [] None)) s = Ok r s' -> r = (rho, SigNone) /\ s' = s.
Proof. exact empty_do_stmt_sound. Qed.
Print Assumptions C01_empty_do_stmt_sound.
Check C01_empty_do_stmt_sound : forall d n rho va s r s',
  exec_stmt d n rho va (SDo (Block [] None)) s = Ok r s' -> r = (rho, SigNone) /\ s' = s.

(** at the head of a statement list, for every outcome but running out of fuel *)
Theorem C01_empty_do_head_sound : forall d n rho va rest last s r,
  exec_stmts d n rho va (SDo (Block [] None) :: rest) last s = r -> r <> Fuel ->
  exists n', exec_stmts d n' rho va rest last s = r.
Proof. exact empty_do_sound. Qed.
Print Assumptions C01_empty_do_head_sound.
Check C01_empty_do_head_sound : forall d n rho va rest last s r,
  exec_stmts d n rho va (SDo (Block [] None) :: rest) last s = r -> r <> Fuel ->
  exists n', exec_stmts d n' rho va rest last s = r.

(** at any position of a statement list, and for the rule's whole pass over a block: a
    successful run stays the same run (same signal, same store), with the same fuel (uses the
    fuel monotonicity of the reference interpreter, Proof/LoweringFuel.v) *)
Theorem C01_empty_do_filter_sound : forall d ss n rho va last s r s',
  exec_stmts d n rho va ss last s = Ok r s' ->
  exec_stmts d n rho va (filter (fun st => negb (empty_do st)) ss) last s = Ok r s'.
Proof. exact empty_do_filter_sound_all. Qed.
Print Assumptions C01_empty_do_filter_sound.
Check C01_empty_do_filter_sound : forall d ss n rho va last s r s',
  exec_stmts d n rho va ss last s = Ok r s' ->
  exec_stmts d n rho va (filter (fun st => negb (empty_do st)) ss) last s = Ok r s'.

Theorem C01_empty_do_block_sound : forall d b n rho va s r s',
  exec_block d n rho va b s = Ok r s' -> exec_block d n rho va (rw_empty_do b) s = Ok r s'.
Proof. exact empty_do_block_sound_all. Qed.
Print Assumptions C01_empty_do_block_sound.
Check C01_empty_do_block_sound : forall d b n rho va s r s',
  exec_block d n rho va b s = Ok r s' -> exec_block d n rho va (rw_empty_do b) s = Ok r s'.

(** ** remove_nil_declaration.  PARTIAL: proved when the variables keep their order (every
    variable initialised by a literal [nil]; or the [nil]s trail the other values and there are as
    many values as variables).  In the general case ([local a, b = nil, e] becomes
    [local b, a = e]) the fresh cells are bound in another order: equivalence holds only up to a
    renaming of fresh cells and is left to the lifting. *)
Theorem C01_nil_decl_partial : forall d xs n rho va s r s',
  xs <> [] -> names_distinct (map param_name xs) = true ->
  exec_stmt d n rho va (SLocal false xs (repeat ENil (List.length xs))) s = Ok r s' ->
  exec_stmt d n rho va (rw_nil_declaration (SLocal false xs (repeat ENil (List.length xs)))) s = Ok r s'.
Proof. exact nil_decl_partial. Qed.
Print Assumptions C01_nil_decl_partial.
Check C01_nil_decl_partial : forall d xs n rho va s r s',
  xs <> [] -> names_distinct (map param_name xs) = true ->
  exec_stmt d n rho va (SLocal false xs (repeat ENil (List.length xs))) s = Ok r s' ->
  exec_stmt d n rho va (rw_nil_declaration (SLocal false xs (repeat ENil (List.length xs)))) s = Ok r s'.

(** as many values as variables, every literal [nil] behind the other values
    ([local a, b, c = e, nil, nil] becomes [local a, b, c = e], the last value parenthesised
    when it may yield several): the variables keep their order, same environment and store *)
Theorem C01_nil_decl_trailing_sound : forall d xs es k n rho va s r s',
  (1 <= k)%nat -> List.length xs = (List.length es + k)%nat ->
  forallb (fun e => negb (is_nil e)) es = true -> names_distinct (map param_name xs) = true ->
  exec_stmt d n rho va (SLocal false xs (es ++ repeat ENil k)) s = Ok r s' ->
  exists n', exec_stmt d n' rho va (rw_nil_declaration (SLocal false xs (es ++ repeat ENil k))) s = Ok r s'.
Proof. exact nil_decl_trailing_sound_all. Qed.
Print Assumptions C01_nil_decl_trailing_sound.
Check C01_nil_decl_trailing_sound : forall d xs es k n rho va s r s',
  (1 <= k)%nat -> List.length xs = (List.length es + k)%nat ->
  forallb (fun e => negb (is_nil e)) es = true -> names_distinct (map param_name xs) = true ->
  exec_stmt d n rho va (SLocal false xs (es ++ repeat ENil k)) s = Ok r s' ->
  exists n', exec_stmt d n' rho va (rw_nil_declaration (SLocal false xs (es ++ repeat ENil k))) s = Ok r s'.

Theorem C01_nil_decl_single_sound : forall d n rho va x s r s',
  exec_stmt d n rho va (SLocal false [x] [ENil]) s = Ok r s' ->
  rw_nil_declaration (SLocal false [x] [ENil]) = SLocal false [x] [] /\
  exec_stmt d n rho va (SLocal false [x] []) s = Ok r s'.
Proof. exact nil_decl_single_sound. Qed.
Print Assumptions C01_nil_decl_single_sound.
Check C01_nil_decl_single_sound : forall d n rho va x s r s',
  exec_stmt d n rho va (SLocal false [x] [ENil]) s = Ok r s' ->
  rw_nil_declaration (SLocal false [x] [ENil]) = SLocal false [x] [] /\
  exec_stmt d n rho va (SLocal false [x] []) s = Ok r s'.

(** ** convert_index_to_field *)

Theorem C01_index_to_field_literal_sound : forall d n rho va p str s r,
  eval d n rho va (EIndex p (EString str)) s = r -> r <> Fuel ->
  eval d n rho va (EField p str) s = r.
Proof. exact index_to_field_literal_sound. Qed.
Print Assumptions C01_index_to_field_literal_sound.
Check C01_index_to_field_literal_sound : forall d n rho va p str s r,
  eval d n rho va (EIndex p (EString str)) s = r -> r <> Fuel ->
  eval d n rho va (EField p str) s = r.

(** the key is any side-effect-free expression that is statically the string [str]: the run of
    [p[k]] is the prefix, then the key (exactly [VStr str], fresh allocations only), then
    [index o "str"]; [p.str] is the same prefix followed by [index o "str"] *)
Theorem C01_index_to_field_sound : forall d p k str n rho va s vs s',
  has_side_effects false k = false -> deep_safe d k = true -> evaluate k = LString str ->
  (forall m o s1, eval1 d m rho va p s = Ok o s1 -> env_plain s1) ->
  eval d n rho va (EIndex p k) s = Ok vs s' ->
  exists m o s1 s2 v,
    n = S m /\ eval1 d m rho va p s = Ok o s1 /\
    eval1 d m rho va k s1 = Ok (VStr str) s2 /\ store_extends s1 s2 /\
    index d m o (VStr str) s2 = Ok v s' /\ vs = [v] /\
    eval d n rho va (EField p str) s = (v <- index d m o (VStr str) ;; ret [v]) s1.
Proof. exact index_to_field_sound. Qed.
Print Assumptions C01_index_to_field_sound.
Check C01_index_to_field_sound : forall d p k str n rho va s vs s',
  has_side_effects false k = false -> deep_safe d k = true -> evaluate k = LString str ->
  (forall m o s1, eval1 d m rho va p s = Ok o s1 -> env_plain s1) ->
  eval d n rho va (EIndex p k) s = Ok vs s' ->
  exists m o s1 s2 v,
    n = S m /\ eval1 d m rho va p s = Ok o s1 /\
    eval1 d m rho va k s1 = Ok (VStr str) s2 /\ store_extends s1 s2 /\
    index d m o (VStr str) s2 = Ok v s' /\ vs = [v] /\
    eval d n rho va (EField p str) s = (v <- index d m o (VStr str) ;; ret [v]) s1.

(** when the prefix is a table that holds the key (no metamethod runs): same value list, the
    stores differ by the key's fresh allocations *)
Theorem C01_index_to_field_raw_sound : forall d p k str n rho va s vs s',
  has_side_effects false k = false -> deep_safe d k = true -> evaluate k = LString str ->
  (forall m o s1, eval1 d m rho va p s = Ok o s1 ->
     env_plain s1 /\ exists a t, o = VTable a /\ nth_N (tables s1) (N.to_nat a) = Some t /\
                                 raw_get (t_entries t) (VStr str) <> VNil) ->
  eval d n rho va (EIndex p k) s = Ok vs s' ->
  exists s1, eval d n rho va (EField p str) s = Ok vs s1 /\ store_extends s1 s'.
Proof. exact index_to_field_raw_sound. Qed.
Print Assumptions C01_index_to_field_raw_sound.
Check C01_index_to_field_raw_sound : forall d p k str n rho va s vs s',
  has_side_effects false k = false -> deep_safe d k = true -> evaluate k = LString str ->
  (forall m o s1, eval1 d m rho va p s = Ok o s1 ->
     env_plain s1 /\ exists a t, o = VTable a /\ nth_N (tables s1) (N.to_nat a) = Some t /\
                                 raw_get (t_entries t) (VStr str) <> VNil) ->
  eval d n rho va (EIndex p k) s = Ok vs s' ->
  exists s1, eval d n rho va (EField p str) s = Ok vs s1 /\ store_extends s1 s'.

(** ** remove_method_definition: [function b.f:m(ps) body end] and
    [function b.f.m(self, ps) body end] run the same code after allocating closure records
    that [call] cannot tell apart *)
Theorem C01_method_def_stmt_sound : forall d n rho va base fields m f,
  exec_stmt d (S n) rho va (SFunction base fields (Some m) f) =
  (c <- new_closure (mkClosure f rho true) ;; sfunction_store d n rho va base (fields ++ [m]) c) /\
  exec_stmt d (S n) rho va (rw_method_def (SFunction base fields (Some m) f)) =
  (c <- new_closure (mkClosure (add_self f) rho false) ;; sfunction_store d n rho va base (fields ++ [m]) c).
Proof. exact method_def_stmt_sound. Qed.
Print Assumptions C01_method_def_stmt_sound.
Check C01_method_def_stmt_sound : forall d n rho va base fields m f,
  exec_stmt d (S n) rho va (SFunction base fields (Some m) f) =
  (c <- new_closure (mkClosure f rho true) ;; sfunction_store d n rho va base (fields ++ [m]) c) /\
  exec_stmt d (S n) rho va (rw_method_def (SFunction base fields (Some m) f)) =
  (c <- new_closure (mkClosure (add_self f) rho false) ;; sfunction_store d n rho va base (fields ++ [m]) c).

Theorem C01_method_def_call_sound : forall d n a args s1 s2 f rho,
  get_closure a s1 = Ok (mkClosure f rho true) s1 ->
  get_closure a s2 = Ok (mkClosure (add_self f) rho false) s2 ->
  call d (S n) (VClosure a) args s1 =
    call_closure d n (effective_params (mkClosure f rho true)) (closure_variadic (mkClosure f rho true))
                 (closure_block (mkClosure f rho true)) rho args s1 /\
  call d (S n) (VClosure a) args s2 =
    call_closure d n (effective_params (mkClosure f rho true)) (closure_variadic (mkClosure f rho true))
                 (closure_block (mkClosure f rho true)) rho args s2.
Proof. exact method_def_call_sound. Qed.
Print Assumptions C01_method_def_call_sound.
Check C01_method_def_call_sound : forall d n a args s1 s2 f rho,
  get_closure a s1 = Ok (mkClosure f rho true) s1 ->
  get_closure a s2 = Ok (mkClosure (add_self f) rho false) s2 ->
  call d (S n) (VClosure a) args s1 =
    call_closure d n (effective_params (mkClosure f rho true)) (closure_variadic (mkClosure f rho true))
                 (closure_block (mkClosure f rho true)) rho args s1 /\
  call d (S n) (VClosure a) args s2 =
    call_closure d n (effective_params (mkClosure f rho true)) (closure_variadic (mkClosure f rho true))
                 (closure_block (mkClosure f rho true)) rho args s2.

(** ** remove_function_call_parens *)

Theorem C01_call_parens_string_sound : forall d n rho va p m str s vs s',
  eval d n rho va (ECall p m (ATuple [EString str])) s = Ok vs s' ->
  rw_call_parens (ECall p m (ATuple [EString str])) = ECall p m (AString str) /\
  eval d n rho va (ECall p m (AString str)) s = Ok vs s'.
Proof. exact call_parens_string_sound. Qed.
Print Assumptions C01_call_parens_string_sound.
Check C01_call_parens_string_sound : forall d n rho va p m str s vs s',
  eval d n rho va (ECall p m (ATuple [EString str])) s = Ok vs s' ->
  rw_call_parens (ECall p m (ATuple [EString str])) = ECall p m (AString str) /\
  eval d n rho va (ECall p m (AString str)) s = Ok vs s'.

(** the table form: the same computation of the argument list, two units of fuel apart, for
    every outcome *)
Theorem C01_call_parens_table_args : forall d n rho va ens s,
  eval_args d (S (S (S n))) rho va (ATuple [ETable ens]) s = eval_args d (S n) rho va (ATable ens) s.
Proof. exact call_parens_table_args. Qed.
Print Assumptions C01_call_parens_table_args.
Check C01_call_parens_table_args : forall d n rho va ens s,
  eval_args d (S (S (S n))) rho va (ATuple [ETable ens]) s = eval_args d (S n) rho va (ATable ens) s.

(** ... and so do the calls, at the same fuel (uses fuel monotonicity) *)
Theorem C01_call_parens_table_sound : forall d n rho va p m ens s vs s',
  eval d n rho va (ECall p m (ATuple [ETable ens])) s = Ok vs s' ->
  rw_call_parens (ECall p m (ATuple [ETable ens])) = ECall p m (ATable ens) /\
  eval d n rho va (ECall p m (ATable ens)) s = Ok vs s'.
Proof. exact call_parens_table_sound. Qed.
Print Assumptions C01_call_parens_table_sound.
Check C01_call_parens_table_sound : forall d n rho va p m ens s vs s',
  eval d n rho va (ECall p m (ATuple [ETable ens])) s = Ok vs s' ->
  rw_call_parens (ECall p m (ATuple [ETable ens])) = ECall p m (ATable ens) /\
  eval d n rho va (ECall p m (ATable ens)) s = Ok vs s'.

(** * PART 2 - Lifting: whole programs

    [refines m1 m2] (Proof/LoweringFuel.v): wherever [m1] does not run out of fuel, [m2] yields
    the very same result in the same store.  [crel_block Re Rv Rt Rs Rb b b'] (Proof/LiftingDefs.v):
    [b'] is obtained from [b] by, at every node top-down, at most one step of the base relation
    of that kind of node ([Re] expressions in value position, [Rv] in assignment-target position,
    [Rt] entry lists of table constructors, [Rs] statements, [Rb] blocks) followed by the same
    in the children of the result; type annotations are unconstrained and function bodies are
    compared through their effective parameter names.  [hooks_ok] (Proof/LiftingVisit.v): every hook of the record relates a node to what it leaves there.
    All theorems: SAME fuel on both sides, every outcome but [OutFuel] (values, Lua errors,
    unsupported constructs), literal equality of the event trace and of the rendered results. *)

(** the fundamental lemma at the level of chunks; the clauses for the 24 interpreter functions are [sim_all_holds] of Proof/LiftingSim.v *)
Theorem C01_lifting_fundamental : forall (Re Rv : expr -> expr -> Prop) (Rt : list tentry -> list tentry -> Prop)
         (Rs : stmt -> stmt -> Prop) (Rb : block -> block -> Prop) d,
  (forall e e1, Re e e1 -> forall n rho va, refines (eval d n rho va e) (eval d n rho va e1)) ->
  (forall e e1, Rv e e1 -> forall n rho va, refines (eval_target d n rho va e) (eval_target d n rho va e1)) ->
  (forall ens ens1, Rt ens ens1 -> forall n rho va a pos,
     refines (fill_table d n rho va a ens pos) (fill_table d n rho va a ens1 pos)) ->
  (forall st st1, Rs st st1 -> forall n rho va, refines (exec_stmt d n rho va st) (exec_stmt d n rho va st1)) ->
  (forall b b1, Rb b b1 -> forall n rho va, refines (exec_block d n rho va b) (exec_block d n rho va b1)) ->
  (forall b b1, Rb b b1 -> forall n rho va c, refines (exec_repeat d n rho va b c) (exec_repeat d n rho va b1 c)) ->
  forall b b', crel_block Re Rv Rt Rs Rb b b' ->
  forall n orc out, run_chunk d n orc b = out -> out <> OutFuel -> run_chunk d n orc b' = out.
Proof. exact crel_run_chunk. Qed.
Print Assumptions C01_lifting_fundamental.
Check C01_lifting_fundamental : forall (Re Rv : expr -> expr -> Prop) (Rt : list tentry -> list tentry -> Prop)
         (Rs : stmt -> stmt -> Prop) (Rb : block -> block -> Prop) d,
  (forall e e1, Re e e1 -> forall n rho va, refines (eval d n rho va e) (eval d n rho va e1)) ->
  (forall e e1, Rv e e1 -> forall n rho va, refines (eval_target d n rho va e) (eval_target d n rho va e1)) ->
  (forall ens ens1, Rt ens ens1 -> forall n rho va a pos,
     refines (fill_table d n rho va a ens pos) (fill_table d n rho va a ens1 pos)) ->
  (forall st st1, Rs st st1 -> forall n rho va, refines (exec_stmt d n rho va st) (exec_stmt d n rho va st1)) ->
  (forall b b1, Rb b b1 -> forall n rho va, refines (exec_block d n rho va b) (exec_block d n rho va b1)) ->
  (forall b b1, Rb b b1 -> forall n rho va c, refines (exec_repeat d n rho va b c) (exec_repeat d n rho va b1 c)) ->
  forall b b', crel_block Re Rv Rt Rs Rb b b' ->
  forall n orc out, run_chunk d n orc b = out -> out <> OutFuel -> run_chunk d n orc b' = out.

(** the traversal: hooks that are node-level refinements may be applied everywhere *)
Theorem C01_lifting_apply_hooks : forall (Re Rv : expr -> expr -> Prop) (Rt : list tentry -> list tentry -> Prop)
         (Rs : stmt -> stmt -> Prop) (Rb : block -> block -> Prop) d,
  (forall e e1, Re e e1 -> forall n rho va, refines (eval d n rho va e) (eval d n rho va e1)) ->
  (forall e e1, Rv e e1 -> forall n rho va, refines (eval_target d n rho va e) (eval_target d n rho va e1)) ->
  (forall ens ens1, Rt ens ens1 -> forall n rho va a pos,
     refines (fill_table d n rho va a ens pos) (fill_table d n rho va a ens1 pos)) ->
  (forall st st1, Rs st st1 -> forall n rho va, refines (exec_stmt d n rho va st) (exec_stmt d n rho va st1)) ->
  (forall b b1, Rb b b1 -> forall n rho va, refines (exec_block d n rho va b) (exec_block d n rho va b1)) ->
  (forall b b1, Rb b b1 -> forall n rho va c, refines (exec_repeat d n rho va b c) (exec_repeat d n rho va b1 c)) ->
  forall H, hooks_ok Re Rv Rt Rs Rb H ->
  forall n orc b out, run_chunk d n orc b = out -> out <> OutFuel ->
  run_chunk d n orc (apply_hooks H b) = out.
Proof. exact lifting_apply_hooks. Qed.
Print Assumptions C01_lifting_apply_hooks.
Check C01_lifting_apply_hooks : forall (Re Rv : expr -> expr -> Prop) (Rt : list tentry -> list tentry -> Prop)
         (Rs : stmt -> stmt -> Prop) (Rb : block -> block -> Prop) d,
  (forall e e1, Re e e1 -> forall n rho va, refines (eval d n rho va e) (eval d n rho va e1)) ->
  (forall e e1, Rv e e1 -> forall n rho va, refines (eval_target d n rho va e) (eval_target d n rho va e1)) ->
  (forall ens ens1, Rt ens ens1 -> forall n rho va a pos,
     refines (fill_table d n rho va a ens pos) (fill_table d n rho va a ens1 pos)) ->
  (forall st st1, Rs st st1 -> forall n rho va, refines (exec_stmt d n rho va st) (exec_stmt d n rho va st1)) ->
  (forall b b1, Rb b b1 -> forall n rho va, refines (exec_block d n rho va b) (exec_block d n rho va b1)) ->
  (forall b b1, Rb b b1 -> forall n rho va c, refines (exec_repeat d n rho va b c) (exec_repeat d n rho va b1 c)) ->
  forall H, hooks_ok Re Rv Rt Rs Rb H ->
  forall n orc b out, run_chunk d n orc b = out -> out <> OutFuel ->
  run_chunk d n orc (apply_hooks H b) = out.

(** ** the rules, unconditionally *)

Theorem C01_lifting_remove_function_call_parens : forall d n orc b out,
  run_chunk d n orc b = out -> out <> OutFuel ->
  run_chunk d n orc (rule_remove_function_call_parens b) = out.
Proof. exact lifting_remove_function_call_parens. Qed.
Print Assumptions C01_lifting_remove_function_call_parens.
Check C01_lifting_remove_function_call_parens : forall d n orc b out,
  run_chunk d n orc b = out -> out <> OutFuel ->
  run_chunk d n orc (rule_remove_function_call_parens b) = out.

(** one pass, and the rule ([loop { visit; if !has_mutated { break } }]) *)
Theorem C01_lifting_remove_empty_do_pass : forall d n orc b out,
  run_chunk d n orc b = out -> out <> OutFuel ->
  run_chunk d n orc (apply_hooks hooks_empty_do b) = out.
Proof. exact lifting_remove_empty_do_pass. Qed.
Print Assumptions C01_lifting_remove_empty_do_pass.
Check C01_lifting_remove_empty_do_pass : forall d n orc b out,
  run_chunk d n orc b = out -> out <> OutFuel ->
  run_chunk d n orc (apply_hooks hooks_empty_do b) = out.

Theorem C01_lifting_remove_empty_do : forall d n orc b out,
  run_chunk d n orc b = out -> out <> OutFuel ->
  run_chunk d n orc (rule_remove_empty_do b) = out.
Proof. exact lifting_remove_empty_do. Qed.
Print Assumptions C01_lifting_remove_empty_do.
Check C01_lifting_remove_empty_do : forall d n orc b out,
  run_chunk d n orc b = out -> out <> OutFuel ->
  run_chunk d n orc (rule_remove_empty_do b) = out.

Theorem C01_lifting_filter_after_early_return : forall d n orc b out,
  run_chunk d n orc b = out -> out <> OutFuel ->
  run_chunk d n orc (rule_filter_after_early_return b) = out.
Proof. exact lifting_filter_after_early_return. Qed.
Print Assumptions C01_lifting_filter_after_early_return.
Check C01_lifting_filter_after_early_return : forall d n orc b out,
  run_chunk d n orc b = out -> out <> OutFuel ->
  run_chunk d n orc (rule_filter_after_early_return b) = out.

Theorem C01_lifting_remove_method_definition : forall d n orc b out,
  run_chunk d n orc b = out -> out <> OutFuel ->
  run_chunk d n orc (rule_remove_method_definition b) = out.
Proof. exact lifting_remove_method_definition. Qed.
Print Assumptions C01_lifting_remove_method_definition.
Check C01_lifting_remove_method_definition : forall d n orc b out,
  run_chunk d n orc b = out -> out <> OutFuel ->
  run_chunk d n orc (rule_remove_method_definition b) = out.

(** ** the rules that consult the static evaluator, restricted to literals (PARTIAL)

    [rule_X_literal] is the rule with the static evaluator answering only on literals
    (string-literal keys; conditions [false] / [nil]; conditions [true] / [false] / [nil] /
    number / string literal).  [..._partial]: the rule itself, on programs on which it does
    nothing else (a decidable hypothesis; examples in Proof/LiftingExamples.v). *)

Theorem C01_lifting_convert_index_to_field_literal : forall d n orc b out,
  run_chunk d n orc b = out -> out <> OutFuel ->
  run_chunk d n orc (rule_convert_index_to_field_literal b) = out.
Proof. exact lifting_convert_index_to_field_literal. Qed.
Print Assumptions C01_lifting_convert_index_to_field_literal.
Check C01_lifting_convert_index_to_field_literal : forall d n orc b out,
  run_chunk d n orc b = out -> out <> OutFuel ->
  run_chunk d n orc (rule_convert_index_to_field_literal b) = out.

Theorem C01_lifting_convert_index_to_field_partial : forall d n orc b out,
  rule_convert_index_to_field b = rule_convert_index_to_field_literal b ->
  run_chunk d n orc b = out -> out <> OutFuel ->
  run_chunk d n orc (rule_convert_index_to_field b) = out.
Proof. exact lifting_convert_index_to_field_partial. Qed.
Print Assumptions C01_lifting_convert_index_to_field_partial.
Check C01_lifting_convert_index_to_field_partial : forall d n orc b out,
  rule_convert_index_to_field b = rule_convert_index_to_field_literal b ->
  run_chunk d n orc b = out -> out <> OutFuel ->
  run_chunk d n orc (rule_convert_index_to_field b) = out.

Theorem C01_lifting_remove_unused_while_literal : forall d n orc b out,
  run_chunk d n orc b = out -> out <> OutFuel ->
  run_chunk d n orc (rule_remove_unused_while_literal b) = out.
Proof. exact lifting_remove_unused_while_literal. Qed.
Print Assumptions C01_lifting_remove_unused_while_literal.
Check C01_lifting_remove_unused_while_literal : forall d n orc b out,
  run_chunk d n orc b = out -> out <> OutFuel ->
  run_chunk d n orc (rule_remove_unused_while_literal b) = out.

Theorem C01_lifting_remove_unused_while_partial : forall d n orc b out,
  rule_remove_unused_while b = rule_remove_unused_while_literal b ->
  run_chunk d n orc b = out -> out <> OutFuel ->
  run_chunk d n orc (rule_remove_unused_while b) = out.
Proof. exact lifting_remove_unused_while_partial. Qed.
Print Assumptions C01_lifting_remove_unused_while_partial.
Check C01_lifting_remove_unused_while_partial : forall d n orc b out,
  rule_remove_unused_while b = rule_remove_unused_while_literal b ->
  run_chunk d n orc b = out -> out <> OutFuel ->
  run_chunk d n orc (rule_remove_unused_while b) = out.

(** remove_unused_if_branch with the truthiness and side-effect oracles abstracted: sound for every oracle that answers only on store-independent, store-preserving constants *)
Theorem C01_lifting_if_oracle : forall d tr hs, tr_ok d tr hs ->
  forall n orc b out, run_chunk d n orc b = out -> out <> OutFuel ->
  run_chunk d n orc (apply_hooks (hooks_if_g tr hs) b) = out.
Proof. exact lifting_if_g. Qed.
Print Assumptions C01_lifting_if_oracle.
Check C01_lifting_if_oracle : forall d tr hs, tr_ok d tr hs ->
  forall n orc b out, run_chunk d n orc b = out -> out <> OutFuel ->
  run_chunk d n orc (apply_hooks (hooks_if_g tr hs) b) = out.

(** with the rule's own oracles these hooks are the rule's hooks *)
Theorem C01_lifting_if_oracle_is_rule : (forall b, h_block hooks_if b = h_block (hooks_if_g tr_static hse) b) /\
  (forall e, h_expr hooks_if e = h_expr (hooks_if_g tr_static hse) e).
Proof. exact if_g_agrees. Qed.
Print Assumptions C01_lifting_if_oracle_is_rule.
Check C01_lifting_if_oracle_is_rule : (forall b, h_block hooks_if b = h_block (hooks_if_g tr_static hse) b) /\
  (forall e, h_expr hooks_if e = h_expr (hooks_if_g tr_static hse) e).

Theorem C01_lifting_remove_unused_if_branch_literal : forall d n orc b out,
  run_chunk d n orc b = out -> out <> OutFuel ->
  run_chunk d n orc (rule_remove_unused_if_branch_literal b) = out.
Proof. exact lifting_remove_unused_if_branch_literal. Qed.
Print Assumptions C01_lifting_remove_unused_if_branch_literal.
Check C01_lifting_remove_unused_if_branch_literal : forall d n orc b out,
  run_chunk d n orc b = out -> out <> OutFuel ->
  run_chunk d n orc (rule_remove_unused_if_branch_literal b) = out.

Theorem C01_lifting_remove_unused_if_branch_partial : forall d n orc b out,
  rule_remove_unused_if_branch b = rule_remove_unused_if_branch_literal b ->
  run_chunk d n orc b = out -> out <> OutFuel ->
  run_chunk d n orc (rule_remove_unused_if_branch b) = out.
Proof. exact lifting_remove_unused_if_branch_partial. Qed.
Print Assumptions C01_lifting_remove_unused_if_branch_partial.
Check C01_lifting_remove_unused_if_branch_partial : forall d n orc b out,
  rule_remove_unused_if_branch b = rule_remove_unused_if_branch_literal b ->
  run_chunk d n orc b = out -> out <> OutFuel ->
  run_chunk d n orc (rule_remove_unused_if_branch b) = out.

(** ** the same rules and compute_expression, restricted to closed constant expressions (PARTIAL)

    [cval] (Proof/LiftingConst.v) evaluates expressions built from literals with [not], unary
    minus and arithmetic (not [%]) on numbers, comparisons on numbers and on strings, [..] on
    strings, [==] / [~=], [and] / [or] and parentheses; in EVERY store such an expression yields
    that value and leaves the store alone.  [*_oracle]: the rule with the static evaluator's
    answers as a parameter, sound for every oracle that only answers on such constants;
    [*_oracle_is_rule]: with its own oracle it is the rule (hooks equal pointwise). *)

Theorem C01_lifting_cval_sound : forall d rho va e v, cval e = Some v ->
  forall n, refines (eval d n rho va e) (ret [v]).
Proof. exact cval_sound. Qed.
Print Assumptions C01_lifting_cval_sound.
Check C01_lifting_cval_sound : forall d rho va e v, cval e = Some v ->
  forall n, refines (eval d n rho va e) (ret [v]).

Theorem C01_lifting_index_oracle : forall d ck, ck_ok d ck ->
  forall n orc b out, run_chunk d n orc b = out -> out <> OutFuel ->
  run_chunk d n orc (apply_hooks (hooks_index_to_field_g ck) b) = out.
Proof. exact lifting_index_to_field_g. Qed.
Print Assumptions C01_lifting_index_oracle.
Check C01_lifting_index_oracle : forall d ck, ck_ok d ck ->
  forall n orc b out, run_chunk d n orc b = out -> out <> OutFuel ->
  run_chunk d n orc (apply_hooks (hooks_index_to_field_g ck) b) = out.

Theorem C01_lifting_index_oracle_is_rule : (forall e, h_expr hooks_index_to_field e = h_expr (hooks_index_to_field_g convert_to_field) e) /\
  (forall e, h_prefix hooks_index_to_field e = h_prefix (hooks_index_to_field_g convert_to_field) e) /\
  (forall e, h_var hooks_index_to_field e = h_var (hooks_index_to_field_g convert_to_field) e) /\
  (forall t, h_table hooks_index_to_field t = h_table (hooks_index_to_field_g convert_to_field) t).
Proof. exact index_to_field_g_agrees. Qed.
Print Assumptions C01_lifting_index_oracle_is_rule.
Check C01_lifting_index_oracle_is_rule : (forall e, h_expr hooks_index_to_field e = h_expr (hooks_index_to_field_g convert_to_field) e) /\
  (forall e, h_prefix hooks_index_to_field e = h_prefix (hooks_index_to_field_g convert_to_field) e) /\
  (forall e, h_var hooks_index_to_field e = h_var (hooks_index_to_field_g convert_to_field) e) /\
  (forall t, h_table hooks_index_to_field t = h_table (hooks_index_to_field_g convert_to_field) t).

Theorem C01_lifting_while_oracle : forall d keepc, keepc_ok d keepc ->
  forall n orc b out, run_chunk d n orc b = out -> out <> OutFuel ->
  run_chunk d n orc (apply_hooks (hooks_while_g keepc) b) = out.
Proof. exact lifting_while_g. Qed.
Print Assumptions C01_lifting_while_oracle.
Check C01_lifting_while_oracle : forall d keepc, keepc_ok d keepc ->
  forall n orc b out, run_chunk d n orc b = out -> out <> OutFuel ->
  run_chunk d n orc (apply_hooks (hooks_while_g keepc) b) = out.

Theorem C01_lifting_while_oracle_is_rule : forall b, h_block hooks_while b = h_block (hooks_while_g keepc_static) b.
Proof. exact while_g_agrees. Qed.
Print Assumptions C01_lifting_while_oracle_is_rule.
Check C01_lifting_while_oracle_is_rule : forall b, h_block hooks_while b = h_block (hooks_while_g keepc_static) b.

(** compute_expression without the [and]/[or] operand selection (truthiness oracle [fun _ => None]); the static value is announced only for nodes that evaluate to its literal at the same fuel *)
Theorem C01_lifting_compute_oracle : forall d ev hs, ev_ok d ev hs ->
  forall n orc b out, run_chunk d n orc b = out -> out <> OutFuel ->
  run_chunk d n orc (apply_hooks (hooks_compute_g ev (fun _ => None) hs) b) = out.
Proof. exact lifting_compute_g. Qed.
Print Assumptions C01_lifting_compute_oracle.
Check C01_lifting_compute_oracle : forall d ev hs, ev_ok d ev hs ->
  forall n orc b out, run_chunk d n orc b = out -> out <> OutFuel ->
  run_chunk d n orc (apply_hooks (hooks_compute_g ev (fun _ => None) hs) b) = out.

Theorem C01_lifting_compute_oracle_is_rule : forall e, h_expr hooks_compute e = h_expr (hooks_compute_g evaluate tr_static hse) e.
Proof. exact compute_g_agrees. Qed.
Print Assumptions C01_lifting_compute_oracle_is_rule.
Check C01_lifting_compute_oracle_is_rule : forall e, h_expr hooks_compute e = h_expr (hooks_compute_g evaluate tr_static hse) e.

Theorem C01_lifting_convert_index_to_field_const : forall d n orc b out,
  run_chunk d n orc b = out -> out <> OutFuel ->
  run_chunk d n orc (rule_convert_index_to_field_const b) = out.
Proof. exact lifting_convert_index_to_field_const. Qed.
Print Assumptions C01_lifting_convert_index_to_field_const.
Check C01_lifting_convert_index_to_field_const : forall d n orc b out,
  run_chunk d n orc b = out -> out <> OutFuel ->
  run_chunk d n orc (rule_convert_index_to_field_const b) = out.

Theorem C01_lifting_convert_index_to_field_const_partial : forall d n orc b out,
  rule_convert_index_to_field b = rule_convert_index_to_field_const b ->
  run_chunk d n orc b = out -> out <> OutFuel ->
  run_chunk d n orc (rule_convert_index_to_field b) = out.
Proof. exact lifting_convert_index_to_field_const_partial. Qed.
Print Assumptions C01_lifting_convert_index_to_field_const_partial.
Check C01_lifting_convert_index_to_field_const_partial : forall d n orc b out,
  rule_convert_index_to_field b = rule_convert_index_to_field_const b ->
  run_chunk d n orc b = out -> out <> OutFuel ->
  run_chunk d n orc (rule_convert_index_to_field b) = out.

Theorem C01_lifting_remove_unused_while_const : forall d n orc b out,
  run_chunk d n orc b = out -> out <> OutFuel ->
  run_chunk d n orc (rule_remove_unused_while_const b) = out.
Proof. exact lifting_remove_unused_while_const. Qed.
Print Assumptions C01_lifting_remove_unused_while_const.
Check C01_lifting_remove_unused_while_const : forall d n orc b out,
  run_chunk d n orc b = out -> out <> OutFuel ->
  run_chunk d n orc (rule_remove_unused_while_const b) = out.

Theorem C01_lifting_remove_unused_while_const_partial : forall d n orc b out,
  rule_remove_unused_while b = rule_remove_unused_while_const b ->
  run_chunk d n orc b = out -> out <> OutFuel ->
  run_chunk d n orc (rule_remove_unused_while b) = out.
Proof. exact lifting_remove_unused_while_const_partial. Qed.
Print Assumptions C01_lifting_remove_unused_while_const_partial.
Check C01_lifting_remove_unused_while_const_partial : forall d n orc b out,
  rule_remove_unused_while b = rule_remove_unused_while_const b ->
  run_chunk d n orc b = out -> out <> OutFuel ->
  run_chunk d n orc (rule_remove_unused_while b) = out.

Theorem C01_lifting_remove_unused_if_branch_const : forall d n orc b out,
  run_chunk d n orc b = out -> out <> OutFuel ->
  run_chunk d n orc (rule_remove_unused_if_branch_const b) = out.
Proof. exact lifting_remove_unused_if_branch_const. Qed.
Print Assumptions C01_lifting_remove_unused_if_branch_const.
Check C01_lifting_remove_unused_if_branch_const : forall d n orc b out,
  run_chunk d n orc b = out -> out <> OutFuel ->
  run_chunk d n orc (rule_remove_unused_if_branch_const b) = out.

Theorem C01_lifting_remove_unused_if_branch_const_partial : forall d n orc b out,
  rule_remove_unused_if_branch b = rule_remove_unused_if_branch_const b ->
  run_chunk d n orc b = out -> out <> OutFuel ->
  run_chunk d n orc (rule_remove_unused_if_branch b) = out.
Proof. exact lifting_remove_unused_if_branch_const_partial. Qed.
Print Assumptions C01_lifting_remove_unused_if_branch_const_partial.
Check C01_lifting_remove_unused_if_branch_const_partial : forall d n orc b out,
  rule_remove_unused_if_branch b = rule_remove_unused_if_branch_const b ->
  run_chunk d n orc b = out -> out <> OutFuel ->
  run_chunk d n orc (rule_remove_unused_if_branch b) = out.

Theorem C01_lifting_compute_expression_const : forall d n orc b out,
  run_chunk d n orc b = out -> out <> OutFuel ->
  run_chunk d n orc (rule_compute_expression_const b) = out.
Proof. exact lifting_compute_expression_const. Qed.
Print Assumptions C01_lifting_compute_expression_const.
Check C01_lifting_compute_expression_const : forall d n orc b out,
  run_chunk d n orc b = out -> out <> OutFuel ->
  run_chunk d n orc (rule_compute_expression_const b) = out.

Theorem C01_lifting_compute_expression_const_partial : forall d n orc b out,
  rule_compute_expression b = rule_compute_expression_const b ->
  run_chunk d n orc b = out -> out <> OutFuel ->
  run_chunk d n orc (rule_compute_expression b) = out.
Proof. exact lifting_compute_expression_const_partial. Qed.
Print Assumptions C01_lifting_compute_expression_const_partial.
Check C01_lifting_compute_expression_const_partial : forall d n orc b out,
  rule_compute_expression b = rule_compute_expression_const b ->
  run_chunk d n orc b = out -> out <> OutFuel ->
  run_chunk d n orc (rule_compute_expression b) = out.

(** ** any number, subset and order of the covered rules ([apply_rules]: one after the other);
    [covered_rules]: remove_function_call_parens, remove_empty_do, filter_after_early_return,
    remove_method_definition and the [..._const] restrictions of convert_index_to_field,
    remove_unused_while, remove_unused_if_branch, compute_expression *)

Theorem C01_lifting_rules_compose : forall rs, Forall rule_sound rs -> rule_sound (apply_rules rs).
Proof. exact rules_sound_compose. Qed.
Print Assumptions C01_lifting_rules_compose.
Check C01_lifting_rules_compose : forall rs, Forall rule_sound rs -> rule_sound (apply_rules rs).

Theorem C01_lifting_covered_rules : forall rs, (forall r, In r rs -> In r covered_rules) ->
  forall d n orc b out, run_chunk d n orc b = out -> out <> OutFuel ->
  run_chunk d n orc (apply_rules rs b) = out.
Proof. exact lifting_covered_rules. Qed.
Print Assumptions C01_lifting_covered_rules.
Check C01_lifting_covered_rules : forall rs, (forall r, In r rs -> In r covered_rules) ->
  forall d n orc b out, run_chunk d n orc b = out -> out <> OutFuel ->
  run_chunk d n orc (apply_rules rs b) = out.

(** the same list without compute_expression: no axiom at all *)
Theorem C01_lifting_covered_rules_nofold : forall rs, (forall r, In r rs -> In r covered_rules_nofold) ->
  forall d n orc b out, run_chunk d n orc b = out -> out <> OutFuel ->
  run_chunk d n orc (apply_rules rs b) = out.
Proof. exact lifting_covered_rules_nofold. Qed.
Print Assumptions C01_lifting_covered_rules_nofold.
Check C01_lifting_covered_rules_nofold : forall rs, (forall r, In r rs -> In r covered_rules_nofold) ->
  forall d n orc b out, run_chunk d n orc b = out -> out <> OutFuel ->
  run_chunk d n orc (apply_rules rs b) = out.

(** REFUTED for compute_expression as it is: a same-fuel statement.  [return 5 - 1e309] ([ex_neg_inf]) completes with 6 units of fuel; the folded [return (-1)/0] needs 8 *)
Theorem C01_lifting_compute_same_fuel_refuted : rule_compute_expression ex_neg_inf =
    Block [] (Some (LReturn [EBinary BDiv (EUnary UMinus (xnum (BinNums.Zpos BinNums.xH))) (xnum BinNums.Z0)])) /\
  run_chunk L51 6 [] ex_neg_inf = OutOk [] [RNum (to_bits (SpecFloat.S754_infinity true))] /\
  run_chunk L51 6 [] (rule_compute_expression ex_neg_inf) = OutFuel /\
  run_chunk L51 8 [] (rule_compute_expression ex_neg_inf) = OutOk [] [RNum (to_bits (SpecFloat.S754_infinity true))].
Proof. exact compute_same_fuel_refuted. Qed.
Print Assumptions C01_lifting_compute_same_fuel_refuted.
Check C01_lifting_compute_same_fuel_refuted : rule_compute_expression ex_neg_inf =
    Block [] (Some (LReturn [EBinary BDiv (EUnary UMinus (xnum (BinNums.Zpos BinNums.xH))) (xnum BinNums.Z0)])) /\
  run_chunk L51 6 [] ex_neg_inf = OutOk [] [RNum (to_bits (SpecFloat.S754_infinity true))] /\
  run_chunk L51 6 [] (rule_compute_expression ex_neg_inf) = OutFuel /\
  run_chunk L51 8 [] (rule_compute_expression ex_neg_inf) = OutOk [] [RNum (to_bits (SpecFloat.S754_infinity true))].

