(** C01 — Default rules preserve program behaviour.

    LOCAL semantic equivalences of the rewrites performed by the default rules, stated about the
    models of [Model/DefaultRules.v] (tied to the Rust rules on every run by the correspondence
    stream "default rules: node-level model ..." of vlib/defaultrules.py) against the reference
    interpreter [Lua/Sem.v], for every dialect, fuel, environment, varargs and store.

    NOT proved here: the lifting of these local equivalences to whole programs and to every
    subset / order of the rules.  Whole-program equivalence is VALIDATED PER RUN by the
    translation-validation stream of vlib/c01.py (vlib/rulecheck.py: original and output are
    executed in this same reference interpreter under both dialects and several oracle streams).
    remove_unused_variable and rename_variables are outside this file.

    Reading guide.  [store_extends s s1]: [s1] is [s] plus fresh allocations only (no event, no
    oracle consumption, nothing existing changed).  Where a rewrite drops a side-effect-free
    expression, the original run continues in such an [s1] while the rewritten program continues
    in [s]: the theorems say so explicitly ("exists s1, store_extends s s1 /\ ... s1 ...");
    closing that gap (the semantics does not observe fresh garbage) is part of the lifting.
    Preconditions [deep_safe], [ctor_pure], [env_plain] are those of the C08 theorems.
    Only statements, closed by [exact], with their assumptions printed and pinned. *)
From Coq Require Import List.
From DL Require Import Lib.Bytes Lib.F64 Lua.Syntax Lua.Sem Model.Evaluator Model.DefaultRules
  Lua.EvalSpec Lua.EvalSpec2 Proof.DefaultRulesSem Proof.DefaultRulesSoundBlock Proof.DefaultRulesSoundExpr
  Proof.DefaultRulesSoundCond Proof.DefaultRulesSoundFuel Proof.DefaultRulesSoundFuelInst.
Import ListNotations.
Open Scope N_scope.

(** ** compute_expression *)

(** A side-effect-free unary / binary / if node whose static value is nil, a boolean, a string
    or a number is replaced by the literal of that value: the literal evaluates, in the original
    store and with any fuel >= 5, to exactly the node's value list (numbers bit for bit); the
    node itself only added fresh allocations. *)
Theorem C01_compute_replace_sound : forall d e lit n rho va s vs s',
  computable_shape e = true ->
  has_side_effects false e = false -> deep_safe d e = true -> env_plain s ->
  lit_of_lv (evaluate e) = Some lit ->
  eval d n rho va e s = Ok vs s' ->
  store_extends s s' /\
  forall n', (5 <= n')%nat -> eval d n' rho va lit s = Ok vs s.
Proof. exact compute_replace_sound. Qed.
Print Assumptions C01_compute_replace_sound.
Check C01_compute_replace_sound : forall d e lit n rho va s vs s',
  computable_shape e = true ->
  has_side_effects false e = false -> deep_safe d e = true -> env_plain s ->
  lit_of_lv (evaluate e) = Some lit ->
  eval d n rho va e s = Ok vs s' ->
  store_extends s s' /\
  forall n', (5 <= n')%nat -> eval d n' rho va lit s = Ok vs s.

(** ... and that literal is what the model of the rule leaves at the node. *)
Theorem C01_rw_compute_literal : forall e lit,
  computable_shape e = true -> has_side_effects false e = false ->
  lit_of_lv (evaluate e) = Some lit -> rw_compute e = lit.
Proof. exact rw_compute_literal. Qed.
Print Assumptions C01_rw_compute_literal.
Check C01_rw_compute_literal : forall e lit,
  computable_shape e = true -> has_side_effects false e = false ->
  lit_of_lv (evaluate e) = Some lit -> rw_compute e = lit.

(** [l and r] / [l or r] with [l] side-effect free and of known truthiness, in a single-value
    position: the kept operand yields the value of the whole expression. *)
Theorem C01_compute_andor_sound : forall d op l r n rho va s vs s' b,
  (op = BAnd \/ op = BOr) ->
  has_side_effects false l = false -> deep_safe d l = true -> env_plain s ->
  is_truthy (evaluate l) = Some b ->
  eval d n rho va (EBinary op l r) s = Ok vs s' ->
  exists m, n = S m /\
    if Bool.eqb b (is_and op)
    then exists s1 v, store_extends s s1 /\ eval1 d m rho va r s1 = Ok v s' /\ vs = [v]
    else exists v, eval1 d m rho va l s = Ok v s' /\ vs = [v].
Proof. exact compute_andor_sound. Qed.
Print Assumptions C01_compute_andor_sound.
Check C01_compute_andor_sound : forall d op l r n rho va s vs s' b,
  (op = BAnd \/ op = BOr) ->
  has_side_effects false l = false -> deep_safe d l = true -> env_plain s ->
  is_truthy (evaluate l) = Some b ->
  eval d n rho va (EBinary op l r) s = Ok vs s' ->
  exists m, n = S m /\
    if Bool.eqb b (is_and op)
    then exists s1 v, store_extends s s1 /\ eval1 d m rho va r s1 = Ok v s' /\ vs = [v]
    else exists v, eval1 d m rho va l s = Ok v s' /\ vs = [v].

Theorem C01_rw_compute_andor : forall op l r b,
  (op = BAnd \/ op = BOr) -> has_side_effects false (EBinary op l r) = true ->
  has_side_effects false l = false -> is_truthy (evaluate l) = Some b ->
  rw_compute (EBinary op l r) = if Bool.eqb b (is_and op) then r else l.
Proof. exact rw_compute_andor. Qed.
Print Assumptions C01_rw_compute_andor.
Check C01_rw_compute_andor : forall op l r b,
  (op = BAnd \/ op = BOr) -> has_side_effects false (EBinary op l r) = true ->
  has_side_effects false l = false -> is_truthy (evaluate l) = Some b ->
  rw_compute (EBinary op l r) = if Bool.eqb b (is_and op) then r else l.

(** REFUTED in a multi-value position (recorded finding: [return true and f()] becomes
    [return f()]). *)
Theorem C01_compute_multivalue_refuted : exists d n rho va s e vs s' vs2 s2,
  env_plain s /\
  eval_list d n rho va [e] s = Ok vs s' /\ eval_list d n rho va [rw_compute e] s = Ok vs2 s2 /\
  List.length vs = 1%nat /\ List.length vs2 = 2%nat.
Proof. exact compute_multivalue_refuted. Qed.
Print Assumptions C01_compute_multivalue_refuted.
Check C01_compute_multivalue_refuted : exists d n rho va s e vs s' vs2 s2,
  env_plain s /\
  eval_list d n rho va [e] s = Ok vs s' /\ eval_list d n rho va [rw_compute e] s = Ok vs2 s2 /\
  List.length vs = 1%nat /\ List.length vs2 = 2%nat.

(** ** remove_unused_if_branch *)

Theorem C01_if_branch_true_sound : forall d c B rest els n rho va s r s',
  has_side_effects false c = false -> deep_safe d c = true -> env_plain s ->
  is_truthy (evaluate c) = Some true ->
  exec_stmt d n rho va (SIf (SBranch c B :: rest) els) s = Ok r s' ->
  exists s1, store_extends s s1 /\ exec_stmt d n rho va (SDo B) s1 = Ok r s'.
Proof. exact if_branch_true_sound. Qed.
Print Assumptions C01_if_branch_true_sound.
Check C01_if_branch_true_sound : forall d c B rest els n rho va s r s',
  has_side_effects false c = false -> deep_safe d c = true -> env_plain s ->
  is_truthy (evaluate c) = Some true ->
  exec_stmt d n rho va (SIf (SBranch c B :: rest) els) s = Ok r s' ->
  exists s1, store_extends s s1 /\ exec_stmt d n rho va (SDo B) s1 = Ok r s'.

Theorem C01_if_branch_false_sound : forall d c B rest els n rho va s r s',
  has_side_effects false c = false -> deep_safe d c = true -> env_plain s ->
  is_truthy (evaluate c) = Some false ->
  exec_stmt d n rho va (SIf (SBranch c B :: rest) els) s = Ok r s' ->
  exists s1, store_extends s s1 /\
    match rest, els with
    | [], None => r = (rho, SigNone) /\ s' = s1
    | [], Some eb => exec_stmt d n rho va (SDo eb) s1 = Ok r s'
    | _, _ => exec_stmt d n rho va (SIf rest els) s1 = Ok r s'
    end.
Proof. exact if_branch_false_sound. Qed.
Print Assumptions C01_if_branch_false_sound.
Check C01_if_branch_false_sound : forall d c B rest els n rho va s r s',
  has_side_effects false c = false -> deep_safe d c = true -> env_plain s ->
  is_truthy (evaluate c) = Some false ->
  exec_stmt d n rho va (SIf (SBranch c B :: rest) els) s = Ok r s' ->
  exists s1, store_extends s s1 /\
    match rest, els with
    | [], None => r = (rho, SigNone) /\ s' = s1
    | [], Some eb => exec_stmt d n rho va (SDo eb) s1 = Ok r s'
    | _, _ => exec_stmt d n rho va (SIf rest els) s1 = Ok r s'
    end.

(** what the model answers in these two situations *)
Theorem C01_simplify_if_true : forall c B rest els,
  has_side_effects false c = false -> is_truthy (evaluate c) = Some true ->
  simplify_if_statement (SBranch c B :: rest) els =
  if block_is_empty B then FRemove else FReplace (SDo B).
Proof. exact simplify_if_true. Qed.
Print Assumptions C01_simplify_if_true.
Check C01_simplify_if_true : forall c B rest els,
  has_side_effects false c = false -> is_truthy (evaluate c) = Some true ->
  simplify_if_statement (SBranch c B :: rest) els =
  if block_is_empty B then FRemove else FReplace (SDo B).

(** a kept condition (side effects allowed) that is statically truthy / falsy: the code the
    rule deletes behind it is dead; identical runs for every outcome *)
Theorem C01_if_true_rest_dead : forall d c B rest els n rho va s,
  deep_safe d c = true -> ctor_pure d c = true -> env_plain s ->
  is_truthy (evaluate c) = Some true ->
  exec_stmt d n rho va (SIf (SBranch c B :: rest) els) s =
  exec_stmt d n rho va (SIf [SBranch c B] None) s.
Proof. exact if_true_rest_dead. Qed.
Print Assumptions C01_if_true_rest_dead.
Check C01_if_true_rest_dead : forall d c B rest els n rho va s,
  deep_safe d c = true -> ctor_pure d c = true -> env_plain s ->
  is_truthy (evaluate c) = Some true ->
  exec_stmt d n rho va (SIf (SBranch c B :: rest) els) s =
  exec_stmt d n rho va (SIf [SBranch c B] None) s.

Theorem C01_if_false_block_dead : forall d c B rest els n rho va s,
  deep_safe d c = true -> ctor_pure d c = true -> env_plain s ->
  is_truthy (evaluate c) = Some false ->
  exec_stmt d n rho va (SIf (SBranch c B :: rest) els) s =
  exec_stmt d n rho va (SIf (SBranch c empty_block :: rest) els) s.
Proof. exact if_false_block_dead. Qed.
Print Assumptions C01_if_false_block_dead.
Check C01_if_false_block_dead : forall d c B rest els n rho va s,
  deep_safe d c = true -> ctor_pure d c = true -> env_plain s ->
  is_truthy (evaluate c) = Some false ->
  exec_stmt d n rho va (SIf (SBranch c B :: rest) els) s =
  exec_stmt d n rho va (SIf (SBranch c empty_block :: rest) els) s.

(** the same in semantic form ([always d rho va s c b]: whenever [c] evaluates in [s], its value
    has truthiness [b]), with the instance that occurs in practice: a table constructor with
    effectful entries ([if {f()} then ...]), which [ctor_pure] excludes above *)
Theorem C01_if_true_rest_dead_sem : forall d c B rest els n rho va s,
  always d rho va s c true ->
  exec_stmt d n rho va (SIf (SBranch c B :: rest) els) s =
  exec_stmt d n rho va (SIf [SBranch c B] None) s.
Proof. exact if_true_rest_dead_sem. Qed.
Print Assumptions C01_if_true_rest_dead_sem.
Check C01_if_true_rest_dead_sem : forall d c B rest els n rho va s,
  always d rho va s c true ->
  exec_stmt d n rho va (SIf (SBranch c B :: rest) els) s =
  exec_stmt d n rho va (SIf [SBranch c B] None) s.

Theorem C01_if_false_block_dead_sem : forall d c B rest els n rho va s,
  always d rho va s c false ->
  exec_stmt d n rho va (SIf (SBranch c B :: rest) els) s =
  exec_stmt d n rho va (SIf (SBranch c empty_block :: rest) els) s.
Proof. exact if_false_block_dead_sem. Qed.
Print Assumptions C01_if_false_block_dead_sem.
Check C01_if_false_block_dead_sem : forall d c B rest els n rho va s,
  always d rho va s c false ->
  exec_stmt d n rho va (SIf (SBranch c B :: rest) els) s =
  exec_stmt d n rho va (SIf (SBranch c empty_block :: rest) els) s.

Theorem C01_always_table : forall d ens rho va s, always d rho va s (ETable ens) true.
Proof. exact always_table. Qed.
Print Assumptions C01_always_table.
Check C01_always_table : forall d ens rho va s, always d rho va s (ETable ens) true.

Theorem C01_always_not : forall d c b rho va s,
  always d rho va s c b -> always d rho va s (EUnary UNot c) (negb b).
Proof. exact always_not. Qed.
Print Assumptions C01_always_not.
Check C01_always_not : forall d c b rho va s,
  always d rho va s c b -> always d rho va s (EUnary UNot c) (negb b).

Theorem C01_if_empty_else_sound : forall d bs n rho va s r,
  exec_stmt d n rho va (SIf bs (Some empty_block)) s = r -> r <> Fuel ->
  exec_stmt d n rho va (SIf bs None) s = r.
Proof. exact if_empty_else_sound. Qed.
Print Assumptions C01_if_empty_else_sound.
Check C01_if_empty_else_sound : forall d bs n rho va s r,
  exec_stmt d n rho va (SIf bs (Some empty_block)) s = r -> r <> Fuel ->
  exec_stmt d n rho va (SIf bs None) s = r.

(** the if-EXPRESSION form *)
Theorem C01_if_expr_true_sound : forall d c r rest els n rho va s vs s',
  has_side_effects false c = false -> deep_safe d c = true -> env_plain s ->
  is_truthy (evaluate c) = Some true ->
  eval d n rho va (EIf (EBranch c r :: rest) els) s = Ok vs s' ->
  rw_if_expr (EIf (EBranch c r :: rest) els) = paren_if_multi r /\
  exists s1 n', store_extends s s1 /\ eval d n' rho va (paren_if_multi r) s1 = Ok vs s'.
Proof. exact if_expr_true_sound. Qed.
Print Assumptions C01_if_expr_true_sound.
Check C01_if_expr_true_sound : forall d c r rest els n rho va s vs s',
  has_side_effects false c = false -> deep_safe d c = true -> env_plain s ->
  is_truthy (evaluate c) = Some true ->
  eval d n rho va (EIf (EBranch c r :: rest) els) s = Ok vs s' ->
  rw_if_expr (EIf (EBranch c r :: rest) els) = paren_if_multi r /\
  exists s1 n', store_extends s s1 /\ eval d n' rho va (paren_if_multi r) s1 = Ok vs s'.

Theorem C01_if_expr_false_sound : forall d c r rest els n rho va s vs s',
  has_side_effects false c = false -> deep_safe d c = true -> env_plain s ->
  is_truthy (evaluate c) = Some false ->
  eval d n rho va (EIf (EBranch c r :: rest) els) s = Ok vs s' ->
  exists s1 n', store_extends s s1 /\
    eval d n' rho va (match rest with [] => paren_if_multi els | _ => EIf rest els end) s1 = Ok vs s'.
Proof. exact if_expr_false_sound. Qed.
Print Assumptions C01_if_expr_false_sound.
Check C01_if_expr_false_sound : forall d c r rest els n rho va s vs s',
  has_side_effects false c = false -> deep_safe d c = true -> env_plain s ->
  is_truthy (evaluate c) = Some false ->
  eval d n rho va (EIf (EBranch c r :: rest) els) s = Ok vs s' ->
  exists s1 n', store_extends s s1 /\
    eval d n' rho va (match rest with [] => paren_if_multi els | _ => EIf rest els end) s1 = Ok vs s'.

(** ** remove_unused_while *)

Theorem C01_while_false_sound : forall d c b n rho va s r s',
  has_side_effects false c = false -> deep_safe d c = true -> env_plain s ->
  is_truthy (evaluate c) = Some false ->
  exec_stmt d n rho va (SWhile c b) s = Ok r s' ->
  r = (rho, SigNone) /\ store_extends s s'.
Proof. exact while_false_sound. Qed.
Print Assumptions C01_while_false_sound.
Check C01_while_false_sound : forall d c b n rho va s r s',
  has_side_effects false c = false -> deep_safe d c = true -> env_plain s ->
  is_truthy (evaluate c) = Some false ->
  exec_stmt d n rho va (SWhile c b) s = Ok r s' ->
  r = (rho, SigNone) /\ store_extends s s'.

Theorem C01_while_kept_false : forall c b,
  while_kept (SWhile c b) = false <->
  has_side_effects false c = false /\ is_truthy (evaluate c) = Some false.
Proof. exact while_kept_false. Qed.
Print Assumptions C01_while_kept_false.
Check C01_while_kept_false : forall c b,
  while_kept (SWhile c b) = false <->
  has_side_effects false c = false /\ is_truthy (evaluate c) = Some false.

(** ** filter_after_early_return: the rule's rewrite of a block leaves the run of the block
    unchanged, at the same fuel, for every outcome (values, Lua error, out of fuel) *)
Theorem C01_early_return_sound : forall d b n rho va s,
  exec_block d n rho va (rw_early_return b) s = exec_block d n rho va b s.
Proof. exact early_return_sound. Qed.
Print Assumptions C01_early_return_sound.
Check C01_early_return_sound : forall d b n rho va s,
  exec_block d n rho va (rw_early_return b) s = exec_block d n rho va b s.

Theorem C01_early_return_stmts : forall d pre st rest last n rho va s,
  stmt_returns st = true ->
  exec_stmts d n rho va (pre ++ st :: rest) last s = exec_stmts d n rho va (pre ++ [st]) None s.
Proof. exact early_return_stmts. Qed.
Print Assumptions C01_early_return_stmts.
Check C01_early_return_stmts : forall d pre st rest last n rho va s,
  stmt_returns st = true ->
  exec_stmts d n rho va (pre ++ st :: rest) last s = exec_stmts d n rho va (pre ++ [st]) None s.

(** ** remove_empty_do *)

Theorem C01_empty_do_stmt_sound : forall d n rho va s r s',
  exec_stmt d n rho va (SDo (Block [] None)) s = Ok r s' -> r = (rho, SigNone) /\ s' = s.
Proof. exact empty_do_stmt_sound. Qed.
Print Assumptions C01_empty_do_stmt_sound.
Check C01_empty_do_stmt_sound : forall d n rho va s r s',
  exec_stmt d n rho va (SDo (Block [] None)) s = Ok r s' -> r = (rho, SigNone) /\ s' = s.

(** at the head of a statement list, for every outcome but running out of fuel *)
Theorem C01_empty_do_head_sound : forall d n rho va rest last s r,
  exec_stmts d n rho va (SDo (Block [] None) :: rest) last s = r -> r <> Fuel ->
  exists n', exec_stmts d n' rho va rest last s = r.
Proof. exact empty_do_sound. Qed.
Print Assumptions C01_empty_do_head_sound.
Check C01_empty_do_head_sound : forall d n rho va rest last s r,
  exec_stmts d n rho va (SDo (Block [] None) :: rest) last s = r -> r <> Fuel ->
  exists n', exec_stmts d n' rho va rest last s = r.

(** at any position of a statement list, and for the rule's whole pass over a block: a
    successful run stays the same run (same signal, same store), with the same fuel (uses the
    fuel monotonicity of the reference interpreter, Proof/LoweringFuel.v) *)
Theorem C01_empty_do_filter_sound : forall d ss n rho va last s r s',
  exec_stmts d n rho va ss last s = Ok r s' ->
  exec_stmts d n rho va (filter (fun st => negb (empty_do st)) ss) last s = Ok r s'.
Proof. exact empty_do_filter_sound_all. Qed.
Print Assumptions C01_empty_do_filter_sound.
Check C01_empty_do_filter_sound : forall d ss n rho va last s r s',
  exec_stmts d n rho va ss last s = Ok r s' ->
  exec_stmts d n rho va (filter (fun st => negb (empty_do st)) ss) last s = Ok r s'.

Theorem C01_empty_do_block_sound : forall d b n rho va s r s',
  exec_block d n rho va b s = Ok r s' -> exec_block d n rho va (rw_empty_do b) s = Ok r s'.
Proof. exact empty_do_block_sound_all. Qed.
Print Assumptions C01_empty_do_block_sound.
Check C01_empty_do_block_sound : forall d b n rho va s r s',
  exec_block d n rho va b s = Ok r s' -> exec_block d n rho va (rw_empty_do b) s = Ok r s'.

(** ** remove_nil_declaration.  PARTIAL: proved when the variables keep their order (every
    variable initialised by a literal [nil]; or the [nil]s trail the other values and there are as
    many values as variables).  In the general case ([local a, b = nil, e] becomes
    [local b, a = e]) the fresh cells are bound in another order: equivalence holds only up to a
    renaming of fresh cells and is left to the lifting. *)
Theorem C01_nil_decl_partial : forall d xs n rho va s r s',
  xs <> [] -> names_distinct (map param_name xs) = true ->
  exec_stmt d n rho va (SLocal false xs (repeat ENil (List.length xs))) s = Ok r s' ->
  exec_stmt d n rho va (rw_nil_declaration (SLocal false xs (repeat ENil (List.length xs)))) s = Ok r s'.
Proof. exact nil_decl_partial. Qed.
Print Assumptions C01_nil_decl_partial.
Check C01_nil_decl_partial : forall d xs n rho va s r s',
  xs <> [] -> names_distinct (map param_name xs) = true ->
  exec_stmt d n rho va (SLocal false xs (repeat ENil (List.length xs))) s = Ok r s' ->
  exec_stmt d n rho va (rw_nil_declaration (SLocal false xs (repeat ENil (List.length xs)))) s = Ok r s'.

(** as many values as variables, every literal [nil] behind the other values
    ([local a, b, c = e, nil, nil] becomes [local a, b, c = e], the last value parenthesised
    when it may yield several): the variables keep their order, same environment and store *)
Theorem C01_nil_decl_trailing_sound : forall d xs es k n rho va s r s',
  (1 <= k)%nat -> List.length xs = (List.length es + k)%nat ->
  forallb (fun e => negb (is_nil e)) es = true -> names_distinct (map param_name xs) = true ->
  exec_stmt d n rho va (SLocal false xs (es ++ repeat ENil k)) s = Ok r s' ->
  exists n', exec_stmt d n' rho va (rw_nil_declaration (SLocal false xs (es ++ repeat ENil k))) s = Ok r s'.
Proof. exact nil_decl_trailing_sound_all. Qed.
Print Assumptions C01_nil_decl_trailing_sound.
Check C01_nil_decl_trailing_sound : forall d xs es k n rho va s r s',
  (1 <= k)%nat -> List.length xs = (List.length es + k)%nat ->
  forallb (fun e => negb (is_nil e)) es = true -> names_distinct (map param_name xs) = true ->
  exec_stmt d n rho va (SLocal false xs (es ++ repeat ENil k)) s = Ok r s' ->
  exists n', exec_stmt d n' rho va (rw_nil_declaration (SLocal false xs (es ++ repeat ENil k))) s = Ok r s'.

Theorem C01_nil_decl_single_sound : forall d n rho va x s r s',
  exec_stmt d n rho va (SLocal false [x] [ENil]) s = Ok r s' ->
  rw_nil_declaration (SLocal false [x] [ENil]) = SLocal false [x] [] /\
  exec_stmt d n rho va (SLocal false [x] []) s = Ok r s'.
Proof. exact nil_decl_single_sound. Qed.
Print Assumptions C01_nil_decl_single_sound.
Check C01_nil_decl_single_sound : forall d n rho va x s r s',
  exec_stmt d n rho va (SLocal false [x] [ENil]) s = Ok r s' ->
  rw_nil_declaration (SLocal false [x] [ENil]) = SLocal false [x] [] /\
  exec_stmt d n rho va (SLocal false [x] []) s = Ok r s'.

(** ** convert_index_to_field *)

Theorem C01_index_to_field_literal_sound : forall d n rho va p str s r,
  eval d n rho va (EIndex p (EString str)) s = r -> r <> Fuel ->
  eval d n rho va (EField p str) s = r.
Proof. exact index_to_field_literal_sound. Qed.
Print Assumptions C01_index_to_field_literal_sound.
Check C01_index_to_field_literal_sound : forall d n rho va p str s r,
  eval d n rho va (EIndex p (EString str)) s = r -> r <> Fuel ->
  eval d n rho va (EField p str) s = r.

(** the key is any side-effect-free expression that is statically the string [str]: the run of
    [p[k]] is the prefix, then the key (exactly [VStr str], fresh allocations only), then
    [index o "str"]; [p.str] is the same prefix followed by [index o "str"] *)
Theorem C01_index_to_field_sound : forall d p k str n rho va s vs s',
  has_side_effects false k = false -> deep_safe d k = true -> evaluate k = LString str ->
  (forall m o s1, eval1 d m rho va p s = Ok o s1 -> env_plain s1) ->
  eval d n rho va (EIndex p k) s = Ok vs s' ->
  exists m o s1 s2 v,
    n = S m /\ eval1 d m rho va p s = Ok o s1 /\
    eval1 d m rho va k s1 = Ok (VStr str) s2 /\ store_extends s1 s2 /\
    index d m o (VStr str) s2 = Ok v s' /\ vs = [v] /\
    eval d n rho va (EField p str) s = (v <- index d m o (VStr str) ;; ret [v]) s1.
Proof. exact index_to_field_sound. Qed.
Print Assumptions C01_index_to_field_sound.
Check C01_index_to_field_sound : forall d p k str n rho va s vs s',
  has_side_effects false k = false -> deep_safe d k = true -> evaluate k = LString str ->
  (forall m o s1, eval1 d m rho va p s = Ok o s1 -> env_plain s1) ->
  eval d n rho va (EIndex p k) s = Ok vs s' ->
  exists m o s1 s2 v,
    n = S m /\ eval1 d m rho va p s = Ok o s1 /\
    eval1 d m rho va k s1 = Ok (VStr str) s2 /\ store_extends s1 s2 /\
    index d m o (VStr str) s2 = Ok v s' /\ vs = [v] /\
    eval d n rho va (EField p str) s = (v <- index d m o (VStr str) ;; ret [v]) s1.

(** when the prefix is a table that holds the key (no metamethod runs): same value list, the
    stores differ by the key's fresh allocations *)
Theorem C01_index_to_field_raw_sound : forall d p k str n rho va s vs s',
  has_side_effects false k = false -> deep_safe d k = true -> evaluate k = LString str ->
  (forall m o s1, eval1 d m rho va p s = Ok o s1 ->
     env_plain s1 /\ exists a t, o = VTable a /\ nth_N (tables s1) (N.to_nat a) = Some t /\
                                 raw_get (t_entries t) (VStr str) <> VNil) ->
  eval d n rho va (EIndex p k) s = Ok vs s' ->
  exists s1, eval d n rho va (EField p str) s = Ok vs s1 /\ store_extends s1 s'.
Proof. exact index_to_field_raw_sound. Qed.
Print Assumptions C01_index_to_field_raw_sound.
Check C01_index_to_field_raw_sound : forall d p k str n rho va s vs s',
  has_side_effects false k = false -> deep_safe d k = true -> evaluate k = LString str ->
  (forall m o s1, eval1 d m rho va p s = Ok o s1 ->
     env_plain s1 /\ exists a t, o = VTable a /\ nth_N (tables s1) (N.to_nat a) = Some t /\
                                 raw_get (t_entries t) (VStr str) <> VNil) ->
  eval d n rho va (EIndex p k) s = Ok vs s' ->
  exists s1, eval d n rho va (EField p str) s = Ok vs s1 /\ store_extends s1 s'.

(** ** remove_method_definition: [function b.f:m(ps) body end] and
    [function b.f.m(self, ps) body end] run the same code after allocating closure records
    that [call] cannot tell apart *)
Theorem C01_method_def_stmt_sound : forall d n rho va base fields m f,
  exec_stmt d (S n) rho va (SFunction base fields (Some m) f) =
  (c <- new_closure (mkClosure f rho true) ;; sfunction_store d n rho va base (fields ++ [m]) c) /\
  exec_stmt d (S n) rho va (rw_method_def (SFunction base fields (Some m) f)) =
  (c <- new_closure (mkClosure (add_self f) rho false) ;; sfunction_store d n rho va base (fields ++ [m]) c).
Proof. exact method_def_stmt_sound. Qed.
Print Assumptions C01_method_def_stmt_sound.
Check C01_method_def_stmt_sound : forall d n rho va base fields m f,
  exec_stmt d (S n) rho va (SFunction base fields (Some m) f) =
  (c <- new_closure (mkClosure f rho true) ;; sfunction_store d n rho va base (fields ++ [m]) c) /\
  exec_stmt d (S n) rho va (rw_method_def (SFunction base fields (Some m) f)) =
  (c <- new_closure (mkClosure (add_self f) rho false) ;; sfunction_store d n rho va base (fields ++ [m]) c).

Theorem C01_method_def_call_sound : forall d n a args s1 s2 f rho,
  get_closure a s1 = Ok (mkClosure f rho true) s1 ->
  get_closure a s2 = Ok (mkClosure (add_self f) rho false) s2 ->
  call d (S n) (VClosure a) args s1 =
    call_closure d n (effective_params (mkClosure f rho true)) (closure_variadic (mkClosure f rho true))
                 (closure_block (mkClosure f rho true)) rho args s1 /\
  call d (S n) (VClosure a) args s2 =
    call_closure d n (effective_params (mkClosure f rho true)) (closure_variadic (mkClosure f rho true))
                 (closure_block (mkClosure f rho true)) rho args s2.
Proof. exact method_def_call_sound. Qed.
Print Assumptions C01_method_def_call_sound.
Check C01_method_def_call_sound : forall d n a args s1 s2 f rho,
  get_closure a s1 = Ok (mkClosure f rho true) s1 ->
  get_closure a s2 = Ok (mkClosure (add_self f) rho false) s2 ->
  call d (S n) (VClosure a) args s1 =
    call_closure d n (effective_params (mkClosure f rho true)) (closure_variadic (mkClosure f rho true))
                 (closure_block (mkClosure f rho true)) rho args s1 /\
  call d (S n) (VClosure a) args s2 =
    call_closure d n (effective_params (mkClosure f rho true)) (closure_variadic (mkClosure f rho true))
                 (closure_block (mkClosure f rho true)) rho args s2.

(** ** remove_function_call_parens *)

Theorem C01_call_parens_string_sound : forall d n rho va p m str s vs s',
  eval d n rho va (ECall p m (ATuple [EString str])) s = Ok vs s' ->
  rw_call_parens (ECall p m (ATuple [EString str])) = ECall p m (AString str) /\
  eval d n rho va (ECall p m (AString str)) s = Ok vs s'.
Proof. exact call_parens_string_sound. Qed.
Print Assumptions C01_call_parens_string_sound.
Check C01_call_parens_string_sound : forall d n rho va p m str s vs s',
  eval d n rho va (ECall p m (ATuple [EString str])) s = Ok vs s' ->
  rw_call_parens (ECall p m (ATuple [EString str])) = ECall p m (AString str) /\
  eval d n rho va (ECall p m (AString str)) s = Ok vs s'.

(** the table form: the same computation of the argument list, two units of fuel apart, for
    every outcome *)
Theorem C01_call_parens_table_args : forall d n rho va ens s,
  eval_args d (S (S (S n))) rho va (ATuple [ETable ens]) s = eval_args d (S n) rho va (ATable ens) s.
Proof. exact call_parens_table_args. Qed.
Print Assumptions C01_call_parens_table_args.
Check C01_call_parens_table_args : forall d n rho va ens s,
  eval_args d (S (S (S n))) rho va (ATuple [ETable ens]) s = eval_args d (S n) rho va (ATable ens) s.

(** ... and so do the calls, at the same fuel (uses fuel monotonicity) *)
Theorem C01_call_parens_table_sound : forall d n rho va p m ens s vs s',
  eval d n rho va (ECall p m (ATuple [ETable ens])) s = Ok vs s' ->
  rw_call_parens (ECall p m (ATuple [ETable ens])) = ECall p m (ATable ens) /\
  eval d n rho va (ECall p m (ATable ens)) s = Ok vs s'.
Proof. exact call_parens_table_sound. Qed.
Print Assumptions C01_call_parens_table_sound.
Check C01_call_parens_table_sound : forall d n rho va p m ens s vs s',
  eval d n rho va (ECall p m (ATuple [ETable ens])) s = Ok vs s' ->
  rw_call_parens (ECall p m (ATuple [ETable ens])) = ECall p m (ATable ens) /\
  eval d n rho va (ECall p m (ATable ens)) s = Ok vs s'.
