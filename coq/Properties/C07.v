(** C07 — Each Luau-lowering rule removes every occurrence of its construct.
    Only statements, closed by [exact], with their assumptions printed and pinned.

    [feature i b] is the number of occurrences of construct [i] in the tree [b]
    (Lua/Census.v, the specification: 0 compound assignment, 1 continue, 2 if-expression,
    3 interpolated string, 4 floor division, 5 Luau-only number literal, 6 const, 7 type
    syntax, 8 function attribute); [rule_*] are the models of the rules (Model/Lowering.v:
    the node rewrites; Model/Visit.v: the traversal, run with fuel [w_block b]), tied to the
    Rust rules on every run by the correspondence stream of vlib/lowering_gen.py.
    remove_continue is not modelled (post-order rule with a loop stack): its census is
    observed on the real rule's output only (vlib/c07.py). *)
From DL Require Import Lib.Bytes Lua.Syntax Lua.Census Model.Visit Model.Lowering
  Proof.LoweringCensusRules Proof.LoweringCensusAll.
Open Scope N_scope.

Theorem C07_removes_compound_assign : forall b, feature 0 (rule_compound_assign b) = 0.
Proof. exact removes_compound_assign. Qed.
Print Assumptions C07_removes_compound_assign.
Check C07_removes_compound_assign : forall b, feature 0 (rule_compound_assign b) = 0.

Theorem C07_removes_if_expression : forall b, feature 2 (rule_if_expression b) = 0.
Proof. exact removes_if_expression. Qed.
Print Assumptions C07_removes_if_expression.
Check C07_removes_if_expression : forall b, feature 2 (rule_if_expression b) = 0.

(** both strategies ([false] = "string", [true] = "tostring") *)
Theorem C07_removes_interpolated_string : forall st b, feature 3 (rule_interpolated_string st b) = 0.
Proof. exact removes_interpolated_string. Qed.
Print Assumptions C07_removes_interpolated_string.
Check C07_removes_interpolated_string : forall st b, feature 3 (rule_interpolated_string st b) = 0.

Theorem C07_removes_floor_division : forall b, feature 4 (rule_floor_division b) = 0.
Proof. exact removes_floor_division. Qed.
Print Assumptions C07_removes_floor_division.
Check C07_removes_floor_division : forall b, feature 4 (rule_floor_division b) = 0.

Theorem C07_removes_luau_number : forall b, feature 5 (rule_luau_number b) = 0.
Proof. exact removes_luau_number. Qed.
Print Assumptions C07_removes_luau_number.
Check C07_removes_luau_number : forall b, feature 5 (rule_luau_number b) = 0.

Theorem C07_removes_const : forall b, feature 6 (rule_const b) = 0.
Proof. exact removes_const. Qed.
Print Assumptions C07_removes_const.
Check C07_removes_const : forall b, feature 6 (rule_const b) = 0.

Theorem C07_removes_types : forall b, feature 7 (rule_types b) = 0.
Proof. exact removes_types. Qed.
Print Assumptions C07_removes_types.
Check C07_removes_types : forall b, feature 7 (rule_types b) = 0.

Theorem C07_removes_attribute : forall b, feature 8 (rule_attribute b) = 0.
Proof. exact removes_attribute. Qed.
Print Assumptions C07_removes_attribute.
Check C07_removes_attribute : forall b, feature 8 (rule_attribute b) = 0.

(** no modelled rule introduces any of the nine constructs: each one removes its own and
    keeps every absent construct absent ([lowers]) *)
Theorem C07_rules_lower : forall p, In p lowering_rules ->
  (forall b, feature (fst p) (snd p b) = 0) /\
  (forall j b, (j < 9)%nat -> feature j b = 0 -> feature j (snd p b) = 0).
Proof. exact lowering_rules_lower. Qed.
Print Assumptions C07_rules_lower.
Check C07_rules_lower : forall p, In p lowering_rules ->
  (forall b, feature (fst p) (snd p b) = 0) /\
  (forall j b, (j < 9)%nat -> feature j b = 0 -> feature j (snd p b) = 0).

(** all together, in any order and multiplicity: Lua 5.1 tree, provided the input has no
    [continue] (whose rule is outside the model) *)
Theorem C07_all_lowered : forall rs,
  (forall p, In p rs -> In p lowering_rules) ->
  (forall j, (j < 9)%nat -> j <> 1%nat -> In j (map fst rs)) ->
  forall b, feature 1 b = 0 -> lua51_tree (apply_rules rs b) = true.
Proof. exact all_lowered. Qed.
Print Assumptions C07_all_lowered.
Check C07_all_lowered : forall rs,
  (forall p, In p rs -> In p lowering_rules) ->
  (forall j, (j < 9)%nat -> j <> 1%nat -> In j (map fst rs)) ->
  forall b, feature 1 b = 0 -> lua51_tree (apply_rules rs b) = true.

(** the fuel the rules are run with is sufficient: any larger fuel gives the same tree *)
Theorem C07_fuel_sufficient : forall H, In H lowering_hooks ->
  forall b n, (w_block b <= n)%nat -> visit_block H n 0 b = run_rule H b.
Proof. exact fuel_sufficient. Qed.
Print Assumptions C07_fuel_sufficient.
Check C07_fuel_sufficient : forall H, In H lowering_hooks ->
  forall b n, (w_block b <= n)%nat -> visit_block H n 0 b = run_rule H b.
