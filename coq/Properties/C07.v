(** C07 — Each Luau-lowering rule removes every occurrence of its construct. (interim) *)
From DL Require Import Lib.Bytes Lua.Syntax Lua.Census.
Open Scope N_scope.

Theorem C07_census_of_empty : census (Block [] None) = vzero.
Proof. reflexivity. Qed.
Print Assumptions C07_census_of_empty.
Check C07_census_of_empty : census (Block [] None) = vzero.
