(** C07 — Each Luau-lowering rule removes every occurrence of its construct.
    Only statements, closed by [exact], with their assumptions printed and pinned.

    [feature i b] is the number of occurrences of construct [i] in the tree [b]
    (Lua/Census.v, the specification: 0 compound assignment, 1 continue, 2 if-expression,
    3 interpolated string, 4 floor division, 5 Luau-only number literal, 6 const, 7 type
    syntax, 8 function attribute); [rule_*] are the models of the rules (Model/Lowering.v:
    the node rewrites; Model/Visit.v: the traversal, run with fuel [w_block b]), tied to the
    Rust rules on every run by the correspondence stream of vlib/lowering_gen.py.
    [remove_continue_block] is the model of remove_continue (Model/RemoveContinue.v: the
    post-order traversal with its loop stack and loop counter), tied to the Rust rule by tree
    equality on every run (vlib/continue_gen.py).  [continue_in_loops b]: every [continue] of
    [b] is reached under a loop frame of the rule's stack (true for every valid Luau program);
    [stray_continues b]: the number of those that are not. *)
From DL Require Import Lib.Bytes Lua.Syntax Lua.Census Model.Visit Model.Lowering Model.RemoveContinue
  Proof.LoweringCensusRules Proof.LoweringCensusAll Proof.RemoveContinue Proof.RemoveContinueAll
  Lua.Sem Proof.RemoveContinueSem.
Open Scope N_scope.

Theorem C07_removes_compound_assign : forall b, feature 0 (rule_compound_assign b) = 0.
Proof. exact removes_compound_assign. Qed.
Print Assumptions C07_removes_compound_assign.
Check C07_removes_compound_assign : forall b, feature 0 (rule_compound_assign b) = 0.

Theorem C07_removes_if_expression : forall b, feature 2 (rule_if_expression b) = 0.
Proof. exact removes_if_expression. Qed.
Print Assumptions C07_removes_if_expression.
Check C07_removes_if_expression : forall b, feature 2 (rule_if_expression b) = 0.

(** both strategies ([false] = "string", [true] = "tostring") *)
Theorem C07_removes_interpolated_string : forall st b, feature 3 (rule_interpolated_string st b) = 0.
Proof. exact removes_interpolated_string. Qed.
Print Assumptions C07_removes_interpolated_string.
Check C07_removes_interpolated_string : forall st b, feature 3 (rule_interpolated_string st b) = 0.

Theorem C07_removes_floor_division : forall b, feature 4 (rule_floor_division b) = 0.
Proof. exact removes_floor_division. Qed.
Print Assumptions C07_removes_floor_division.
Check C07_removes_floor_division : forall b, feature 4 (rule_floor_division b) = 0.

Theorem C07_removes_luau_number : forall b, feature 5 (rule_luau_number b) = 0.
Proof. exact removes_luau_number. Qed.
Print Assumptions C07_removes_luau_number.
Check C07_removes_luau_number : forall b, feature 5 (rule_luau_number b) = 0.

Theorem C07_removes_const : forall b, feature 6 (rule_const b) = 0.
Proof. exact removes_const. Qed.
Print Assumptions C07_removes_const.
Check C07_removes_const : forall b, feature 6 (rule_const b) = 0.

Theorem C07_removes_types : forall b, feature 7 (rule_types b) = 0.
Proof. exact removes_types. Qed.
Print Assumptions C07_removes_types.
Check C07_removes_types : forall b, feature 7 (rule_types b) = 0.

Theorem C07_removes_attribute : forall b, feature 8 (rule_attribute b) = 0.
Proof. exact removes_attribute. Qed.
Print Assumptions C07_removes_attribute.
Check C07_removes_attribute : forall b, feature 8 (rule_attribute b) = 0.

(** remove_continue: the [continue] statements left in the output are exactly the stray ones
    of the input (all inputs, any size and depth) ... *)
Theorem C07_remove_continue_leaves_stray : forall b, feature 1 (remove_continue_block b) = stray_continues b.
Proof. exact remove_continue_leaves_stray. Qed.
Print Assumptions C07_remove_continue_leaves_stray.
Check C07_remove_continue_leaves_stray : forall b, feature 1 (remove_continue_block b) = stray_continues b.

(** ... so it removes every [continue] of a program whose [continue]s are all in loops, and of
    no other program: the carve-out is exact *)
Theorem C07_removes_continue : forall b, continue_in_loops b = true -> feature 1 (remove_continue_block b) = 0.
Proof. exact removes_continue. Qed.
Print Assumptions C07_removes_continue.
Check C07_removes_continue : forall b, continue_in_loops b = true -> feature 1 (remove_continue_block b) = 0.

Theorem C07_removes_continue_iff : forall b, feature 1 (remove_continue_block b) = 0 <-> continue_in_loops b = true.
Proof. exact removes_continue_iff. Qed.
Print Assumptions C07_removes_continue_iff.
Check C07_removes_continue_iff : forall b, feature 1 (remove_continue_block b) = 0 <-> continue_in_loops b = true.

(** the unconditional statement is false for the code as it is ([continue] outside a loop) *)
Theorem C07_removes_continue_refuted : exists b, feature 1 (remove_continue_block b) <> 0.
Proof. exact removes_continue_refuted. Qed.
Print Assumptions C07_removes_continue_refuted.
Check C07_removes_continue_refuted : exists b, feature 1 (remove_continue_block b) <> 0.

(** it counts every other construct in the output exactly as in the input, and introduces
    none of the nine *)
Theorem C07_remove_continue_keeps : forall j b, (j < 9)%nat -> j <> 1%nat ->
  feature j (remove_continue_block b) = feature j b.
Proof. exact remove_continue_keeps. Qed.
Print Assumptions C07_remove_continue_keeps.
Check C07_remove_continue_keeps : forall j b, (j < 9)%nat -> j <> 1%nat ->
  feature j (remove_continue_block b) = feature j b.

Theorem C07_preserves_continue : forall j b, (j < 9)%nat -> feature j b = 0 -> feature j (remove_continue_block b) = 0.
Proof. exact preserves_continue. Qed.
Print Assumptions C07_preserves_continue.
Check C07_preserves_continue : forall j b, (j < 9)%nat -> feature j b = 0 -> feature j (remove_continue_block b) = 0.

(** no modelled rule introduces any of the nine constructs: each one removes its own and
    keeps every absent construct absent ([lowers]) *)
Theorem C07_rules_lower : forall p, In p lowering_rules ->
  (forall b, feature (fst p) (snd p b) = 0) /\
  (forall j b, (j < 9)%nat -> feature j b = 0 -> feature j (snd p b) = 0).
Proof. exact lowering_rules_lower. Qed.
Print Assumptions C07_rules_lower.
Check C07_rules_lower : forall p, In p lowering_rules ->
  (forall b, feature (fst p) (snd p b) = 0) /\
  (forall j b, (j < 9)%nat -> feature j b = 0 -> feature j (snd p b) = 0).

(** all together, in any order and multiplicity: Lua 5.1 tree, provided the input has no
    [continue] (whose rule is outside the model) *)
Theorem C07_all_lowered : forall rs,
  (forall p, In p rs -> In p lowering_rules) ->
  (forall j, (j < 9)%nat -> j <> 1%nat -> In j (map fst rs)) ->
  forall b, feature 1 b = 0 -> lua51_tree (apply_rules rs b) = true.
Proof. exact all_lowered. Qed.
Print Assumptions C07_all_lowered.
Check C07_all_lowered : forall rs,
  (forall p, In p rs -> In p lowering_rules) ->
  (forall j, (j < 9)%nat -> j <> 1%nat -> In j (map fst rs)) ->
  forall b, feature 1 b = 0 -> lua51_tree (apply_rules rs b) = true.

(** all NINE rules ([lowering_rules9] = remove_continue and the eight above) *)
Theorem C07_rules9_lower : forall p, In p lowering_rules9 ->
  (forall b, continue_in_loops b = true -> feature (fst p) (snd p b) = 0) /\
  (forall j b, (j < 9)%nat -> feature j b = 0 -> feature j (snd p b) = 0).
Proof. exact lowering_rules9_lower. Qed.
Print Assumptions C07_rules9_lower.
Check C07_rules9_lower : forall p, In p lowering_rules9 ->
  (forall b, continue_in_loops b = true -> feature (fst p) (snd p b) = 0) /\
  (forall j b, (j < 9)%nat -> feature j b = 0 -> feature j (snd p b) = 0).

(** each of the nine keeps a tree in the domain of remove_continue *)
Theorem C07_rules9_keep_domain : forall p, In p lowering_rules9 ->
  forall b, continue_in_loops b = true -> continue_in_loops (snd p b) = true.
Proof. exact lowering_rules9_keep_domain. Qed.
Print Assumptions C07_rules9_keep_domain.
Check C07_rules9_keep_domain : forall p, In p lowering_rules9 ->
  forall b, continue_in_loops b = true -> continue_in_loops (snd p b) = true.

(** ALL NINE RULES IN ANY ORDER and multiplicity: any list of rules among the nine that has a
    rule for each of the nine constructs turns a tree whose [continue]s are all in loops into a
    Lua 5.1 tree *)
Theorem C07_all_lowered9 : forall rs,
  (forall p, In p rs -> In p lowering_rules9) ->
  (forall j, (j < 9)%nat -> In j (map fst rs)) ->
  forall b, continue_in_loops b = true -> lua51_tree (apply_rules rs b) = true.
Proof. exact all_lowered9. Qed.
Print Assumptions C07_all_lowered9.
Check C07_all_lowered9 : forall rs,
  (forall p, In p rs -> In p lowering_rules9) ->
  (forall j, (j < 9)%nat -> In j (map fst rs)) ->
  forall b, continue_in_loops b = true -> lua51_tree (apply_rules rs b) = true.

Theorem C07_all_lowered9_permutation : forall rs, Permutation.Permutation rs lowering_rules9 ->
  forall b, continue_in_loops b = true -> lua51_tree (apply_rules rs b) = true.
Proof. exact all_lowered9_permutation. Qed.
Print Assumptions C07_all_lowered9_permutation.
Check C07_all_lowered9_permutation : forall rs, Permutation.Permutation rs lowering_rules9 ->
  forall b, continue_in_loops b = true -> lua51_tree (apply_rules rs b) = true.

(** remove_continue, behaviour of the simplest shape (reference interpreter Lua/Sem.v): the
    rule's output for [while c do SS continue end], i.e. [while c do <body_out SS> end] =
    [local F = false  repeat SS F = true break until true  if not F then break end], computes
    exactly what [while c do local F = false SS F = true continue end] ([body_ref]) computes -
    same result or error, same store, same events - for every [SS] that keeps the flag
    discipline ([flag_discipline]: no [continue] escapes [SS], the flag stays visible, a
    [break] leaves it [false]; [SS] may [break] and [return]).  PARTIAL: the link from
    [body_ref] to the input (a dead local shifts cell addresses) is not proved. *)
Theorem C07_continue_while_sound_partial : forall d id ss, flag_discipline d id ss ->
  forall n rho va c s,
    exec_while d n rho va c (body_ref id ss) s <> Fuel ->
    exec_while d (10 + n) rho va c (body_out id ss) s = exec_while d n rho va c (body_ref id ss) s.
Proof. exact continue_while_sound_partial. Qed.
Print Assumptions C07_continue_while_sound_partial.
Check C07_continue_while_sound_partial : forall d id ss, flag_discipline d id ss ->
  forall n rho va c s,
    exec_while d n rho va c (body_ref id ss) s <> Fuel ->
    exec_while d (10 + n) rho va c (body_out id ss) s = exec_while d n rho va c (body_ref id ss) s.

(** the fuel the rules are run with is sufficient: any larger fuel gives the same tree *)
Theorem C07_fuel_sufficient : forall H, In H lowering_hooks ->
  forall b n, (w_block b <= n)%nat -> visit_block H n 0 b = run_rule H b.
Proof. exact fuel_sufficient. Qed.
Print Assumptions C07_fuel_sufficient.
Check C07_fuel_sufficient : forall H, In H lowering_hooks ->
  forall b n, (w_block b <= n)%nat -> visit_block H n 0 b = run_rule H b.
