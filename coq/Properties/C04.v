(** C04 — retain_lines keeps surviving code on its original line.
    Only statements, closed by [exact], with their assumptions printed and pinned.

    Model: [Model/TokenGen.v].  [placements st ps] lists, for every non-empty token that
    carries a recorded line, (recorded line, line it is written on), the latter measured
    on the generated text itself (1 + number of line feeds before it).
    Proved: the generator's line bookkeeping, for every sequence of write requests.
    NOT proved (observed on every run instead): that each rule leaves the tree in a state
    whose write requests satisfy [lines_fit] — hence [C04_lines_kept_partial]. *)
From DL Require Import Lib.Bytes Model.CommentText Model.TokenGen Proof.TokenGenFacts.
Open Scope N_scope.

(** Unconditional: no token is ever written above its recorded line. *)
Theorem C04_lines_never_early : forall ps st, line_inv st ->
  Forall (fun lw => (fst lw <= snd lw)%nat) (placements st ps).
Proof. exact lines_never_early. Qed.
Print Assumptions C04_lines_never_early.
Check C04_lines_never_early : forall ps st, line_inv st ->
  Forall (fun lw => (fst lw <= snd lw)%nat) (placements st ps).

(** When the recorded lines leave room for the line breaks written between them
    ([lines_fit]: monotone lines, and one line for each line comment the generator must
    close), every token is written exactly on its recorded line. *)
Theorem C04_lines_kept_partial : forall ps, lines_fit 1 false ps = true ->
  Forall (fun lw => snd lw = fst lw) (placements g_init ps).
Proof. exact lines_kept. Qed.
Print Assumptions C04_lines_kept_partial.
Check C04_lines_kept_partial : forall ps, lines_fit 1 false ps = true ->
  Forall (fun lw => snd lw = fst lw) (placements g_init ps).

(** ShiftTokenLine: shifting every recorded line by [k] fits again once [k] more lines have
    been written; in particular append_text_comment at the start (comment [c], a line break,
    all tokens shifted by the number of lines of [c] plus one). *)
Theorem C04_lines_fit_shift : forall k ps cur cm, lines_fit cur cm ps = true ->
  lines_fit (cur + k) cm (map (shift_piece k) ps) = true.
Proof. exact lines_fit_shift. Qed.
Print Assumptions C04_lines_fit_shift.
Check C04_lines_fit_shift : forall k ps cur cm, lines_fit cur cm ps = true ->
  lines_fit (cur + k) cm (map (shift_piece k) ps) = true.

Theorem C04_shift_uniform : forall c ps, lines_fit 1 false ps = true ->
  lines_fit 1 false (RTrivia KComment c :: RTrivia KWhitespace [10]
                     :: map (shift_piece (S (count_lf c))) ps) = true.
Proof. exact shift_uniform. Qed.
Print Assumptions C04_shift_uniform.
Check C04_shift_uniform : forall c ps, lines_fit 1 false ps = true ->
  lines_fit 1 false (RTrivia KComment c :: RTrivia KWhitespace [10]
                     :: map (shift_piece (S (count_lf c))) ps) = true.

(** [Token::shift_token_line] changes exactly the recorded line of the token's own piece. *)
Theorem C04_resolve_shift : forall src k t sc ps,
  resolve_event src (EToken t sc) = Some ps ->
  exists l c r, ps = l ++ RToken c (line_of (tk_pos t)) sc :: r /\
    Forall (fun p => match p with RTrivia _ _ => True | _ => False end) (l ++ r) /\
    resolve_event src (EToken (shift_token k t) sc) =
      Some (l ++ RToken c (option_map (fun n => (n + k)%nat) (line_of (tk_pos t))) sc :: r).
Proof. exact resolve_shift. Qed.
Print Assumptions C04_resolve_shift.
Check C04_resolve_shift : forall src k t sc ps,
  resolve_event src (EToken t sc) = Some ps ->
  exists l c r, ps = l ++ RToken c (line_of (tk_pos t)) sc :: r /\
    Forall (fun p => match p with RTrivia _ _ => True | _ => False end) (l ++ r) /\
    resolve_event src (EToken (shift_token k t) sc) =
      Some (l ++ RToken c (option_map (fun n => (n + k)%nat) (line_of (tk_pos t))) sc :: r).

(** without room a token is pushed down: `--c` then a token recorded on the same line *)
Theorem C04_lines_kept_needs_room : exists ps, lines_fit 1 false ps = false /\
  placements g_init ps = [(1, 2)]%nat.
Proof. exact lines_kept_needs_room. Qed.
Print Assumptions C04_lines_kept_needs_room.
Check C04_lines_kept_needs_room : exists ps, lines_fit 1 false ps = false /\
  placements g_init ps = [(1, 2)]%nat.

(** non-vacuity: two lines, a line comment closed by the generator, a rule-made token without line *)
Example C04_example :
  let ps := [RToken (of_string "local") (Some 1) true; RToken (of_string "x") None true;
             RTrivia KComment (of_string "-- c"); RToken (of_string "return") (Some 2) true;
             RToken (of_string "[[a
b]]") (Some 2) true; RSymbol (of_string ",") true; RToken (of_string "x") (Some 4) true]%nat in
  lines_fit 1 false ps = true /\ placements g_init ps = [(1, 1); (2, 2); (2, 2); (4, 4)]%nat.
Proof. vm_compute. split; reflexivity. Qed.
