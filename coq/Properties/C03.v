(** C03 — retain_lines with no rules reproduces the source byte for byte.
    Only statements, closed by [exact], with their assumptions printed and pinned.

    Model: [Model/TokenGen.v], the token generator's write discipline ([write_token_options],
    [write_trivia], [write_symbol], [should_break_with_space], line padding, [uncomment]).
    NOT modelled: which tokens the parser conversion creates and in which order the per-node
    [write_*_with_tokens] functions hand them to the generator (about 6000 lines); the theorem
    takes that sequence ([evs]) as given with the hypothesis that it is lossless, and every
    run evaluates the hypotheses on the sequence recorded from the real generator. *)
From DL Require Import Lib.Bytes Model.CommentText Model.TokenGen Proof.TokenGenFacts.
Open Scope N_scope.

(** If the write requests are parsed tokens whose parts refer to the source ([layout]), their
    byte ranges tile the source in order ([tiles]: every byte in exactly one token or trivia),
    tokens carry the line they are on ([lines_true]), no line comment has to be closed by the
    generator ([cm_ok]: a line break follows it), and no two glued pieces trip the space check
    ([no_adjacent_break]), then the generated text is the source. *)
Theorem C03_identity : forall src evs lps,
  layout evs = Some lps ->
  tiles (List.length src) 0 lps = true ->
  lines_true src lps = true ->
  cm_ok false (map (lp_resolve src) lps) = true ->
  no_adjacent_break src lps = true ->
  generate src evs = Some src.
Proof. exact identity. Qed.
Print Assumptions C03_identity.
Check C03_identity : forall src evs lps,
  layout evs = Some lps ->
  tiles (List.length src) 0 lps = true ->
  lines_true src lps = true ->
  cm_ok false (map (lp_resolve src) lps) = true ->
  no_adjacent_break src lps = true ->
  generate src evs = Some src.

(** [no_adjacent_break] cannot be dropped: "return a[b[c]]", the requests recorded from the real
    generator, all other hypotheses hold, and the output is "return a[b[c] ]". *)
Theorem C03_identity_refuted : exists src evs lps,
  layout evs = Some lps /\
  tiles (List.length src) 0 lps = true /\
  lines_true src lps = true /\
  cm_ok false (map (lp_resolve src) lps) = true /\
  no_adjacent_break src lps = false /\
  generate src evs <> Some src.
Proof. exact identity_refuted. Qed.
Print Assumptions C03_identity_refuted.
Check C03_identity_refuted : exists src evs lps,
  layout evs = Some lps /\
  tiles (List.length src) 0 lps = true /\
  lines_true src lps = true /\
  cm_ok false (map (lp_resolve src) lps) = true /\
  no_adjacent_break src lps = false /\
  generate src evs <> Some src.

(** non-vacuity: a source with comments, blank lines and a token glued to a comment *)
Example C03_example :
  let src := of_string "local a--[[c]]= 1 -- x
return a" in
  let ws := mk_trivia KWhitespace in
  let evs := [
    EToken (mk_token (Ref 0 5 1) [] [ws (Ref 5 6 1)]) true;
    EToken (mk_token (Ref 6 7 1) [] [mk_trivia KComment (Ref 7 14 1)]) true;
    EToken (mk_token (Ref 14 15 1) [] [ws (Ref 15 16 1)]) true;
    EToken (mk_token (Ref 16 17 1) [] [ws (Ref 17 18 1); mk_trivia KComment (Ref 18 22 1); ws (Ref 22 23 1)]) true;
    EToken (mk_token (Ref 23 29 2) [] [ws (Ref 29 30 2)]) true;
    EToken (mk_token (Ref 30 31 2) [] []) true]%nat in
  exists lps, layout evs = Some lps /\ tiles (List.length src) 0 lps = true /\ lines_true src lps = true /\
    cm_ok false (map (lp_resolve src) lps) = true /\ no_adjacent_break src lps = true /\
    generate src evs = Some src.
Proof. vm_compute. eexists. repeat split. Qed.
