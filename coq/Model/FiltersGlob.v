(** C20 — a model of the glob semantics darklua's filters rely on (the `wax` crate behind
    /repo/src/utils/filter_pattern.rs: FilterPattern::matches = Glob::is_match on the whole path).

    Modelled subset of the wax syntax (the check only generates patterns of this subset, and compares the
    model with the real engine on every pattern x path of a run):
      - a pattern and a path are split at `/` into components;
      - `**` as a whole component (first, in the middle, last, or alone) matches ZERO or more components;
      - inside a component: a literal character, `?` (one character), `*` (zero or more characters),
        `[ab]`, `[a-c]`, `[!a]` (one character in / not in the listed characters and ranges) and
        `{x,y}` (one of several alternatives, themselves made of the former; no `/` and no nesting);
      - no special treatment of a leading `.`; matching is case sensitive.
    NOT modelled: alternatives containing `/` or `**`, nested alternatives, repetitions `<..>`, flags `(?i)`,
    escapes, `**` glued to other characters (wax rejects it), empty components (wax rejects them). *)
From Coq Require Import List Bool String Ascii NArith.
Import ListNotations.

Inductive atom :=
| AChar (c : ascii)
| AAny                                                   (* ? *)
| AStar                                                  (* * *)
| AClass (neg : bool) (ranges : list (ascii * ascii)).   (* [a-cx] / [!a-cx]; a single character x is the range x-x *)

Inductive frag :=
| FAtom (a : atom)
| FAlt (alts : list (list atom)).                        (* {x,y} *)

Inductive comp :=
| CTree                                                  (* ** *)
| CComp (fs : list frag).

Definition glob := list comp.

Definition in_range (c : ascii) (r : ascii * ascii) : bool :=
  (N.leb (N_of_ascii (fst r)) (N_of_ascii c) && N.leb (N_of_ascii c) (N_of_ascii (snd r)))%bool.

Definition atom_char (a : atom) (c : ascii) : bool :=
  match a with
  | AChar x => Ascii.eqb x c
  | AAny => true
  | AStar => false
  | AClass neg ranges => xorb neg (existsb (in_range c) ranges)
  end.

Definition nil_b {A} (l : list A) : bool := match l with [] => true | _ => false end.

(** one alternative-free component against the characters of one path component *)
Fixpoint match_atoms (ats : list atom) : list ascii -> bool :=
  match ats with
  | [] => nil_b
  | AStar :: rest =>
      fix star (cs : list ascii) : bool :=
        match_atoms rest cs || match cs with [] => false | _ :: cs' => star cs' end
  | a :: rest => fun cs => match cs with [] => false | c :: cs' => atom_char a c && match_atoms rest cs' end
  end.

(** the alternative-free expansions of a component *)
Fixpoint expand (fs : list frag) : list (list atom) :=
  match fs with
  | [] => [[]]
  | FAtom a :: rest => map (cons a) (expand rest)
  | FAlt alts :: rest => flat_map (fun alt => map (app alt) (expand rest)) alts
  end.

Definition match_comp (fs : list frag) (cs : list ascii) : bool :=
  existsb (fun ats => match_atoms ats cs) (expand fs).

(** a pattern against the components of a path *)
Fixpoint match_comps (g : glob) : list (list ascii) -> bool :=
  match g with
  | [] => nil_b
  | CTree :: rest =>
      fix skip (ps : list (list ascii)) : bool :=
        match_comps rest ps || match ps with [] => false | _ :: ps' => skip ps' end
  | CComp fs :: rest => fun ps => match ps with [] => false | p :: ps' => match_comp fs p && match_comps rest ps' end
  end.

(** split a path at `/` *)
Fixpoint split_path_aux (s : string) (cur : list ascii) : list (list ascii) :=
  match s with
  | EmptyString => [rev cur]
  | String c s' => if Ascii.eqb c "/"%char then rev cur :: split_path_aux s' [] else split_path_aux s' (c :: cur)
  end.

Definition split_path (s : string) : list (list ascii) := split_path_aux s [].

Definition glob_match (g : glob) (path : string) : bool := match_comps g (split_path path).

(** helpers to write patterns *)
Definition lit (s : string) : list frag := map (fun c => FAtom (AChar c)) (list_ascii_of_string s).
Definition lits (s : string) : list atom := map AChar (list_ascii_of_string s).
Definition one (c : ascii) : ascii * ascii := (c, c).
