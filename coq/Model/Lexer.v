(** Reference maximal-munch lexer for Lua 5.1 + Luau tokens over byte strings.

    This file is a SPECIFICATION (trusted): it is written from the Lua 5.1 manual
    (section 2.1) and from Luau's [Lexer.cpp], not from darklua.  It depends on
    [Lib/Bytes] only, so that other properties can reuse it.

    Shape: a one-byte-at-a-time state machine [step : lstate -> N -> list token * lstate]
    folded over the text ([run]), closed by [finish].  No fuel.  A token is emitted as soon
    as the byte that cannot extend it is seen ("maximal munch": while a byte can extend the
    pending token it does).

    Decisions (say so when reusing):
    - identifiers and keywords are one kind [TName] (see [is_keyword]);
    - numbers follow Luau's [readNumber], a GREEDY RUN, not a grammar of well-formed
      numerals: from a digit (or "." digit) take [0-9._]*, then, if the next byte is e/E,
      take it and one optional sign, then take [0-9A-Za-z_]*.  So "1..2", "1and", "0x1g"
      are each ONE (malformed) number token, exactly what makes them dangerous for a
      generator.  Lua 5.1's [read_numeral] is the same run without "_" in the first loop;
    - "[" "="+ not followed by "[" is a lexical error (5.1: invalid long string delimiter;
      Luau: broken string); a lone "~" is an error;
    - interpolated strings are lexed as Luau does: the pieces of text are tokens of kind
      [TInterp] ("`text{", "}text{", "}text`", or the whole "`text`" when there is no
      expression) and the expressions between them are lexed normally; a stack of brace
      depths ([list nat], one entry per interpolated string being read) tells which "}"
      resumes the string.  A raw line break in a text part is an error, as in a quoted string.
      "{{" is not rejected (Luau rejects it);
    - comments are tokens of kind [TComment] in [lex_all]; [lex] drops them;
    - symbols: + - * / // % ^ # == ~= <= >= < > = ( ) { } [ ] ; : :: , . .. ...
      -> += -= *= /= //= %= ^= ..= ? & | @ . *)
From DL Require Import Lib.Bytes.
Open Scope N_scope.

Inductive tkind := TName | TNumber | TString | TInterp | TSym | TComment.
Definition token := (tkind * bytes)%type.

Definition tkind_eqb (a b : tkind) : bool :=
  match a, b with
  | TName, TName | TNumber, TNumber | TString, TString | TInterp, TInterp
  | TSym, TSym | TComment, TComment => true
  | _, _ => false
  end.
Definition token_eqb (a b : token) : bool := tkind_eqb (fst a) (fst b) && bytes_eqb (snd a) (snd b).
Fixpoint tokens_eqb (a b : list token) : bool :=
  match a, b with
  | [], [] => true
  | x :: a', y :: b' => token_eqb x y && tokens_eqb a' b'
  | _, _ => false
  end.

(** * byte classes *)
Definition is_alpha (c : N) : bool := ((65 <=? c) && (c <=? 90)) || ((97 <=? c) && (c <=? 122)).
Definition is_ident_start (c : N) : bool := is_alpha c || (c =? 95).
Definition is_ident_char (c : N) : bool := is_alpha c || is_digit c || (c =? 95).
Definition is_ws (c : N) : bool := (c =? 32) || ((9 <=? c) && (c <=? 13)).

(** pending symbols: a symbol that one more byte could still extend *)
Inductive psym :=
| PDot | PDot2 | PEq | PLt | PGt | PTilde | PMinus | PSlash | PSlash2 | PColon | PLBracket
| PPlus | PStar | PPercent | PCaret.

Definition psym_text (p : psym) : bytes :=
  match p with
  | PDot => [46] | PDot2 => [46; 46] | PEq => [61] | PLt => [60] | PGt => [62] | PTilde => [126]
  | PMinus => [45] | PSlash => [47] | PSlash2 => [47; 47] | PColon => [58] | PLBracket => [91]
  | PPlus => [43] | PStar => [42] | PPercent => [37] | PCaret => [94]
  end.

(** phases of the greedy number run *)
Inductive nphase :=
| NHead      (* in [0-9._]* *)
| NExpSign   (* just took e/E after the head: one sign may follow *)
| NTail.     (* in [0-9A-Za-z_]* *)

(** accumulators are REVERSED byte lists ([racc]); tokens carry the text in order *)
Inductive lstate :=
| LStart
| LName (racc : bytes)
| LNum (ph : nphase) (racc : bytes)
| LSym (p : psym)
| LBrOpen (n : nat)                              (* "[" "="^n, n >= 1 *)
| LStr (dq : bool) (esc : bool) (racc : bytes)   (* quoted string delimited by [quote_of dq] *)
| LLong (n : nat) (cl : option nat) (racc : bytes)  (* long string level n; cl = Some k: saw "]" "="^k *)
| LInterp (esc : bool) (racc : bytes)
| LDash2 (racc : bytes)                          (* just after "--" *)
| LDashBr (n : nat) (racc : bytes)               (* "--[" "="^n *)
| LLine (racc : bytes)                           (* line comment *)
| LLongC (n : nat) (cl : option nat) (racc : bytes)  (* long comment *)
| LErr.

Definition quote_of (dq : bool) : N := if dq then 34 else 39.

Definition immediate_sym (c : N) : bool :=
  (c =? 40) || (c =? 41) || (c =? 93) || (c =? 59) || (c =? 44)
  || (c =? 35) || (c =? 63) || (c =? 38) || (c =? 124) || (c =? 64).

Definition pending_of (c : N) : option psym :=
  if c =? 46 then Some PDot else if c =? 61 then Some PEq else if c =? 60 then Some PLt
  else if c =? 62 then Some PGt else if c =? 126 then Some PTilde else if c =? 45 then Some PMinus
  else if c =? 47 then Some PSlash else if c =? 58 then Some PColon else if c =? 91 then Some PLBracket
  else if c =? 43 then Some PPlus else if c =? 42 then Some PStar else if c =? 37 then Some PPercent
  else if c =? 94 then Some PCaret else None.

(** the lexer configuration: brace depths of the interpolated strings being read
    (innermost first) and the state *)
Definition cfg := (list nat * lstate)%type.

(** first byte of a token (or white space) *)
Definition start (stk : list nat) (c : N) : list token * cfg :=
  if is_ws c then ([], (stk, LStart))
  else if is_ident_start c then ([], (stk, LName [c]))
  else if is_digit c then ([], (stk, LNum NHead [c]))
  else if c =? 34 then ([], (stk, LStr true false [c]))
  else if c =? 39 then ([], (stk, LStr false false [c]))
  else if c =? 96 then ([], (stk, LInterp false [c]))
  else if c =? 123 then
    ([(TSym, [c])], (match stk with d :: r => S d :: r | [] => [] end, LStart))
  else if c =? 125 then
    match stk with
    | O :: r => ([], (r, LInterp false [c]))           (* resumes the interpolated string *)
    | S d :: r => ([(TSym, [c])], (d :: r, LStart))
    | [] => ([(TSym, [c])], ([], LStart))
    end
  else if immediate_sym c then ([(TSym, [c])], (stk, LStart))
  else match pending_of c with
       | Some p => ([], (stk, LSym p))
       | None => ([], (stk, LErr))
       end.

(** can byte [c] extend the number run in phase [ph]; the next phase *)
Definition num_next (ph : nphase) (c : N) : option nphase :=
  match ph with
  | NHead =>
    if is_digit c || (c =? 46) || (c =? 95) then Some NHead
    else if (c =? 101) || (c =? 69) then Some NExpSign
    else if is_alpha c then Some NTail
    else None
  | NExpSign =>
    if (c =? 43) || (c =? 45) then Some NTail
    else if is_ident_char c then Some NTail
    else None
  | NTail => if is_ident_char c then Some NTail else None
  end.

Definition emit_sym (s : bytes) : option (list token * lstate) := Some ([(TSym, s)], LStart).

(** can byte [c] extend the pending symbol [p]; what happens then *)
Definition sym_next (p : psym) (c : N) : option (list token * lstate) :=
  match p with
  | PDot => if c =? 46 then Some ([], LSym PDot2)
            else if is_digit c then Some ([], LNum NHead [c; 46]) else None
  | PDot2 => if c =? 46 then emit_sym [46; 46; 46]
             else if c =? 61 then emit_sym [46; 46; 61] else None
  | PEq => if c =? 61 then emit_sym [61; 61] else None
  | PLt => if c =? 61 then emit_sym [60; 61] else None
  | PGt => if c =? 61 then emit_sym [62; 61] else None
  | PTilde => if c =? 61 then emit_sym [126; 61] else Some ([], LErr)
  | PMinus => if c =? 45 then Some ([], LDash2 [45; 45])
              else if c =? 62 then emit_sym [45; 62]
              else if c =? 61 then emit_sym [45; 61] else None
  | PSlash => if c =? 47 then Some ([], LSym PSlash2)
              else if c =? 61 then emit_sym [47; 61] else None
  | PSlash2 => if c =? 61 then emit_sym [47; 47; 61] else None
  | PColon => if c =? 58 then emit_sym [58; 58] else None
  | PLBracket => if c =? 91 then Some ([], LLong 0 None [91; 91])
                 else if c =? 61 then Some ([], LBrOpen 1) else None
  | PPlus => if c =? 61 then emit_sym [43; 61] else None
  | PStar => if c =? 61 then emit_sym [42; 61] else None
  | PPercent => if c =? 61 then emit_sym [37; 61] else None
  | PCaret => if c =? 61 then emit_sym [94; 61] else None
  end.

(** the pending token of a state, emitted when the next byte cannot extend it *)
Definition flush (st : lstate) : list token :=
  match st with
  | LName racc => [(TName, rev racc)]
  | LNum _ racc => [(TNumber, rev racc)]
  | LSym p => [(TSym, psym_text p)]
  | _ => []
  end.

(** emit the pending token, then treat [c] as the first byte of what follows *)
Definition restart (stk : list nat) (st : lstate) (c : N) : list token * cfg :=
  let '(o, k) := start stk c in (flush st ++ o, k).

(** progress of the closing bracket "]" "="^n "]" of a long string / comment *)
Definition close_next (n : nat) (cl : option nat) (c : N) : bool * option nat :=
  (* (closed?, new progress) *)
  if c =? 93 then
    match cl with
    | Some k => if Nat.eqb k n then (true, None) else (false, Some O)
    | None => (false, Some O)
    end
  else if c =? 61 then
    match cl with
    | Some k => (false, Some (S k))
    | None => (false, None)
    end
  else (false, None).

(** one byte in a state other than [LStart] that does not look at the stack, unless the
    pending token ends ([None]: the byte cannot extend it) *)
Definition step_st (st : lstate) (c : N) : option (list token * lstate) :=
  match st with
  | LStart => None
  | LName racc => if is_ident_char c then Some ([], LName (c :: racc)) else None
  | LNum ph racc =>
    match num_next ph c with
    | Some ph' => Some ([], LNum ph' (c :: racc))
    | None => None
    end
  | LSym p => sym_next p c
  | LBrOpen n =>
    Some (if c =? 61 then ([], LBrOpen (S n))
          else if c =? 91 then ([], LLong n None (91 :: repeat 61 n ++ [91]))
          else ([], LErr))
  | LStr q esc racc =>
    Some (if esc then ([], LStr q false (c :: racc))
          else if c =? 92 then ([], LStr q true (c :: racc))
          else if c =? quote_of q then ([(TString, rev (c :: racc))], LStart)
          else if (c =? 10) || (c =? 13) then ([], LErr)
          else ([], LStr q false (c :: racc)))
  | LLong n cl racc =>
    Some (let '(closed, cl') := close_next n cl c in
          if closed then ([(TString, rev (c :: racc))], LStart) else ([], LLong n cl' (c :: racc)))
  | LInterp esc racc =>
    Some (if esc then ([], LInterp false (c :: racc))
          else if c =? 92 then ([], LInterp true (c :: racc))
          else if c =? 96 then ([(TInterp, rev (c :: racc))], LStart)
          else if (c =? 10) || (c =? 13) then ([], LErr)   (* a raw line break inside the literal *)
          else ([], LInterp false (c :: racc)))      (* "{" is handled by [step] *)
  | LDash2 racc =>
    Some (if c =? 91 then ([], LDashBr 0 (c :: racc))
          else if c =? 10 then ([(TComment, rev racc)], LStart)
          else ([], LLine (c :: racc)))
  | LDashBr n racc =>
    Some (if c =? 61 then ([], LDashBr (S n) (c :: racc))
          else if c =? 91 then ([], LLongC n None (c :: racc))
          else if c =? 10 then ([(TComment, rev racc)], LStart)
          else ([], LLine (c :: racc)))
  | LLine racc =>
    Some (if c =? 10 then ([(TComment, rev racc)], LStart) else ([], LLine (c :: racc)))
  | LLongC n cl racc =>
    Some (let '(closed, cl') := close_next n cl c in
          if closed then ([(TComment, rev (c :: racc))], LStart) else ([], LLongC n cl' (c :: racc)))
  | LErr => Some ([], LErr)
  end.

Definition step (k : cfg) (c : N) : list token * cfg :=
  let '(stk, st) := k in
  match st with
  | LStart => start stk c
  | LInterp false racc =>
    if c =? 123 then ([(TInterp, rev (c :: racc))], (O :: stk, LStart))   (* an expression starts *)
    else match step_st st c with
         | Some (o, st') => (o, (stk, st'))
         | None => restart stk st c
         end
  | _ =>
    match step_st st c with
    | Some (o, st') => (o, (stk, st'))
    | None => restart stk st c
    end
  end.

Fixpoint run (k : cfg) (s : bytes) : list token * cfg :=
  match s with
  | [] => ([], k)
  | c :: s' =>
    let '(o, k') := step k c in
    let '(o', k'') := run k' s' in
    (o ++ o', k'')
  end.

(** end of input *)
Definition finish (st : lstate) : option (list token) :=
  match st with
  | LStart => Some []
  | LName _ | LNum _ _ => Some (flush st)
  | LSym PTilde => None
  | LSym _ => Some (flush st)
  | LDash2 racc | LDashBr _ racc | LLine racc => Some [(TComment, rev racc)]
  | LBrOpen _ | LStr _ _ _ | LLong _ _ _ | LInterp _ _ | LLongC _ _ _ | LErr => None
  end.

Definition cfg0 : cfg := ([], LStart).

Definition lex_all (s : bytes) : option (list token) :=
  let '(o, (stk, st)) := run cfg0 s in
  match stk, finish st with
  | [], Some o' => Some (o ++ o')
  | _, _ => None
  end.

Definition is_comment (t : token) : bool := tkind_eqb (fst t) TComment.

(** the token sequence a parser sees *)
Definition lex (s : bytes) : option (list token) :=
  option_map (filter (fun t => negb (is_comment t))) (lex_all s).

(** a state between tokens or inside a token that white space terminates cleanly *)
Definition clean (st : lstate) : bool :=
  match st with
  | LStart | LName _ | LNum _ _ => true
  | LSym PTilde => false
  | LSym _ => true
  | _ => false
  end.

(** does byte [c] extend the pending token of [st] (only meaningful for [clean] states) *)
Definition extends (st : lstate) (c : N) : bool :=
  match st with
  | LStart => false
  | _ => match step_st st c with Some _ => true | None => false end
  end.

(** * keywords (Lua 5.1; Luau's contextual keywords are plain names) *)
Open Scope string_scope.
Definition keywords : list bytes :=
  map of_string ["and"; "break"; "do"; "else"; "elseif"; "end"; "false"; "for"; "function"; "if";
                 "in"; "local"; "nil"; "not"; "or"; "repeat"; "return"; "then"; "true"; "until";
                 "while"].
Close Scope string_scope.
Definition is_keyword (s : bytes) : bool := existsb (bytes_eqb s) keywords.

(** rendering for diagnostics: kind letter + hex of the text, separated by spaces *)
Definition kind_letter (k : tkind) : N :=
  match k with
  | TName => 110 | TNumber => 35 | TString => 115 | TInterp => 105 | TSym => 121 | TComment => 99
  end.
Fixpoint show_tokens (l : list token) : bytes :=
  match l with
  | [] => []
  | (k, s) :: l' => kind_letter k :: tohex_b s ++ 32 :: show_tokens l'
  end.
