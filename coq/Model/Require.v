(** Model of darklua's require resolution and of the require generation used by
    convert_require:
    [src/rules/require/path_locator.rs: RequirePathLocator::find_require_path],
    [src/rules/require/luau_path_locator.rs: LuauPathLocator::find_require_path],
    [src/rules/require/path_require_mode.rs: find_require, get_source, is_module_folder_name, generate_require],
    [src/rules/require/luau_require_mode.rs: the same four],
    [src/rules/require/match_require.rs: match_path_require_call],
    [src/utils/luau_config.rs: find_luau_configuration],
    [src/rules/mod.rs: Context::project_location],
    [src/rules/convert_require/mod.rs: RequireConverter::try_require_conversion].
    No proofs in this file. *)
From DL Require Import Lib.Bytes Model.Paths.
Open Scope N_scope.

Record config := {
  c_luau : bool;                       (* RequireMode::Luau / RequireMode::Path *)
  c_mfn : bytes;                       (* module_folder_name ("init" in the luau mode) *)
  c_sources : list (bytes * path);     (* `sources` (path mode) / `aliases` (luau mode) *)
  c_project : option path;             (* the configuration location, when there is one *)
  c_use_rc : bool                      (* use_luau_configuration *)
}.

Definition init_name : bytes := [105; 110; 105; 116].   (* "init" *)
Definition self_name : bytes := [64; 115; 101; 108; 102].  (* "@self" *)
Definition luaurc_name : bytes := [46; 108; 117; 97; 117; 114; 99].  (* ".luaurc" *)
Definition at_sign : N := 64.

Definition module_folder_name (c : config) : bytes := if c_luau c then init_name else c_mfn c.

Inductive rerr := ENotFound | EUnknownSource | EEmpty.
Inductive res := Found (p : path) | Failed (e : rerr).

(** [Context::project_location] *)
Definition project_location (c : config) (src : path) : path :=
  match c_project c with
  | Some p => p
  | None => match parent src with Some q => q | None => src end
  end.

Fixpoint assoc (k : bytes) (l : list (bytes * path)) : option path :=
  match l with
  | [] => None
  | (k', v) :: r => if bytes_eqb k k' then Some v else assoc k r
  end.

(** ** [.luaurc] files: a list of (directory, aliases) beside the file list *)
Definition rc_files := list (path * list (bytes * path)).

(** [Path::ancestors] *)
Fixpoint ancestors_fuel (fuel : nat) (p : path) : list path :=
  match fuel with
  | O => [p]
  | S f => p :: match parent p with Some q => ancestors_fuel f q | None => [] end
  end.
Definition ancestors (p : path) : list path := ancestors_fuel (List.length p) p.

Definition rc_at (rcs : rc_files) (dir : path) : option (list (bytes * path)) :=
  let key := normalize false (join dir [Norm luaurc_name]) in
  match filter (fun e => path_eqb (normalize false (join (fst e) [Norm luaurc_name])) key) rcs with
  | e :: _ => Some (snd e)
  | [] => None
  end.

Fixpoint first_rc (rcs : rc_files) (dirs : list path) : option (path * list (bytes * path)) :=
  match dirs with
  | [] => None
  | d :: r => match rc_at rcs d with Some al => Some (d, al) | None => first_rc rcs r end
  end.

(** [find_luau_configuration] followed by the alias rewriting of [find_luau_configuration_private];
    [initialize] of both modes *)
Definition rc_aliases (c : config) (rcs : rc_files) (src : path) : option (list (bytes * path)) :=
  if c_use_rc c then
    match first_rc rcs (ancestors src) with
    | Some (d, al) => Some (map (fun kv => (at_sign :: fst kv, normalize false (join d (snd kv)))) al)
    | None => None
    end
  else None.

Definition rc_lookup (rc : option (list (bytes * path))) (name : bytes) : option path :=
  match rc with Some al => assoc name al | None => None end.

(** [PathRequireMode::get_source] / [LuauRequireMode::get_source] *)
Definition get_source (c : config) (rc : option (list (bytes * path))) (name : bytes) (rel : path)
  : option path :=
  if c_luau c then
    match rc_lookup rc name with
    | Some p => Some p
    | None => option_map (join rel) (assoc name (c_sources c))
    end
  else
    match assoc name (c_sources c) with
    | Some alias => Some (join rel alias)
    | None => rc_lookup rc name
    end.

(** [is_module_folder_name] of both modes *)
Definition opt_bytes_eqb (a : option bytes) (b : bytes) : bool :=
  match a with Some x => bytes_eqb x b | None => false end.
Definition is_module_folder_name (c : config) (p : path) : bool :=
  opt_bytes_eqb (file_name p) (module_folder_name c) || opt_bytes_eqb (file_stem p) (module_folder_name c).

(** the candidate loop shared by both locators *)
Fixpoint first_file (f : fs) (l : list path) : option path :=
  match l with
  | [] => None
  | p :: r => if is_file f p then Some p else first_file f r
  end.

Definition locate (c : config) (f : fs) (p : path) : res :=
  let normalized := normalize true p in
  match first_file f (candidates normalized (module_folder_name c)) with
  | Some q => Found (normalize true q)
  | None => Failed ENotFound
  end.

(** the head of the path: [Ok path] or the error *)
Definition head_path (c : config) (rc : option (list (bytes * path))) (src p : path) : path + rerr :=
  if is_require_relative p then
    if c_luau c then
      if is_module_folder_name c src
      then inl (join (get_relative_parent_path (get_relative_parent_path src)) p)
      else inl (join (get_relative_parent_path src) p)
    else inl (join (pop src) p)
  else if has_root p then inl p
  else match p with
       | [] => inr EEmpty
       | first :: rest =>
         let name := comp_bytes first in
         if c_luau c then
           if bytes_eqb name self_name then inl (join (get_relative_parent_path src) rest)
           else match name with
                | a :: _ =>
                  if a =? at_sign then
                    match get_source c rc name (project_location c src) with
                    | Some loc => inl (extend loc rest)
                    | None => inr EUnknownSource
                    end
                  else inl p
                | [] => inl p
                end
         else
           match get_source c rc name (project_location c src) with
           | Some loc => inl (extend loc rest)
           | None => inr EUnknownSource
           end
       end.

(** [find_require_path] of the two locators *)
Definition find_require_path (c : config) (rcs : rc_files) (f : fs) (src p : path) : res :=
  match head_path c (rc_aliases c rcs src) src p with
  | inl q => locate c f q
  | inr e => Failed e
  end.

(** [find_require]: the literal goes through [match_path_require_call] *)
Definition find_require (c : config) (rcs : rc_files) (f : fs) (src : path) (literal : bytes) : res :=
  find_require_path c rcs f src (normalize true (parse_path literal)).

(** ** [generate_require] *)

(** alias selection: among the aliases whose normalised location is a prefix of the path, the
    one with the most components (stable sort by count, [next_back]); the model iterates in
    list order, the code in HashMap order (the two agree when no two matching aliases have the
    same number of components) *)
Fixpoint best_alias (loc : path) (nrp : path) (l : list (bytes * path)) (best : option (bytes * path))
  : option (bytes * path) :=
  match l with
  | [] => best
  | (name, alias) :: r =>
    let ap := normalize false (join loc alias) in
    let best' :=
      if path_prefix ap nrp then
        match best with
        | Some (_, bp) => if Nat.leb (List.length bp) (List.length ap) then Some (name, ap) else best
        | None => Some (name, ap)
        end
      else best in
    best_alias loc nrp r best'
  end.

(** the last step of both [generate_require]: drop the module folder file name or the
    lua/luau extension *)
Definition strip_target (c : config) (g : path) : path :=
  if is_module_folder_name c g then pop g
  else if is_lua_ext (extension g) then set_extension g [] else g.

Definition starts_with_par_par (p : path) : bool :=
  match p with Par :: Par :: _ => true | _ => false end.

Definition generate_path (c : config) (src : path) (require_path : path) : path :=
  let source_path := normalize false src in
  if is_require_relative require_path then
    if c_luau c && is_module_folder_name c source_path then
      let take :=
        if is_module_folder_name c require_path then removelast require_path else require_path in
      match take with
      | Cur :: r => from_iter (Norm self_name :: r)
      | Par :: Par :: r => from_iter (Par :: r)
      | Par :: r => from_iter (Cur :: r)
      | _ => from_iter take
      end
    else require_path
  else
    let nrp := normalize false require_path in
    match best_alias (project_location c src) nrp (c_sources c) None with
    | Some (name, ap) => extend (parse_path name) (skipn (List.length ap) nrp)
    | None =>
      match get_relative_path nrp source_path true with
      | Some rel =>
        if c_luau c && is_module_folder_name c source_path then
          if starts_with_cur rel then extend [Norm self_name] (skipn 1 rel)
          else if starts_with_par_par rel then from_iter (skipn 1 rel)
          else if starts_with_par rel then extend [Cur] (skipn 1 rel)
          else rel
        else if negb (starts_with_cur rel || starts_with_par rel) then join [Cur] rel
        else rel
      | None => nrp
      end
    end.

Definition generate_require (c : config) (src : path) (require_path : path) : bytes :=
  write_require_path (strip_target c (generate_path c src require_path)).

(** ** [RequireConverter::try_require_conversion] followed by the resolution of the new
    argument under the target mode *)
Record conversion := { cv_found : res; cv_generated : option bytes; cv_refound : option res }.

Definition convert (cur tgt : config) (rcs : rc_files) (f : fs) (src : path) (literal : bytes) : conversion :=
  match find_require cur rcs f src literal with
  | Found p =>
    let g := generate_require tgt src p in
    {| cv_found := Found p; cv_generated := Some g; cv_refound := Some (find_require tgt rcs f src g) |}
  | Failed e => {| cv_found := Failed e; cv_generated := None; cv_refound := None |}
  end.

(** two paths name the same in-memory file when their [normalize_path] agree *)
Definition same_file (a b : path) : bool := path_eqb (normalize false a) (normalize false b).
