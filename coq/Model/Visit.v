(** Model of darklua's tree traversal ([src/process/visitors.rs]: the default methods of
    [NodeVisitor], i.e. [DefaultVisitor]; [src/process/scope_visitor.rs]: [ScopeVisitor]),
    generic in the processor.

    Traversal order of the Rust code: for each node the processor's [process_*] is called on
    the node FIRST (it may replace the node), and then the children OF THE POSSIBLY REPLACED
    node are visited.  The children of the replaced node are not structurally smaller than
    the original node (e.g. [a // b] becomes [math.floor(a / b)], whose children [a], [b]
    sit two levels deeper), so the model recurses on explicit FUEL: one unit per node level.
    [w_*] below is a size measure with slack for the lowering rewrites (each rewrite
    satisfies [w (rewrite x) <= w x]: the [hooks_w_*] lemmas of Proof/LoweringCensusRules.v), and a rule is run
    with fuel [w_block b]; Proof/LoweringCensusVisit.v proves that this fuel is sufficient
    (the result no longer changes with more fuel).  On fuel exhaustion a node is returned
    unchanged.

    The processor is a record of four hooks:
      [h_expr]    expression position: [process_expression] followed by the kind-specific
                  [process_*_expression] the visitor calls right after it on the same node
                  ([process_function_expression], [process_number_expression], ...);
      [h_prefix]  prefix position ([visit_prefix_expression] calls
                  [process_prefix_expression], NOT [process_expression]);
      [h_stmt]    [process_statement] followed by the kind-specific [process_*_statement];
                  it also threads the number [k] of temporaries ("__DARKLUA_VAR...") that are
                  live in the enclosing scopes (see below);
      [h_block]   [process_block].
    No lowering rule overrides [process_variable], [process_function_call] (except for the
    method type instantiation, which the tree does not represent), [process_type] or
    [process_scope], so these have no hook here.

    Positions.  The Rust AST distinguishes [Expression], [Prefix] and [Variable]; the Coq
    tree folds them into [expr].  The traversal keeps the distinction:
      - expression position: [h_expr], then the children;
      - prefix position (prefix of a field / index / call / type instantiation):
        [h_prefix], then the children;
      - variable position (left-hand sides): no hook on the root ([process_variable] is
        unused), then the children;
      - a call statement: [visit_function_call] directly, no hook on the call node.
    A tree that holds a non-prefix form in prefix position (or a non-variable in variable
    position, a non-call in a call statement) cannot come from darklua; for totality such a
    node is treated as in expression position.

    Scope state.  [ScopeVisitor] differs from [DefaultVisitor] by the scope callbacks and by
    the order in which some children are visited.  The only scope information the modelled
    rules consume is the set of names in scope, used (a) to detect shadowing of
    [math]/[string]/[tostring] - NOT modelled (see Model/Lowering.v) - and (b) to generate
    fresh temporaries: [generate_identifier_with_prefix("__DARKLUA_VAR")] returns the first
    name of the sequence VAR, VAR0, VAR1, ... that is not in any open scope, and records it
    in the innermost scope.  For programs that do not themselves declare a name of that
    sequence, the names in use are exactly the first [k] names of the sequence, where [k] is
    the number of temporaries generated in the scopes that are still open (a popped scope
    frees the names generated in it, which are the most recent ones).  So the state is the
    number [k]; it grows along the statements of a block and is restored when the block is
    left.  The [repeat] condition is visited inside the scope of the body ([ScopeVisitor]
    pushes once, visits the body without a second push, then the condition), so it sees the
    [k] reached at the end of the body.  For processors that do not generate names ([k] is
    ignored) the model coincides with both visitors, whose remaining difference is the order
    of visits among siblings, invisible to a processor without state.

    Types.  Every sub-type and every embedded expression ([typeof(e)]) of a type is visited
    ([visit_type] and friends reach every place where an expression can occur).  Function
    generics are not visited by the Rust code; they contain no expressions in any tree darklua
    builds, so visiting them (as the model does, for uniformity) changes nothing. *)
From Coq Require Import NArith List Bool.
From DL Require Import Lib.Bytes Lua.Syntax.
Import ListNotations.
Open Scope nat_scope.

Record hooks := mkHooks {
  h_expr : expr -> expr;
  h_prefix : expr -> expr;
  h_stmt : nat -> stmt -> stmt * nat;
  h_block : block -> block;
}.

Definition id_hooks : hooks := mkHooks (fun e => e) (fun e => e) (fun k s => (s, k)) (fun b => b).

(** the forms a darklua [Prefix] / [Variable] can hold *)
Fixpoint is_prefix_form (e : expr) : bool :=
  match e with
  | EIdent _ | EField _ _ | EIndex _ _ | ECall _ _ _ | EParen _ => true
  | ETypeInst p _ => is_prefix_form p        (* [Prefix::TypeInstantiation] holds a [Prefix] *)
  | _ => false
  end.
Definition is_var_form (e : expr) : bool :=
  match e with EIdent _ | EField _ _ | EIndex _ _ => true | _ => false end.
Definition is_call_form (e : expr) : bool :=
  match e with ECall _ _ _ => true | _ => false end.

(** * One level: rebuild a node from visited children *)
Section Children.
Variable ve : expr -> expr.        (* child in expression position *)
Variable vp : expr -> expr.        (* child in prefix position *)
Variable vb : block -> block.
Variable vt : ty -> ty.

Definition param_children (p : param) : param :=
  match p with Param x t => Param x (option_map vt t) end.

Definition fbody_children (f : fbody) : fbody :=
  match f with
  | FBody ps variadic vartype ret gen attrs body =>
    FBody (map param_children ps) variadic (option_map vt vartype) (option_map vt ret)
          (option_map vt gen) attrs (vb body)
  end.

Definition tentry_children (t : tentry) : tentry :=
  match t with
  | TField f v => TField f (ve v)
  | TIndex k v => TIndex (ve k) (ve v)
  | TValue v => TValue (ve v)
  end.

Definition args_children (a : args) : args :=
  match a with
  | ATuple es => ATuple (map ve es)
  | AString s => AString s
  | ATable entries => ATable (map tentry_children entries)
  end.

Definition iseg_children (s : iseg) : iseg :=
  match s with ISStr b => ISStr b | ISExpr e => ISExpr (ve e) end.

Definition ebranch_children (b : ebranch) : ebranch :=
  match b with EBranch c r => EBranch (ve c) (ve r) end.

Definition expr_children (e : expr) : expr :=
  match e with
  | ENil | ETrue | EFalse | ENumber _ | EString _ | EVarArgs | EIdent _ => e
  | EInterp segs => EInterp (map iseg_children segs)
  | EField p f => EField (vp p) f
  | EIndex p k => EIndex (vp p) (ve k)
  | ECall p m a => ECall (vp p) m (args_children a)
  | EFunction f => EFunction (fbody_children f)
  | EIf bs els => EIf (map ebranch_children bs) (ve els)
  | EParen e' => EParen (ve e')
  | ETable entries => ETable (map tentry_children entries)
  | EUnary op e' => EUnary op (ve e')
  | EBinary op l r => EBinary op (ve l) (ve r)
  | ETypeCast e' t => ETypeCast (ve e') (vt t)
  | ETypeInst p tys => ETypeInst (vp p) (map vt tys)
  end.

Definition ty_children (t : ty) : ty :=
  match t with TyNode kind subs es => TyNode kind (map vt subs) (map ve es) end.

Definition sbranch_children (b : sbranch) : sbranch :=
  match b with SBranch c body => SBranch (ve c) (vb body) end.

Definition last_children (l : laststmt) : laststmt :=
  match l with
  | LBreak => LBreak
  | LContinue => LContinue
  | LReturn es => LReturn (map ve es)
  end.

Variable vv : expr -> expr.        (* child in variable position *)
Variable vc : expr -> expr.        (* the call of a call statement *)
Variable vcond : expr -> expr.     (* the condition of a [repeat] *)

Definition stmt_children (s : stmt) : stmt :=
  match s with
  | SAssign vars vals => SAssign (map vv vars) (map ve vals)
  | SDo b => SDo (vb b)
  | SCall c => SCall (vc c)
  | SCompound op var v => SCompound op (vv var) (ve v)
  | SFunction base fields m f => SFunction base fields m (fbody_children f)
  | SGenericFor vars es b => SGenericFor (map param_children vars) (map ve es) (vb b)
  | SIf bs els => SIf (map sbranch_children bs) (option_map vb els)
  | SLocal c vars vals => SLocal c (map param_children vars) (map ve vals)
  | SLocalFunction x f => SLocalFunction x (fbody_children f)
  | SNumericFor var a b step body =>
    SNumericFor (param_children var) (ve a) (ve b) (option_map ve step) (vb body)
  | SRepeat b c => SRepeat (vb b) (vcond c)
  | SWhile c b => SWhile (ve c) (vb b)
  | STypeDecl ex x gen t => STypeDecl ex x (option_map vt gen) (vt t)
  | STypeFunction ex x f => STypeFunction ex x (fbody_children f)
  end.
End Children.

(** visit a statement list left to right, threading the number of live temporaries *)
Fixpoint thread (f : nat -> stmt -> stmt * nat) (k : nat) (l : list stmt) : list stmt * nat :=
  match l with
  | [] => ([], k)
  | x :: r =>
    let (x', k') := f k x in
    let (r', k'') := thread f k' r in
    (x' :: r', k'')
  end.

Section Visit.
Variable H : hooks.

(** [k] after the statements of a block have been processed *)
Definition final_k (k : nat) (b : block) : nat :=
  match h_block H b with
  | Block ss _ => fold_left (fun k s => snd (h_stmt H k s)) ss k
  end.

Fixpoint visit_expr (n k : nat) (e : expr) {struct n} : expr :=
  match n with
  | O => e
  | S n' =>
    expr_children (visit_expr n' k) (visit_prefix n' k) (visit_block n' k) (visit_ty n' k) (h_expr H e)
  end

with visit_prefix (n k : nat) (e : expr) {struct n} : expr :=
  match n with
  | O => e
  | S n' =>
    expr_children (visit_expr n' k) (visit_prefix n' k) (visit_block n' k) (visit_ty n' k)
                  (if is_prefix_form e then h_prefix H e else h_expr H e)
  end

with visit_var (n k : nat) (e : expr) {struct n} : expr :=
  match n with
  | O => e
  | S n' =>
    expr_children (visit_expr n' k) (visit_prefix n' k) (visit_block n' k) (visit_ty n' k)
                  (if is_var_form e then e else h_expr H e)
  end

with visit_call (n k : nat) (e : expr) {struct n} : expr :=
  match n with
  | O => e
  | S n' =>
    expr_children (visit_expr n' k) (visit_prefix n' k) (visit_block n' k) (visit_ty n' k)
                  (if is_call_form e then e else h_expr H e)
  end

with visit_ty (n k : nat) (t : ty) {struct n} : ty :=
  match n with
  | O => t
  | S n' => ty_children (visit_expr n' k) (visit_ty n' k) t
  end

with visit_stmt (n k : nat) (s : stmt) {struct n} : stmt * nat :=
  match n with
  | O => (s, k)
  | S n' =>
    let (s', k') := h_stmt H k s in
    let kc := match s' with SRepeat b _ => final_k k' b | _ => k' end in
    (stmt_children (visit_expr n' k') (visit_block n' k') (visit_ty n' k')
                   (visit_var n' k') (visit_call n' k') (visit_expr n' kc) s', k')
  end

with visit_block (n k : nat) (b : block) {struct n} : block :=
  match n with
  | O => b
  | S n' =>
    match h_block H b with
    | Block ss last =>
      let (ss', k') := thread (visit_stmt n') k ss in
      Block ss' (option_map (last_children (visit_expr n' k')) last)
    end
  end.

End Visit.

(** * Size measure (fuel) *)

Definition sum (l : list nat) : nat := fold_right Nat.add 0 l.
Definition wopt {A} (f : A -> nat) (o : option A) : nat := match o with Some a => f a | None => 0 end.

(** Slack: an if-expression branch grows by at most 8 nodes ([(c and {(r)} or {(e)})[1]]),
    floor division by 4 ([math.floor(...)]), an interpolated string by 5 + 3 per segment
    ([string.format(fmt, tostring(v), ...)]), a cast / instantiation by 1 (parentheses), a
    compound assignment duplicates its variable and adds a [do] block with a [local]. *)
Fixpoint w_ty (t : ty) : nat :=
  match t with
  | TyNode _ subs es => S (sum (map w_ty subs) + sum (map w_expr es))
  end

with w_expr (e : expr) : nat :=
  match e with
  | ENil | ETrue | EFalse | ENumber _ | EString _ | EVarArgs | EIdent _ => 1
  | EInterp segs => 8 + sum (map w_iseg segs)
  | EField p _ => S (w_expr p)
  | EIndex p k => S (w_expr p + w_expr k)
  | ECall p _ a => S (w_expr p + w_args a)
  | EFunction f => S (w_fbody f)
  | EIf bs els => S (sum (map w_ebranch bs) + w_expr els)
  | EParen e' => S (w_expr e')
  | ETable entries => S (sum (map w_tentry entries))
  | EUnary _ e' => S (w_expr e')
  | EBinary op l r => (match op with BIDiv => 8 | _ => 1 end) + (w_expr l + w_expr r)
  | ETypeCast e' t => 2 + (w_expr e' + w_ty t)
  | ETypeInst p tys => 2 + (w_expr p + sum (map w_ty tys))
  end

with w_iseg (s : iseg) : nat :=
  match s with ISStr _ => 1 | ISExpr e => 6 + w_expr e end

with w_ebranch (b : ebranch) : nat :=
  match b with EBranch c r => 12 + (w_expr c + w_expr r) end

with w_args (a : args) : nat :=
  match a with
  | ATuple es => S (sum (map w_expr es))
  | AString _ => 1
  | ATable entries => S (sum (map w_tentry entries))
  end

with w_tentry (t : tentry) : nat :=
  match t with
  | TField _ v => S (w_expr v)
  | TIndex k v => S (w_expr k + w_expr v)
  | TValue v => S (w_expr v)
  end

with w_fbody (f : fbody) : nat :=
  match f with
  | FBody ps _ vt rt gen _ body =>
    S (sum (map w_param ps) + (wopt w_ty vt + (wopt w_ty rt + (wopt w_ty gen + w_block body))))
  end

with w_param (p : param) : nat :=
  match p with Param _ t => S (wopt w_ty t) end

with w_stmt (s : stmt) : nat :=
  match s with
  | SAssign vars vals => S (sum (map w_expr vars) + sum (map w_expr vals))
  | SDo b => S (w_block b)
  | SCall c => S (w_expr c)
  | SCompound _ var v => 40 + (2 * w_expr var + w_expr v)
  | SFunction _ _ _ f => S (w_fbody f)
  | SGenericFor vars es b => S (sum (map w_param vars) + (sum (map w_expr es) + w_block b))
  | SIf bs els => S (sum (map w_sbranch bs) + wopt w_block els)
  | SLocal _ vars vals => S (sum (map w_param vars) + sum (map w_expr vals))
  | SLocalFunction _ f => S (w_fbody f)
  | SNumericFor var a b step body =>
    S (w_param var + (w_expr a + (w_expr b + (wopt w_expr step + w_block body))))
  | SRepeat b c => S (w_block b + w_expr c)
  | SWhile c b => S (w_expr c + w_block b)
  | STypeDecl _ _ gen t => S (wopt w_ty gen + w_ty t)
  | STypeFunction _ _ f => S (w_fbody f)
  end

with w_sbranch (b : sbranch) : nat :=
  match b with SBranch c body => S (w_expr c + w_block body) end

with w_block (b : block) : nat :=
  match b with Block stmts last => S (sum (map w_stmt stmts) + wopt w_last last) end

with w_last (l : laststmt) : nat :=
  match l with
  | LBreak | LContinue => 1
  | LReturn es => S (sum (map w_expr es))
  end.

(** a rule = the traversal with the rule's hooks, run with fuel [w_block b], no live temporary *)
Definition run_rule (H : hooks) (b : block) : block := visit_block H (w_block b) 0 b.
