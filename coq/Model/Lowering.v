(** Models of the node-level rewrites of darklua's Luau-lowering rules, as they are at the
    current /repo HEAD, and the rules themselves = the traversal of Model/Visit.v with the
    rule's processor.

      rule                        Rust source                                   visitor
      remove_if_expression        src/rules/remove_if_expression.rs             DefaultVisitor
      remove_floor_division       src/rules/remove_floor_division.rs            ScopeVisitor
      remove_compound_assignment  src/rules/remove_compound_assign.rs           ScopeVisitor
      remove_interpolated_string  src/rules/remove_interpolated_string.rs       ScopeVisitor
      convert_luau_number         src/rules/convert_luau_number.rs              DefaultVisitor
      make_assignment_local       src/rules/make_assignment_local.rs            DefaultVisitor
      remove_types                src/rules/remove_types.rs                     DefaultVisitor
      remove_attribute            src/rules/remove_attribute.rs (no [match])    DefaultVisitor

    LEFT OUT (exactly):
    - shadowing of the library names: remove_floor_division asks its [IdentifierTracker]
      whether a local/parameter named [math] is in scope at a [//] and then emits
      [__DARKLUA_MATH_FLOOR(...)] plus a [local __DARKLUA_MATH_FLOOR = math.floor] at the
      top of the chunk; remove_interpolated_string does the same for [tostring]
      ([__DARKLUA_TO_STR]) and [string] ([__DARKLUA_STR_FMT]).  The model covers the programs
      in which no local variable, parameter, loop variable, local function or [self] binding
      is named [math] (resp. [string], [tostring]) anywhere: there the rule emits the global
      library call.
    - temporaries: remove_compound_assignment names them [__DARKLUA_VAR], [__DARKLUA_VAR0],
      ... skipping names already in scope.  The model assumes the program declares no name
      of that sequence itself (then the k-th live temporary has the k-th name, Visit.v).
    - what the tree does not represent: tokens (convert_luau_number's removal of [_] from
      the spelling of decimal / hexadecimal literals is a token edit; the tree keeps the
      value), [const function] (make_assignment_local resets it), the method type
      instantiation [o:m<<T>>()] (remove_types drops it), attribute names (remove_attribute
      with a [match] list is not modelled).
    - on trees darklua cannot build, the model is deliberately total and uniform rather than
      faithful (there is nothing to be faithful to): a type function statement carrying
      attributes has them cleared by [rw_attribute_stmt]. *)
From Coq Require Import ZArith NArith List Bool.
From DL Require Import Lib.Bytes Lua.Syntax Model.Evaluator Model.Visit.
Import ListNotations.
Open Scope N_scope.

Definition lnm (s : string) : name := of_string s.

(** * remove_if_expression *)

(** [Expression::from(1)]: the decimal literal 1.0 without exponent *)
Definition num_one : expr := ENumber (NDec 4607182418800017408 None).

(** [Processor::wrap_in_table] *)
Definition wrap_in_table (e : expr) : expr :=
  ETable [TValue (if can_return_multiple_values e then EParen e else e)].

(** [Processor::convert_if_branch]: [c and r or e] when the evaluator knows that [r] is
    truthy, otherwise [(c and {r} or {e})[1]] ([IndexExpression::new] wraps the non-prefix
    expression in parentheses) *)
Definition convert_if_branch (c r e : expr) : expr :=
  match is_truthy (evaluate r) with
  | Some true => EBinary BOr (EBinary BAnd c r) e
  | _ => EIndex (EParen (EBinary BOr (EBinary BAnd c (wrap_in_table r)) (wrap_in_table e))) num_one
  end.

(** [process_expression]: the [elseif] branches are folded from the last one up to the
    first (the code reverses the iterator before folding), then the leading [if] *)
Definition rw_if_expression (e : expr) : expr :=
  match e with
  | EIf [] els => EParen els    (* no such tree in darklua (an if-expression has its first branch);
                                   [EIf [] els] evaluates [els] truncated to one value, as [(els)] does *)
  | EIf bs els => fold_right (fun b acc => match b with EBranch c r => convert_if_branch c r acc end) els bs
  | _ => e
  end.

Definition hooks_if_expression : hooks :=
  mkHooks rw_if_expression (fun e => e) (fun k s => (s, k)) (fun b => b).
Definition rule_if_expression : block -> block := run_rule hooks_if_expression.

(** * remove_compound_assignment *)

(** the k-th name of [generate_identifier_with_prefix("__DARKLUA_VAR")]: the prefix itself,
    then the prefix followed by the strings over the alphabet "012345689" (sic: no 7) in
    length-lexicographic order ([Permutator]) = bijective base-9 numeration of k *)
Definition temp_alphabet : list N := [48; 49; 50; 51; 52; 53; 54; 56; 57].
Fixpoint bij9 (fuel : nat) (k : N) : list N :=
  match fuel with
  | O => []
  | S f => if k =? 0 then [] else bij9 f ((k - 1) / 9) ++ [nth (N.to_nat ((k - 1) mod 9)) temp_alphabet 48]
  end.
Definition temp_name (k : nat) : name :=
  lnm "__DARKLUA_VAR" ++ bij9 (S k) (N.of_nat k).

(** the expressions the rule duplicates without a temporary when parenthesised *)
Definition is_simple_literal (e : expr) : bool :=
  match e with
  | EFalse | EIdent _ | ENumber _ | ENil | EString _ | ETrue | EVarArgs => true
  | _ => false
  end.

(** does the prefix of the assigned field / index need a temporary ([replace_with]) *)
Definition prefix_needs_temp (p : expr) : bool :=
  match p with
  | EIdent _ => false
  | EParen inner => negb (is_simple_literal inner)
  | _ => true
  end.

(** does the key need one (an interpolated string does: its segments may have side effects) *)
Definition key_needs_temp (k : expr) : bool :=
  match k with
  | EFalse | EIdent _ | ENumber _ | ENil | EString _ | ETrue | EVarArgs => false
  | EParen inner => negb (is_simple_literal inner)
  | _ => true
  end.

(** [simplify_prefix] (falling back to the prefix itself) *)
Definition simplify_prefix (p : expr) : expr :=
  match p with EParen (EIdent x) => EIdent x | _ => p end.

(** [remove_parentheses] *)
Definition remove_parens (e : expr) : expr :=
  match e with EParen inner => inner | _ => e end.

Definition plain_assign (op : binop) (var value : expr) : stmt :=
  SAssign [var] [EBinary op var value].

Definition local_temps (names : list name) (vals : list expr) : stmt :=
  SLocal false (map (fun x => Param x None) names) vals.

(** [create_do_assignment] *)
Definition do_assign (op : binop) (tmp : stmt) (var value : expr) : stmt :=
  SDo (Block [tmp; plain_assign op var value] None).

(** [process_statement] of remove_compound_assign.rs with [k] temporaries live; returns the
    new statement and the new count *)
Definition rw_compound_assign_k (k : nat) (s : stmt) : stmt * nat :=
  match s with
  | SCompound op var value =>
    match var with
    | EIndex p key =>
      match prefix_needs_temp p, key_needs_temp key with
      | false, false =>
        (plain_assign op (EIndex (simplify_prefix p) (remove_parens key)) value, k)
      | false, true =>
        let iv := temp_name k in
        (do_assign op (local_temps [iv] [remove_parens key])
                   (EIndex (simplify_prefix p) (EIdent iv)) value, S k)
      | true, false =>
        let pv := temp_name k in
        (do_assign op (local_temps [pv] [remove_parens p]) (EIndex (EIdent pv) key) value, S k)
      | true, true =>
        let pv := temp_name k in
        let iv := temp_name (S k) in
        (do_assign op (local_temps [pv; iv] [remove_parens p; remove_parens key])
                   (EIndex (EIdent pv) (EIdent iv)) value, S (S k))
      end
    | EField p f =>
      (* an identifier prefix keeps the variable as it is: [simplify_prefix (EIdent x) = EIdent x] *)
      if prefix_needs_temp p then
        let pv := temp_name k in
        (do_assign op (local_temps [pv] [remove_parens p]) (EField (EIdent pv) f) value, S k)
      else (plain_assign op (EField (simplify_prefix p) f) value, k)
    | _ => (plain_assign op var value, k)
    end
  | _ => (s, k)
  end.

Definition rw_compound_assign (s : stmt) : stmt := fst (rw_compound_assign_k 0 s).

Definition hooks_compound_assign : hooks :=
  mkHooks (fun e => e) (fun e => e) rw_compound_assign_k (fun b => b).
Definition rule_compound_assign : block -> block := run_rule hooks_compound_assign.

(** * remove_floor_division *)

(** [build_math_floor_call] when [math] is not shadowed; the operator of the binary node was
    switched to [/] first *)
Definition rw_floor_division (e : expr) : expr :=
  match e with
  | EBinary BIDiv a b => ECall (EField (EIdent (lnm "math")) (lnm "floor")) None (ATuple [EBinary BDiv a b])
  | _ => e
  end.

(** [process_statement]: a [//=] statement is handed to
    [RemoveCompoundAssignment::replace_compound_assignment], which runs the WHOLE compound
    assignment rule ([ScopeVisitor::visit_statement] with a fresh processor: no temporary
    live) on that statement - so compound assignments of any operator nested inside it
    (in function bodies) are rewritten as well.  The [//] it produces is rewritten when the
    traversal continues with the children of the new statement. *)
Definition rw_floor_division_stmt (s : stmt) : stmt :=
  match s with
  | SCompound BIDiv _ _ => fst (visit_stmt hooks_compound_assign (w_stmt s) 0 s)
  | _ => s
  end.

Definition hooks_floor_division : hooks :=
  mkHooks rw_floor_division (fun e => e) (fun k s => (rw_floor_division_stmt s, k)) (fun b => b).
Definition rule_floor_division : block -> block := run_rule hooks_floor_division.

(** * remove_interpolated_string *)

Fixpoint escape_percent (s : bytes) : bytes :=
  match s with
  | [] => []
  | c :: r => if c =? 37 then 37 :: 37 :: escape_percent r else c :: escape_percent r
  end.

Definition call_tostring (e : expr) : expr := ECall (EIdent (lnm "tostring")) None (ATuple [e]).

(** [strategy]: [false] = "string" (the default: [%s] with [tostring(v)]), [true] =
    "tostring" ([%*] with the bare value) *)
Definition interp_format (tostring_strategy : bool) (segs : list iseg) : bytes :=
  flat_map (fun sg => match sg with
                      | ISStr s => escape_percent s
                      | ISExpr _ => if tostring_strategy then [37; 42] else [37; 115]
                      end) segs.

Definition interp_values (tostring_strategy : bool) (segs : list iseg) : list expr :=
  flat_map (fun sg => match sg with
                      | ISStr _ => []
                      | ISExpr e => [if tostring_strategy then e else call_tostring e]
                      end) segs.

(** [replace_with] when neither [tostring] nor [string] is shadowed *)
Definition rw_interpolated_string (tostring_strategy : bool) (e : expr) : expr :=
  match e with
  | EInterp [] => EString []
  | EInterp [ISStr s] => EString s
  | EInterp [ISExpr v] => call_tostring v
  | EInterp segs =>
    ECall (EField (EIdent (lnm "string")) (lnm "format")) None
          (ATuple (EString (interp_format tostring_strategy segs) :: interp_values tostring_strategy segs))
  | _ => e
  end.

Definition hooks_interpolated_string (tostring_strategy : bool) : hooks :=
  mkHooks (rw_interpolated_string tostring_strategy) (fun e => e) (fun k s => (s, k)) (fun b => b).
Definition rule_interpolated_string (tostring_strategy : bool) : block -> block :=
  run_rule (hooks_interpolated_string tostring_strategy).

(** * convert_luau_number *)

(** [process_number_expression]: a binary literal becomes the hexadecimal literal of the same
    integer (lowercase x, no exponent); the other two kinds only lose underscores in their
    token text *)
Definition rw_luau_number (n : number) : number :=
  match n with
  | NBin v _ => NHex v false None
  | _ => n
  end.

Definition rw_luau_number_expr (e : expr) : expr :=
  match e with ENumber n => ENumber (rw_luau_number n) | _ => e end.

Definition hooks_luau_number : hooks :=
  mkHooks rw_luau_number_expr (fun e => e) (fun k s => (s, k)) (fun b => b).
Definition rule_luau_number : block -> block := run_rule hooks_luau_number.

(** * make_assignment_local *)

Definition rw_const (s : stmt) : stmt :=
  match s with
  | SLocal _ vars vals => SLocal false vars vals
  | _ => s
  end.

Definition hooks_const : hooks :=
  mkHooks (fun e => e) (fun e => e) (fun k s => (rw_const s, k)) (fun b => b).
Definition rule_const : block -> block := run_rule hooks_const.

(** * remove_types *)

Definition clear_param (p : param) : param := match p with Param x _ => Param x None end.

(** [clear_types] of function expressions / statements / local functions *)
Definition clear_fbody (f : fbody) : fbody :=
  match f with
  | FBody ps variadic _ _ _ attrs body => FBody (map clear_param ps) variadic None None None attrs body
  end.

(** the loop of [process_expression]: casts and instantiations are peeled until another
    kind of node shows up; a callee that may return several values gets parentheses (which
    ends the loop) *)
Fixpoint strip_types (e : expr) : expr :=
  match e with
  | ETypeCast e' _ => if can_return_multiple_values e' then EParen e' else strip_types e'
  | ETypeInst p _ => if can_return_multiple_values p then EParen p else strip_types p
  | _ => e
  end.

(** [process_expression], then [process_function_expression] *)
Definition rw_types (e : expr) : expr :=
  match strip_types e with
  | EFunction f => EFunction (clear_fbody f)
  | e' => e'
  end.

(** [process_prefix_expression] *)
Fixpoint rw_types_prefix (p : expr) : expr :=
  match p with
  | ETypeInst p' _ => rw_types_prefix p'
  | _ => p
  end.

(** [process_local_assign_statement], [process_numeric_for_statement],
    [process_generic_for_statement], [process_function_statement],
    [process_local_function_statement] *)
Definition rw_types_stmt (s : stmt) : stmt :=
  match s with
  | SLocal c vars vals => SLocal c (map clear_param vars) vals
  | SNumericFor var a b step body => SNumericFor (clear_param var) a b step body
  | SGenericFor vars es b => SGenericFor (map clear_param vars) es b
  | SFunction base fields m f => SFunction base fields m (clear_fbody f)
  | SLocalFunction x f => SLocalFunction x (clear_fbody f)
  | _ => s
  end.

Definition is_type_stmt (s : stmt) : bool :=
  match s with STypeDecl _ _ _ _ | STypeFunction _ _ _ => true | _ => false end.

(** [process_block] *)
Definition rw_types_block (b : block) : block :=
  match b with Block ss last => Block (filter (fun s => negb (is_type_stmt s)) ss) last end.

Definition hooks_types : hooks :=
  mkHooks rw_types rw_types_prefix (fun k s => (rw_types_stmt s, k)) rw_types_block.
Definition rule_types : block -> block := run_rule hooks_types.

(** * remove_attribute (empty [match] list) *)

Definition clear_attrs (f : fbody) : fbody :=
  match f with
  | FBody ps variadic vt rt gen _ body => FBody ps variadic vt rt gen 0 body
  end.

Definition rw_attribute (e : expr) : expr :=
  match e with EFunction f => EFunction (clear_attrs f) | _ => e end.

Definition rw_attribute_stmt (s : stmt) : stmt :=
  match s with
  | SFunction base fields m f => SFunction base fields m (clear_attrs f)
  | SLocalFunction x f => SLocalFunction x (clear_attrs f)
  | STypeFunction ex x f => STypeFunction ex x (clear_attrs f)
  | _ => s
  end.

Definition hooks_attribute : hooks :=
  mkHooks rw_attribute (fun e => e) (fun k s => (rw_attribute_stmt s, k)) (fun b => b).
Definition rule_attribute : block -> block := run_rule hooks_attribute.
