(** Executable model of the TRAVERSAL of darklua's [rename_variables] on the MiniLua syntax:
    [ScopeVisitor] (src/process/scope_visitor.rs) over the default [NodeVisitor] order
    (src/process/visitors.rs), generic in the processor like the Rust code, instantiated with
      - [CollectGlobalsProcessor] (src/process/processors/collect_globals.rs),
      - [CollectFunctionNames]    (src/rules/rename_variables/function_names.rs),
      - [RenameProcessor]         (Model/Rename.v: step),
    and [RenameVariables::flawless_process] (src/rules/rename_variables/mod.rs) on top.
    No proofs here.  Not modelled (the dumped trees do not carry them): type names and the
    namespaces of type fields ([process_type_field]), so programs using [ns.T] annotations are
    outside the exact-output correspondence. *)
From Coq Require Import NArith List Bool.
From DL Require Import Lib.Bytes Lua.Syntax Model.Rename.
Import ListNotations.
Open Scope N_scope.

Section Visitor.
Variable S : Type.
(** the [Scope] + [NodeProcessor] entry points the visitor calls *)
Variable push pop : S -> S.
Variable insert : S -> name -> S * name.                  (* Scope::insert *)
Variable insert_local : S -> name -> S * name.            (* Scope::insert_local *)
Variable insert_self : S -> S.
Variable insert_local_function : S -> name -> S * name.
Variable variable : S -> name -> S * name.                (* process_variable_expression *)
Variable local_function_seen : S -> name -> S.            (* process_local_function_statement *)
Variable scoped : bool.                                    (* ScopeVisitor (true) or DefaultVisitor (false) *)

Definition smap {A B} (f : S -> A -> S * B) : S -> list A -> S * list B :=
  fix go (s : S) (l : list A) : S * list B :=
    match l with
    | [] => (s, [])
    | a :: r => let '(s1, a') := f s a in let '(s2, r') := go s1 r in (s2, a' :: r')
    end.
Definition sopt {A} (f : S -> A -> S * A) (s : S) (o : option A) : S * option A :=
  match o with
  | None => (s, None)
  | Some a => let '(s', a') := f s a in (s', Some a')
  end.

Definition do_push (s : S) : S := if scoped then push s else s.
Definition do_pop (s : S) : S := if scoped then pop s else s.

(** parameter annotations first (all of them), names afterwards *)
Definition param_types (fty : S -> ty -> S * ty) : S -> list param -> S * list (option ty) :=
  smap (fun s p => match p with Param _ t => sopt fty s t end).
Definition param_names (ins : S -> name -> S * name) (s : S) (ps : list param) : S * list name :=
  smap ins s (map param_name ps).
Fixpoint rebuild (xs : list name) (ts : list (option ty)) : list param :=
  match xs, ts with
  | x :: xs', t :: ts' => Param x t :: rebuild xs' ts'
  | _, _ => []
  end.
Definition ins_if_scoped (ins : S -> name -> S * name) (s : S) (x : name) : S * name :=
  if scoped then ins s x else (s, x).

Fixpoint tv_ty (s : S) (t : ty) {struct t} : S * ty :=
  match t with
  | TyNode k subs es =>
    let '(s1, subs') := smap tv_ty s subs in
    let '(s2, es') := smap tv_expr s1 es in
    (s2, TyNode k subs' es')
  end

with tv_expr (s : S) (e : expr) {struct e} : S * expr :=
  match e with
  | ENil | ETrue | EFalse | ENumber _ | EString _ | EVarArgs => (s, e)
  | EInterp segs => let '(s1, segs') := smap tv_iseg s segs in (s1, EInterp segs')
  | EIdent x => let '(s1, x') := variable s x in (s1, EIdent x')
  | EField p f => let '(s1, p') := tv_expr s p in (s1, EField p' f)
  | EIndex p k => let '(s1, p') := tv_expr s p in let '(s2, k') := tv_expr s1 k in (s2, EIndex p' k')
  | ECall p m a => let '(s1, p') := tv_expr s p in let '(s2, a') := tv_args s1 a in (s2, ECall p' m a')
  | EFunction f => let '(s1, f') := tv_fbody s false f in (s1, EFunction f')
  | EIf bs els =>
    let '(s1, bs') := smap tv_ebranch s bs in let '(s2, els') := tv_expr s1 els in (s2, EIf bs' els')
  | EParen e' => let '(s1, e'') := tv_expr s e' in (s1, EParen e'')
  | ETable entries => let '(s1, en') := smap tv_tentry s entries in (s1, ETable en')
  | EUnary op e' => let '(s1, e'') := tv_expr s e' in (s1, EUnary op e'')
  | EBinary op l r => let '(s1, l') := tv_expr s l in let '(s2, r') := tv_expr s1 r in (s2, EBinary op l' r')
  | ETypeCast e' t => let '(s1, e'') := tv_expr s e' in let '(s2, t') := tv_ty s1 t in (s2, ETypeCast e'' t')
  | ETypeInst p tys => let '(s1, p') := tv_expr s p in let '(s2, tys') := smap tv_ty s1 tys in (s2, ETypeInst p' tys')
  end

with tv_iseg (s : S) (g : iseg) {struct g} : S * iseg :=
  match g with
  | ISStr _ => (s, g)
  | ISExpr e => let '(s1, e') := tv_expr s e in (s1, ISExpr e')
  end

with tv_ebranch (s : S) (b : ebranch) {struct b} : S * ebranch :=
  match b with
  | EBranch c r => let '(s1, c') := tv_expr s c in let '(s2, r') := tv_expr s1 r in (s2, EBranch c' r')
  end

with tv_args (s : S) (a : args) {struct a} : S * args :=
  match a with
  | ATuple es => let '(s1, es') := smap tv_expr s es in (s1, ATuple es')
  | AString _ => (s, a)
  | ATable entries => let '(s1, en') := smap tv_tentry s entries in (s1, ATable en')
  end

with tv_tentry (s : S) (t : tentry) {struct t} : S * tentry :=
  match t with
  | TField f v => let '(s1, v') := tv_expr s v in (s1, TField f v')
  | TIndex k v => let '(s1, k') := tv_expr s k in let '(s2, v') := tv_expr s1 v in (s2, TIndex k' v')
  | TValue v => let '(s1, v') := tv_expr s v in (s1, TValue v')
  end

(** visit_function_expression / visit_function_statement / visit_local_function: annotations,
    variadic type, return type; push; self; parameters; the block (which pushes again); pop *)
with tv_fbody (s : S) (with_self : bool) (f : fbody) {struct f} : S * fbody :=
  match f with
  | FBody ps va vt rt gen attrs body =>
    let '(s1, pts) := param_types tv_ty s ps in
    let '(s2, vt') := sopt tv_ty s1 vt in
    let '(s3, rt') := sopt tv_ty s2 rt in
    let s4 := do_push s3 in
    let s5 := if with_self && scoped then insert_self s4 else s4 in
    let '(s6, pns) := param_names (ins_if_scoped insert) s5 ps in
    let '(s7, body') := tv_block s6 body in
    (do_pop s7, FBody (rebuild pns pts) va vt' rt' gen attrs body')
  end

with tv_stmt (s : S) (st : stmt) {struct st} : S * stmt :=
  match st with
  | SAssign vars vals =>
    let '(s1, vars') := smap tv_expr s vars in let '(s2, vals') := smap tv_expr s1 vals in (s2, SAssign vars' vals')
  | SDo b => let '(s1, b') := tv_block s b in (s1, SDo b')
  | SCall c => let '(s1, c') := tv_expr s c in (s1, SCall c')
  | SCompound op var v =>
    let '(s1, var') := tv_expr s var in let '(s2, v') := tv_expr s1 v in (s2, SCompound op var' v')
  | SFunction base fields method f =>
    let '(s1, base') := variable s base in
    let '(s2, f') := tv_fbody s1 (match method with Some _ => true | None => false end) f in
    (s2, SFunction base' fields method f')
  | SGenericFor vars es b =>
    let '(s1, es') := smap tv_expr s es in
    let s2 := do_push s1 in
    let '(s3, vns) := param_names (ins_if_scoped insert) s2 vars in
    let '(s4, vts) := param_types tv_ty s3 vars in
    let '(s5, b') := tv_block s4 b in
    (do_pop s5, SGenericFor (rebuild vns vts) es' b')
  | SIf bs els =>
    let '(s1, bs') := smap tv_sbranch s bs in let '(s2, els') := sopt tv_block s1 els in (s2, SIf bs' els')
  | SLocal c vars vals =>
    let '(s1, vals') := smap tv_expr s vals in
    let '(s2, vts) := param_types tv_ty s1 vars in
    let '(s3, vns) := param_names (ins_if_scoped insert_local) s2 vars in
    (s3, SLocal c (rebuild vns vts) vals')
  | SLocalFunction x f =>
    let s0 := local_function_seen s x in
    let '(s1, x') := ins_if_scoped insert_local_function s0 x in
    let '(s2, f') := tv_fbody s1 false f in
    (s2, SLocalFunction x' f')
  | SNumericFor (Param x t) a b step body =>
    let '(s1, a') := tv_expr s a in
    let '(s2, b') := tv_expr s1 b in
    let '(s3, step') := sopt tv_expr s2 step in
    let '(s4, t') := sopt tv_ty s3 t in
    let s5 := do_push s4 in
    let '(s6, x') := ins_if_scoped insert s5 x in
    let '(s7, body') := tv_block s6 body in
    (do_pop s7, SNumericFor (Param x' t') a' b' step' body')
  | SRepeat (Block ss last) c =>
    if scoped then
      let s1 := push s in
      let '(s2, ss') := smap tv_stmt s1 ss in
      let '(s3, last') := sopt tv_last s2 last in
      let '(s4, c') := tv_expr s3 c in
      (pop s4, SRepeat (Block ss' last') c')
    else
      let '(s2, ss') := smap tv_stmt s ss in
      let '(s3, last') := sopt tv_last s2 last in
      let '(s4, c') := tv_expr s3 c in
      (s4, SRepeat (Block ss' last') c')
  | SWhile c b => let '(s1, c') := tv_expr s c in let '(s2, b') := tv_block s1 b in (s2, SWhile c' b')
  | STypeDecl ex x gen t =>
    let '(s1, gen') := sopt tv_ty s gen in let '(s2, t') := tv_ty s1 t in (s2, STypeDecl ex x gen' t')
  | STypeFunction ex x (FBody ps va vt rt gen attrs body) =>
    (* the default visit_type_function: the block first, then the annotations; parameters are not inserted *)
    let '(s1, body') := tv_block s body in
    let '(s2, pts) := param_types tv_ty s1 ps in
    let '(s3, vt') := sopt tv_ty s2 vt in
    let '(s4, rt') := sopt tv_ty s3 rt in
    (s4, STypeFunction ex x (FBody (rebuild (map param_name ps) pts) va vt' rt' gen attrs body'))
  end

with tv_sbranch (s : S) (b : sbranch) {struct b} : S * sbranch :=
  match b with
  | SBranch c body => let '(s1, c') := tv_expr s c in let '(s2, body') := tv_block s1 body in (s2, SBranch c' body')
  end

(** ScopeVisitor::visit_block: push, statements, last statement, pop *)
with tv_block (s : S) (b : block) {struct b} : S * block :=
  match b with
  | Block ss last =>
    let s1 := do_push s in
    let '(s2, ss') := smap tv_stmt s1 ss in
    let '(s3, last') := sopt tv_last s2 last in
    (do_pop s3, Block ss' last')
  end

with tv_last (s : S) (l : laststmt) {struct l} : S * laststmt :=
  match l with
  | LBreak | LContinue => (s, l)
  | LReturn es => let '(s1, es') := smap tv_expr s es in (s1, LReturn es')
  end.
End Visitor.

(** ---------------------------------------------------------------------------------------
    CollectGlobalsProcessor: scopes of declared names, and the globals met *)
Definition gstate := (list (list name) * list name)%type.
Definition g_add (s : gstate) (x : name) : gstate :=
  match fst s with
  | [] => ([[x]], snd s)
  | sc :: r => ((x :: sc) :: r, snd s)
  end.
Definition g_declared (s : gstate) (x : name) : bool := existsb (mem x) (fst s).
Definition collect_globals (b : block) : list name :=
  snd (fst (tv_block gstate
    (fun s => ([] :: fst s, snd s)) (fun s => (tl (fst s), snd s))
    (fun s x => (g_add s x, x)) (fun s x => (g_add s x, x)) (fun s => g_add s (of_string "self"))
    (fun s x => (g_add s x, x))
    (fun s x => (if g_declared s x then s else (fst s, x :: snd s), x))
    (fun s _ => s) true ([], []) b)).

(** CollectFunctionNames with the DefaultVisitor: every [local function] name *)
Definition collect_function_names (b : block) : list name :=
  fst (tv_block (list name) (fun s => s) (fun s => s) (fun s x => (s, x)) (fun s x => (s, x)) (fun s => s)
                (fun s x => (s, x)) (fun s x => (s, x)) (fun s x => x :: s) false [] b).

(** RenameProcessor on top of Rename.step *)
Definition out_name (r : state * option name) (x : name) : state * name :=
  (fst r, match snd r with Some n => n | None => x end).

(** RenameVariables::flawless_process *)
Definition rename_model (globals : list name) (include_functions detect_globals : bool) (b : block) : block :=
  let avoid_fns := if include_functions then [] else collect_function_names b in
  let found := if detect_globals then collect_globals b else [] in
  let s0 := init (globals ++ avoid_fns ++ found) in
  snd (tv_block state
    (fun s => fst (step s OPush)) (fun s => fst (step s OPop))
    (fun s x => out_name (step s (OInsert x)) x) (fun s x => out_name (step s (OInsert x)) x)
    (fun s => fst (step s OInsertSelf))
    (fun s x => out_name (step s (if include_functions then OInsert x else OKeep x)) x)
    (fun s x => out_name (step s (OLookup x)) x)
    (fun s _ => s) true s0 b).
