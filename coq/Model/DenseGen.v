(** Model of the push automaton of darklua's dense generator
    ([src/generator/dense.rs]) at the level of the sequence of pushes.

    An [item] is one push: the text pushed and the push variant used for it.  The
    automaton decides what goes between two pushes (nothing, a space, a new line) from
    the column bookkeeping, from [should_break_with_space] applied to the last character
    of the output and the first character pushed, and from the [break_*] predicates
    applied to the previous push.  Both are PARAMETERS here ([tables]): the real ones are
    dumped from the compiled Rust code on every run into [Generated/C02Tables.v].

    Which variant dense.rs uses for which token is not decided here: the harness
    (crate c02, [items.rs]) walks a tree in the order of dense.rs's [write_*] functions and
    produces the item list; the check compares [emit] on that list with the real output,
    byte for byte. *)
From DL Require Import Lib.Bytes.
Open Scope N_scope.

(** [utils::break_concat], [break_variable_arguments], [break_minus], [break_equal],
    [break_long_string]: each looks only at the first and the last character of the
    previous push. *)
Inductive pred := BConcat | BVarargs | BMinus | BEqual | BLongString.

Record tables := {
  sp : N -> N -> bool;              (* should_break_with_space last next *)
  br : pred -> N -> N -> bool       (* break_* on a push whose first/last characters are given *)
}.

Inductive mode :=
| MStr                 (* push_str / push_char *)
| MBreak (p : pred)    (* push_str_and_break_if / push_char_and_break_if *)
| MRaw                 (* raw_push_str / raw_push_char *)
| MNlRaw (n : N)       (* push_new_line_if_needed(n); raw_push_char *)
| MMerge               (* merge_char (text must be one character) *)
| MSpace.              (* push_space (text ignored) *)

Record item := { imode : mode; itext : bytes }.

(** [DenseLuaGenerator] fields *)
Record gen := { out : bytes; col : N; lastlen : nat }.

Definition gen0 : gen := {| out := []; col := 0; lastlen := 0 |}.

Definition blen (s : bytes) : N := N.of_nat (List.length s).

Fixpoint last_opt (s : bytes) : option N :=
  match s with
  | [] => None
  | [x] => Some x
  | _ :: s' => last_opt s'
  end.

(** push_new_line *)
Definition new_line (g : gen) : gen := {| out := out g ++ [10]; col := 0; lastlen := lastlen g |}.
(** push_space *)
Definition space (g : gen) : gen := {| out := out g ++ [32]; col := col g + 1; lastlen := lastlen g |}.
(** raw_push_str / raw_push_char *)
Definition raw_push (g : gen) (s : bytes) : gen :=
  {| out := out g ++ s; col := col g + blen s; lastlen := List.length s |}.
(** fits_on_current_line *)
Definition fits (span : N) (g : gen) (n : N) : bool := col g + n <=? span.
(** get_last_push_str *)
Definition last_push (g : gen) : bytes := skipn (List.length (out g) - lastlen g) (out g).
Definition before_last_push (g : gen) : bytes := firstn (List.length (out g) - lastlen g) (out g).

Definition pred_holds (T : tables) (p : pred) (lp : bytes) : bool :=
  match lp with
  | [] => false
  | f :: _ => match last_opt lp with Some l => br T p f l | None => false end
  end.

(** needs_space *)
Definition needs_space (T : tables) (g : gen) (c : N) : bool :=
  match last_opt (out g) with
  | Some p => sp T p c
  | None => false
  end.

(** push_space_if_needed(next_character, pushed_length) *)
Definition push_space_if_needed (T : tables) (span : N) (g : gen) (c : N) (n : N) : gen :=
  if span <=? col g then new_line g
  else
    let total := col g + n in
    if needs_space T g c then
      (if span <? total + 1 then new_line g else space g)
    else if span <? total then new_line g else g.

(** push_new_line_if_needed(pushed_length) *)
Definition push_new_line_if_needed (span : N) (g : gen) (n : N) : gen :=
  if span <=? col g then new_line g
  else if span <? col g + n then new_line g else g.

(** push_str (push_char is the same with a one-byte text) *)
Definition push_str (T : tables) (span : N) (g : gen) (s : bytes) : gen :=
  match s with
  | [] => g
  | c :: _ => raw_push (push_space_if_needed T span g c (blen s)) s
  end.

(** push_str_and_break_if / push_char_and_break_if *)
Definition push_break (T : tables) (span : N) (g : gen) (p : pred) (s : bytes) : gen :=
  let n := blen s in
  let g1 :=
    if pred_holds T p (last_push g) then
      (if fits span g (1 + n) then space g else new_line g)
    else if negb (fits span g n) then new_line g else g in
  raw_push g1 s.

Fixpoint strip_spaces_r (r : bytes) : bytes :=   (* on the reversed text *)
  match r with
  | c :: r' => if c =? 32 then strip_spaces_r r' else r
  | [] => []
  end.
Definition strip_trailing_spaces (s : bytes) : bytes := rev (strip_spaces_r (rev s)).

(** merge_char *)
Definition merge_char (span : N) (g : gen) (s : bytes) : gen :=
  if fits span g 1 then raw_push g s
  else
    let lp := last_push g in
    let body := strip_trailing_spaces (before_last_push g) in
    {| out := body ++ [10] ++ lp ++ s;
       lastlen := S (lastlen g);
       col := N.of_nat (S (lastlen g)) |}.

Definition push (T : tables) (span : N) (g : gen) (it : item) : gen :=
  match imode it with
  | MStr => push_str T span g (itext it)
  | MBreak p => push_break T span g p (itext it)
  | MRaw => raw_push g (itext it)
  | MNlRaw n => raw_push (push_new_line_if_needed span g n) (itext it)
  | MMerge => merge_char span g (itext it)
  | MSpace => space g
  end.

Definition emit_gen (T : tables) (span : N) (items : list item) : gen :=
  fold_left (push T span) items gen0.

Definition emit (T : tables) (span : N) (items : list item) : bytes := out (emit_gen T span items).

(** * tables as bit rows (the shape of the dump): row = first index (< 128), bit = second *)
Definition lookup (rows : list N) (a b : N) : bool :=
  if (a <? 128) && (b <? 128) then N.testbit (nth (N.to_nat a) rows 0) b else false.

Definition mk_tables (sp_rows concat varargs minus equal longstring : list N) : tables :=
  {| sp := lookup sp_rows;
     br := fun p => match p with
                    | BConcat => lookup concat
                    | BVarargs => lookup varargs
                    | BMinus => lookup minus
                    | BEqual => lookup equal
                    | BLongString => lookup longstring
                    end |}.

(** * the intended token sequence

    [canon items]: the pushed texts with a new line at every place where dense.rs lets the
    automaton put a separator (before every push that is not raw / merged); raw pushes are
    glued, as dense.rs glues them.  The token sequence of [canon items] is what the
    generator means to write, independently of the tables and of the column span. *)
Definition canon_item (it : item) : bytes :=
  match imode it with
  | MStr | MBreak _ => 10 :: itext it
  | MRaw | MNlRaw _ | MMerge => itext it
  | MSpace => [32]
  end.
Definition canon (items : list item) : bytes := flat_map canon_item items.
