(** Model of a batch run of darklua ([darklua_core::process]: [WorkerTree::collect_work]
    followed by one [WorkerTree::process] on a fresh tree), for property C11.

    - [collect] is [src/frontend/worker_tree.rs: collect_work] with its input/output shape
      cases over the memory file system of [Model/WorkerFs.v] ([Resources::collect_work],
      [is_file], [is_directory] of [src/frontend/resources.rs]);
    - [run_batch] is the work loop of [WorkerTree::process] on items that are all
      [NotStarted]: each item is read, transformed and written once, an error is kept in the
      item's status and the loop goes on, unless fail-fast is set ([break 'work_loop]).
      The order of the items is the order [toposort] gives for a graph without edges, which
      follows the enumeration order of the files; it is a parameter here.
    - the per-file pipeline of [Worker::advance_work] is the section variable [xform].
    Definitions only. *)
From DL Require Import Lib.Bytes Model.WorkerFs.
Open Scope N_scope.

(** [Path::file_name]: the last component, unless the path is empty or ends with [..] *)
Definition file_name (p : path) : option string :=
  match rev p with
  | [] => None
  | n :: _ => if String.eqb n ".." then None else Some n
  end.

(** [Path::extension] of a path *)
Definition path_extension (p : path) : option string :=
  match rev p with
  | [] => None
  | n :: _ => extension n
  end.

Definition is_some {A} (o : option A) : bool := match o with Some _ => true | None => false end.

(** a work item: (source, output) *)
Definition bitem := (path * path)%type.

(** [add_source_if_missing]: one item per source *)
Fixpoint has_src (s : path) (l : list bitem) : bool :=
  match l with
  | [] => false
  | it :: l' => path_eqb (fst it) s || has_src s l'
  end.

Fixpoint add_missing (acc : list bitem) (l : list bitem) : list bitem :=
  match l with
  | [] => acc
  | it :: l' => add_missing (if has_src (fst it) acc then acc else (acc ++ [it])%list) l'
  end.

(** single-file input with an output location: is the output the file to write, or a
    directory that receives a file named like the input?  ([collect_work], first arm.)
    A function of three facts about the output path only: it exists as a directory, it exists
    as a file, its last component has an extension (ANY extension, [Path::extension]). *)
Inductive output_kind := AsFile | InsideDirectory.

Definition output_decision (is_dir is_file has_extension : bool) : output_kind :=
  if is_dir then InsideDirectory
  else if is_file || has_extension then AsFile
  else InsideDirectory.

(** [collect_work]; [None] = the error "unable to extract file name from ..." *)
Definition collect (f : fs) (input : path) (output : option path) : option (list bitem) :=
  match output with
  | Some out =>
    if fs_is_file f input then
      match output_decision (fs_is_dir f out) (fs_is_file f out) (is_some (path_extension out)) with
      | AsFile => Some [(input, out)]
      | InsideDirectory => option_map (fun n => [(input, out ++ [n])%list]) (file_name input)
      end
    else Some (add_missing [] (map (fun s => (s, rebase input out s)) (fs_collect f input)))
  | None => Some (add_missing [] (map (fun s => (s, s)) (fs_collect f input)))
  end.

Section Batch.
  Variable cfg : Type.
  Variable xform : cfg -> path -> content -> fs -> option content * list path.

  (** the result of an item on a given file system: the generated code, or failure (source
      unreadable, parse error, rule error) *)
  Definition outcome (c : cfg) (f : fs) (it : bitem) : option content :=
    match fs_get f (fst it) with
    | Some txt => fst (xform c (fst it) txt f)
    | None => None
    end.

  (** [Worker::advance_work] + the status the loop records; nothing is written on failure *)
  Definition process_item (c : cfg) (f : fs) (it : bitem) : fs * bool :=
    match outcome c f it with
    | Some o => (fs_write f (snd it) o, true)
    | None => (f, false)
    end.

  (** the work loop; the second component lists the items that were attempted with their
      status (what [collect_errors] / [success_count] see) *)
  Fixpoint run_batch (fail_fast : bool) (c : cfg) (items : list bitem) (f : fs)
    : fs * list (path * bool) :=
    match items with
    | [] => (f, [])
    | it :: rest =>
      let '(f1, ok) := process_item c f it in
      if fail_fast && negb ok then (f1, [(fst it, ok)])
      else let '(f2, st) := run_batch fail_fast c rest f1 in (f2, (fst it, ok) :: st)
    end.

  (** * Specification: what the files are after the run, item by item, from the ORIGINAL
      file system [f] *)
  Fixpoint spec_get (c : cfg) (f : fs) (items : list bitem) (g : fs) (p : path) : option content :=
    match items with
    | [] => fs_get g p
    | it :: rest =>
      if path_eqb (snd it) p then
        match outcome c f it with
        | Some o => Some o
        | None => spec_get c f rest g p
        end
      else spec_get c f rest g p
    end.

  (** the items that stop a fail-fast run: everything up to and including the first failure *)
  Fixpoint until_failure (c : cfg) (f : fs) (items : list bitem) : list bitem :=
    match items with
    | [] => []
    | it :: rest =>
      match outcome c f it with
      | Some _ => it :: until_failure c f rest
      | None => [it]
      end
    end.
End Batch.

(** * A transformation with hidden state

    The real pipeline keeps state outside the file system (thread-local caches such as the
    resolved [.luaurc] files).  [sxform] threads such a state [st] from item to item and from
    run to run; [run_batch_st] is [run_batch] over it.  The theorems of C11 are about the pure
    [xform]: they apply to the code exactly when the state does not influence the result
    ([stateless] in [Proof/BatchFacts.v]) - the result of a file is a function of the file and
    the file system only, independent of the processing order and of earlier runs. *)
Section Stateful.
  Variable cfg : Type.
  Variable st : Type.
  Variable sxform : st -> cfg -> path -> content -> fs -> (option content * list path) * st.

  Definition process_item_st (c : cfg) (f : fs) (s : st) (it : bitem) : fs * bool * st :=
    match fs_get f (fst it) with
    | Some txt =>
      let '(r, s') := sxform s c (fst it) txt f in
      match fst r with
      | Some o => (fs_write f (snd it) o, true, s')
      | None => (f, false, s')
      end
    | None => (f, false, s)
    end.

  Fixpoint run_batch_st (fail_fast : bool) (c : cfg) (items : list bitem) (f : fs) (s : st)
    : fs * list (path * bool) * st :=
    match items with
    | [] => (f, [], s)
    | it :: rest =>
      let '(f1, ok, s1) := process_item_st c f s it in
      if fail_fast && negb ok then (f1, [(fst it, ok)], s1)
      else let '(f2, sts, s2) := run_batch_st fail_fast c rest f1 s1 in (f2, (fst it, ok) :: sts, s2)
    end.
End Stateful.
