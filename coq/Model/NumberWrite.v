(** Model of darklua's number writer ([src/generator/utils.rs]: [write_number]) for the arms whose
    text is produced by integer formatting or is fixed: hexadecimal and binary numbers (Rust's
    [{:x}] / [{:b}] of a [u64], [{}] of the [u32] exponent), the three parenthesised spellings of the
    non-finite values, and decimal nodes holding an integer value below 2^53 in magnitude with no
    recorded exponent (Rust's [{}] of an integer-valued [f64] prints every digit, no exponent).
    The remaining decimal arms (fractions, recorded exponents) depend on Rust's shortest-round-trip
    float printer and are validated per run by reading the real output back (vlib/c13.py).
    Executable model only; the round-trip theorems are in [Proof/NumberWrite.v]. *)
From Coq Require Import ZArith NArith List Bool.
From Coq Require Import Floats.SpecFloat.
From DL Require Import Lib.Bytes Lib.F64 Lua.Syntax Model.NumberLit.
Import ListNotations.
Open Scope N_scope.

(** digit of [core::fmt] for radix up to 16, lower case *)
Definition digit_char (d : N) : N := if d <? 10 then 48 + d else 87 + d.

(** most significant digit last; [fuel] bounds the number of digits *)
Fixpoint digits_rev (radix : N) (fuel : nat) (v : N) : bytes :=
  match fuel with
  | O => []
  | S f => if v <? radix then [digit_char v]
           else digit_char (v mod radix) :: digits_rev radix f (v / radix)
  end.

(** [format!("{:x}", v)], [{:b}], [{}] for an unsigned integer: [N.size_nat v] (the bit length) is
    enough fuel for every radix >= 2; one digit for zero *)
Definition fmt_radix (radix : N) (v : N) : bytes := rev (digits_rev radix (S (N.size_nat v)) v).

Definition write_hex (v : N) (x_upper : bool) (exponent : option (N * bool)) : bytes :=
  48 :: (if x_upper then 88 else 120) :: fmt_radix 16 v ++
  match exponent with
  | Some (e, upper) => (if upper then 80 else 112) :: fmt_radix 10 e
  | None => []
  end.

Definition write_bin (v : N) (b_upper : bool) : bytes :=
  48 :: (if b_upper then 66 else 98) :: fmt_radix 2 v.

(** [write_number] on a decimal node whose value is the integer [z] (sign separately, so that the
    negative zero is expressible) and that records no exponent: [format!("{}", float)] *)
Definition write_dec_int (neg : bool) (m : N) : bytes :=
  (if neg then [45] else []) ++ fmt_radix 10 m.

Definition write_nan : bytes := of_string "(0/0)".
Definition write_inf (neg : bool) : bytes := if neg then of_string "(-1/0)" else of_string "(1/0)".

(** the arms of [write_number] covered by this model; [None] = not modelled (validated per run) *)
Definition write_number_model (n : number) : option bytes :=
  match n with
  | NHex v u e => Some (write_hex v u e)
  | NBin v u => Some (write_bin v u)
  | NDec bits ex =>
    (* the non-finite spellings are chosen before the recorded exponent is looked at *)
    match of_bits bits, ex with
    | S754_nan, _ => Some write_nan
    | S754_infinity s, _ => Some (write_inf s)
    | _, Some _ => None
    | S754_zero s, None => Some (write_dec_int s 0)
    | S754_finite s m e, None =>
      (* an integer below 2^53: the mantissa shifted left (e >= 0) or exactly divisible (e < 0) *)
      let mz := Z.pos m in
      if (0 <=? e)%Z then
        let v := (mz * 2 ^ e)%Z in
        if (v <? 9007199254740992)%Z then Some (write_dec_int s (Z.to_N v)) else None
      else
        let d := (2 ^ (- e))%Z in
        if (mz mod d =? 0)%Z then Some (write_dec_int s (Z.to_N (mz / d))) else None
    end
  end.
