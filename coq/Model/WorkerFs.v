(** Paths and the in-memory file system shared by the worker model (C10) and the
    batch model (C11).

    - a path is its list of components ([std::path::Path] after
      [utils::normalize_path]); [starts_with] is [Path::starts_with] (component-wise);
    - [fs] is [src/frontend/resources.rs]: [Source::Memory], a finite map path -> content,
      with [exists]/[is_file]/[is_directory]/[get]/[write]/[remove]/[walk] transcribed
      from the [Source::Memory] arms;
    - [is_lua_name] is the extension test of [Resources::collect_work]
      ([Path::extension] is ["lua"] or ["luau"]). *)
From DL Require Import Lib.Bytes.
Open Scope N_scope.

Definition path := list string.
Definition content := bytes.

Fixpoint path_eqb (a b : path) : bool :=
  match a, b with
  | [], [] => true
  | x :: a', y :: b' => String.eqb x y && path_eqb a' b'
  | _, _ => false
  end.

(** [Path::starts_with]: [pre] is a component-wise prefix of [p] *)
Fixpoint starts_with (pre p : path) : bool :=
  match pre, p with
  | [], _ => true
  | a :: pre', b :: p' => String.eqb a b && starts_with pre' p'
  | _ :: _, [] => false
  end.

Fixpoint mem_path (p : path) (l : list path) : bool :=
  match l with
  | [] => false
  | q :: l' => path_eqb p q || mem_path p l'
  end.

(** * [Path::extension]

    The extension of a file name: the part after the last dot, unless the name has no dot,
    or its only dot is the first character, or the name is [..]. *)

Definition dot : ascii := "."%char.

(** characters after the last dot of [s], if there is a dot; [seen] accumulates *)
Fixpoint after_last_dot (s : string) (acc : option string) : option string :=
  match s with
  | EmptyString => acc
  | String c s' =>
    if Ascii.eqb c dot then after_last_dot s' (Some s')
    else after_last_dot s' acc
  end.

Definition extension (name : string) : option string :=
  if String.eqb name ".." then None
  else match name with
  | EmptyString => None
  | String c rest =>
    (* a leading dot does not start an extension: look for a dot in the rest *)
    after_last_dot rest None
  end.

Definition is_lua_name (name : string) : bool :=
  match extension name with
  | Some e => String.eqb e "lua" || String.eqb e "luau"
  | None => false
  end.

Definition is_lua_path (p : path) : bool :=
  match rev p with
  | name :: _ => is_lua_name name
  | [] => false
  end.

(** * The memory file system *)

Definition fs := list (path * content).

Fixpoint fs_get (f : fs) (p : path) : option content :=
  match f with
  | [] => None
  | (q, c) :: f' => if path_eqb q p then Some c else fs_get f' p
  end.

Definition fs_del (f : fs) (p : path) : fs :=
  filter (fun e => negb (path_eqb (fst e) p)) f.

(** [HashMap::insert] *)
Definition fs_write (f : fs) (p : path) (c : content) : fs := (p, c) :: fs_del f p.

Definition fs_is_file (f : fs) (p : path) : bool :=
  match fs_get f p with Some _ => true | None => false end.

(** [Source::is_directory], memory arm: some other key lies under the location *)
Definition fs_is_dir (f : fs) (p : path) : bool :=
  existsb (fun e => negb (path_eqb (fst e) p) && starts_with p (fst e)) f.

Definition fs_del_under (f : fs) (p : path) : fs :=
  filter (fun e => negb (starts_with p (fst e))) f.

(** [Source::remove], memory arm *)
Definition fs_remove (f : fs) (p : path) : fs :=
  if fs_is_file f p then fs_del f p
  else if fs_is_dir f p then fs_del_under f p
  else f.

(** [Source::walk], memory arm (the order is the hash map's: unspecified) *)
Definition fs_walk (f : fs) (loc : path) : list path :=
  filter (starts_with loc) (map fst f).

(** [Resources::collect_work] *)
Definition fs_collect (f : fs) (loc : path) : list path :=
  filter is_lua_path (fs_walk f loc).

(** [Path::strip_prefix] then [Path::join]: mirror a path from [from] to [to] *)
Definition rebase (from to p : path) : path := (to ++ skipn (List.length from) p)%list.
