(** C20 — the concrete instance of Model/Filters.v that is compared with the real code.

    Patterns and files are numbers (indices in the harness's pattern pool / file tree); glob matching
    is a table dumped from darklua's glob engine (hook `filter_pattern_matches`) on every run; a
    syntax tree is abstracted to the stack of rule marks put on top of the file, which is exactly
    what the probe rules of the harness (`append_text_comment` with distinct texts, location start)
    make visible in the output: rule number i pushes mark i. *)
From Coq Require Import List Bool NArith.
From DL Require Import Model.Filters.
Import ListNotations.
Open Scope N_scope.

Definition match_table := list (N * N).     (* (pattern, file) pairs that match *)

Definition table_matches (tbl : match_table) (p f : N) : bool :=
  existsb (fun pf => N.eqb (fst pf) p && N.eqb (snd pf) f) tbl.

(** rule number [i]: filter + "push mark i" *)
Definition mark_rule (flt : filter N) (i : N) : rule N N (list N) :=
  Rule flt (fun _ b => Some (i :: b)).

(** configuration: top-level filter and the filters of the rules 1..n in order *)
Definition trace_config (top : filter N) (flts : list (filter N)) : config N N (list N) :=
  Config top (map (fun fi => mark_rule (fst fi) (snd fi))
                  (combine flts (map N.of_nat (seq 1 (length flts))))).

(** outcome of file [f]: None = not written, Some marks = written with these marks, top first *)
Definition trace_file (tbl : match_table) (top : filter N) (flts : list (filter N)) (f : N) : option (list N) :=
  match process_file (table_matches tbl) (fun _ : list N => Some []) (fun _ b => Some b) (fun b _ => b)
                     (trace_config top flts) f [] with
  | Written marks => Some marks
  | _ => None
  end.
