(** Model of the path operations darklua's require resolution is built from:
    Rust [std::path] on unix (components, push/join, parent/pop, file_name, file_stem,
    extension, set_extension, with_file_name, starts_with), [pathdiff::diff_paths] 0.2.3,
    and darklua's [src/utils/mod.rs: normalize], [src/rules/require/path_utils.rs] and
    [src/rules/require/path_iterator.rs].

    A path is the list of its components ([std::path::Path] equality, hashing and every
    accessor used by darklua are functions of the component list). The tie to the code is
    the correspondence check of property C15 (harness [dl-c15]). No proofs in this file. *)
From DL Require Import Lib.Bytes.
Open Scope N_scope.

Inductive comp : Type :=
| Root            (* Component::RootDir  "/"  *)
| Cur             (* Component::CurDir   "."  (only ever first) *)
| Par             (* Component::ParentDir ".." *)
| Norm (n : bytes).  (* Component::Normal *)

Definition path := list comp.

Definition comp_eqb (a b : comp) : bool :=
  match a, b with
  | Root, Root | Cur, Cur | Par, Par => true
  | Norm x, Norm y => bytes_eqb x y
  | _, _ => false
  end.

Fixpoint path_eqb (a b : path) : bool :=
  match a, b with
  | [], [] => true
  | x :: a', y :: b' => comp_eqb x y && path_eqb a' b'
  | _, _ => false
  end.

(** ** strings <-> components *)

Definition slash : N := 47.
Definition dot : N := 46.

(** split on '/': always at least one segment *)
Fixpoint split_slash_acc (s : bytes) (cur : bytes) : list bytes :=
  match s with
  | [] => [rev cur]
  | c :: s' => if c =? slash then rev cur :: split_slash_acc s' [] else split_slash_acc s' (c :: cur)
  end.
Definition split_slash (s : bytes) : list bytes := split_slash_acc s [].

Definition is_dot (n : bytes) : bool := bytes_eqb n [dot].
Definition is_dotdot (n : bytes) : bool := bytes_eqb n [dot; dot].

(** interior segments: empty and "." segments vanish *)
Fixpoint seg_comps (segs : list bytes) : path :=
  match segs with
  | [] => []
  | n :: r =>
    if bytes_eqb n [] || is_dot n then seg_comps r
    else if is_dotdot n then Par :: seg_comps r
    else Norm n :: seg_comps r
  end.

(** [Path::new(s).components()] *)
Definition parse_path (s : bytes) : path :=
  match s with
  | c :: _ =>
    if c =? slash then Root :: seg_comps (split_slash s)
    else match split_slash s with
         | n :: r => if is_dot n then Cur :: seg_comps r else seg_comps (n :: r)
         | [] => []
         end
  | [] => []
  end.

Definition comp_bytes (c : comp) : bytes :=
  match c with
  | Root => [slash]
  | Cur => [dot]
  | Par => [dot; dot]
  | Norm n => n
  end.

Definition ends_with_slash (s : bytes) : bool := ends_with_b s slash.

(** [path_utils.rs: write_require_path] (the try_fold over the components) *)
Definition write_step (result : bytes) (c : comp) : bytes :=
  let result := if (match result with [] => true | _ => false end) || ends_with_slash result
                then result else result ++ [slash] in
  match c with
  | Cur => result ++ [dot]
  | Par => result ++ [dot; dot]
  | Norm n => result ++ n
  | Root => match result with [] => [slash] | _ => result end
  end.
Definition write_require_path (p : path) : bytes := fold_left write_step p [].

(** ** accessors *)

Definition has_root (p : path) : bool := match p with Root :: _ => true | _ => false end.

Definition last_comp (p : path) : option comp :=
  match rev p with [] => None | c :: _ => Some c end.

(** [Path::file_name] *)
Definition file_name (p : path) : option bytes :=
  match last_comp p with Some (Norm n) => Some n | _ => None end.

(** [Path::parent]: None for the empty path and for the root *)
Definition parent (p : path) : option path :=
  match rev p with
  | [] => None
  | Root :: _ => None
  | _ :: r => Some (rev r)
  end.

(** [PathBuf::pop] *)
Definition pop (p : path) : path := match parent p with Some q => q | None => p end.

(** position of the last '.' : (before, after) *)
Fixpoint rsplit_dot_rev (r : bytes) (after : bytes) : option (bytes * bytes) :=
  match r with
  | [] => None
  | c :: r' => if c =? dot then Some (rev r', after) else rsplit_dot_rev r' (c :: after)
  end.

(** [std::path: rsplit_file_at_dot] : (before, after) *)
Definition rsplit_file_at_dot (n : bytes) : option bytes * option bytes :=
  if is_dotdot n then (Some n, None)
  else match rsplit_dot_rev (rev n) [] with
       | None => (None, Some n)
       | Some (before, after) =>
         match before with
         | [] => (Some n, None)
         | _ => (Some before, Some after)
         end
       end.

Definition name_stem (n : bytes) : option bytes :=
  let '(before, after) := rsplit_file_at_dot n in
  match before with Some b => Some b | None => after end.
Definition name_ext (n : bytes) : option bytes :=
  let '(before, after) := rsplit_file_at_dot n in
  match before with Some _ => after | None => None end.

(** [Path::file_stem], [Path::extension] *)
Definition file_stem (p : path) : option bytes :=
  match file_name p with Some n => name_stem n | None => None end.
Definition extension (p : path) : option bytes :=
  match file_name p with Some n => name_ext n | None => None end.

(** ** building *)

(** [PathBuf::push] of one component's text *)
Definition push_comp (p : path) (c : comp) : path :=
  match c with
  | Root => [Root]
  | Cur => match p with [] => [Cur] | _ => p end
  | _ => p ++ [c]
  end.

(** [PathBuf::extend(components)] / [PathBuf::from_iter] *)
Definition extend (p : path) (l : list comp) : path := fold_left push_comp l p.
Definition from_iter (l : list comp) : path := extend [] l.

(** [Path::join] / [PathBuf::push] of a whole path: an absolute argument replaces; a leading
    "." of the argument becomes an interior "." (dropped) unless the receiver is empty *)
Definition join (a b : path) : path :=
  if has_root b then b
  else match a, b with
       | _ :: _, Cur :: b' => a ++ b'
       | _, _ => a ++ b
       end.

(** [Path::with_file_name] with a separator-free name *)
Definition with_file_name (p : path) (name : bytes) : path :=
  join (match file_name p with Some _ => pop p | None => p end) [Norm name].

(** [PathBuf::set_extension]: nothing happens without a file name *)
Definition set_extension (p : path) (ext : bytes) : path :=
  match file_name p with
  | None => p
  | Some n =>
    match name_stem n with
    | None => p
    | Some stem =>
      removelast p ++ [Norm (stem ++ match ext with [] => [] | _ => dot :: ext end)]
    end
  end.

(** [Path::starts_with] *)
Fixpoint path_prefix (pre p : path) : bool :=
  match pre, p with
  | [], _ => true
  | x :: pre', y :: p' => comp_eqb x y && path_prefix pre' p'
  | _ :: _, [] => false
  end.

Definition starts_with_cur (p : path) : bool := match p with Cur :: _ => true | _ => false end.
Definition starts_with_par (p : path) : bool := match p with Par :: _ => true | _ => false end.

(** [path_utils.rs: is_require_relative] *)
Definition is_require_relative (p : path) : bool := starts_with_cur p || starts_with_par p.

(** ** [utils/mod.rs: normalize]

    [ret] is kept reversed (its head is [ret.last()]). The root "/" is an ordinary entry of
    [ret]: a ".." right after it pops it. *)
Definition normalize_step (keep : bool) (racc : list comp) (c : comp) : list comp :=
  match c with
  | Root => Root :: racc
  | Cur => if keep && (match racc with [] => true | _ => false end) then [Cur] else racc
  | Par =>
    match racc with
    | [] => [Par]
    | Cur :: r => Par :: r
    | Par :: _ => Par :: racc
    | _ :: r => r
    end
  | Norm n => Norm n :: racc
  end.

Definition normalize (keep : bool) (p : path) : path :=
  match p with
  | [] => []
  | _ =>
    let ret := rev (fold_left (normalize_step keep) p []) in
    from_iter (match ret with [] => [Cur] | _ => ret end)
  end.

Definition normalize_path := normalize false.
Definition normalize_path_with_current_dir := normalize true.

(** ** [path_utils.rs: get_relative_parent_path] *)
Definition get_relative_parent_path (p : path) : path :=
  match parent p with
  | Some [] => [Cur]
  | Some q => q
  | None => [Par]
  end.

(** ** [pathdiff::diff_paths] (both paths of the same absoluteness; the loop) *)
Fixpoint diff_loop (ita itb : list comp) (comps : list comp) : option (list comp) :=
  match ita, itb with
  | [], [] => Some comps
  | a :: ra, [] => Some (comps ++ a :: ra)
  | [], _ :: rb => diff_loop [] rb (comps ++ [Par])
  | a :: ra, b :: rb =>
    if (match comps with [] => true | _ => false end) && comp_eqb a b then diff_loop ra rb comps
    else match b with
         | Cur => diff_loop ra rb (comps ++ [a])
         | Par => None
         | _ => Some (comps ++ Par :: map (fun _ => Par) rb ++ a :: ra)
         end
  end.

Definition diff_paths (p base : path) : option path :=
  if negb (Bool.eqb (has_root p) (has_root base)) then
    if has_root p then Some p else None
  else option_map from_iter (diff_loop p base []).

(** ** [path_utils.rs: get_relative_path] *)
Definition get_relative_path (require_path source_path : path) (use_cur : bool) : option path :=
  let source_parent := get_relative_parent_path source_path in
  if has_root require_path && negb (has_root source_parent) then None
  else option_map
         (fun p =>
            normalize true
              (if use_cur && negb (starts_with_cur p) && negb (starts_with_par p) then join [Cur] p
               else if negb use_cur && starts_with_cur p then
                      match p with Cur :: r => r | _ => p end
               else p))
         (diff_paths require_path source_parent).

(** ** [path_iterator.rs: PathIterator] collected *)
Definition lua_ext : bytes := [108; 117; 97].          (* "lua" *)
Definition luau_ext : bytes := [108; 117; 97; 117].    (* "luau" *)

Definition is_lua_ext (e : option bytes) : bool :=
  match e with Some x => bytes_eqb x lua_ext || bytes_eqb x luau_ext | None => false end.

Definition folder_candidates (p : path) (mfn : bytes) : list path :=
  let m := join p (parse_path mfn) in
  m :: match extension m with
       | Some _ => []
       | None => [set_extension m luau_ext; set_extension m lua_ext]
       end.

Definition candidates (p : path) (mfn : bytes) : list path :=
  p ::
  if is_lua_ext (extension p) then []
  else match file_name p with
       | Some n =>
         with_file_name p (n ++ dot :: luau_ext) :: with_file_name p (n ++ dot :: lua_ext)
         :: folder_candidates p mfn
       | None => folder_candidates p mfn
       end.

(** ** the in-memory [Resources] ([frontend/resources.rs], [Source::Memory]):
    keys and queries go through [normalize_path] *)
Definition fs := list path.
Definition mk_fs (files : list path) : fs := map (normalize false) files.
Definition is_file (f : fs) (p : path) : bool := existsb (path_eqb (normalize false p)) f.
