(** C20 — model of darklua's file / rule filters (executable model only, no proofs).

    Transcribed from
      - /repo/src/frontend/configuration.rs : Configuration::should_apply_rule
      - /repo/src/rules/mod.rs              : RuleMetadata::should_apply   (same body)
      - /repo/src/frontend/worker.rs        : Worker::advance_work, Worker::apply_rules
      - /repo/src/utils/filter_pattern.rs   : FilterPattern::matches  (the `wax` glob engine: an oracle here)

    Everything the filters do not look at is abstract: the type of patterns, paths, source texts
    and syntax trees, the parser, the bundler, the code generator and what a rule does to a tree
    are Section variables, so every theorem holds for every glob engine and every rule. *)
From Coq Require Import List Bool.
Import ListNotations.

Section Filters.

Variables pattern path text block : Type.

(** FilterPattern::matches — glob matching; oracle.

    WHICH PATH: at both levels the decision function receives the same value, `work_item.data.source()`: the
    source path as collected by WorkerTree::collect_work, normalized, relative to the working directory
    (`project/src/a.lua` for `Options::new("project")` as well as for `Options::new("project/src")`).  It does
    not depend on where the configuration was read from (in memory, `.darklua.json` of the working directory,
    `with_configuration_at` anywhere): `Configuration::location` is only used by rules that read files.  In
    this model that is the single argument [f] of [process_file], handed unchanged to the top-level
    [should_apply] and to every rule's [should_apply]; the check runs every configuration location and
    compares both levels with the glob model applied to that collected path. *)
Variable matches : pattern -> path -> bool.

(** Parser::parse, Worker::bundle (identity when no `bundle` is configured) and
    Configuration::generate_lua (which also receives the original text). *)
Variable parse : text -> option block.
Variable bundle : path -> block -> option block.
Variable generate : block -> text -> text.

(** `apply_to_files` and `skip_files`, at the top level of a configuration (Configuration) or on a
    rule (RuleMetadata). *)
Record filter := Filter { apply_to : list pattern; skip : list pattern }.

Definition no_filter : filter := Filter [] [].

Definition is_empty {A} (l : list A) : bool := match l with [] => true | _ => false end.

(** Configuration::should_apply_rule / RuleMetadata::should_apply:
<<
      if !apply.is_empty() && apply.iter().all(|f| !f.matches(path)) { return false; }
      if !skip.is_empty()  && skip.iter().any(|f| f.matches(path))   { return false; }
      true
>> *)
Definition should_apply (flt : filter) (f : path) : bool :=
  if negb (is_empty (apply_to flt)) && forallb (fun p => negb (matches p f)) (apply_to flt) then false
  else if negb (is_empty (skip flt)) && existsb (fun p => matches p f) (skip flt) then false
  else true.

(** A rule as the worker sees it: its metadata (the filter) and `Rule::process`, which mutates the
    tree of the file at [path] or fails (None).  The rule context also contains the original text of
    the file; it is constant for one file and is folded into the [path] argument here. *)
Record rule := Rule { r_filter : filter; r_process : path -> block -> option block }.

(** The `for (index, rule) in rules` loop of Worker::apply_rules: a rule whose metadata rejects the
    file is skipped (`continue`); the first rule that fails aborts the file (`rule_result?`).
    (No built-in rule overrides `Rule::require_content`, so the re-entry machinery is not modelled;
    the index a failing rule is reported with is not modelled either.) *)
Fixpoint run_rules (rs : list rule) (f : path) (b : block) : option block :=
  match rs with
  | [] => Some b
  | r :: rs' =>
      if should_apply (r_filter r) f then
        match r_process r f b with
        | Some b' => run_rules rs' f b'
        | None => None
        end
      else run_rules rs' f b
  end.

Record config := Config { c_filter : filter; c_rules : list rule }.

(** What happens to one work item. *)
Inductive outcome :=
| Skipped                 (* status Done(Ok), nothing is written: "skip all rules" *)
| Written (t : text)      (* resources.write(output, generated code) *)
| ParseFailed
| BundleFailed
| RuleFailed.

(** Worker::advance_work (NotStarted) followed by Worker::apply_rules.  Order in the code: read and
    parse the file, bundle, and only then ask the top-level filter; a rejected file is marked done
    without being written (in place: it keeps its bytes; with a separate output: no file appears). *)
Definition process_file (c : config) (f : path) (src : text) : outcome :=
  match parse src with
  | None => ParseFailed
  | Some b0 =>
      match bundle f b0 with
      | None => BundleFailed
      | Some b1 =>
          if negb (should_apply (c_filter c) f) then Skipped
          else match run_rules (c_rules c) f b1 with
               | None => RuleFailed
               | Some b2 => Written (generate b2 src)
               end
      end
  end.

(** WorkerTree::process over the collected work: each file independently. *)
Definition process_tree (c : config) (files : list (path * text)) : list (path * outcome) :=
  map (fun ft => (fst ft, process_file c (fst ft) (snd ft))) files.

(** The same rule with another filter / without a filter. *)
Definition with_filter (flt : filter) (r : rule) : rule := Rule flt (r_process r).
Definition unfiltered (r : rule) : rule := with_filter no_filter r.

(** Specification vocabulary (not code): the file is selected by a filter. *)
Definition selected (flt : filter) (f : path) : Prop :=
  (apply_to flt = [] \/ exists p, In p (apply_to flt) /\ matches p f = true) /\
  (forall p, In p (skip flt) -> matches p f = false).

End Filters.

Arguments Filter {pattern}.
Arguments apply_to {pattern}.
Arguments skip {pattern}.
Arguments no_filter {pattern}.
Arguments should_apply {pattern path}.
Arguments selected {pattern path}.
Arguments Rule {pattern path block}.
Arguments r_filter {pattern path block}.
Arguments r_process {pattern path block}.
Arguments run_rules {pattern path block}.
Arguments Config {pattern path block}.
Arguments c_filter {pattern path block}.
Arguments c_rules {pattern path block}.
Arguments Skipped {text}.
Arguments Written {text}.
Arguments ParseFailed {text}.
Arguments BundleFailed {text}.
Arguments RuleFailed {text}.
Arguments process_file {pattern path text block}.
Arguments process_tree {pattern path text block}.
Arguments with_filter {pattern path block}.
Arguments unfiltered {pattern path block}.
