(** Models of the optional refactoring rules of darklua (property C16):

      src/rules/group_local.rs                  [should_merge], [merge_locals], [rw_group_local]
      src/rules/no_local_function.rs            [rw_local_function]
      src/rules/global_function_to_assign.rs    [rw_function_to_assign]
      src/rules/remove_method_call.rs           [rw_method_call]
      src/rules/convert_square_root_call.rs     [is_math_sqrt_call], [rw_sqrt], [rw_sqrt_stmt]
      src/process/processors/find_identifier.rs [FindVariables] under [DefaultVisitor]: [ment_*]

    The first four rules run under [DefaultVisitor] (traversal model: Model/Visit.v); the last
    one under [ScopeVisitor] with an [IdentifierTracker] (traversal model: Model/Removal.v).

    [FindVariables::process_variable_expression] is called by [visit_identifier], which the
    default visitor reaches for every identifier in expression, prefix and variable position
    and for the base name of a function statement - at any depth, inside nested functions and
    inside [typeof(...)] of type annotations; declared names (locals, parameters, loop
    variables), field and method names are not identifiers in that sense.  So "the initialiser
    mentions a variable" is purely syntactic and ignores shadowing: [ment_expr xs e].

    Left out: [const function] (not in the tree); see Model/Removal.v for the traversal. *)
From Coq Require Import ZArith NArith List Bool.
From DL Require Import Lib.Bytes Lib.F64 Lua.Syntax Model.Evaluator Model.Visit Model.Removal.
From DL Require Model.DefaultRules.
Import ListNotations.
Open Scope N_scope.

(** * [FindVariables] over [DefaultVisitor] *)

Section Mentions.
Variable xs : list name.

Definition is_target (x : name) : bool := existsb (bytes_eqb x) xs.

Definition optb {A} (f : A -> bool) (o : option A) : bool :=
  match o with Some a => f a | None => false end.

Fixpoint ment_ty (t : ty) : bool :=
  match t with
  | TyNode _ subs es => existsb ment_ty subs || existsb ment_expr es
  end

with ment_expr (e : expr) : bool :=
  match e with
  | ENil | ETrue | EFalse | ENumber _ | EString _ | EVarArgs => false
  | EIdent x => is_target x
  | EInterp segs => existsb ment_iseg segs
  | EField p _ => ment_expr p
  | EIndex p k => ment_expr p || ment_expr k
  | ECall p _ a => ment_expr p || ment_args a
  | EFunction f => ment_fbody f
  | EIf bs els => existsb ment_ebranch bs || ment_expr els
  | EParen e' => ment_expr e'
  | ETable entries => existsb ment_tentry entries
  | EUnary _ e' => ment_expr e'
  | EBinary _ l r => ment_expr l || ment_expr r
  | ETypeCast e' t => ment_expr e' || ment_ty t
  | ETypeInst p tys => ment_expr p || existsb ment_ty tys
  end

with ment_iseg (s : iseg) : bool :=
  match s with ISStr _ => false | ISExpr e => ment_expr e end

with ment_ebranch (b : ebranch) : bool :=
  match b with EBranch c r => ment_expr c || ment_expr r end

with ment_args (a : args) : bool :=
  match a with
  | ATuple es => existsb ment_expr es
  | AString _ => false
  | ATable entries => existsb ment_tentry entries
  end

with ment_tentry (t : tentry) : bool :=
  match t with
  | TField _ v => ment_expr v
  | TIndex k v => ment_expr k || ment_expr v
  | TValue v => ment_expr v
  end

with ment_fbody (f : fbody) : bool :=
  match f with
  | FBody ps _ vt rt _ _ body =>
    ment_block body || existsb ment_param ps || optb ment_ty vt || optb ment_ty rt
  end

with ment_param (p : param) : bool :=
  match p with Param _ t => optb ment_ty t end

with ment_stmt (s : stmt) : bool :=
  match s with
  | SAssign vars vals => existsb ment_expr vars || existsb ment_expr vals
  | SDo b => ment_block b
  | SCall c => ment_expr c
  | SCompound _ var v => ment_expr var || ment_expr v
  | SFunction base _ _ f => is_target base || ment_fbody f
  | SGenericFor vars es b => existsb ment_expr es || ment_block b || existsb ment_param vars
  | SIf bs els => existsb ment_sbranch bs || optb ment_block els
  | SLocal _ vars vals => existsb ment_expr vals || existsb ment_param vars
  | SLocalFunction _ f => ment_fbody f
  | SNumericFor var a b step body =>
    ment_expr a || ment_expr b || optb ment_expr step || ment_block body || ment_param var
  | SRepeat b c => ment_expr c || ment_block b
  | SWhile c b => ment_expr c || ment_block b
  | STypeDecl _ _ gen t => optb ment_ty gen || ment_ty t
  | STypeFunction _ _ f => ment_fbody f
  end

with ment_sbranch (b : sbranch) : bool :=
  match b with SBranch c body => ment_expr c || ment_block body end

with ment_block (b : block) : bool :=
  match b with Block stmts last => existsb ment_stmt stmts || optb ment_last last end

with ment_last (l : laststmt) : bool :=
  match l with
  | LBreak | LContinue => false
  | LReturn es => existsb ment_expr es
  end.

End Mentions.

(** * group_local_assignment *)

(** [GroupLocalProcessor::should_merge] *)
Definition should_merge (vars1 : list param) (vals1 : list expr) (vals2 : list expr) : bool :=
  let nvars := List.length vars1 in
  let nvals := List.length vals1 in
  if (nvals <? nvars)%nat && negb (nvals =? 0)%nat then false
  else if (nvars <? nvals)%nat then false
  else negb (existsb (ment_expr (map param_name vars1)) vals2).

(** [GroupLocalProcessor::merge]: the values of the merged statement *)
Definition merge_values (vars1 : list param) (vals1 : list expr) (vars2 : list param) (vals2 : list expr)
  : list expr :=
  let vals1' := match vals1, vals2 with
                | [], _ :: _ => repeat ENil (List.length vars1)
                | _, _ => vals1
                end in
  let vals2' := match vals2, vals1' with
                | [], _ :: _ => repeat ENil (List.length vars2)
                | _, _ => vals2
                end in
  vals1' ++ vals2'.

(** [GroupLocalProcessor::filter_statements]: [prev] is [previous_statement] *)
Fixpoint group_go (prev : stmt) (rest : list stmt) : list stmt :=
  match rest with
  | [] => [prev]
  | cur :: rest' =>
    match prev, cur with
    | SLocal k1 vars1 vals1, SLocal k2 vars2 vals2 =>
      if should_merge vars1 vals1 vals2
      then group_go (SLocal k1 (vars1 ++ vars2) (merge_values vars1 vals1 vars2 vals2)) rest'
      else prev :: group_go cur rest'
    | _, _ => prev :: group_go cur rest'
    end
  end.

Definition rw_group_local (ss : list stmt) : list stmt :=
  match ss with
  | [] => []
  | s :: rest => group_go s rest
  end.

Definition rw_group_block (b : block) : block :=
  match b with Block ss last => Block (rw_group_local ss) last end.

(** * convert_local_function_to_assign *)

Definition has_parameter (x : name) (ps : list param) : bool :=
  existsb (fun p => bytes_eqb (param_name p) x) ps.

(** [Processor::convert]: a default [FunctionExpression] that receives the variadic flag, the
    block and the parameters (with their types); return type, variadic type, generics and
    attributes are dropped *)
Definition plain_function (ps : list param) (variadic : bool) (body : block) : expr :=
  EFunction (FBody ps variadic None None None 0 body).

Definition rw_local_function (s : stmt) : stmt :=
  match s with
  | SLocalFunction x (FBody ps variadic _ _ _ _ body) =>
    if has_parameter x ps || negb (ment_block [x] body)
    then SLocal false [Param x None] [plain_function ps variadic body]
    else s
  | _ => s
  end.

(** * convert_function_to_assignment *)

Definition function_variable (base : name) (fields : list name) (method : option name) : expr :=
  fold_left (fun acc f => EField acc f)
            (fields ++ match method with Some m => [m] | None => [] end) (EIdent base).

Definition rw_function_to_assign (s : stmt) : stmt :=
  match s with
  | SFunction base fields method (FBody ps variadic _ _ _ _ body) =>
    let ps' := match method with Some _ => Param nm_self None :: ps | None => ps end in
    SAssign [function_variable base fields method] [plain_function ps' variadic body]
  | _ => s
  end.

(** * remove_method_call *)

(** the receivers [process_function_call] accepts, as the new prefix ([Prefix::from]) *)
Definition method_receiver (p : expr) : option expr :=
  match p with
  | EIdent _ => Some p
  | EParen inner =>
    match inner with
    | EIdent _ => Some inner                                    (* [(x):m()] -> [x.m(x)] *)
    | ENil | ETrue | EFalse | EString _ | ENumber _ => Some (EParen inner)
    | _ => None
    end
  | _ => None
  end.

(** [Arguments::insert(0, e)] *)
Definition args_insert0 (e : expr) (a : args) : args := ATuple (e :: args_exprs a).

Definition rw_method_call (e : expr) : expr :=
  match e with
  | ECall p (Some m) a =>
    match method_receiver p with
    | Some np => ECall (EField np m) None (args_insert0 np a)
    | None => e
    end
  | _ => e
  end.

(** * convert_square_root_call *)

Definition nm_math : name := of_string "math".
Definition nm_sqrt : name := of_string "sqrt".

Definition args_len (a : args) : nat :=
  match a with ATuple es => List.length es | _ => 1%nat end.

(** [Processor::is_math_sqrt_call] on the parts of a call *)
Definition is_math_sqrt_call (sc : list name) (p : expr) (m : option name) (a : args) : bool :=
  match m with
  | Some _ => false
  | None =>
    (args_len a =? 1)%nat &&
    match p with
    | EField (EIdent lib) f =>
      bytes_eqb f nm_sqrt && bytes_eqb lib nm_math && negb (in_scope nm_math sc)
    | _ => false
    end
  end.

Definition half : expr := DefaultRules.lit_of_f64 (of_decimal_c false 5 (-1)).

(** [process_expression] *)
Definition rw_sqrt (sc : list name) (e : expr) : expr :=
  match e with
  | ECall p m a =>
    if is_math_sqrt_call sc p m a then
      match args_exprs a with
      | x :: _ => EBinary BPow x half
      | [] => e
      end
    else e
  | _ => e
  end.

(** [process_statement] *)
Definition rw_sqrt_stmt (sc : list name) (s : stmt) : stmt :=
  match s with
  | SCall (ECall p m a) =>
    if is_math_sqrt_call sc p m a then expressions_as_statement (preserve_args a) else s
  | _ => s
  end.

(** * The rules as [block -> block] *)

Definition dv_run (H : hooks) (b : block) : block := visit_block H (2 * w_block b + 8) 0 b.

Definition hooks_group_local : hooks :=
  mkHooks (fun e => e) (fun e => e) (fun k s => (s, k)) rw_group_block.
Definition hooks_local_function : hooks :=
  mkHooks (fun e => e) (fun e => e) (fun k s => (rw_local_function s, k)) (fun b => b).
Definition hooks_function_to_assign : hooks :=
  mkHooks (fun e => e) (fun e => e) (fun k s => (rw_function_to_assign s, k)) (fun b => b).
(** [process_expression] on a call in expression position, [process_function_call] from
    [visit_function_call] on calls in prefix position and on call statements *)
Definition hooks_method_call : hooks :=
  mkHooks rw_method_call rw_method_call
          (fun k s => (match s with SCall c => SCall (rw_method_call c) | _ => s end, k))
          (fun b => b).

Definition rule_group_local_assignment : block -> block := dv_run hooks_group_local.
Definition rule_convert_local_function_to_assign : block -> block := dv_run hooks_local_function.
Definition rule_convert_function_to_assignment : block -> block := dv_run hooks_function_to_assign.
Definition rule_remove_method_call : block -> block := dv_run hooks_method_call.

Definition sqrt_hooks : shooks :=
  mkSHooks (fun sc st e => (rw_sqrt sc e, st)) (fun _ e => e) rw_sqrt_stmt.
Definition rule_convert_square_root_call (b : block) : block := fst (sv_run sqrt_hooks 0 b).
