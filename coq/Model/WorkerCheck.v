(** Executable glue for the C10 correspondence check: the worker model instantiated with a
    table of real transformation results, and the comparison of its state with the state
    dumped from the real [WorkerTree] after every event.  Definitions only. *)
From DL Require Import Lib.Bytes Model.WorkerFs Model.Worker.
Open Scope N_scope.

Definition cinp : path := ["src"%string].
Definition coutp : path := ["out"%string].

(** one table entry = one fresh run: configuration id, the user's files (everything outside
    the output folder), and for every source the result and the registered dependencies *)
Definition xentry := (N * list (path * content) * list (path * (option content * list path)))%type.

Definition ufs_matches (f : fs) (u : list (path * content)) : bool :=
  forallb (fun pc => match fs_get f (fst pc) with
                     | Some c => bytes_eqb c (snd pc)
                     | None => false
                     end) u
  && forallb (fun pc => starts_with coutp (fst pc) || mem_path (fst pc) (map fst u)) f.

Fixpoint assoc_path {A} (l : list (path * A)) (p : path) : option A :=
  match l with
  | [] => None
  | (q, a) :: l' => if path_eqb q p then Some a else assoc_path l' p
  end.

Definition table_miss : option content * list path := (None, [["<table-miss>"%string]]).

Fixpoint xlookup (tbl : list xentry) (k : N) (q : path) (f : fs) : option content * list path :=
  match tbl with
  | [] => table_miss
  | (k', u, rs) :: tbl' =>
    if (k' =? k) && ufs_matches f u then
      match assoc_path rs q with
      | Some r => r
      | None => table_miss
      end
    else xlookup tbl' k q f
  end.

Definition xform_of (tbl : list xentry) (k : N) (q : path) (txt : content) (f : fs) :=
  xlookup tbl k q f.

Fixpoint hash_of (hs : list (N * N)) (k : N) : N :=
  match hs with
  | [] => 0
  | (k', h) :: hs' => if k' =? k then h else hash_of hs' k
  end.

(** what the harness observed after a group of events *)
Inductive obs :=
| ObsPanic
| ObsState (items : list (path * path * N * list path))
           (ex : list (path * list (option path)))
           (rm : list path)
           (out : list (path * content)).

Definition status_code (s : status) : N :=
  match s with NotStarted => 0 | DoneOk => 1 | DoneErr => 2 end.

Definition subset {A} (eqb : A -> A -> bool) (a b : list A) : bool :=
  forallb (fun x => existsb (eqb x) b) a.
Definition same_set {A} (eqb : A -> A -> bool) (a b : list A) : bool :=
  subset eqb a b && subset eqb b a.

Definition opt_path_eqb (a b : option path) : bool :=
  match a, b with
  | Some x, Some y => path_eqb x y
  | None, None => true
  | _, _ => false
  end.

Definition item_obs_eqb (a b : path * path * N * list path) : bool :=
  let '(s1, o1, c1, d1) := a in
  let '(s2, o2, c2, d2) := b in
  path_eqb s1 s2 && path_eqb o1 o2 && (c1 =? c2) && same_set path_eqb d1 d2.

Definition ext_obs_eqb (a b : path * list (option path)) : bool :=
  path_eqb (fst a) (fst b) && same_set opt_path_eqb (snd a) (snd b).

Definition file_eqb (a b : path * content) : bool :=
  path_eqb (fst a) (fst b) && bytes_eqb (snd a) (snd b).

Definition model_items (t : wtree) : list (path * path * N * list path) :=
  map (fun it => (i_src it, i_out it, status_code (i_st it), i_deps it)) (all_items t).

Definition model_ext (t : wtree) : list (path * list (option path)) :=
  map (fun e => (fst e, map (fun i => option_map i_src (get_slot (slots t) i)) (snd e))) (ext t).

Definition model_out (f : fs) : list (path * content) :=
  filter (fun e => starts_with coutp (fst e)) f.

Definition nat_str (n : nat) : string := to_string (dec_digits (N.of_nat n)).

Definition flag (name : string) (b : bool) : string :=
  (name ++ (if b then "=ok " else "=BAD "))%string.

Section Run.
  Variable hs : list (N * N).
  Variable tbl : list xentry.

  Definition cstep := step N (hash_of hs) (xform_of tbl) cinp coutp.
  Definition crun := run N (hash_of hs) (xform_of tbl) cinp coutp.

  Definition compare (w : world N) (o : obs) : string :=
    match o with
    | ObsPanic => "model did not panic"
    | ObsState items ex rm out =>
      let a := same_set item_obs_eqb (model_items (w_tree w)) items in
      let b := same_set ext_obs_eqb (model_ext (w_tree w)) ex in
      let c := same_set path_eqb (rmf (w_tree w)) rm in
      let d := same_set file_eqb (model_out (w_fs w)) out in
      if a && b && c && d then ""
      else (flag "items" a ++ flag "ext" b ++ flag "remove_files" c ++ flag "out" d)%string
    end.

  (** first group after which the model and the observation disagree *)
  Fixpoint check_groups (w : world N) (gs : list (list (event N) * obs)) (i : nat) : string :=
    match gs with
    | [] => ""
    | (g, o) :: gs' =>
      match crun w g with
      | Running w' =>
        match compare w' o with
        | EmptyString => check_groups w' gs' (S i)
        | s => ("group " ++ nat_str i ++ ": " ++ s)%string
        end
      | Panicked =>
        match o with
        | ObsPanic => ""
        | _ => ("group " ++ nat_str i ++ ": model panics, code does not")%string
        end
      | OutOfFuel => ("group " ++ nat_str i ++ ": model out of fuel")%string
      end
    end.

  (** the hypotheses of [C10_incremental_eq_fresh] evaluated on a history (a prefix ending in
      a [Process]): R reported, P paths_ok, D dirs_ok, H always_healthy; upper case = holds *)
  Definition scope_flags (w0 : world N) (h : list (event N)) : string :=
    let f0 := w_fs w0 in
    let r := reported N cinp f0 h in
    let p := paths_ok N cinp coutp f0 h in
    let d := dirs_ok N (hash_of hs) (xform_of tbl) cinp coutp w0 h in
    let hl := always_healthy N (xform_of tbl) cinp f0 (w_cfg w0) h in
    ((if r then "R" else "r") ++ (if p then "P" else "p") ++ (if d then "D" else "d")
     ++ (if hl then "H" else "h"))%string.

  (** the same flags for every prefix that ends with a [Process], in one pass over the
      history ([p] is [paths_ok] of the whole history, which implies it for every prefix) *)
  Fixpoint scopes_from (w : option (world N)) (u : fs) (c : N) (d : dirty) (p rk dk hk : bool)
           (h : list (event N)) : string :=
    match h with
    | [] => ""
    | e :: h' =>
      let rk' := rk && call_ok N cinp u e && (match e with Process => is_clean d | _ => true end) in
      let dk' := dk && match w with Some w0 => dir_event_ok N (w_tree w0) e | None => true end in
      let hk' := hk && match e with Process => healthy N (xform_of tbl) cinp c u | _ => true end in
      let w' := match w with
                | Some w0 => match cstep w0 e with Running w1 => Some w1 | _ => None end
                | None => None
                end in
      let c' := match e with SetCfg c1 => c1 | _ => c end in
      ((match e with
        | Process => ((if rk' then "R" else "r") ++ (if p then "P" else "p") ++ (if dk' then "D" else "d")
                      ++ (if hk' then "H" else "h") ++ " ")%string
        | _ => ""
        end)
       ++ scopes_from w' (user_step N u e) c' (track N cinp u d e) p rk' dk' hk' h')%string
    end.

  Definition scopes (w0 : world N) (h : list (event N)) : string :=
    scopes_from (Some w0) (w_fs w0) (w_cfg w0) (mkDirty [] (fs_collect (w_fs w0) cinp) [])
                (paths_ok N cinp coutp (w_fs w0) h) true true true h.
End Run.

Definition c10_case := (list (N * N) * list xentry * fs * list (list (event N) * obs))%type.

Definition c10_world0 (f0 : fs) : world N := mkWorld f0 0 empty_tree.

Definition c10_model (c : c10_case) : string :=
  let '(hs, tbl, f0, gs) := c in check_groups hs tbl (c10_world0 f0) gs 0%nat.

(** the flags at every [Process], then [=] and the flags of the whole history *)
Definition c10_scopes (c : c10_case) : string :=
  let '(hs, tbl, f0, gs) := c in
  (scopes hs tbl (c10_world0 f0) (flat_map fst gs) ++ "="
   ++ scope_flags hs tbl (c10_world0 f0) (flat_map fst gs))%string.

(** * The pruning of [clean_files] on a real directory

    One [process]: the queued removals are cleaned with [clean_one] (snapshot given), then the
    files written by the pass create their ancestors.  Compared with the directories seen on
    disk afterwards. *)
Record prune_case := mkPrune {
  pr_snapshot : list path;
  pr_files : list path;      (* files below the output folder before the process *)
  pr_dirs : list path;       (* directories below (and including) the output folder before *)
  pr_removed : list path;    (* remove_files *)
  pr_written : list path;    (* files that exist afterwards and did not before *)
  pr_dirs_after : list path
}.

Definition prune_model (k : prune_case) : list path :=
  let '(files1, dirs1) :=
    fold_left (fun st p => clean_one (pr_snapshot k) (fst st) (snd st) p) (pr_removed k)
              (pr_files k, pr_dirs k) in
  (dirs1 ++ flat_map ancestors (pr_written k))%list.

Definition prune_check (k : prune_case) : bool :=
  same_set path_eqb (prune_model k) (pr_dirs_after k).
