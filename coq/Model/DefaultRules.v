(** Models of the node-level rewrites of darklua's default rules (property C01) and of the
    traversal that applies them ([DefaultVisitor]: the processor sees a node first, then the
    children of the node it left behind are visited).

      compute_expression            src/rules/compute_expression.rs       [rw_compute]
      remove_unused_if_branch       src/rules/unused_if_branch.rs         [rw_if_block], [rw_if_expr]
      remove_unused_while           src/rules/unused_while.rs             [rw_while]
      filter_after_early_return     src/rules/filter_early_return.rs      [rw_early_return]
      remove_empty_do               src/rules/empty_do.rs                 [rw_empty_do] + [empty_do_loop]
      remove_nil_declaration        src/rules/remove_nil_declarations.rs  [rw_nil_declaration]
      convert_index_to_field        src/rules/convert_index_to_field.rs   [rw_index_to_field], [rw_index_entries]
      remove_method_definition      src/rules/method_def.rs               [rw_method_def]
      remove_function_call_parens   src/rules/call_parens.rs              [rw_call_parens]

    Every rule builds its [Evaluator] with [Evaluator::default()], i.e. [pure_metamethods = false]:
    [hse] below.  The code is modelled as it is, including the recorded defect that
    [true and f()] becomes [f()] (no parentheses) in [rw_compute].

    Left out of the model (stated in the correspondence check): the [exponent] spelling hint
    that [impl From<f64> for Expression] attaches to a generated decimal literal (it needs
    libm's [log10]/[powf]; the VALUE of the literal, its bit pattern, is modelled exactly, and
    the reference semantics ignores the hint).  No proofs in this file. *)
From Coq Require Import ZArith NArith List Bool.
From Coq Require Import Floats.SpecFloat.
From DL Require Import Lib.Bytes Lib.F64 Lua.Syntax Model.Evaluator.
From DL Require Model.Serializer.
Import ListNotations.
Open Scope N_scope.

Definition hse : expr -> bool := has_side_effects false.

Definition empty_block : block := Block [] None.

(** nodes/block.rs [Block::is_empty] *)
Definition block_is_empty (b : block) : bool :=
  match b with Block [] None => true | _ => false end.

(** * compute_expression *)

Definition dec (x : f64) : expr := ENumber (NDec (to_bits x) None).

(** nodes/expressions/mod.rs [impl From<f64> for Expression] (exponent hint dropped) *)
Definition lit_of_f64 (x : f64) : expr :=
  match x with
  | S754_nan => EBinary BDiv (dec fzero) (dec fzero)
  | S754_infinity s => EBinary BDiv (if s then EUnary UMinus (dec fone) else dec fone) (dec fzero)
  | S754_zero _ => dec x
  | S754_finite s _ _ => if s then EUnary UMinus (dec (fabs x)) else dec x
  end.

(** process/evaluator/lua_value.rs [LuaValue::to_expression] *)
Definition lit_of_lv (v : lv) : option expr :=
  match v with
  | LFalse => Some EFalse
  | LTrue => Some ETrue
  | LNil => Some ENil
  | LString s => Some (EString s)
  | LNumber x => Some (lit_of_f64 x)
  | LFunction | LTable | LUnknown => None
  end.

(** compute_expression.rs [Computer::replace_with] followed by the assignment in
    [process_expression]: the expression that is left at the node. *)
Fixpoint rw_compute (e : expr) : expr :=
  match e with
  | EUnary _ _ | EIf _ _ =>
    if hse e then e else match lit_of_lv (evaluate e) with Some l => l | None => e end
  | EBinary op l r =>
    if hse e then
      match op with
      | BAnd =>
        if hse l then e
        else match is_truthy (evaluate l) with
             | Some true => r
             | Some false => l
             | None => e
             end
      | BOr =>
        if hse l then e
        else match is_truthy (evaluate l) with
             | Some true => l
             | Some false => r
             | None => e
             end
      | _ => e
      end
    else
      match lit_of_lv (evaluate e) with
      | Some lit => lit
      | None =>
        match op with
        | BAnd =>
          match is_truthy (evaluate l) with
          | Some true => rw_compute r
          | Some false => rw_compute l
          | None => e
          end
        | BOr =>
          match is_truthy (evaluate l) with
          | Some true => rw_compute l
          | Some false => rw_compute r
          | None => e
          end
        | _ => e
        end
      end
  | _ => e
  end.

(** * remove_unused_if_branch *)

Inductive filter_result := FKeep (s : stmt) | FRemove | FReplace (s : stmt).

(** [retain_branches_mut] closure of [simplify_if_statement]: kept branches, the final
    [keep_next_branches] and [replace_else_with] *)
Fixpoint if_retain (bs : list sbranch) (keep : bool) (repl : option block)
  : list sbranch * bool * option block :=
  match bs with
  | [] => ([], keep, repl)
  | SBranch c b :: rest =>
    if negb keep then if_retain rest keep repl
    else
      match is_truthy (evaluate c) with
      | Some true =>
        if hse c then
          let '(k, kp, rp) := if_retain rest false repl in (SBranch c b :: k, kp, rp)
        else if_retain rest false (Some b)
      | Some false =>
        if hse c then
          let '(k, kp, rp) := if_retain rest keep repl in (SBranch c empty_block :: k, kp, rp)
        else if_retain rest keep repl
      | None =>
        let '(k, kp, rp) := if_retain rest keep repl in (SBranch c b :: k, kp, rp)
      end
  end.

(** unused_if_branch.rs [IfFilter::simplify_if_statement] *)
Definition simplify_if_statement (bs : list sbranch) (els : option block) : filter_result :=
  let els1 := match els with
              | Some b => if block_is_empty b then None else Some b
              | None => None
              end in
  let '(kept, keep, repl) := if_retain bs true None in
  match kept with
  | [] =>
    match repl with
    | Some blk => if block_is_empty blk then FRemove else FReplace (SDo blk)
    | None =>
      match els1 with
      | Some eb => if block_is_empty eb then FRemove else FReplace (SDo eb)
      | None => FRemove
      end
    end
  | _ => FKeep (SIf kept (if keep then els1 else repl))
  end.

(** [process_block]: [filter_mut_statements] *)
Fixpoint rw_if_stmts (ss : list stmt) : list stmt :=
  match ss with
  | [] => []
  | SIf bs els :: rest =>
    match simplify_if_statement bs els with
    | FKeep s | FReplace s => s :: rw_if_stmts rest
    | FRemove => rw_if_stmts rest
    end
  | s :: rest => s :: rw_if_stmts rest
  end.

Definition rw_if_block (b : block) : block :=
  match b with Block ss last => Block (rw_if_stmts ss) last end.

Definition paren_if_multi (e : expr) : expr :=
  if can_return_multiple_values e then EParen e else e.

(** the [None] arm of [simplify_if]: [retain_elseif_branches_mut] *)
Fixpoint ifexp_retain (bs : list ebranch) (keep : bool) (repl : option expr)
  : list ebranch * bool * option expr :=
  match bs with
  | [] => ([], keep, repl)
  | EBranch c r :: rest =>
    if negb keep then ifexp_retain rest keep repl
    else
      match is_truthy (evaluate c) with
      | Some true =>
        if hse c then
          let '(k, kp, rp) := ifexp_retain rest false repl in (EBranch c r :: k, kp, rp)
        else ifexp_retain rest false (Some r)
      | Some false =>
        if hse c then
          let '(k, kp, rp) := ifexp_retain rest keep repl in (EBranch c ENil :: k, kp, rp)
        else ifexp_retain rest keep repl
      | None =>
        let '(k, kp, rp) := ifexp_retain rest keep repl in (EBranch c r :: k, kp, rp)
      end
  end.

(** unused_if_branch.rs [IfFilter::simplify_if] (what is left at the node) *)
Fixpoint simplify_if (c r : expr) (rest : list ebranch) (els : expr) {struct rest} : expr :=
  match is_truthy (evaluate c) with
  | Some true =>
    if hse c then EIf [EBranch c r] ENil else paren_if_multi r
  | Some false =>
    if hse c then EIf (EBranch c ENil :: rest) els
    else match rest with
         | EBranch c2 r2 :: rest' => simplify_if c2 r2 rest' els
         | [] => paren_if_multi els
         end
  | None =>
    let '(kept, keep, repl) := ifexp_retain rest true None in
    EIf (EBranch c r :: kept)
        (if keep then els else match repl with Some x => x | None => ENil end)
  end.

Definition rw_if_expr (e : expr) : expr :=
  match e with
  | EIf (EBranch c r :: rest) els => simplify_if c r rest els
  | _ => e
  end.

(** * remove_unused_while *)

Definition while_kept (st : stmt) : bool :=
  match st with
  | SWhile c _ => hse c || match is_truthy (evaluate c) with Some b => b | None => true end
  | _ => true
  end.

Definition rw_while (b : block) : block :=
  match b with Block ss last => Block (filter while_kept ss) last end.

(** * filter_after_early_return *)

(** the statements on which [search_remove_after]'s closure answers [Some] *)
Fixpoint stmt_returns (st : stmt) : bool :=
  match st with
  | SDo (Block ss last) =>
    match last with
    | Some (LReturn _) => true
    | Some _ => false
    | None => existsb stmt_returns ss
    end
  | _ => false
  end.

Fixpoint search_remove_after (ss : list stmt) : option nat :=
  match ss with
  | [] => None
  | st :: rest => if stmt_returns st then Some O else option_map S (search_remove_after rest)
  end.

Definition rw_early_return (b : block) : block :=
  match b with
  | Block ss last =>
    match search_remove_after ss with
    | Some i => Block (firstn (S i) ss) None
    | None => b
    end
  end.

(** * remove_empty_do *)

Definition empty_do (st : stmt) : bool :=
  match st with SDo b => block_is_empty b | _ => false end.

Definition rw_empty_do (b : block) : block :=
  match b with Block ss last => Block (filter (fun st => negb (empty_do st)) ss) last end.

(** * remove_nil_declaration *)

Definition is_nil (e : expr) : bool := match e with ENil => true | _ => false end.

Fixpoint names_distinct (xs : list name) : bool :=
  match xs with
  | [] => true
  | x :: rest => negb (existsb (bytes_eqb x) rest) && names_distinct rest
  end.

(** split the variables along the nil mask of the values (a variable without value stays) *)
Fixpoint split_vars (vars : list param) (vals : list expr) : list param * list param :=
  match vars, vals with
  | v :: vars', e :: vals' =>
    let '(kept, moved) := split_vars vars' vals' in
    if is_nil e then (kept, v :: moved) else (v :: kept, moved)
  | _, _ => (vars, [])
  end.

Fixpoint map_last {A} (f : A -> A) (l : list A) : list A :=
  match l with
  | [] => []
  | [x] => [f x]
  | x :: rest => x :: map_last f rest
  end.

Definition rw_nil_declaration (st : stmt) : stmt :=
  match st with
  | SLocal false vars vals =>
    let nv := List.length vars in
    let vals1 := firstn nv vals ++ filter hse (skipn nv vals) in
    let unchanged := SLocal false vars vals1 in
    if (nv <? List.length vals1)%nat then unchanged
    else if negb (existsb is_nil vals1) then unchanged
    else if negb (names_distinct (map param_name vars)) then unchanged
    else if (List.length vals1 <? nv)%nat
            && match last (map Some vals1) None with
               | Some l => can_return_multiple_values l
               | None => false
               end then unchanged
    else
      let '(kept, moved) := split_vars vars vals1 in
      let vals2 := filter (fun e => negb (is_nil e)) vals1 in
      SLocal false (kept ++ moved) (map_last paren_if_multi vals2)
  | _ => st
  end.

(** * convert_index_to_field *)

(** [Converter::convert_to_field] ([String::from_utf8] is subsumed by [is_valid_identifier],
    which only accepts ASCII) *)
Definition convert_to_field (k : expr) : option name :=
  if hse k then None
  else match evaluate k with
       | LString s => if Serializer.is_valid_identifier s then Some s else None
       | _ => None
       end.

(** [process_expression] / [process_prefix_expression] / [process_variable] *)
Definition rw_index_to_field (e : expr) : expr :=
  match e with
  | EIndex p k => match convert_to_field k with Some f => EField p f | None => e end
  | _ => e
  end.

(** [process_table_expression] *)
Definition rw_index_entry (en : tentry) : tentry :=
  match en with
  | TIndex k v => match convert_to_field k with Some f => TField f v | None => en end
  | _ => en
  end.
Definition rw_index_entries (ens : list tentry) : list tentry := map rw_index_entry ens.

(** * remove_method_definition *)

Definition add_self (f : fbody) : fbody :=
  match f with
  | FBody ps variadic vt rt gen attrs body =>
    FBody (Param (of_string "self") None :: ps) variadic vt rt gen attrs body
  end.

(** nodes/statements/function.rs [FunctionStatement::remove_method] *)
Definition rw_method_def (st : stmt) : stmt :=
  match st with
  | SFunction base fields (Some m) f => SFunction base (fields ++ [m]) None (add_self f)
  | _ => st
  end.

(** * remove_function_call_parens *)

Definition rw_call_parens (e : expr) : expr :=
  match e with
  | ECall p m (ATuple [EString s]) => ECall p m (AString s)
  | ECall p m (ATuple [ETable ens]) => ECall p m (ATable ens)
  | _ => e
  end.

(** * The traversal: process/visitors.rs [NodeVisitor] default methods ([DefaultVisitor]) *)

Record hooks := mkHooks {
  h_block : block -> block;                  (* process_block *)
  h_stmt : stmt -> stmt;                     (* process_statement and the per-kind statement hooks *)
  h_expr : expr -> expr;                     (* process_expression *)
  h_prefix : expr -> expr;                   (* process_prefix_expression *)
  h_var : expr -> expr;                      (* process_variable *)
  h_call : expr -> expr;                     (* process_function_call (on [ECall] nodes) *)
  h_table : list tentry -> list tentry;      (* process_table_expression *)
}.

Definition no_hooks : hooks :=
  mkHooks (fun b => b) (fun s => s) (fun e => e) (fun e => e) (fun e => e) (fun e => e) (fun t => t).

(** the visiting functions of one fuel level *)
Record vis := mkVis {
  v_expr : expr -> expr;
  v_prefix : expr -> expr;
  v_var : expr -> expr;
  v_ty : ty -> ty;
  v_stmt : stmt -> stmt;
  v_block : block -> block;
}.

Definition vis_id : vis :=
  mkVis (fun e => e) (fun e => e) (fun e => e) (fun t => t) (fun s => s) (fun b => b).

Section Visit.
Variable H : hooks.

Definition v_param (r : vis) (p : param) : param :=
  match p with Param x t => Param x (option_map (v_ty r) t) end.

Definition v_fbody (r : vis) (f : fbody) : fbody :=
  match f with
  | FBody ps variadic vt rt gen attrs body =>
    FBody (map (v_param r) ps) variadic (option_map (v_ty r) vt) (option_map (v_ty r) rt) gen attrs
          (v_block r body)
  end.

Definition v_entries (r : vis) (ens : list tentry) : list tentry :=
  map (fun en => match en with
                 | TField f v => TField f (v_expr r v)
                 | TIndex k v => TIndex (v_expr r k) (v_expr r v)
                 | TValue v => TValue (v_expr r v)
                 end) (h_table H ens).

Definition v_args (r : vis) (a : args) : args :=
  match a with
  | ATuple es => ATuple (map (v_expr r) es)
  | AString s => AString s
  | ATable ens => ATable (v_entries r ens)
  end.

(** [visit_function_call] *)
Definition v_call (r : vis) (c : expr) : expr :=
  match h_call H c with
  | ECall p m a => ECall (v_prefix r p) m (v_args r a)
  | other => other
  end.

(** the children of an expression node, after the processor has seen the node *)
Definition descend (r : vis) (e : expr) : expr :=
  match e with
  | EBinary op a b => EBinary op (v_expr r a) (v_expr r b)
  | ECall _ _ _ => v_call r e
  | EField p f => EField (v_prefix r p) f
  | EFunction f => EFunction (v_fbody r f)
  | EIf bs els =>
    EIf (map (fun b => match b with EBranch c x => EBranch (v_expr r c) (v_expr r x) end) bs)
        (v_expr r els)
  | EIndex p k => EIndex (v_prefix r p) (v_expr r k)
  | EParen x => EParen (v_expr r x)
  | EInterp segs =>
    EInterp (map (fun sg => match sg with ISExpr x => ISExpr (v_expr r x) | ISStr _ => sg end) segs)
  | ETable ens => ETable (v_entries r ens)
  | EUnary op x => EUnary op (v_expr r x)
  | ETypeCast x t => ETypeCast (v_expr r x) (v_ty r t)
  | ETypeInst p tys => ETypeInst (v_prefix r p) (map (v_ty r) tys)
  | ENil | ETrue | EFalse | ENumber _ | EString _ | EVarArgs | EIdent _ => e
  end.

(** [visit_variable]: identifier, field or index *)
Definition descend_var (r : vis) (e : expr) : expr :=
  match e with
  | EField p f => EField (v_prefix r p) f
  | EIndex p k => EIndex (v_prefix r p) (v_expr r k)
  | _ => e
  end.

Definition descend_stmt (r : vis) (st : stmt) : stmt :=
  match st with
  | SAssign vars vals => SAssign (map (v_var r) vars) (map (v_expr r) vals)
  | SDo b => SDo (v_block r b)
  | SCall c => SCall (v_call r c)
  | SCompound op var v => SCompound op (v_var r var) (v_expr r v)
  | SFunction base fields m f => SFunction base fields m (v_fbody r f)
  | SGenericFor vars es b => SGenericFor (map (v_param r) vars) (map (v_expr r) es) (v_block r b)
  | SIf bs els =>
    SIf (map (fun b => match b with SBranch c blk => SBranch (v_expr r c) (v_block r blk) end) bs)
        (option_map (v_block r) els)
  | SLocal k vars vals => SLocal k (map (v_param r) vars) (map (v_expr r) vals)
  | SLocalFunction x f => SLocalFunction x (v_fbody r f)
  | SNumericFor var a b step body =>
    SNumericFor (v_param r var) (v_expr r a) (v_expr r b) (option_map (v_expr r) step) (v_block r body)
  | SRepeat b c => SRepeat (v_block r b) (v_expr r c)
  | SWhile c b => SWhile (v_expr r c) (v_block r b)
  | STypeDecl ex x gen t => STypeDecl ex x (option_map (v_ty r) gen) (v_ty r t)
  | STypeFunction ex x f => STypeFunction ex x (v_fbody r f)
  end.

Definition descend_block (r : vis) (b : block) : block :=
  match b with
  | Block ss last =>
    Block (map (v_stmt r) ss)
          (option_map (fun l => match l with
                                | LReturn es => LReturn (map (v_expr r) es)
                                | _ => l
                                end) last)
  end.

Definition descend_ty (r : vis) (t : ty) : ty :=
  match t with TyNode k subs es => TyNode k (map (v_ty r) subs) (map (v_expr r) es) end.

(** fuel: one unit per nesting level of the (rewritten) tree *)
Fixpoint visit (n : nat) : vis :=
  match n with
  | O => vis_id
  | S n =>
    let r := visit n in
    mkVis (fun e => descend r (h_expr H e))
          (fun e => descend r (h_prefix H e))
          (fun e => descend_var r (h_var H e))
          (descend_ty r)
          (fun s => descend_stmt r (h_stmt H s))
          (fun b => descend_block r (h_block H b))
  end.

End Visit.

(** nesting depth (an upper bound is all that matters) *)
Fixpoint depth_ty (t : ty) : nat :=
  match t with
  | TyNode _ subs es => S (fold_right Nat.max O (map depth_ty subs) + fold_right Nat.max O (map depth_expr es))
  end
with depth_expr (e : expr) : nat :=
  match e with
  | EInterp segs => S (fold_right Nat.max O (map depth_iseg segs))
  | EField p _ => S (depth_expr p)
  | EIndex p k => S (Nat.max (depth_expr p) (depth_expr k))
  | ECall p _ a => S (Nat.max (depth_expr p) (depth_args a))
  | EFunction f => S (depth_fbody f)
  | EIf bs els => S (Nat.max (fold_right Nat.max O (map depth_ebranch bs)) (depth_expr els))
  | EParen x => S (depth_expr x)
  | ETable ens => S (fold_right Nat.max O (map depth_tentry ens))
  | EUnary _ x => S (depth_expr x)
  | EBinary _ a b => S (Nat.max (depth_expr a) (depth_expr b))
  | ETypeCast x t => S (Nat.max (depth_expr x) (depth_ty t))
  | ETypeInst p tys => S (Nat.max (depth_expr p) (fold_right Nat.max O (map depth_ty tys)))
  | _ => 1%nat
  end
with depth_iseg (s : iseg) : nat :=
  match s with ISStr _ => O | ISExpr x => depth_expr x end
with depth_ebranch (b : ebranch) : nat :=
  match b with EBranch c x => Nat.max (depth_expr c) (depth_expr x) end
with depth_args (a : args) : nat :=
  match a with
  | ATuple es => S (fold_right Nat.max O (map depth_expr es))
  | AString _ => 1%nat
  | ATable ens => S (fold_right Nat.max O (map depth_tentry ens))
  end
with depth_tentry (t : tentry) : nat :=
  match t with
  | TField _ v => depth_expr v
  | TIndex k v => Nat.max (depth_expr k) (depth_expr v)
  | TValue v => depth_expr v
  end
with depth_fbody (f : fbody) : nat :=
  match f with
  | FBody ps _ vt rt gen _ body =>
    S (Nat.max (depth_block body)
               (Nat.max (fold_right Nat.max O (map depth_param ps))
                        (Nat.max (match vt with Some t => depth_ty t | None => O end)
                                 (match rt with Some t => depth_ty t | None => O end))))
  end
with depth_param (p : param) : nat :=
  match p with Param _ t => match t with Some t => depth_ty t | None => O end end
with depth_stmt (s : stmt) : nat :=
  match s with
  | SAssign vars vals => S (Nat.max (fold_right Nat.max O (map depth_expr vars)) (fold_right Nat.max O (map depth_expr vals)))
  | SDo b => S (depth_block b)
  | SCall c => S (depth_expr c)
  | SCompound _ var v => S (Nat.max (depth_expr var) (depth_expr v))
  | SFunction _ _ _ f => S (depth_fbody f)
  | SGenericFor vars es b =>
    S (Nat.max (fold_right Nat.max O (map depth_param vars))
               (Nat.max (fold_right Nat.max O (map depth_expr es)) (depth_block b)))
  | SIf bs els =>
    S (Nat.max (fold_right Nat.max O (map depth_sbranch bs)) (match els with Some b => depth_block b | None => O end))
  | SLocal _ vars vals =>
    S (Nat.max (fold_right Nat.max O (map depth_param vars)) (fold_right Nat.max O (map depth_expr vals)))
  | SLocalFunction _ f => S (depth_fbody f)
  | SNumericFor var a b step body =>
    S (Nat.max (depth_param var)
               (Nat.max (depth_expr a)
                        (Nat.max (depth_expr b)
                                 (Nat.max (match step with Some x => depth_expr x | None => O end) (depth_block body)))))
  | SRepeat b c => S (Nat.max (depth_block b) (depth_expr c))
  | SWhile c b => S (Nat.max (depth_expr c) (depth_block b))
  | STypeDecl _ _ gen t => S (Nat.max (match gen with Some g => depth_ty g | None => O end) (depth_ty t))
  | STypeFunction _ _ f => S (depth_fbody f)
  end
with depth_sbranch (b : sbranch) : nat :=
  match b with SBranch c blk => Nat.max (depth_expr c) (depth_block blk) end
with depth_block (b : block) : nat :=
  match b with
  | Block ss last => S (Nat.max (fold_right Nat.max O (map depth_stmt ss))
                                (match last with Some l => depth_last l | None => O end))
  end
with depth_last (l : laststmt) : nat :=
  match l with LReturn es => S (fold_right Nat.max O (map depth_expr es)) | _ => 1%nat end.

(** a rewrite deepens the tree by at most two levels at one node ([-x] folded to [(-1)/0],
    a result wrapped in parentheses); twice the depth plus a margin is ample *)
Definition visit_fuel (b : block) : nat := (2 * depth_block b + 8)%nat.

Definition apply_hooks (H : hooks) (b : block) : block := v_block (visit H (visit_fuel b)) b.

(** * The rules, as [block -> block] ([FlawlessRule::flawless_process]) *)

Definition hooks_compute : hooks :=
  mkHooks (fun b => b) (fun s => s) rw_compute (fun e => e) (fun e => e) (fun e => e) (fun t => t).
Definition hooks_if : hooks :=
  mkHooks rw_if_block (fun s => s) rw_if_expr (fun e => e) (fun e => e) (fun e => e) (fun t => t).
Definition hooks_while : hooks :=
  mkHooks rw_while (fun s => s) (fun e => e) (fun e => e) (fun e => e) (fun e => e) (fun t => t).
Definition hooks_early_return : hooks :=
  mkHooks rw_early_return (fun s => s) (fun e => e) (fun e => e) (fun e => e) (fun e => e) (fun t => t).
Definition hooks_empty_do : hooks :=
  mkHooks rw_empty_do (fun s => s) (fun e => e) (fun e => e) (fun e => e) (fun e => e) (fun t => t).
Definition hooks_nil_declaration : hooks :=
  mkHooks (fun b => b) rw_nil_declaration (fun e => e) (fun e => e) (fun e => e) (fun e => e) (fun t => t).
Definition hooks_index_to_field : hooks :=
  mkHooks (fun b => b) (fun s => s) rw_index_to_field rw_index_to_field rw_index_to_field (fun e => e)
          rw_index_entries.
Definition hooks_method_def : hooks :=
  mkHooks (fun b => b) rw_method_def (fun e => e) (fun e => e) (fun e => e) (fun e => e) (fun t => t).
Definition hooks_call_parens : hooks :=
  mkHooks (fun b => b) (fun s => s) (fun e => e) (fun e => e) (fun e => e) rw_call_parens (fun t => t).

Definition rule_compute_expression := apply_hooks hooks_compute.
Definition rule_remove_unused_if_branch := apply_hooks hooks_if.
Definition rule_remove_unused_while := apply_hooks hooks_while.
Definition rule_filter_after_early_return := apply_hooks hooks_early_return.
Definition rule_remove_nil_declaration := apply_hooks hooks_nil_declaration.
Definition rule_convert_index_to_field := apply_hooks hooks_index_to_field.
Definition rule_remove_method_definition := apply_hooks hooks_method_def.
Definition rule_remove_function_call_parens := apply_hooks hooks_call_parens.

(** ** remove_empty_do: [loop { visit; if !processor.has_mutated() { break } }]

    [EmptyDoFilter::process_block] ASSIGNS [mutated] at every [do] statement it examines, so
    after a pass the flag says whether the LAST [do] statement examined (in visiting order)
    was empty, not whether anything was removed.  [blocks_*] lists the blocks of a tree in
    visiting order; the flags are read off the pass's input (a removed [do end] has no
    [do] inside). *)
Fixpoint blocks_ty (t : ty) : list block :=
  match t with TyNode _ subs es => flat_map blocks_ty subs ++ flat_map blocks_expr es end
with blocks_expr (e : expr) : list block :=
  match e with
  | EInterp segs => flat_map blocks_iseg segs
  | EField p _ => blocks_expr p
  | EIndex p k => blocks_expr p ++ blocks_expr k
  | ECall p _ a => blocks_expr p ++ blocks_args a
  | EFunction f => blocks_fbody f
  | EIf bs els => flat_map blocks_ebranch bs ++ blocks_expr els
  | EParen x => blocks_expr x
  | ETable ens => flat_map blocks_tentry ens
  | EUnary _ x => blocks_expr x
  | EBinary _ a b => blocks_expr a ++ blocks_expr b
  | ETypeCast x t => blocks_expr x ++ blocks_ty t
  | ETypeInst p tys => blocks_expr p ++ flat_map blocks_ty tys
  | _ => []
  end
with blocks_iseg (s : iseg) : list block :=
  match s with ISStr _ => [] | ISExpr x => blocks_expr x end
with blocks_ebranch (b : ebranch) : list block :=
  match b with EBranch c x => blocks_expr c ++ blocks_expr x end
with blocks_args (a : args) : list block :=
  match a with
  | ATuple es => flat_map blocks_expr es
  | AString _ => []
  | ATable ens => flat_map blocks_tentry ens
  end
with blocks_tentry (t : tentry) : list block :=
  match t with
  | TField _ v => blocks_expr v
  | TIndex k v => blocks_expr k ++ blocks_expr v
  | TValue v => blocks_expr v
  end
with blocks_fbody (f : fbody) : list block :=
  match f with
  | FBody ps _ vt rt _ _ body =>
    blocks_block body ++ flat_map blocks_param ps
    ++ (match vt with Some t => blocks_ty t | None => [] end)
    ++ (match rt with Some t => blocks_ty t | None => [] end)
  end
with blocks_param (p : param) : list block :=
  match p with Param _ t => match t with Some t => blocks_ty t | None => [] end end
with blocks_stmt (s : stmt) : list block :=
  match s with
  | SAssign vars vals => flat_map blocks_expr vars ++ flat_map blocks_expr vals
  | SDo b => blocks_block b
  | SCall c => blocks_expr c
  | SCompound _ var v => blocks_expr var ++ blocks_expr v
  | SFunction _ _ _ f => blocks_fbody f
  | SGenericFor vars es b => flat_map blocks_expr es ++ blocks_block b ++ flat_map blocks_param vars
  | SIf bs els =>
    flat_map blocks_sbranch bs ++ (match els with Some b => blocks_block b | None => [] end)
  | SLocal _ vars vals => flat_map blocks_expr vals ++ flat_map blocks_param vars
  | SLocalFunction _ f => blocks_fbody f
  | SNumericFor var a b step body =>
    blocks_expr a ++ blocks_expr b ++ (match step with Some x => blocks_expr x | None => [] end)
    ++ blocks_block body ++ blocks_param var
  | SRepeat b c => blocks_expr c ++ blocks_block b
  | SWhile c b => blocks_expr c ++ blocks_block b
  | STypeDecl _ _ gen t => (match gen with Some g => blocks_ty g | None => [] end) ++ blocks_ty t
  | STypeFunction _ _ f => blocks_fbody f
  end
with blocks_sbranch (b : sbranch) : list block :=
  match b with SBranch c blk => blocks_expr c ++ blocks_block blk end
with blocks_block (b : block) : list block :=
  match b with
  | Block ss last =>
    b :: flat_map blocks_stmt ss ++ (match last with Some l => blocks_last l | None => [] end)
  end
with blocks_last (l : laststmt) : list block :=
  match l with LReturn es => flat_map blocks_expr es | _ => [] end.

Definition do_flags (b : block) : list bool :=
  flat_map (fun blk => match blk with
                       | Block ss _ =>
                         flat_map (fun st => match st with SDo x => [block_is_empty x] | _ => [] end) ss
                       end) (blocks_block b).

(** [has_mutated] after one pass over [b] *)
Definition empty_do_mutated (b : block) : bool := last (do_flags b) false.

Fixpoint empty_do_loop (fuel : nat) (b : block) : block :=
  let b' := apply_hooks hooks_empty_do b in
  match fuel with
  | O => b'
  | S fuel => if empty_do_mutated b then empty_do_loop fuel b' else b'
  end.

(** each further pass is preceded by the removal of at least one statement *)
Definition rule_remove_empty_do (b : block) : block :=
  empty_do_loop (List.length (blocks_block b) + List.length (do_flags b)) b.

(** * Comparison modulo the exponent hint of decimal literals *)

Definition erase_exponent (e : expr) : expr :=
  match e with
  | ENumber (NDec bits _) => ENumber (NDec bits None)
  | _ => e
  end.
Definition hooks_erase : hooks :=
  mkHooks (fun b => b) (fun s => s) erase_exponent (fun e => e) (fun e => e) (fun e => e) (fun t => t).
Definition erase_exponents (b : block) : block := apply_hooks hooks_erase b.
