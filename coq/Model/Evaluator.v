(** Model of darklua's static evaluator ([src/process/evaluator/mod.rs], [lua_value.rs]):
    [evaluate], [has_side_effects] (both settings of [pure_metamethods]),
    [can_return_multiple_values], [number_coercion], [string_coercion], [length],
    [is_truthy].  Transcribed arm for arm; tied to the code by the C08 correspondence. *)
From Coq Require Import ZArith NArith List Bool.
From Coq Require Import Floats.SpecFloat.
From DL Require Import Lib.Bytes Lib.F64 Lua.Syntax Model.StringLit Model.NumberLit.
Import ListNotations.
Open Scope N_scope.

Inductive lv :=
| LFalse | LFunction | LNil | LNumber (x : f64) | LString (s : bytes) | LTable | LTrue | LUnknown.

Definition lv_of_bool (b : bool) : lv := if b then LTrue else LFalse.

Definition is_truthy (v : lv) : option bool :=
  match v with
  | LUnknown => None
  | LNil | LFalse => Some false
  | _ => Some true
  end.

(** Rust [str::trim]: strips Unicode White_Space code points at both ends.  On the UTF-8
    code points of the string. *)
Definition is_unicode_ws (c : N) : bool :=
  ((9 <=? c) && (c <=? 13)) || (c =? 32) || (c =? 133) || (c =? 160) || (c =? 5760)
  || ((8192 <=? c) && (c <=? 8202)) || (c =? 8232) || (c =? 8233) || (c =? 8239) || (c =? 8287)
  || (c =? 12288).

Fixpoint ltrim_cps (s : list N) : list N :=
  match s with
  | c :: s' => if is_unicode_ws c then ltrim_cps s' else s
  | [] => []
  end.
Definition trim_cps (s : list N) : list N := rev (ltrim_cps (rev (ltrim_cps s))).

(** number value of a literal as darklua computes it ([compute_value]); the u64 product of
    a hexadecimal literal with a binary exponent wraps (release build) *)
Definition compute_value (n : number) : f64 :=
  match n with
  | NDec bits _ => of_bits bits
  | NHex i _ None => of_N i
  | NHex i _ (Some (e, _)) => of_N ((i * (2 ^ e mod 18446744073709551616)) mod 18446744073709551616)
  | NBin i _ => of_N i
  end.

(** [LuaValue::number_coercion] *)
Definition number_coercion (v : lv) : lv :=
  match v with
  | LString s =>
    match utf8_decode s with
    | None => v
    | Some cps =>
      let t := flat_map utf8_encode (trim_cps cps) in
      let r := match t with
               | 45 :: rest => option_map (fun n => fneg (compute_value n)) (from_str rest)
               | _ => option_map compute_value (from_str t)
               end in
      match r with
      | Some x => LNumber x
      | None => v
      end
    end
  | _ => v
  end.

(** Rust's [f64::to_string] (Display): shortest round-trip digits, never scientific *)
Definition rust_f64_to_string (x : f64) : bytes :=
  match x with
  | S754_zero s => with_sign s [48]
  | S754_infinity s => with_sign s (of_string "inf")
  | S754_nan => of_string "NaN"
  | S754_finite s m e =>
    let '(dg, X) := shortest_fuel 17 1 m e in
    with_sign s (layout_fixed (strip_trailing_zeros (zdigits dg)) X)
  end.

(** [LuaValue::string_coercion] *)
(** folds only finite numbers that are zero or whose magnitude lies in [1e-4, 1e14) *)
Definition f_1em4 : f64 := of_bits 4547007122018943789.    (* 1e-4 *)
Definition f_1e14 : f64 := of_bits 4816244402031689728.    (* 1e14 *)
Definition plain_decimal_range (x : f64) : bool :=
  is_finite x && (feqb x fzero || (fleb f_1em4 (fabs x) && fltb (fabs x) f_1e14)).

Definition string_coercion (v : lv) : lv :=
  match v with
  | LNumber x => if plain_decimal_range x then LString (rust_f64_to_string x) else v
  | _ => v
  end.

Definition lv_length (v : lv) : lv :=
  match v with
  | LString s => LNumber (of_Z (Z.of_nat (List.length s)))
  | _ => LUnknown
  end.

Definition evaluate_equal (a b : lv) : lv :=
  match a, b with
  | LUnknown, _ | _, LUnknown => LUnknown
  | LTrue, LTrue | LFalse, LFalse | LNil, LNil => LTrue
  | LNumber x, LNumber y => lv_of_bool (feqb x y)
  | LString x, LString y => lv_of_bool (bytes_eqb x y)
  | _, _ => LFalse
  end.

Definition math_op (o : binop) (a b : f64) : option f64 :=
  match o with
  | BAdd => Some (fadd a b)
  | BSub => Some (fsub a b)
  | BMul => Some (fmul a b)
  | BDiv => Some (fdiv a b)
  | BIDiv => Some (ffloor (fdiv a b))
  | BMod => Some (fsub a (fmul b (ffloor (fdiv a b))))
  | BPow => fpow a b      (* Rust powf (libm): modelled only where [fpow] is defined *)
  | _ => None
  end.

Definition rel_num (o : binop) (a b : f64) : bool :=
  match o with
  | BLt => fltb a b
  | BLe => fleb a b
  | BGt => fltb b a
  | BGe => fleb b a
  | _ => false
  end.

Definition rel_str (o : binop) (a b : bytes) : bool :=
  match o with
  | BLt => bytes_ltb a b
  | BLe => negb (bytes_ltb b a)
  | BGt => bytes_ltb b a
  | BGe => negb (bytes_ltb a b)
  | _ => false
  end.

(** an [Unknown] produced where the model has no definition of a libm function *)
Inductive ev := Val (v : lv) | NoModel.

Definition ev_lv (e : ev) : lv := match e with Val v => v | NoModel => LUnknown end.

Fixpoint evaluate (e : expr) : lv :=
  match e with
  | EFalse => LFalse
  | EFunction _ => LFunction
  | ENil => LNil
  | ENumber n => LNumber (compute_value n)
  | EString s => LString s
  | ETable _ => LTable
  | ETrue => LTrue
  | EBinary op l r =>
    match op with
    | BAnd =>
      let a := evaluate l in
      match is_truthy a with
      | Some true => evaluate r
      | Some false => a
      | None => LUnknown
      end
    | BOr =>
      let a := evaluate l in
      match is_truthy a with
      | Some true => a
      | Some false => evaluate r
      | None => LUnknown
      end
    | BEq => evaluate_equal (evaluate l) (evaluate r)
    | BNeq =>
      match evaluate_equal (evaluate l) (evaluate r) with
      | LTrue => LFalse
      | LFalse => LTrue
      | _ => LUnknown
      end
    | BAdd | BSub | BMul | BDiv | BIDiv | BMod | BPow =>
      match number_coercion (evaluate l) with
      | LNumber a =>
        match number_coercion (evaluate r) with
        | LNumber b => match math_op op a b with Some x => LNumber x | None => LUnknown end
        | _ => LUnknown
        end
      | _ => LUnknown
      end
    | BConcat =>
      match string_coercion (evaluate l), string_coercion (evaluate r) with
      | LString a, LString b => LString (a ++ b)
      | _, _ => LUnknown
      end
    | BLt | BLe | BGt | BGe =>
      match evaluate l with
      | LNumber a =>
        match evaluate r with
        | LNumber b => lv_of_bool (rel_num op a b)
        | _ => LUnknown
        end
      | LString a =>
        match evaluate r with
        | LString b => lv_of_bool (rel_str op a b)
        | _ => LUnknown
        end
      | _ => LUnknown
      end
    end
  | EUnary op e' =>
    match op with
    | UNot => match is_truthy (evaluate e') with
              | Some b => lv_of_bool (negb b)
              | None => LUnknown
              end
    | UMinus => match number_coercion (evaluate e') with
                | LNumber x => LNumber (fneg x)
                | _ => LUnknown
                end
    | ULen => lv_length (evaluate e')
    end
  | EParen e' => evaluate e'
  | EIf branches els =>
    (fix go (bs : list ebranch) : lv :=
       match bs with
       | [] => evaluate els
       | EBranch c r :: rest =>
         match is_truthy (evaluate c) with
         | Some true => evaluate r
         | Some false => go rest
         | None => LUnknown
         end
       end) branches
  | EInterp segs =>
    (fix go (ss : list iseg) (acc : bytes) : lv :=
       match ss with
       | [] => LString acc
       | ISStr s :: rest => go rest (acc ++ s)
       | ISExpr e' :: rest =>
         match evaluate e' with
         | LFalse => go rest (acc ++ of_string "false")
         | LTrue => go rest (acc ++ of_string "true")
         | LNil => go rest (acc ++ of_string "nil")
         | LString s => go rest (acc ++ s)
         | _ => LUnknown
         end
       end) segs []
  | ETypeCast e' _ => evaluate e'
  | ETypeInst p _ =>
    (* evaluate_prefix: only a parenthesised or type-instantiated prefix is looked into *)
    match p with
    | EParen _ | ETypeInst _ _ => evaluate p
    | _ => LUnknown
    end
  | ECall _ _ _ | EField _ _ | EIdent _ | EIndex _ _ | EVarArgs => LUnknown
  end.

(** where the model has no definition of the libm function used ([powf] outside [fpow]'s
    domain) the correspondence check skips the comparison *)
Fixpoint uses_unmodelled_pow (e : expr) : bool :=
  match e with
  | EBinary op l r =>
    uses_unmodelled_pow l || uses_unmodelled_pow r ||
    match op with
    | BPow => match number_coercion (evaluate l), number_coercion (evaluate r) with
              | LNumber a, LNumber b => match fpow a b with None => true | Some _ => false end
              | _, _ => false
              end
    | _ => false
    end
  | EUnary _ e' | EParen e' | ETypeCast e' _ => uses_unmodelled_pow e'
  | EIf bs els =>
    existsb (fun b => match b with EBranch c r => uses_unmodelled_pow c || uses_unmodelled_pow r end) bs
    || uses_unmodelled_pow els
  | EInterp segs => existsb (fun s => match s with ISExpr e' => uses_unmodelled_pow e' | _ => false end) segs
  | ETypeInst p _ => uses_unmodelled_pow p
  | _ => false
  end.

Definition can_return_multiple_values (e : expr) : bool :=
  match e with
  | ECall _ _ _ | EUnary _ _ | EVarArgs => true
  | EBinary op _ _ => match op with BAnd | BOr => false | _ => true end
  | _ => false
  end.

Definition maybe_metatable (v : lv) : bool := match v with LUnknown => true | _ => false end.

Section SideEffects.
Variable pure_metamethods : bool.

Fixpoint has_side_effects (e : expr) : bool :=
  match e with
  | EFalse | EFunction _ | EIdent _ | ENil | ENumber _ | EString _ | ETrue | EVarArgs => false
  | EIf branches els =>
    (* if_expression_has_side_effects, with the first branch inlined as the Rust code does *)
    match branches with
    | [] => has_side_effects els
    | EBranch c r :: rest =>
      if has_side_effects c then true
      else match is_truthy (evaluate c) with
           | Some true => has_side_effects r
           | Some false =>
             (fix go (bs : list ebranch) : bool :=
                match bs with
                | [] => has_side_effects els
                | EBranch c' r' :: rest' =>
                  if has_side_effects c' then true
                  else match is_truthy (evaluate c') with
                       | Some true => has_side_effects r'
                       | Some false => go rest'
                       | None => if has_side_effects r' then true else go rest'
                       end
                end) rest
           | None =>
             if has_side_effects r then true
             else
               (fix go (bs : list ebranch) : bool :=
                  match bs with
                  | [] => has_side_effects els
                  | EBranch c' r' :: rest' =>
                    if has_side_effects c' || has_side_effects r' then true else go rest'
                  end) rest
           end
    end
  | EBinary op l r =>
    let lval := evaluate l in
    let lse := has_side_effects l in
    match op with
    | BAnd =>
      if match is_truthy lval with Some b => b | None => true end
      then lse || has_side_effects r else lse
    | BOr =>
      if match is_truthy lval with Some b => b | None => false end
      then lse else lse || has_side_effects r
    | _ =>
      if pure_metamethods then lse || has_side_effects r
      else maybe_metatable lval || maybe_metatable (evaluate r) || has_side_effects l || has_side_effects r
    end
  | EUnary op e' =>
    if pure_metamethods || match op with UNot => true | _ => false end then has_side_effects e'
    else maybe_metatable (evaluate e') || has_side_effects e'
  | EField p _ => negb pure_metamethods || has_side_effects p
  | EIndex p k => negb pure_metamethods || has_side_effects k || has_side_effects p
  | EParen e' => has_side_effects e'
  | ETable entries =>
    existsb (fun en => match en with
                       | TField _ v => has_side_effects v
                       | TIndex k v => has_side_effects k || has_side_effects v
                       | TValue v => has_side_effects v
                       end) entries
  | ECall _ _ _ => true
  | EInterp segs =>
    existsb (fun s => match s with
                      | ISStr _ => false
                      | ISExpr e' => has_side_effects e'
                                     || (negb pure_metamethods && maybe_metatable (evaluate e'))
                      end) segs
  | ETypeCast e' _ => has_side_effects e'
  | ETypeInst p _ => has_side_effects p
  end.

(* [has_side_effects] of the Rust code coincides with [has_side_effects] on the six
   prefix forms (EIdent, EField, EIndex, ECall, EParen, ETypeInst), which are the only
   trees a darklua [Prefix] can hold; the model therefore uses one function. *)

End SideEffects.
