(** Model of darklua's string-literal writer
    ([src/generator/utils.rs]: write_string, write_quoted, write_long_bracket,
    escape, get_quote_symbol) and the reference decoders it is proved against.

    Transcribed arm for arm from the Rust source; the tie to the code is the
    correspondence check of property C13 (harness command [c13]). *)
From DL Require Import Lib.Bytes.
Open Scope N_scope.

(** * UTF-8 (Rust [str::from_utf8] / [char::encode_utf8]) *)

Definition is_cont (b : N) : bool := (128 <=? b) && (b <=? 191).
Definition in_range (lo hi b : N) : bool := (lo <=? b) && (b <=? hi).

(** Strict UTF-8 decoding into code points (Unicode table 3-7, as Rust does):
    no overlong forms, no surrogates, nothing above U+10FFFF. *)
Fixpoint utf8_decode (s : bytes) : option (list N) :=
  match s with
  | [] => Some []
  | b0 :: t0 =>
    if b0 <? 128 then option_map (cons b0) (utf8_decode t0)
    else match t0 with
    | [] => None
    | b1 :: t1 =>
      if in_range 194 223 b0 then
        if is_cont b1 then option_map (cons ((b0 - 192) * 64 + (b1 - 128))) (utf8_decode t1)
        else None
      else match t1 with
      | [] => None
      | b2 :: t2 =>
        if in_range 224 239 b0 then
          if (if b0 =? 224 then in_range 160 191 b1
              else if b0 =? 237 then in_range 128 159 b1 else is_cont b1) && is_cont b2
          then option_map (cons ((b0 - 224) * 4096 + (b1 - 128) * 64 + (b2 - 128))) (utf8_decode t2)
          else None
        else match t2 with
        | [] => None
        | b3 :: t3 =>
          if in_range 240 244 b0 then
            if (if b0 =? 240 then in_range 144 191 b1
                else if b0 =? 244 then in_range 128 143 b1 else is_cont b1)
               && is_cont b2 && is_cont b3
            then option_map
                   (cons ((b0 - 240) * 262144 + (b1 - 128) * 4096 + (b2 - 128) * 64 + (b3 - 128)))
                   (utf8_decode t3)
            else None
          else None
        end
      end
    end
  end.

Definition utf8_encode (c : N) : bytes :=
  if c <? 128 then [c]
  else if c <? 2048 then [192 + c / 64; 128 + c mod 64]
  else if c <? 65536 then [224 + c / 4096; 128 + (c / 64) mod 64; 128 + c mod 64]
  else [240 + c / 262144; 128 + (c / 4096) mod 64; 128 + (c / 64) mod 64; 128 + c mod 64].

(** * The writer *)

Definition is_graphic (c : N) : bool := (33 <=? c) && (c <=? 126).
Definition needs_escaping (c : N) : bool := negb (is_graphic c || (c =? 32)) || (c =? 92).
Definition needs_quoted_string (c : N) : bool := negb (is_graphic c || (c =? 32) || (c =? 10)).

Definition pad3 (d : bytes) : bytes :=
  match d with
  | [a] => [48; 48; a]
  | [a; b] => [48; a; b]
  | _ => d
  end.

(** [escape c next_is_digit] *)
Definition escape (c : N) (next_digit : bool) : bytes :=
  if c =? 10 then [92; 110]         (* \n *)
  else if c =? 9 then [92; 116]     (* \t *)
  else if c =? 92 then [92; 92]     (* \\ *)
  else if c =? 13 then [92; 114]    (* \r *)
  else if c =? 7 then [92; 97]      (* \a *)
  else if c =? 8 then [92; 98]      (* \b *)
  else if c =? 11 then [92; 118]    (* \v *)
  else if c =? 12 then [92; 102]    (* \f *)
  else 92 :: (if next_digit then pad3 (dec_digits c) else dec_digits c).

Definition get_quote_symbol (s : bytes) : N :=
  if existsb (N.eqb 34) s then 39
  else if existsb (N.eqb 39) s then 34
  else 39.

(** lower-case hexadecimal rendering, as Rust's [{:x}] *)
Fixpoint hex_digits_fuel (fuel : nat) (n : N) (acc : bytes) : bytes :=
  match fuel with
  | O => acc
  | S f => if n <? 16 then hexdigit n :: acc
           else hex_digits_fuel f (n / 16) (hexdigit (n mod 16) :: acc)
  end.
Definition hex_digits (n : N) : bytes := hex_digits_fuel (S (N.to_nat (N.log2 n))) n [].

Definition next_is_digit_b (rest : bytes) : bool :=
  match rest with
  | [] => false
  | n :: _ => is_digit n
  end.

(** the byte loop of [write_quoted] (value is not valid UTF-8) *)
Fixpoint quote_bytes (q : N) (s : bytes) : bytes :=
  match s with
  | [] => []
  | c :: rest =>
    (if c =? q then [92; q]
     else if needs_escaping c then escape c (next_is_digit_b rest)
     else [c]) ++ quote_bytes q rest
  end.

(** the char loop of [write_quoted] (value is valid UTF-8, [cps] its code points).
    The look-ahead is [next_character.map(|c| c as u8)], i.e. the next code point
    truncated to its low 8 bits. *)
Definition next_is_digit_c (rest : list N) : bool :=
  match rest with
  | [] => false
  | n :: _ => is_digit (n mod 256)
  end.

Fixpoint quote_chars (q : N) (cps : list N) : bytes :=
  match cps with
  | [] => []
  | c :: rest =>
    (if c =? q then [92; q]
     else if (128 <=? c) || needs_escaping c then
       if c <? 128 then escape c (next_is_digit_c rest)
       else [92; 117; 123] ++ hex_digits c ++ [125]    (* \u{...} *)
     else [c]) ++ quote_chars q rest
  end.

Definition quoted_body (s : bytes) : bytes :=
  let q := get_quote_symbol s in
  match utf8_decode s with
  | Some cps => quote_chars q cps
  | None => quote_bytes q s
  end.

Definition write_quoted (s : bytes) : bytes :=
  let q := get_quote_symbol s in q :: quoted_body s ++ [q].

(** [write_long_bracket]: the level search.  [closer i] is "]" "="^i "]". *)
Definition closer (i : nat) : bytes := 93 :: repeat 61 i ++ [93].

(** "]" "="^i : a closer cut short by the end of the text (the literal's own closing
    bracket would complete it) *)
Definition half_closer (i : nat) : bytes := 93 :: repeat 61 i.

Fixpoint suffix_b (p s : bytes) : bool :=
  bytes_eqb p s || match s with [] => false | _ :: s' => suffix_b p s' end.

Fixpoint find_level (fuel : nat) (s : bytes) (i : nat) : nat :=
  match fuel with
  | O => i
  | S f => if find_sub (closer i) s || suffix_b (half_closer i) s
           then find_level f s (S i) else i
  end.

Definition long_bracket_level (s : bytes) : nat :=
  find_level (S (List.length s)) s (if ends_with_b s 93 then 1%nat else 0%nat).

Definition write_long_bracket (s : bytes) : option bytes :=
  match utf8_decode s with
  | None => None
  | Some _ =>
    let i := long_bracket_level s in
    let eqs := repeat 61 i in
    Some ([91] ++ eqs ++ [91]
          ++ (match s with 10 :: _ => [10] | _ => [] end)
          ++ s ++ [93] ++ eqs ++ [93])
  end.

Definition QUOTED_STRING_MAX_LENGTH : nat := 60.
Definition LONG_STRING_MIN_LENGTH : nat := 20.
Definition FORCE_LONG_STRING_NEW_LINE_THRESHOLD : nat := 6.

Definition write_string (s : bytes) : bytes :=
  match s with
  | [] => [39; 39]
  | [c] =>
    if c =? 39 then [34; 39; 34]
    else if c =? 34 then [39; 34; 39]
    else if needs_escaping c then [39] ++ escape c false ++ [39]
    else [39; c; 39]
  | _ =>
    if negb (existsb needs_quoted_string s)
       && Nat.leb LONG_STRING_MIN_LENGTH (List.length s)
       && (Nat.leb QUOTED_STRING_MAX_LENGTH (List.length s)
           || Nat.leb FORCE_LONG_STRING_NEW_LINE_THRESHOLD (count_b 10 s))
    then match write_long_bracket s with
         | Some t => t
         | None => write_quoted s
         end
    else write_quoted s
  end.

(** * Reference decoders (specification)

    [unescape luau q body]: decode the body of a quoted literal delimited by [q]
    by the escape rules of Luau ([luau = true]) or Lua 5.1 ([luau = false]).
    [None] when the body is not a well-formed literal body: an unescaped
    delimiter or raw newline, a malformed escape, or (5.1) an escape that 5.1 does
    not define.  One byte at a time, as a state machine. *)

Inductive ustate :=
| UNormal
| UEsc                       (* after a backslash *)
| UDec (v : N) (k : nat)     (* k decimal digits read so far, value v *)
| UHex (v : N) (k : nat)     (* \x : k hex digits read *)
| UBrace                     (* after \u *)
| UCode (v : N) (k : nat)    (* inside \u{ : k hex digits read *)
| USkip.                     (* \z : skipping whitespace *)

Definition is_hexdigit (c : N) : bool :=
  in_range 48 57 c || in_range 97 102 c || in_range 65 70 c.
Definition is_space (c : N) : bool := (c =? 32) || in_range 9 13 c.

Definition simple_escape (c : N) : option N :=
  if c =? 97 then Some 7 else if c =? 98 then Some 8 else if c =? 102 then Some 12
  else if c =? 110 then Some 10 else if c =? 114 then Some 13 else if c =? 116 then Some 9
  else if c =? 118 then Some 11 else if c =? 92 then Some 92 else if c =? 34 then Some 34
  else if c =? 39 then Some 39 else if c =? 10 then Some 10 else None.

Definition emit (c : list N) (r : option bytes) : option bytes := option_map (app c) r.

Fixpoint unescape_from (luau : bool) (q : N) (st : ustate) (s : bytes) : option bytes :=
  match s with
  | [] =>
    match st with
    | UNormal | USkip => Some []
    | UDec v _ => if v <? 256 then Some [v] else None
    | _ => None
    end
  | c :: rest =>
    let normal :=
      if c =? 92 then unescape_from luau q UEsc rest
      else if (c =? q) || (c =? 10) || (c =? 13) then None
      else emit [c] (unescape_from luau q UNormal rest) in
    match st with
    | UNormal => normal
    | USkip => if is_space c then unescape_from luau q USkip rest else normal
    | UEsc =>
      match simple_escape c with
      | Some v => emit [v] (unescape_from luau q UNormal rest)
      | None =>
        if is_digit c then unescape_from luau q (UDec (c - 48) 1) rest
        else if c =? 13 then emit [10] (unescape_from luau q UNormal rest)
        else if negb luau then None
        else if c =? 120 then unescape_from luau q (UHex 0 0) rest
        else if c =? 117 then unescape_from luau q UBrace rest
        else if c =? 122 then unescape_from luau q USkip rest
        else None
      end
    | UDec v k =>
      if is_digit c && Nat.ltb k 3 then unescape_from luau q (UDec (v * 10 + (c - 48)) (S k)) rest
      else if v <? 256 then emit [v] normal else None
    | UHex v k =>
      if is_hexdigit c then
        match k with
        | O => unescape_from luau q (UHex (unhexdigit c) 1) rest
        | _ => emit [v * 16 + unhexdigit c] (unescape_from luau q UNormal rest)
        end
      else None
    | UBrace => if c =? 123 then unescape_from luau q (UCode 0 0) rest else None
    | UCode v k =>
      if is_hexdigit c then
        let v' := v * 16 + unhexdigit c in
        if v' <=? 1114111 then unescape_from luau q (UCode v' (S k)) rest else None
      else if (c =? 125) && Nat.ltb 0 k then emit (utf8_encode v) (unescape_from luau q UNormal rest)
      else None
    end
  end.

Definition unescape (luau : bool) (q : N) (body : bytes) : option bytes :=
  unescape_from luau q UNormal body.

(** whole quoted literal: first byte is the delimiter, last byte closes it *)
Definition decode_quoted (luau : bool) (lit : bytes) : option bytes :=
  match lit with
  | q :: t =>
    if (q =? 34) || (q =? 39) then
      match rev t with
      | q' :: rbody => if q' =? q then unescape luau q (rev rbody) else None
      | [] => None
      end
    else None
  | [] => None
  end.

(** long bracket literal: [ =^n [ (optional first newline dropped) content ] =^n ],
    where the content ends at the FIRST occurrence of the closer. *)
Fixpoint strip_eqs (s : bytes) (n : nat) : nat * bytes :=
  match s with
  | 61 :: s' => strip_eqs s' (S n)
  | _ => (n, s)
  end.

(** [take_until_closer cl s]: the text before the first occurrence of [cl] and what
    follows that occurrence *)
Fixpoint take_until_closer (cl : bytes) (s : bytes) : option (bytes * bytes) :=
  if prefix_b cl s then Some ([], skipn (List.length cl) s)
  else match s with
       | [] => None
       | c :: s' => match take_until_closer cl s' with
                    | Some (a, b) => Some (c :: a, b)
                    | None => None
                    end
       end.

Definition decode_long (lit : bytes) : option (bytes * bytes) :=
  match lit with
  | 91 :: t =>
    let '(n, t1) := strip_eqs t 0 in
    match t1 with
    | 91 :: t2 =>
      let t3 := match t2 with
                | 13 :: 10 :: t' => t'
                | 10 :: 13 :: t' => t'
                | 10 :: t' => t'
                | 13 :: t' => t'
                | _ => t2
                end in
      take_until_closer (closer n) t3
    | _ => None
    end
  | _ => None
  end.

(** line breaks inside a long string are normalised by the reader: Luau turns CR LF into LF
    (a lone CR is kept); Lua 5.1 turns CR, CR LF and LF CR into one LF *)
Fixpoint norm_newlines (luau : bool) (s : bytes) : bytes :=
  match s with
  | [] => []
  | c :: r =>
    if c =? 13 then
      match r with
      | 10 :: r' => 10 :: norm_newlines luau r'
      | _ => (if luau then 13 else 10) :: norm_newlines luau r
      end
    else if c =? 10 then
      match r with
      | 13 :: r' => if luau then 10 :: norm_newlines luau r else 10 :: norm_newlines luau r'
      | _ => 10 :: norm_newlines luau r
      end
    else c :: norm_newlines luau r
  end.

(** decode any literal the writer may produce; the literal must be consumed entirely *)
Definition decode_literal (luau : bool) (lit : bytes) : option bytes :=
  match lit with
  | 91 :: _ => match decode_long lit with
               | Some (v, []) => Some (norm_newlines luau v)
               | _ => None
               end
  | _ => decode_quoted luau lit
  end.

(** a literal is 5.1-compatible when it has no escape 5.1 lacks; decided by decoding *)
Definition decodes_51 (lit : bytes) : bool :=
  match decode_literal false lit with Some _ => true | None => false end.

(** * Interpolated string segments ([write_interpolated_string_segment], Luau only)

    The literal part of a backtick string between two [{value}] holes: the same byte loop as
    [quote_bytes] with two delimiters, the backtick and the opening brace. *)
Fixpoint segment_bytes (s : bytes) : bytes :=
  match s with
  | [] => []
  | c :: rest =>
    (if (c =? 96) || (c =? 123) then [92; c]
     else if needs_escaping c then escape c (next_is_digit_b rest)
     else [c]) ++ segment_bytes rest
  end.

(** Reference reader of a segment: Luau reads the body of a backtick string with the escape rules
    of quoted strings; a raw backtick ends the string, a raw [{] opens a hole, and [\{] and
    backslash-backtick denote the brace and the backtick.  [seg_pre] rewrites the two extra
    escapes as decimal escapes and rejects a raw brace; the result is read by [unescape] with the
    backtick as delimiter (so a raw backtick or a raw line break is rejected there).  Stricter
    than Luau: [\u{...}] is rejected (darklua never writes it in a segment). *)
Fixpoint seg_pre (esc : bool) (s : bytes) : option bytes :=
  match s with
  | [] => if esc then Some [92] else Some []
  | c :: rest =>
    if esc then
      if c =? 123 then option_map (app [92; 49; 50; 51]) (seg_pre false rest)       (* \123 *)
      else if c =? 96 then option_map (app [92; 48; 57; 54]) (seg_pre false rest)   (* \096 *)
      else option_map (app [92; c]) (seg_pre false rest)
    else if c =? 92 then seg_pre true rest
    else if c =? 123 then None
    else option_map (cons c) (seg_pre false rest)
  end.

Definition decode_segment (body : bytes) : option bytes :=
  match seg_pre false body with
  | Some t => unescape true 96 t
  | None => None
  end.
