(** Executable glue for the C11 correspondence check: [collect] and [run_batch] of
    [Model/Batch.v] against what [darklua_core::process] did on memory resources.
    Definitions only. *)
From DL Require Import Lib.Bytes Model.WorkerFs Model.Batch.
Open Scope N_scope.

(** a path component transported as the hex of its UTF-8 bytes *)
Definition comp (h : string) : string := to_string (unhex h).

Fixpoint assoc_p {A} (l : list (path * A)) (p : path) : option A :=
  match l with
  | [] => None
  | (q, a) :: l' => if path_eqb q p then Some a else assoc_p l' p
  end.

(** the transformation replaced by the outcomes observed on the real run *)
Definition table_xform (tbl : list (path * option content)) (c : N) (q : path) (txt : content) (f : fs)
  : option content * list path :=
  match assoc_p tbl q with
  | Some r => (r, [])
  | None => (None, [["<table-miss>"%string]])
  end.

Definition bitem_eqb (a b : bitem) : bool := path_eqb (fst a) (fst b) && path_eqb (snd a) (snd b).

Definition subset_b {A} (eqb : A -> A -> bool) (a b : list A) : bool :=
  forallb (fun x => existsb (eqb x) b) a.
Definition same_set_b {A} (eqb : A -> A -> bool) (a b : list A) : bool :=
  subset_b eqb a b && subset_b eqb b a.

Definition opt_content_eqb (a b : option content) : bool :=
  match a, b with
  | Some x, Some y => bytes_eqb x y
  | None, None => true
  | _, _ => false
  end.

Record c11_case := mkCase {
  k_fs : fs;                                   (* the files before the run *)
  k_input : path;
  k_output : option path;
  k_items : option (list bitem);               (* observed work items; None = process failed *)
  k_fail_fast : bool;
  k_outcomes : list (path * option content);   (* observed result per source *)
  k_after : fs;                                (* the files after the run *)
  k_reported : list path                       (* the path named by each reported error *)
}.

Definition collect_ok (k : c11_case) : bool :=
  match collect (k_fs k) (k_input k) (k_output k), k_items k with
  | Some m, Some o => same_set_b bitem_eqb m o
  | None, None => true
  | _, _ => false
  end.

Definition run_ok (k : c11_case) : bool :=
  if k_fail_fast k then true
  else match collect (k_fs k) (k_input k) (k_output k) with
       | None => true
       | Some items =>
         let f' := fst (run_batch N (table_xform (k_outcomes k)) false 0 items (k_fs k)) in
         forallb (fun e => opt_content_eqb (fs_get f' (fst e)) (Some (snd e))) (k_after k)
         && forallb (fun e => opt_content_eqb (fs_get (k_after k) (fst e)) (fs_get f' (fst e))) f'
       end.

(** the error record of the model is keyed by the SOURCE of the failing item
    ([snd (run_batch ..)], see [C11_one_to_one]); the paths named by the real error messages
    must be exactly those sources *)
Definition reported_ok (k : c11_case) : bool :=
  if k_fail_fast k then true
  else match collect (k_fs k) (k_input k) (k_output k) with
       | None => true
       | Some items =>
         let st := snd (run_batch N (table_xform (k_outcomes k)) false 0 items (k_fs k)) in
         let failing := map fst (filter (fun e => negb (snd e)) st) in
         same_set_b path_eqb failing (k_reported k)
       end.

Definition c11_check (k : c11_case) : bool := collect_ok k && run_ok k && reported_ok k.
Definition c11_diag (k : c11_case) : string :=
  ((if collect_ok k then "collect=ok" else "collect=BAD") ++
   (if run_ok k then " run=ok" else " run=BAD") ++
   (if reported_ok k then " reported=ok" else " reported=BAD"))%string.
