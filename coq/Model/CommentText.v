(** C18 — model of the comment trivia built by the [append_text_comment] rule and the
    reference comment lexer it is proved against.

    Code under test (transcribed as it is):
    - [src/rules/append_text_comment.rs]: [AppendTextComment::text] (the [.map(|content| ...)]
      closure) and the shift amount [text.lines().count()] of [Rule::process];
    - [src/generator/token_based.rs]: [is_single_line_comment].
    The tie to the code is the correspondence stream of property C18 (harness [dl-c18 text]).

    Specification (written from the Lua 5.1 manual section 2.1 / the Luau lexer, not from
    darklua): [lex_comment]. *)
From DL Require Import Lib.Bytes.
Open Scope N_scope.
Local Notation length := List.length.

(** * Long brackets *)

(** "]" "="^n "]" *)
Definition long_closer (n : nat) : bytes := 93 :: repeat 61 n ++ [93].
(** "[" "="^n "[" *)
Definition long_opener (n : nat) : bytes := 91 :: repeat 61 n ++ [91].

(** * The rule: [AppendTextComment::text]  (as repaired by /repo commit d1a6e5c)

    [loop { let close_comment = format!("]{}]", "=".repeat(equal_count));
            let open_comment = format!("[{}[", "=".repeat(equal_count));
            if !content.contains(&close_comment) && !content.contains(&open_comment) { break close_comment; }
            equal_count += 1; }]
    The Rust loop has no bound; it stops at the latest when the brackets are longer than the
    content, so fuel [S (length content)] is never exhausted (proved: [comment_level_ok]). *)
Fixpoint find_level (fuel : nat) (content : bytes) (n : nat) : nat :=
  match fuel with
  | O => n
  | S f => if find_sub (long_closer n) content || find_sub (long_opener n) content
           then find_level f content (S n) else n
  end.

Definition comment_level (content : bytes) : nat := find_level (S (length content)) content 0.

Definition has_lf (s : bytes) : bool := existsb (N.eqb 10) s.
Definition has_cr (s : bytes) : bool := existsb (N.eqb 13) s.

Fixpoint skip_eqs (s : bytes) : bytes :=
  match s with
  | 61 :: s' => skip_eqs s'
  | _ => s
  end.

(** [starts_with_long_bracket]: [content.strip_prefix('[').map(|rest| rest.trim_start_matches('=').starts_with('['))] *)
Definition starts_with_long_bracket (content : bytes) : bool :=
  match content with
  | 91 :: rest =>
    match skip_eqs rest with
    | 91 :: _ => true
    | _ => false
    end
  | _ => false
  end.

(** the long-comment form is used when a line comment cannot hold the text:
    [content.contains(['\n', '\r']) || starts_with_long_bracket(&content)] *)
Definition block_form (content : bytes) : bool :=
  has_lf content || has_cr content || starts_with_long_bracket content.

(** [if content.is_empty() { "" } else if block_form { "--[=*[\n{content}\n]=*]" } else { "--{content}" }].
    The empty result means "the rule does nothing". *)
Definition comment_of (content : bytes) : bytes :=
  match content with
  | [] => []
  | _ =>
    if block_form content then
      let n := comment_level content in
      [45; 45] ++ long_opener n ++ [10] ++ content ++ [10] ++ long_closer n
    else [45; 45] ++ content
  end.

(** Rust [str::lines().count()]: pieces ended by LF, plus a last non-empty piece without LF. *)
Fixpoint lines_count_aux (s : bytes) (pending : bool) : nat :=
  match s with
  | [] => if pending then 1%nat else 0%nat
  | c :: s' => if c =? 10 then S (lines_count_aux s' false) else lines_count_aux s' true
  end.
Definition lines_count (s : bytes) : nat := lines_count_aux s false.

(** [ShiftTokenLine::new(text.lines().count())] for location [start] *)
Definition shift_amount (content : bytes) : nat := lines_count (comment_of content).

Definition count_lf (s : bytes) : nat := count_b 10 s.

(** what location [start] puts in front of the first token: the comment trivia and the
    whitespace trivia "\n" ([AppendLocation::append_comment]) *)
Definition start_insertion (content : bytes) : bytes :=
  match comment_of content with
  | [] => []
  | c => c ++ [10]
  end.

(** * The generator's classifier: [is_single_line_comment]
    (as repaired by /repo commit fc507f0: a long comment is recognised only by a well-formed
    opening bracket)

    [let is_multiline_comment = content.strip_prefix("--[")
         .map(|rest| rest.trim_start_matches('=').starts_with('[')).unwrap_or(false);
     !is_multiline_comment] *)
Definition is_multiline_comment (content : bytes) : bool :=
  match content with
  | 45 :: 45 :: 91 :: rest =>
    match skip_eqs rest with
    | 91 :: _ => true
    | _ => false
    end
  | _ => false
  end.

Definition is_single_line_comment (content : bytes) : bool := negb (is_multiline_comment content).

(** * Reference comment lexer (specification)

    A comment starts with "--".  If a long-bracket opener "[" "="^n "[" follows immediately,
    the comment is long and ends with the first closer "]" "="^n "]"; [None] when there is
    none (Lua: "unfinished long comment").  Otherwise it is short and runs up to, not
    including, the next LF or CR, or to the end of the text (PUC-Rio [llex.c]:
    [while (!currIsNewline(ls) && ls->current != EOZ)], [currIsNewline] = LF or CR; Luau
    [Lexer.cpp] stops at CR and LF as well).
    [lex_comment s] = number of bytes of [s] that the comment at its head consumes. *)
Fixpoint count_eqs (s : bytes) (n : nat) : nat * bytes :=
  match s with
  | 61 :: s' => count_eqs s' (S n)
  | _ => (n, s)
  end.

Definition long_open (s : bytes) : option (nat * bytes) :=
  match s with
  | 91 :: t =>
    let '(n, t1) := count_eqs t 0 in
    match t1 with
    | 91 :: t2 => Some (n, t2)
    | _ => None
    end
  | _ => None
  end.

(** index just after the first occurrence of [cl] in [s] *)
Fixpoint find_end (cl s : bytes) : option nat :=
  if prefix_b cl s then Some (length cl)
  else match s with
       | [] => None
       | _ :: s' => option_map S (find_end cl s')
       end.

Definition is_eol (c : N) : bool := (c =? 10) || (c =? 13).

Fixpoint line_len (s : bytes) : nat :=
  match s with
  | [] => 0%nat
  | c :: s' => if is_eol c then 0%nat else S (line_len s')
  end.

Definition lex_comment (s : bytes) : option nat :=
  match s with
  | 45 :: 45 :: t =>
    match long_open t with
    | Some (n, body) =>
      option_map (fun k => (2 + (n + 2) + k)%nat) (find_end (long_closer n) body)
    | None => Some (2 + line_len t)%nat
    end
  | _ => None
  end.

(** Lua 5.1 (PUC-Rio [llex.c], [LUA_COMPAT_LSTR = 1], the default build) additionally rejects a
    level-0 long bracket whose content holds a nested "[[" ("nesting of [[...]] is deprecated") *)
Definition lex_comment51 (s : bytes) : option nat :=
  match s with
  | 45 :: 45 :: t =>
    match long_open t with
    | Some (n, body) =>
      match find_end (long_closer n) body with
      | Some k =>
        if Nat.eqb n 0 && find_sub [91; 91] (firstn (k - 2) body) then None
        else Some (2 + (n + 2) + k)%nat
      | None => None
      end
    | None => Some (2 + line_len t)%nat
    end
  | _ => None
  end.

(** what may follow a short comment in the generated file: nothing, or a line break (the
    generator's [uncomment] / the "\n" trivia of location [start]) *)
Definition line_follow (follow : bytes) : bool :=
  match follow with
  | [] => true
  | c :: _ => is_eol c
  end.

(** * Trivia filters of [src/nodes/token.rs] on a token's trivia lists *)

Inductive trivia_kind := TComment | TWhitespace.

Definition trivia_kind_eqb (a b : trivia_kind) : bool :=
  match a, b with
  | TComment, TComment | TWhitespace, TWhitespace => true
  | _, _ => false
  end.

(** a token as far as these rules are concerned: an opaque code part [A] (its position /
    content, never touched by the filters) and the two trivia lists; a trivia is its kind and
    its text *)
Record ttoken (A : Type) := mk_ttoken {
  tt_code : A;
  tt_leading : list (trivia_kind * bytes);
  tt_trailing : list (trivia_kind * bytes)
}.
Arguments mk_ttoken {A}.
Arguments tt_code {A}.
Arguments tt_leading {A}.
Arguments tt_trailing {A}.

(** [Token::filter_comments(filter)]: [retain(|t| t.kind() != Comment || filter(t))] *)
Definition keep_trivia (keep : bytes -> bool) (t : trivia_kind * bytes) : bool :=
  negb (trivia_kind_eqb (fst t) TComment) || keep (snd t).

Definition filter_comments {A} (keep : bytes -> bool) (t : ttoken A) : ttoken A :=
  mk_ttoken (tt_code t) (filter (keep_trivia keep) (tt_leading t))
            (filter (keep_trivia keep) (tt_trailing t)).

(** [Token::clear_comments] / [Token::clear_whitespaces] *)
Definition clear_kind {A} (k : trivia_kind) (t : ttoken A) : ttoken A :=
  let f := fun tr : trivia_kind * bytes => negb (trivia_kind_eqb (fst tr) k) in
  mk_ttoken (tt_code t) (filter f (tt_leading t)) (filter f (tt_trailing t)).

Definition clear_comments {A} := @clear_kind A TComment.
Definition clear_whitespaces {A} := @clear_kind A TWhitespace.

(** [AppendLocation::append_comment] *)
Definition insert_at {T} (i : nat) (x : T) (l : list T) : list T :=
  if Nat.ltb (length l) i then l ++ [x] else firstn i l ++ x :: skipn i l.

Definition append_start {A} (comment : bytes) (t : ttoken A) : ttoken A :=
  mk_ttoken (tt_code t)
            (insert_at 1 (TWhitespace, [10]) (insert_at 0 (TComment, comment) (tt_leading t)))
            (tt_trailing t).

Definition append_end {A} (comment : bytes) (t : ttoken A) : ttoken A :=
  mk_ttoken (tt_code t) (tt_leading t) (tt_trailing t ++ [(TComment, comment)]).

(** observations on a token sequence *)
Definition trivia_of {A} (t : ttoken A) : list (trivia_kind * bytes) := tt_leading t ++ tt_trailing t.
Definition code_tokens {A} (l : list (ttoken A)) : list A := map tt_code l.
Definition is_comment (t : trivia_kind * bytes) : bool := trivia_kind_eqb (fst t) TComment.
Definition comments_of {A} (l : list (ttoken A)) : list bytes :=
  map snd (filter is_comment (flat_map trivia_of l)).
Definition whitespaces_of {A} (l : list (ttoken A)) : list bytes :=
  map snd (filter (fun t => negb (is_comment t)) (flat_map trivia_of l)).
