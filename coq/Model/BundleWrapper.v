(** The code the bundler emits around a module, as MiniLua
    (src/rules/bundle/path_require_mode/module_definitions.rs: BuildModuleDefinitions::apply,
    build_modules_table).  No proofs here (Proof/BundleWrapper*.v).

      local <M> = { cache = {} :: any }
      do
        do
          local function __modImpl() <body of the module> end
          function <M>.<name>(): typeof(__modImpl())
            local v = <M>.cache.<name>
            if not v then
              v = { c = __modImpl() }
              <M>.cache.<name> = v
            end
            return v.c
          end
        end
        ...
      end
      <entry, every inlined require replaced by <M>.<name>()>

    [wrapper_ok] recognises this prefix in a written bundle (vlib/c05.py checks it on every
    real bundle, so that the theorems about [accessor] speak about the emitted code). *)
From Coq Require Import NArith List Bool String.
From DL Require Import Lib.Bytes Lua.Syntax Lua.Fingerprint.
Import ListNotations.
Open Scope N_scope.

Definition s_cache : name := of_string "cache".
Definition s_c : name := of_string "c".
Definition s_v : name := of_string "v".
Definition s_impl : name := of_string "__modImpl".

Definition impl_call : expr := ECall (EIdent s_impl) None (ATuple []).

(** `<M>.cache.<name>` *)
Definition cache_slot (M nm : name) : expr := EField (EField (EIdent M) s_cache) nm.

Definition accessor_block (M nm : name) : block :=
  Block
    [ SLocal false [Param s_v None] [cache_slot M nm];
      SIf [ SBranch (EUnary UNot (EIdent s_v))
                    (Block [ SAssign [EIdent s_v] [ETable [TField s_c impl_call]];
                             SAssign [cache_slot M nm] [EIdent s_v] ] None) ] None ]
    (Some (LReturn [EField (EIdent s_v) s_c])).

(** `typeof(__modImpl())`: kind 8 of astdump's type nodes *)
Definition accessor_return_type : ty := TyNode 8 [] [impl_call].

Definition accessor (M nm : name) : fbody :=
  FBody [] false None (Some accessor_return_type) None 0 (accessor_block M nm).

Definition impl (body : block) : fbody := FBody [] false None None None 0 body.

Definition module_def (M nm : name) (body : block) : stmt :=
  SDo (Block [ SLocalFunction s_impl (impl body); SFunction M [nm] None (accessor M nm) ] None).

(** `local <M> = { cache = {} :: any }` (`any`: kind 0) *)
Definition modules_table (M : name) : stmt :=
  SLocal false [Param M None] [ETable [TField s_cache (ETypeCast (ETable []) (TyNode 0 [] []))]].

(** one emitted definition is [module_def M nm body] for its own name and body *)
Definition def_ok (M : name) (st : stmt) : bool :=
  match st with
  | SDo (Block [SLocalFunction _ (FBody _ _ _ _ _ _ body); SFunction _ [nm] _ _] None) =>
    stmt_eqb st (module_def M nm body)
  | _ => false
  end.

(** the bundle is: type declarations, the modules table, one `do` block of definitions, the entry *)
Fixpoint wrapper_ok_from (M : name) (ss : list stmt) : bool :=
  match ss with
  | STypeDecl _ _ _ _ :: rest => wrapper_ok_from M rest
  | tbl :: SDo (Block defs None) :: _ => stmt_eqb tbl (modules_table M) && forallb (def_ok M) defs
  | _ => false
  end.

Definition wrapper_ok (M : name) (b : block) : bool :=
  match b with Block ss _ => wrapper_ok_from M ss end.

(** names of the definitions, in order *)
Definition def_name (st : stmt) : name :=
  match st with
  | SDo (Block [_; SFunction _ [nm] _ _] None) => nm
  | _ => []
  end.
