(** Decidable classes of input programs on which remove_assertions / remove_debug_profiling are
    KNOWN not to behave like the reference program (recorded findings of property C17,
    known_findings.txt).  The check of vlib/c17.py uses them to attribute a behavioural
    difference it has FOUND to a recorded finding; they are deliberately syntactic (no scope
    tracking: a shadowed [assert] is also counted, which can only mis-attribute a difference on a
    program that has the shape anyway).

    [k_nested]  (key remove_call:directly-nested-removed-call-survives): a removed call whose
                replacement IS a removable call of the same rule: a call statement with exactly
                one kept argument that (under parentheses / casts) is such a call; [assert(e)] in
                expression position with [e] itself an [assert] call.
    [k_tail]    (key remove_call:removed-call-in-multivalue-tail-yields-one-nil): a
                [debug.profilebegin/profileend] call, or [assert()] without arguments, as the LAST
                expression of a return list, an argument tuple or a table constructor (positions
                where the number of values is observable). *)
From Coq Require Import NArith List Bool.
From DL Require Import Lib.Bytes Lua.Syntax Model.Removal.
Import ListNotations.
Open Scope N_scope.

Definition is_assert_call (e : expr) : bool :=
  match e with
  | ECall (EIdent x) None _ => bytes_eqb x nm_assert
  | _ => false
  end.

Definition is_profile_call (e : expr) : bool :=
  match e with
  | ECall (EField (EIdent x) f) None _ =>
    bytes_eqb x nm_debug && (bytes_eqb f nm_profilebegin || bytes_eqb f nm_profileend)
  | _ => false
  end.

Definition call_args (e : expr) : args :=
  match e with ECall _ _ a => a | _ => ATuple [] end.

(** the node itself: is it a removed call that leaves a removable call in its place? *)
Definition nested_stmt_here (c : expr) : bool :=
  let one_kept (target : expr -> bool) :=
      match preserve_args (call_args c) with
      | [e] => target (inner_expr e)
      | _ => false
      end in
  (is_assert_call c && one_kept is_assert_call) || (is_profile_call c && one_kept is_profile_call).

Definition nested_expr_here (e : expr) : bool :=
  is_assert_call e &&
  match args_exprs (call_args e) with
  | [e'] => is_assert_call e'
  | _ => false
  end.

Definition tail_here (e : expr) : bool :=
  is_profile_call e ||
  (is_assert_call e && match args_exprs (call_args e) with [] => true | _ => false end).

Definition last_is {A} (f : A -> bool) (l : list A) : bool :=
  match rev l with x :: _ => f x | [] => false end.

Section Find.
(** [pe]: fires on an expression node; [pl]: fires on the last expression of a multi-value list;
    [ps]: fires on the call of a call statement *)
Variable pe : expr -> bool.
Variable pl : expr -> bool.
Variable ps : expr -> bool.

Definition optb {A} (f : A -> bool) (o : option A) : bool :=
  match o with Some a => f a | None => false end.

Fixpoint f_ty (t : ty) : bool :=
  match t with TyNode _ subs es => existsb f_ty subs || existsb f_expr es end

with f_expr (e : expr) : bool :=
  pe e ||
  match e with
  | ENil | ETrue | EFalse | ENumber _ | EString _ | EVarArgs | EIdent _ => false
  | EInterp segs => existsb f_iseg segs
  | EField p _ => f_expr p
  | EIndex p k => f_expr p || f_expr k
  | ECall p _ a => f_expr p || f_args a
  | EFunction f => f_fbody f
  | EIf bs els => existsb f_ebranch bs || f_expr els
  | EParen e' => f_expr e'
  | ETable entries =>
    existsb f_tentry entries || last_is (fun t => match t with TValue v => pl v | _ => false end) entries
  | EUnary _ e' => f_expr e'
  | EBinary _ l r => f_expr l || f_expr r
  | ETypeCast e' t => f_expr e' || f_ty t
  | ETypeInst p tys => f_expr p || existsb f_ty tys
  end

with f_iseg (s : iseg) : bool :=
  match s with ISStr _ => false | ISExpr e => f_expr e end

with f_ebranch (b : ebranch) : bool :=
  match b with EBranch c r => f_expr c || f_expr r end

with f_args (a : args) : bool :=
  match a with
  | ATuple es => existsb f_expr es || last_is pl es
  | AString _ => false
  | ATable entries =>
    existsb f_tentry entries || last_is (fun t => match t with TValue v => pl v | _ => false end) entries
  end

with f_tentry (t : tentry) : bool :=
  match t with
  | TField _ v => f_expr v
  | TIndex k v => f_expr k || f_expr v
  | TValue v => f_expr v
  end

with f_fbody (f : fbody) : bool :=
  match f with
  | FBody ps' _ vt rt _ _ body => f_block body || existsb f_param ps' || optb f_ty vt || optb f_ty rt
  end

with f_param (p : param) : bool :=
  match p with Param _ t => optb f_ty t end

with f_stmt (s : stmt) : bool :=
  match s with
  | SAssign vars vals => existsb f_expr vars || existsb f_expr vals
  | SDo b => f_block b
  | SCall c => ps c || match c with ECall p _ a => f_expr p || f_args a | _ => f_expr c end
  | SCompound _ var v => f_expr var || f_expr v
  | SFunction _ _ _ f => f_fbody f
  | SGenericFor vars es b => existsb f_expr es || f_block b || existsb f_param vars
  | SIf bs els => existsb f_sbranch bs || optb f_block els
  | SLocal _ vars vals => existsb f_expr vals || existsb f_param vars
  | SLocalFunction _ f => f_fbody f
  | SNumericFor var a b step body => f_expr a || f_expr b || optb f_expr step || f_block body || f_param var
  | SRepeat b c => f_expr c || f_block b
  | SWhile c b => f_expr c || f_block b
  | STypeDecl _ _ gen t => optb f_ty gen || f_ty t
  | STypeFunction _ _ f => f_fbody f
  end

with f_sbranch (b : sbranch) : bool :=
  match b with SBranch c body => f_expr c || f_block body end

with f_block (b : block) : bool :=
  match b with Block stmts last => existsb f_stmt stmts || optb f_last last end

with f_last (l : laststmt) : bool :=
  match l with
  | LBreak | LContinue => false
  | LReturn es => existsb f_expr es || last_is pl es
  end.

End Find.

Definition k_nested (b : block) : bool :=
  f_block nested_expr_here (fun _ => false) nested_stmt_here b.

Definition k_tail (b : block) : bool :=
  f_block (fun _ => false) tail_here (fun _ => false) b.

(** 0 = none, 1 = nested, 2 = tail, 3 = both *)
Definition known_class (b : block) : N :=
  (if k_nested b then 1 else 0) + (if k_tail b then 2 else 0).
