(** Models of the removal / injection rules of darklua (property C17) and of the helpers they
    share with convert_square_root_call (C16):

      src/utils/preserve_arguments_side_effects.rs   [preserve_args]
      src/utils/expressions_as_statement.rs          [inner_expr], [expressions_as_statement],
                                                     [expressions_as_expression]
      src/process/scope_visitor.rs                   [ScopeVisitor] + [IdentifierTracker]:
                                                     the traversal [sv_*] below
      src/rules/remove_call_match.rs                 [RemoveFunctionCallProcessor]: [rc_stmt], [rc_expr]
      src/rules/remove_assertions.rs                 [assert_matches], [assert_result], [rule_remove_assertions]
      src/rules/remove_debug_profiling.rs            [profile_matches], [rule_remove_debug_profiling]
      src/rules/inject_value.rs                      [inject_expr], [inject_prefix], [rule_inject_global_value]
      src/rules/rule_property.rs                     [RulePropertyValue] (untagged) + [into_expression]:
                                                     [json], [value_expr]

    The code is modelled AS IT IS.  In particular:
    - the visitor calls [process_statement] / [process_expression] on a node ONCE and then visits
      the children of the node that is there afterwards; the node a hook puts in place is not
      handed to the hook again.  So in [assert(assert(x))] only the outer call is removed (the
      inner call becomes the node itself) - a behaviour the property does not allow; see the
      report / known findings;
    - [expressions_as_statement] introduces [local _ = ...] (and the tracker then knows [_]);
    - the [select] reservation of remove_assertions is a piece of processor STATE: a matched call
      in expression position at a place where [select] is shadowed makes every LATER (in visit
      order) [assert(a, b, ...)] use [__DARKLUA_REMOVE_CALL_RESERVED_1], and a declaration of that
      name is put in front of the chunk.  The traversal therefore threads one boolean in the exact
      visit order of [ScopeVisitor].

    Scope.  [IdentifierTracker] is a stack of sets; [is_identifier_used] asks whether a name is in
    ANY open set.  Since sets are only ever added to the innermost scope and scopes are popped in
    LIFO order, the tracker is modelled by the list [sc] of all names in open scopes, passed down
    functionally ([push]/[pop] = entering / leaving a function call of the model).

    Left out (stated in the properties' assumptions):
    - [const function f() end] (the tree has no flag for it), method type instantiations;
    - inject_global_value: the [env] / [env_json] / [default_value] properties (the value comes
      from the process environment); [value] objects that deserialise as a RequireMode
      (known finding of C19);
    - the order in which the children of ONE Luau type node are visited matters only if two
      [typeof(...)] inside one type both hold matched calls under a shadowed [select]: the model
      visits sub-types in tree order, then embedded expressions.

    On fuel exhaustion a node is returned unchanged; [sv_fuel] gives more than the depth of any
    tree these rules can produce (each rewrite at a node adds at most 3 levels per kept argument,
    respectively the depth of the injected value). *)
From Coq Require Import ZArith NArith List Bool.
From Coq Require Import Floats.SpecFloat.
From DL Require Import Lib.Bytes Lib.F64 Lua.Syntax Lua.DataSpec Model.Evaluator Model.Visit.
From DL Require Model.Serializer Model.DefaultRules.
Import ListNotations.
Open Scope N_scope.

Definition hse : expr -> bool := has_side_effects false.       (* [Evaluator::default()] *)

Definition nm_underscore : name := [95].
Definition nm_assert : name := of_string "assert".
Definition nm_select : name := of_string "select".
Definition nm_debug : name := of_string "debug".
Definition nm_profilebegin : name := of_string "profilebegin".
Definition nm_profileend : name := of_string "profileend".
Definition nm_G : name := of_string "_G".
Definition nm_self : name := of_string "self".
Definition nm_reserved1 : name := of_string "__DARKLUA_REMOVE_CALL_RESERVED_1".

Definition in_scope (x : name) (sc : list name) : bool := existsb (bytes_eqb x) sc.

(** * utils/preserve_arguments_side_effects.rs *)

Definition keep_if_effect (e : expr) : list expr := if hse e then [e] else [].

Definition preserve_entry (t : tentry) : list expr :=
  match t with
  | TField _ v => keep_if_effect v
  | TIndex k v => keep_if_effect k ++ keep_if_effect v
  | TValue v => keep_if_effect v
  end.

Definition preserve_args (a : args) : list expr :=
  match a with
  | ATuple es => filter hse es
  | ATable entries => flat_map preserve_entry entries
  | AString _ => []
  end.

(** * utils/expressions_as_statement.rs *)

(** [get_inner_expression] *)
Fixpoint inner_expr (e : expr) : expr :=
  match e with
  | EParen e' => inner_expr e'
  | ETypeCast e' _ => inner_expr e'
  | _ => e
  end.

(** the loop of [expressions_as_statement]; [acc] is the vector of statements, most recent first *)
Fixpoint eas_go (acc : list stmt) (es : list expr) : list stmt :=
  match es with
  | [] => rev acc
  | v :: rest =>
    match inner_expr v with
    | ECall p m a => eas_go (SCall (ECall p m a) :: acc) rest
    | v' =>
      match acc with
      | SLocal k vars vals :: acc' => eas_go (SLocal k vars (vals ++ [v']) :: acc') rest
      | _ => eas_go (SLocal false [Param nm_underscore None] [v'] :: acc) rest
      end
    end
  end.

Definition expressions_as_statement (es : list expr) : stmt :=
  match eas_go [] es with
  | [s] => s
  | ss => SDo (Block ss None)
  end.

(** [rfold] from [nil]: [(e1 or true) and ((e2 or true) and nil)] *)
Definition expressions_as_expression (es : list expr) : expr :=
  fold_right (fun v cur => EBinary BAnd (EBinary BOr v ETrue) cur) ENil es.

(** [Arguments::to_expressions] *)
Definition args_exprs (a : args) : list expr :=
  match a with
  | ATuple es => es
  | AString s => [EString s]
  | ATable entries => [ETable entries]
  end.

(** * process/scope_visitor.rs: [ScopeVisitor] with an [IdentifierTracker] processor *)

(** the three callbacks the modelled processors override; [bool] = the processor's state
    ("[select] has been reserved"), which only [process_expression] changes *)
Record shooks := mkSHooks {
  sh_expr : list name -> bool -> expr -> expr * bool;      (* process_expression *)
  sh_prefix : list name -> expr -> expr;                   (* process_prefix_expression *)
  sh_stmt : list name -> stmt -> stmt;                     (* process_statement *)
}.

Section Thread.
Context {A S : Type}.
Variable f : S -> A -> A * S.
Fixpoint map_st (st : S) (l : list A) : list A * S :=
  match l with
  | [] => ([], st)
  | x :: r =>
    let (x', st1) := f st x in
    let (r', st2) := map_st st1 r in
    (x' :: r', st2)
  end.
Definition opt_st (st : S) (o : option A) : option A * S :=
  match o with
  | None => (None, st)
  | Some a => let (a', st1) := f st a in (Some a', st1)
  end.
End Thread.

(** statements of a block: the scope grows along the list *)
Fixpoint thread_stmts (f : list name -> bool -> stmt -> stmt * list name * bool)
         (sc : list name) (st : bool) (l : list stmt) : list stmt * list name * bool :=
  match l with
  | [] => ([], sc, st)
  | x :: r =>
    let '(x', sc1, st1) := f sc st x in
    let '(r', sc2, st2) := thread_stmts f sc1 st1 r in
    (x' :: r', sc2, st2)
  end.

Section Kids.
(** visitors of one fuel level, in a fixed scope *)
Variable ve : bool -> expr -> expr * bool.        (* expression position *)
Variable vp : bool -> expr -> expr * bool.        (* prefix position *)
Variable vt : bool -> ty -> ty * bool.
Variable vf : bool -> fbody -> fbody * bool.      (* function expression *)

Definition k_tentry (st : bool) (t : tentry) : tentry * bool :=
  match t with
  | TField f v => let (v', s1) := ve st v in (TField f v', s1)
  | TIndex k v => let (k', s1) := ve st k in let (v', s2) := ve s1 v in (TIndex k' v', s2)
  | TValue v => let (v', s1) := ve st v in (TValue v', s1)
  end.

Definition k_args (st : bool) (a : args) : args * bool :=
  match a with
  | ATuple es => let (es', s1) := map_st ve st es in (ATuple es', s1)
  | AString _ => (a, st)
  | ATable entries => let (en', s1) := map_st k_tentry st entries in (ATable en', s1)
  end.

Definition k_iseg (st : bool) (s : iseg) : iseg * bool :=
  match s with
  | ISStr _ => (s, st)
  | ISExpr e => let (e', s1) := ve st e in (ISExpr e', s1)
  end.

Definition k_ebranch (st : bool) (b : ebranch) : ebranch * bool :=
  match b with
  | EBranch c r => let (c', s1) := ve st c in let (r', s2) := ve s1 r in (EBranch c' r', s2)
  end.

(** the children of an expression node, in the order of [NodeVisitor::visit_*] *)
Definition k_expr (st : bool) (e : expr) : expr * bool :=
  match e with
  | ENil | ETrue | EFalse | ENumber _ | EString _ | EVarArgs | EIdent _ => (e, st)
  | EInterp segs => let (s', s1) := map_st k_iseg st segs in (EInterp s', s1)
  | EField p f => let (p', s1) := vp st p in (EField p' f, s1)
  | EIndex p k => let (p', s1) := vp st p in let (k', s2) := ve s1 k in (EIndex p' k', s2)
  | ECall p m a => let (p', s1) := vp st p in let (a', s2) := k_args s1 a in (ECall p' m a', s2)
  | EFunction f => let (f', s1) := vf st f in (EFunction f', s1)
  | EIf bs els =>
    let (bs', s1) := map_st k_ebranch st bs in
    let (els', s2) := ve s1 els in (EIf bs' els', s2)
  | EParen e' => let (x, s1) := ve st e' in (EParen x, s1)
  | ETable entries => let (en', s1) := map_st k_tentry st entries in (ETable en', s1)
  | EUnary op e' => let (x, s1) := ve st e' in (EUnary op x, s1)
  | EBinary op l r => let (l', s1) := ve st l in let (r', s2) := ve s1 r in (EBinary op l' r', s2)
  | ETypeCast e' t => let (x, s1) := ve st e' in let (t', s2) := vt s1 t in (ETypeCast x t', s2)
  | ETypeInst p tys => let (p', s1) := vp st p in let (t', s2) := map_st vt s1 tys in (ETypeInst p' t', s2)
  end.

Definition k_param (st : bool) (p : param) : param * bool :=
  match p with
  | Param x t => let (t', s1) := opt_st vt st t in (Param x t', s1)
  end.

Definition k_last (st : bool) (l : laststmt) : laststmt * bool :=
  match l with
  | LBreak | LContinue => (l, st)
  | LReturn es => let (es', s1) := map_st ve st es in (LReturn es', s1)
  end.
End Kids.

Section Scoped.
Variable H : shooks.

Fixpoint sv_expr (n : nat) (sc : list name) (st : bool) (e : expr) {struct n} : expr * bool :=
  match n with
  | O => (e, st)
  | S n' =>
    let (e1, st1) := sh_expr H sc st e in
    k_expr (sv_expr n' sc) (sv_prefix n' sc) (sv_ty n' sc) (sv_fbody n' sc false) st1 e1
  end

with sv_prefix (n : nat) (sc : list name) (st : bool) (e : expr) {struct n} : expr * bool :=
  match n with
  | O => (e, st)
  | S n' =>
    let (e1, st1) := if is_prefix_form e then (sh_prefix H sc e, st) else sh_expr H sc st e in
    k_expr (sv_expr n' sc) (sv_prefix n' sc) (sv_ty n' sc) (sv_fbody n' sc false) st1 e1
  end

(** variable position ([visit_variable]) and the call of a call statement
    ([visit_function_call]): no hook on the node itself *)
with sv_nohook (n : nat) (sc : list name) (st : bool) (e : expr) {struct n} : expr * bool :=
  match n with
  | O => (e, st)
  | S n' => k_expr (sv_expr n' sc) (sv_prefix n' sc) (sv_ty n' sc) (sv_fbody n' sc false) st e
  end

with sv_ty (n : nat) (sc : list name) (st : bool) (t : ty) {struct n} : ty * bool :=
  match n with
  | O => (t, st)
  | S n' =>
    match t with
    | TyNode kind subs es =>
      let (subs', s1) := map_st (sv_ty n' sc) st subs in
      let (es', s2) := map_st (sv_expr n' sc) s1 es in
      (TyNode kind subs' es', s2)
    end
  end

(** [visit_function_expression] / the function part of [visit_function_statement] and
    [visit_local_function]: parameter types, variadic type, return type in the OUTER scope, then
    the body with [self] (method definitions) and the parameters in scope *)
with sv_fbody (n : nat) (sc : list name) (with_self : bool) (st : bool) (f : fbody) {struct n}
     : fbody * bool :=
  match n with
  | O => (f, st)
  | S n' =>
    match f with
    | FBody ps variadic vartype ret gen attrs body =>
      let (ps', s1) := map_st (k_param (sv_ty n' sc)) st ps in
      let (vt', s2) := opt_st (sv_ty n' sc) s1 vartype in
      let (rt', s3) := opt_st (sv_ty n' sc) s2 ret in
      let sc' := map param_name ps ++ (if with_self then [nm_self] else []) ++ sc in
      let '(body', _, s4) := sv_block n' sc' s3 body in
      (FBody ps' variadic vt' rt' gen attrs body', s4)
    end
  end

(** a statement; returns the scope after it *)
with sv_stmt (n : nat) (sc : list name) (st : bool) (s : stmt) {struct n} : stmt * list name * bool :=
  match n with
  | O => (s, sc, st)
  | S n' =>
    let ve := sv_expr n' in
    let blk (sc : list name) (st : bool) (b : block) : block * bool :=
        let '(b', _, s1) := sv_block n' sc st b in (b', s1) in
    match sh_stmt H sc s with
    | SAssign vars vals =>
      let (vars', s1) := map_st (sv_nohook n' sc) st vars in
      let (vals', s2) := map_st (ve sc) s1 vals in
      (SAssign vars' vals', sc, s2)
    | SDo b => let (b', s1) := blk sc st b in (SDo b', sc, s1)
    | SCall c => let (c', s1) := sv_nohook n' sc st c in (SCall c', sc, s1)
    | SCompound op var v =>
      let (var', s1) := sv_nohook n' sc st var in
      let (v', s2) := ve sc s1 v in
      (SCompound op var' v', sc, s2)
    | SFunction base fields m f =>
      let (f', s1) := sv_fbody n' sc (match m with Some _ => true | None => false end) st f in
      (SFunction base fields m f', sc, s1)
    | SGenericFor vars es b =>
      let (es', s1) := map_st (ve sc) st es in
      let sc' := map param_name vars ++ sc in
      let (vars', s2) := map_st (k_param (sv_ty n' sc')) s1 vars in
      let (b', s3) := blk sc' s2 b in
      (SGenericFor vars' es' b', sc, s3)
    | SIf bs els =>
      let (bs', s1) :=
          map_st (fun st b => match b with
                              | SBranch c body =>
                                let (c', s1) := ve sc st c in
                                let (body', s2) := blk sc s1 body in
                                (SBranch c' body', s2)
                              end) st bs in
      let (els', s2) := opt_st (blk sc) s1 els in
      (SIf bs' els', sc, s2)
    | SLocal k vars vals =>
      let (vals', s1) := map_st (ve sc) st vals in
      let (vars', s2) := map_st (k_param (sv_ty n' sc)) s1 vars in
      (SLocal k vars' vals', map param_name vars ++ sc, s2)
    | SLocalFunction x f =>
      let sc' := x :: sc in
      let (f', s1) := sv_fbody n' sc' false st f in
      (SLocalFunction x f', sc', s1)
    | SNumericFor var a b step body =>
      let (a', s1) := ve sc st a in
      let (b', s2) := ve sc s1 b in
      let (step', s3) := opt_st (ve sc) s2 step in
      let (var', s4) := k_param (sv_ty n' sc) s3 var in
      let (body', s5) := blk (param_name var :: sc) s4 body in
      (SNumericFor var' a' b' step' body', sc, s5)
    | SRepeat b c =>
      let '(b', sc_end, s1) := sv_block n' sc st b in
      let (c', s2) := ve sc_end s1 c in
      (SRepeat b' c', sc, s2)
    | SWhile c b =>
      let (c', s1) := ve sc st c in
      let (b', s2) := blk sc s1 b in
      (SWhile c' b', sc, s2)
    | STypeDecl ex x gen t =>
      let (gen', s1) := opt_st (sv_ty n' sc) st gen in
      let (t', s2) := sv_ty n' sc s1 t in
      (STypeDecl ex x gen' t', sc, s2)
    | STypeFunction ex x f =>
      (* [visit_type_function] is not overridden by [ScopeVisitor]: body first, in a scope that
         does not hold the parameters, then the types *)
      match f with
      | FBody ps variadic vartype ret gen attrs body =>
        let (body', s1) := blk sc st body in
        let (ps', s2) := map_st (k_param (sv_ty n' sc)) s1 ps in
        let (vt', s3) := opt_st (sv_ty n' sc) s2 vartype in
        let (rt', s4) := opt_st (sv_ty n' sc) s3 ret in
        (STypeFunction ex x (FBody ps' variadic vt' rt' gen attrs body'), sc, s4)
      end
    end
  end

(** [visit_block_without_push]; returns the scope at the end of the block (for [repeat]) *)
with sv_block (n : nat) (sc : list name) (st : bool) (b : block) {struct n}
     : block * list name * bool :=
  match n with
  | O => (b, sc, st)
  | S n' =>
    match b with
    | Block ss last =>
      let '(ss', sc1, s1) := thread_stmts (sv_stmt n') sc st ss in
      let (last', s2) := opt_st (k_last (sv_expr n' sc1)) s1 last in
      (Block ss' last', sc1, s2)
    end
  end.

End Scoped.

Definition sv_fuel (b : block) (extra : nat) : nat := (4 * w_block b + 4 * extra + 16)%nat.

(** run a processor over a chunk: the rewritten chunk and the final state *)
Definition sv_run (H : shooks) (extra : nat) (b : block) : block * bool :=
  let '(b', _, st) := sv_block H (sv_fuel b extra) [] false b in (b', st).

(** * rules/remove_call_match.rs *)

Record matcher := mkMatcher {
  m_matches : list name -> expr -> bool;                     (* [CallMatch::matches] on the prefix *)
  m_result : option (bool -> list expr -> expr);             (* [compute_result] (reserved?, arguments) *)
  m_reserve : bool;                                          (* [reserve_globals] = [select] *)
}.

(** [process_statement] *)
Definition rc_stmt (M : matcher) (preserve : bool) (sc : list name) (s : stmt) : stmt :=
  match s with
  | SCall (ECall p None a) =>
    if m_matches M sc p then
      if preserve then expressions_as_statement (preserve_args a) else SDo (Block [] None)
    else s
  | _ => s
  end.

(** [process_expression] *)
Definition rc_expr (M : matcher) (preserve : bool) (sc : list name) (reserved : bool) (e : expr)
  : expr * bool :=
  match e with
  | ECall p None a =>
    if m_matches M sc p then
      let reserved' := reserved || (m_reserve M && in_scope nm_select sc) in
      match m_result M with
      | Some f => (f reserved' (args_exprs a), reserved')
      | None =>
        (if preserve then expressions_as_expression (preserve_args a) else ENil, reserved')
      end
    else (e, reserved)
  | _ => (e, reserved)
  end.

Definition rc_hooks (M : matcher) (preserve : bool) : shooks :=
  mkSHooks (rc_expr M preserve) (fun _ e => e) (rc_stmt M preserve).

(** [extract_reserved_globals] + [insert_statement(0, ...)] *)
Definition rc_rule (M : matcher) (preserve : bool) (b : block) : block :=
  let (b', reserved) := sv_run (rc_hooks M preserve) 0 b in
  if reserved then
    match b' with
    | Block ss last =>
      Block (SLocal false [Param nm_reserved1 None] [EIdent nm_select] :: ss) last
    end
  else b'.

(** ** remove_assertions.rs *)

Definition assert_matches (sc : list name) (p : expr) : bool :=
  negb (in_scope nm_assert sc) &&
  match p with EIdent x => bytes_eqb x nm_assert | _ => false end.

Definition one : expr := ENumber (NDec (to_bits fone) None).

Definition assert_result (reserved : bool) (es : list expr) : expr :=
  match es with
  | [] => ENil
  | [e] => e
  | _ => ECall (EIdent (if reserved then nm_reserved1 else nm_select)) None (ATuple (one :: es))
  end.

Definition assert_matcher : matcher := mkMatcher assert_matches (Some assert_result) true.

Definition rule_remove_assertions (preserve : bool) : block -> block := rc_rule assert_matcher preserve.

(** ** remove_debug_profiling.rs *)

Definition profile_matches (sc : list name) (p : expr) : bool :=
  negb (in_scope nm_debug sc) &&
  match p with
  | EField (EIdent x) f =>
    bytes_eqb x nm_debug && (bytes_eqb f nm_profilebegin || bytes_eqb f nm_profileend)
  | _ => false
  end.

Definition profile_matcher : matcher := mkMatcher profile_matches None false.

Definition rule_remove_debug_profiling (preserve : bool) : block -> block :=
  rc_rule profile_matcher preserve.

(** * rules/inject_value.rs *)

(** [ValueInjection::process_expression] *)
Definition inject_expr (id : name) (v : expr) (sc : list name) (e : expr) : expr :=
  match e with
  | EIdent x => if bytes_eqb id x && negb (in_scope id sc) then v else e
  | EField (EIdent g) f =>
    if bytes_eqb id f && negb (in_scope nm_G sc) && bytes_eqb g nm_G then v else e
  | EIndex (EIdent g) (EString s) =>
    if negb (in_scope nm_G sc) && bytes_eqb s id && bytes_eqb g nm_G then v else e
  | _ => e
  end.

(** [ValueInjection::process_prefix_expression] *)
Definition inject_prefix (id : name) (v : expr) (sc : list name) (e : expr) : expr :=
  match e with
  | EIdent x => if bytes_eqb id x && negb (in_scope id sc) then EParen v else e
  | _ => e
  end.

Definition inject_hooks (id : name) (v : expr) : shooks :=
  mkSHooks (fun sc st e => (inject_expr id v sc e, st)) (inject_prefix id v) (fun _ s => s).

Definition rule_inject_global_value (id : name) (v : expr) (b : block) : block :=
  fst (sv_run (inject_hooks id v) (w_expr v) b).

(** ** the configured value: JSON -> [RulePropertyValue] -> expression *)

Inductive json :=
| JNull
| JBool (b : bool)
| JInt (z : Z)                       (* a number written without fraction / exponent *)
| JFloat (bits : N)                  (* any other number: binary64 bit pattern *)
| JStr (s : bytes)
| JArr (items : list json)
| JObj (fields : list (bytes * json)).    (* in the order serde_json keeps: sorted by key *)

(** a [serde_json::Value] as the serializer of C14 sees it *)
Fixpoint json_data (j : json) : data :=
  match j with
  | JNull => DNull
  | JBool b => DBool b
  | JInt z => DInt z
  | JFloat bits => DFloat bits
  | JStr s => DString s
  | JArr items => DSeq (map json_data items)
  | JObj fields => DMap (map (fun kv => (DString (fst kv), json_data (snd kv))) fields)
  end.

Definition all_strings (items : list json) : option (list bytes) :=
  fold_right (fun j acc => match j, acc with
                           | JStr s, Some l => Some (s :: l)
                           | _, _ => None
                           end) (Some []) items.

(** the untagged enum tries Boolean, String, Usize, Float, StringList, (RequireMode,) None, Map,
    Array in this order; [into_expression] of the variant that accepted the value.  [usize] is
    64 bits wide. *)
Definition value_expr (j : json) : option expr :=
  match j with
  | JBool true => Some ETrue
  | JBool false => Some EFalse
  | JStr s => Some (EString s)
  | JInt z =>
    if ((0 <=? z) && (z <? 18446744073709551616))%Z
    then Some (DefaultRules.dec (of_Z z))                    (* Usize: [DecimalNumber::new(v as f64)] *)
    else Some (DefaultRules.lit_of_f64 (of_Z z))             (* Float: [Expression::from(f64)] *)
  | JFloat bits => Some (DefaultRules.lit_of_f64 (of_bits bits))
  | JArr items =>
    match all_strings items with
    | Some l => Some (ETable (map (fun s => TValue (EString s)) l))       (* StringList *)
    | None => Serializer.to_expression (json_data j)                      (* Array *)
    end
  | JNull => Some ENil
  | JObj _ => Serializer.to_expression (json_data j)                      (* Map *)
  end.
