(** C02: the decidable conditions that appear in the statements of the theorems
    (definitions only; the proofs are in [Proof/DenseGenFacts.v]). *)
From DL Require Import Lib.Bytes Model.Lexer Model.DenseGen Model.Precedence.
Open Scope N_scope.

(** juxtaposing byte [c] right after the pending token of [st] does not change the tokens:
    either nothing is pending or [c] cannot extend what is pending *)
Definition junction_ok (st : lstate) (c : N) : bool :=
  match st with
  | LStart => true
  | _ => negb (extends st c)
  end.

(** * [stream_ok T items]: every junction of the push list is safe under table [T]

    Computed along the lexing of the canonical rendering: [k] is the lexer configuration
    after the pushes so far, [prev] the text of the previous push (empty when it is not
    known to be the generator's "last push"), [mg] whether [merge_char] may follow. *)
Definition item_ok (T : tables) (k : cfg) (prev : bytes) (mg : bool) (it : item) : bool :=
  let st := snd k in
  match imode it with
  | MStr =>
    match itext it with
    | c :: _ => clean st && (junction_ok st c || match last_opt prev with Some l => sp T l c | None => false end)
    | [] => false
    end
  | MBreak p =>
    match itext it with
    | c :: _ => clean st && (junction_ok st c || pred_holds T p prev)
    | [] => false
    end
  | MNlRaw _ =>
    match itext it with
    | c :: _ => clean st && junction_ok st c
    | [] => false
    end
  | MRaw =>
    match itext it with
    | c :: _ => negb (clean st) || junction_ok st c
    | [] => true
    end
  | MMerge => bytes_eqb (itext it) [40] && clean st && mg
  | MSpace => true
  end.

Definition next_prev (it : item) : bytes :=
  match imode it with
  | MStr | MBreak _ | MRaw | MNlRaw _ => itext it
  | MMerge | MSpace => []
  end.

Definition next_mg (k : cfg) (it : item) : bool :=
  match imode it with
  | MStr | MBreak _ | MNlRaw _ | MMerge => true
  | MRaw => clean (snd k) && match itext it with [] => false | _ => true end
  | MSpace => false
  end.

Fixpoint stream_ok_from (T : tables) (k : cfg) (prev : bytes) (mg : bool) (items : list item) : bool :=
  match items with
  | [] => true
  | it :: rest =>
    item_ok T k prev mg it
    && stream_ok_from T (snd (run k (canon_item it))) (next_prev it) (next_mg k it) rest
  end.

Definition stream_ok (T : tables) (items : list item) : bool := stream_ok_from T cfg0 [] false items.

(** * [spacing_ok T]: the finite condition on the tables

    Lexer states are grouped in classes (the pending token's text does not matter, only what
    kind of token is pending): [reps] lists one representative per class of clean, pending
    state. *)
Definition rep (st : lstate) : lstate :=
  match st with
  | LName _ => LName []
  | LNum ph _ => LNum ph []
  | _ => st
  end.

Definition pending_syms : list psym :=
  [PDot; PDot2; PEq; PLt; PGt; PMinus; PSlash; PSlash2; PColon; PLBracket; PPlus; PStar; PPercent; PCaret].

Definition reps : list lstate :=
  [LName []; LNum NHead []; LNum NExpSign []; LNum NTail []] ++ map LSym pending_syms.

(** [l] can be the last byte of a push that leaves a token pending in state [st].  For numbers
    this is narrower than what the lexer allows: the generators never end a number with ".",
    "_" or an exponent sign (Rust's float formatting ends with a digit; hexadecimal and binary
    numbers end with a digit or a letter). *)
Definition consistent (st : lstate) (l : N) : bool :=
  match st with
  | LStart => true
  | LName _ => is_ident_char l
  | LNum NHead _ => is_digit l
  | LNum NExpSign _ => (l =? 101) || (l =? 69)
  | LNum NTail _ => is_ident_char l
  | LSym p => match last_opt (psym_text p) with Some x => l =? x | None => false end
  | _ => false
  end.

(** [f] can be the first byte of a push that leaves a token pending in state [st]: a push that
    ends inside a number is a number (dense.rs pushes numbers alone) *)
Definition first_consistent (st : lstate) (f : N) : bool :=
  match st with
  | LNum _ _ => is_digit f
  | _ => true
  end.

(** the first byte of the texts pushed with each predicate *)
Definition pred_char (p : pred) : N :=
  match p with
  | BConcat => 46 | BVarargs => 46 | BMinus => 45 | BEqual => 61 | BLongString => 91
  end.

(** ADJACENCY UNIVERSE.  Pairs (pending token class, first byte of the next push) that the
    grammar never makes adjacent in the generators' output and that the tables do not
    separate; a push list containing one is outside the theorem.
    - after a number that ends right after its exponent letter ("1e"): nothing (dense.rs
      writes the exponent digits in the same push);
    - after an operator symbol that "=" could extend ("=", "<", "+", "-", "*", "/", "//", "%",
      "^", "..", "[" ): no push starting with "=" (an expression never starts with "=");
    - after "/": no push starting with "/"; after ":": no push starting with ":";
      after "-": no push starting with ">"  (no expression or type starts with these). *)
Definition excluded_str (st : lstate) (c : N) : bool :=
  match st with
  | LNum NExpSign _ => true
  | LSym p =>
    match p with
    | PEq | PLt | PPlus | PStar | PPercent | PCaret | PSlash2 | PDot2 | PLBracket => c =? 61
    | PMinus => (c =? 61) || (c =? 62)
    | PSlash => (c =? 61) || (c =? 47)
    | PColon => c =? 58
    | _ => false
    end
  | _ => false
  end.

Definition excluded_brk (st : lstate) (p : pred) : bool := excluded_str st (pred_char p).

Definition range128 : list N := map N.of_nat (seq 0 128).

Definition spacing_ok_str (T : tables) : bool :=
  forallb (fun K => forallb (fun l => forallb (fun c =>
    if consistent K l && negb (excluded_str K c) then junction_ok K c || sp T l c else true)
    range128) range128) reps.

Definition all_preds : list pred := [BConcat; BVarargs; BMinus; BEqual; BLongString].

Definition spacing_ok_brk (T : tables) : bool :=
  forallb (fun p => forallb (fun K => forallb (fun l =>
    if consistent K l && negb (excluded_brk K p) then
      (if junction_ok K (pred_char p) then true
       else forallb (fun f => if first_consistent K f then br T p f l else true) range128)
    else true)
    range128) reps) all_preds.

Definition spacing_ok (T : tables) : bool := spacing_ok_str T && spacing_ok_brk T.

(** * [adjacency_ok items]: the push list stays inside the adjacency universe (no table) *)
Definition is_start (st : lstate) : bool := match st with LStart => true | _ => false end.

Definition adj_ok (k : cfg) (prev : bytes) (mg : bool) (it : item) : bool :=
  let st := snd k in
  match imode it with
  | MStr =>
    match itext it with
    | c :: _ =>
      clean st && (is_start st ||
        match last_opt prev with
        | Some l => consistent st l && (l <? 128) && (c <? 128) && negb (excluded_str st c)
        | None => false
        end)
    | [] => false
    end
  | MBreak p =>
    match itext it with
    | c :: _ =>
      (c =? pred_char p) && clean st && (is_start st ||
        match prev, last_opt prev with
        | f :: _, Some l => consistent st l && first_consistent st f && (l <? 128) && (f <? 128)
                            && negb (excluded_brk st p)
        | _, _ => false
        end)
    | [] => false
    end
  | _ => item_ok {| sp := fun _ _ => false; br := fun _ _ _ => false |} k prev mg it
  end.

Fixpoint adjacency_ok_from (k : cfg) (prev : bytes) (mg : bool) (items : list item) : bool :=
  match items with
  | [] => true
  | it :: rest =>
    adj_ok k prev mg it
    && adjacency_ok_from (snd (run k (canon_item it))) (next_prev it) (next_mg k it) rest
  end.

Definition adjacency_ok (items : list item) : bool := adjacency_ok_from cfg0 [] false items.

(** * parenthesisation (stage 2) *)

(** the lowest limit among the [subexpr] calls still open when the text of [e] ends *)
Fixpoint rp (e : expr) : N :=
  match e with
  | EAtom _ | EParen _ | ECast _ _ => 100
  | EBin o _ r => N.min (rprio o) (rp r)
  | EUn _ x => N.min UNARY_PRIORITY (rp x)
  end.

(** the text ends with a cast to a type whose text ends with a type name without parameters *)
Definition ends_bare (toks : list ptok) : bool :=
  match last toks KLp with KCast t => ends_with_type_name t | _ => false end.

Definition is_lt (o : binop) : bool := match o with LowerThan => true | _ => false end.

(** [wp e]: the explicit parentheses of [e] are enough for the reference grammar, i.e.
    printing [e] without adding any parenthesis is unambiguous *)
Fixpoint wp (e : expr) : bool :=
  match e with
  | EAtom _ => true
  | EParen x => wp x
  | ECast x _ => wp x && match x with EAtom _ | EParen _ => true | _ => false end
  | EUn _ x => wp x && match x with EBin o _ _ => UNARY_PRIORITY <? lprio o | _ => true end
  | EBin o l r =>
    wp l && wp r
    && match l with EBin o' _ _ => lprio o <=? lprio o' | _ => true end
    && (lprio o <=? rp l)
    && match r with EBin o' _ _ => rprio o <? lprio o' | _ => true end
    && negb (is_lt o && ends_bare (print_plain l))
  end.

(** [prec_ok P]: the finite condition on the dumped predicates: wherever they do NOT ask for
    parentheses, the reference priorities do not need them.  (16 x 16 + 16 x 3 + 16 entries) *)
Definition prec_ok (P : ptable) : bool :=
  forallb (fun o =>
    forallb (fun o' =>
      (left_bin P o o' || ((lprio o <=? lprio o') && (lprio o <=? rprio o') && (lprio o <=? UNARY_PRIORITY)))
      && (right_bin P o o' || (rprio o <? lprio o'))) binops
    && forallb (fun u => left_un P o u || (lprio o <=? UNARY_PRIORITY)) unops) binops
  && forallb (fun u => forallb (fun o' => un_bin P u o' || (UNARY_PRIORITY <? lprio o')) binops) unops
  && cast_bin P && cast_un P && cast_cast P && left_cast P LowerThan true.

(** * statement boundary (stage 3): the rule deciding whether a ";" is needed

    [ends_prefix] is [utils::expression_ends_with_prefix] on the operator fragment ([isp a]:
    atom [a] is a prefix expression: a name, a call, a field or an index; numbers, strings,
    tables, functions are not).  [closes_prefix] is what actually matters for the following
    "(": the LAST TOKEN WRITTEN closes a prefix expression. *)
Section Semicolon.
Variable isp : N -> bool.

Fixpoint ends_prefix (e : expr) : bool :=
  match e with
  | EAtom a => isp a
  | EBin _ _ r => ends_prefix r
  | EUn _ x => ends_prefix x
  | EParen _ => true
  | ECast _ _ => false
  end.

Definition closes_prefix (toks : list ptok) : bool :=
  match last toks KLp with
  | KRp => true
  | KAtom a => isp a
  | _ => false
  end.

(** the generator adds no parentheses along the right spine of [e] *)
Fixpoint right_spine_plain (P : ptable) (e : expr) : bool :=
  match e with
  | EBin o _ r => negb (right_needs P o r) && right_spine_plain P r
  | EUn u x => negb (operand_needs P u x) && right_spine_plain P x
  | _ => true
  end.
End Semicolon.

(** * declarations: the nil padding of [const] value lists

    SPECIFICATION (Lua manual 2.4.3 / 2.5): what the [i]-th declared variable receives from a
    value list.  A value is abstract: [d_multi] = it is a function call or [...] NOT between
    parentheses (it provides all the remaining values when it is last), [d_nil] = it is the
    literal [nil]. *)
Record dval := { d_id : N; d_multi : bool; d_nil : bool }.
Inductive recv := RNil | RVal (id : N) (k : nat).   (* nil, or the k-th value of expression id *)

Definition first_of (v : dval) : recv := if d_nil v then RNil else RVal (d_id v) 0.

Fixpoint receives (vals : list dval) (i : nat) : recv :=
  match vals with
  | [] => RNil
  | v :: rest =>
    match rest with
    | [] => if d_multi v then RVal (d_id v) i else match i with O => first_of v | S _ => RNil end
    | _ :: _ => match i with O => first_of v | S i' => receives rest i' end
    end
  end.

(** MODEL ([VariableAssignment::required_nil_values], [src/nodes/statements/local_assign.rs], and
    its use by the three generators): a [const] declaration with more variables than values is
    written with [nil] appended for the missing ones, unless darklua considers that the last
    value provides them ([skip]: [matches!(last, Call | VariableArguments)], dumped per kind of
    expression on every run) *)
Definition nilv : dval := {| d_id := 0; d_multi := false; d_nil := true |}.

Fixpoint last_dval (l : list dval) : option dval :=
  match l with
  | [] => None
  | v :: rest => match rest with [] => Some v | _ :: _ => last_dval rest end
  end.

Definition written_values (skip : dval -> bool) (n : nat) (vals : list dval) : list dval :=
  if Nat.leb n (List.length vals) || match last_dval vals with Some v => skip v | None => false end
  then vals
  else vals ++ repeat nilv (n - List.length vals).
