(** C02: the decidable conditions that appear in the statements of the theorems
    (definitions only; the proofs are in [Proof/DenseGenFacts.v]). *)
From DL Require Import Lib.Bytes Model.Lexer Model.DenseGen.
Open Scope N_scope.

(** juxtaposing byte [c] right after the pending token of [st] does not change the tokens:
    either nothing is pending or [c] cannot extend what is pending *)
Definition junction_ok (st : lstate) (c : N) : bool :=
  match st with
  | LStart => true
  | _ => negb (extends st c)
  end.

(** * [stream_ok T items]: every junction of the push list is safe under table [T]

    Computed along the lexing of the canonical rendering: [k] is the lexer configuration
    after the pushes so far, [prev] the text of the previous push (empty when it is not
    known to be the generator's "last push"), [mg] whether [merge_char] may follow. *)
Definition item_ok (T : tables) (k : cfg) (prev : bytes) (mg : bool) (it : item) : bool :=
  let st := snd k in
  match imode it, itext it with
  | MStr, c :: _ =>
    clean st && (junction_ok st c || match last_opt prev with Some l => sp T l c | None => false end)
  | MBreak p, c :: _ => clean st && (junction_ok st c || pred_holds T p prev)
  | MNlRaw _, c :: _ => clean st && junction_ok st c
  | MRaw, c :: _ => negb (clean st) || junction_ok st c
  | MRaw, [] => true
  | MMerge, [40] => clean st && mg
  | MSpace, _ => true
  | _, _ => false
  end.

Definition next_prev (it : item) : bytes :=
  match imode it with
  | MStr | MBreak _ | MRaw | MNlRaw _ => itext it
  | MMerge | MSpace => []
  end.

Definition next_mg (k : cfg) (it : item) : bool :=
  match imode it with
  | MStr | MBreak _ | MNlRaw _ | MMerge => true
  | MRaw => clean (snd k) && match itext it with [] => false | _ => true end
  | MSpace => false
  end.

Fixpoint stream_ok_from (T : tables) (k : cfg) (prev : bytes) (mg : bool) (items : list item) : bool :=
  match items with
  | [] => true
  | it :: rest =>
    item_ok T k prev mg it
    && stream_ok_from T (snd (run k (canon_item it))) (next_prev it) (next_mg k it) rest
  end.

Definition stream_ok (T : tables) (items : list item) : bool := stream_ok_from T cfg0 [] false items.
