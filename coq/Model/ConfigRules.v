(** C19 — the per-rule property tables, transcribed from every rule's
    `RuleConfiguration::configure` and `serialize_to_properties` (/repo/src/rules/<file>.rs), the rule
    names of `FromStr for Box<dyn Rule>` and `get_default_rules` (/repo/src/rules/mod.rs).
    The check compares these tables with the code on every run: the list of names with
    `get_all_rule_names()`, and acceptance + serialization of every rule x candidate property x sample value
    of every JSON kind with the compiled `json5::from_str::<Box<dyn Rule>>` / `serde_json::to_string`. *)
From Coq Require Import List Bool String.
From DL Require Import Model.Config.
Import ListNotations.
Open Scope string_scope.

Definition no_props (name : string) : rule_spec := RuleSpec name [] [] [] [].

(** preserve_arguments_side_effects: bool, default true, written when false
    (remove_assertions.rs, remove_debug_profiling.rs) *)
Definition preserve_args : prop_spec :=
  PropSpec "preserve_arguments_side_effects" KBool (Some (PBool true)) true.

Definition rule_specs : list rule_spec := [
  (* append_text_comment.rs: required any of text/file, which collide; location start|end, `end` is written *)
  RuleSpec "append_text_comment"
    [PropSpec "text" KStr None true; PropSpec "file" KStr None true;
     PropSpec "location" (KEnum ["start"; "end"]) (Some (PStr "start")) true]
    [] ["text"; "file"] [["text"; "file"]];
  no_props "compute_expression";
  no_props "convert_function_to_assignment";
  no_props "convert_index_to_field";
  no_props "convert_local_function_to_assign";
  no_props "convert_luau_number";
  (* convert_require/mod.rs: current and target are required; serialize_to_properties returns nothing *)
  RuleSpec "convert_require"
    [PropSpec "current" KReqMode None false; PropSpec "target" KReqMode None false]
    ["current"; "target"] [] [];
  no_props "convert_square_root_call";
  no_props "filter_after_early_return";
  no_props "group_local_assignment";
  (* inject_value.rs: identifier required; value/env/env_json collide; value/default_value collide;
     serialize_to_properties returns the properties as given *)
  RuleSpec "inject_global_value"
    [PropSpec "identifier" KStr None true; PropSpec "value" KAny None true;
     PropSpec "default_value" KAny None true; PropSpec "env" KStr None true;
     PropSpec "env_json" KEnvJson None true]
    ["identifier"] [] [["value"; "env"; "env_json"]; ["value"; "default_value"]];
  no_props "make_assignment_local";
  RuleSpec "remove_assertions" [preserve_args] [] [] [];
  (* remove_attribute.rs: match is a regex list, kept in the given order (duplicates included) and written
     (the sources of the patterns) when it is not empty *)
  RuleSpec "remove_attribute" [PropSpec "match" KRegexList (Some (PStrList [])) true] [] [] [];
  (* remove_comments.rs: except is a regex list, kept and written in the same way *)
  RuleSpec "remove_comments" [PropSpec "except" KRegexList (Some (PStrList [])) true] [] [] [];
  no_props "remove_compound_assignment";
  RuleSpec "remove_debug_profiling" [preserve_args] [] [] [];
  no_props "remove_empty_do";
  no_props "remove_floor_division";
  no_props "remove_function_call_parens";
  (* remove_interpolated_string.rs: strategy string|tostring, `tostring` is written *)
  RuleSpec "remove_interpolated_string"
    [PropSpec "strategy" (KEnum ["string"; "tostring"]) (Some (PStr "string")) true] [] [] [];
  no_props "remove_method_call";
  no_props "remove_method_definition";
  no_props "remove_nil_declaration";
  no_props "remove_spaces";
  no_props "remove_types";
  no_props "remove_unused_if_branch";
  no_props "remove_unused_variable";
  no_props "remove_unused_while";
  (* rename_variables/mod.rs: globals (normal form, default [$default]), include_functions (default false),
     detect_globals (default true) *)
  RuleSpec "rename_variables"
    [PropSpec "globals" KGlobals (Some (PStrList ["$default"])) true;
     PropSpec "include_functions" KBool (Some (PBool false)) true;
     PropSpec "detect_globals" KBool (Some (PBool true)) true] [] [] [];
  no_props "remove_if_expression";
  no_props "remove_continue"
].

(** get_default_rules *)
Definition default_rule_names : list string := [
  "remove_spaces"; "remove_comments"; "compute_expression"; "remove_unused_if_branch"; "remove_unused_while";
  "filter_after_early_return"; "remove_empty_do"; "remove_unused_variable"; "remove_method_definition";
  "convert_index_to_field"; "remove_nil_declaration"; "rename_variables"; "remove_function_call_parens"].
