(** Executable model of the mechanism of darklua's [rename_variables]
    (src/rules/rename_variables/rename_processor.rs, src/process/utils/{mod.rs,permutator.rs}).
    No proofs here (Proof/Rename*.v).

    - [nth_raw n] : the n-th string (0-based) produced by [Permutator] over the identifier
      alphabet (utils/mod.rs: identifier_permutator): all 1-character strings in alphabet
      order, then all 2-character strings in lexicographic alphabet order, ...  This is the
      bijective base-63 numeral of n+1.
    - [valid_ident], [keywords]            : utils/mod.rs is_valid_identifier, KEYWORDS
    - [nth_generated]                      : utils/mod.rs generate_identifier (verif hook generated_identifiers)
    - [state], [op], [step]                : RenameProcessor as a state machine
      (real_to_obfuscated, permutator, avoid_identifier, reuse_identifiers) *)
From Coq Require Import NArith List Bool.
From DL Require Import Lib.Bytes.
Import ListNotations.
Open Scope N_scope.

Definition name := bytes.

(** "abcdefghijklmnopqrstuvwxyzABCDEFGHIJKLMNOPQRSTUVWXYZ_0123456789" *)
Definition alpha (d : N) : N :=
  if d <? 26 then 97 + d
  else if d <? 52 then 65 + (d - 26)
  else if d =? 52 then 95
  else 48 + (d - 53).

(** Permutator::next, as a function of the number of calls made before (bijective base 63) *)
Fixpoint nth_raw_fuel (fuel : nat) (n : N) (acc : bytes) : bytes :=
  match fuel with
  | O => acc
  | S f =>
    if n <? 63 then alpha n :: acc
    else nth_raw_fuel f (n / 63 - 1) (alpha (n mod 63) :: acc)
  end.
Definition nth_raw (n : N) : name := nth_raw_fuel (S (N.to_nat (N.size n))) n [].

Definition keywords : list name :=
  map of_string ["and"; "break"; "do"; "else"; "elseif"; "end"; "false"; "for"; "function"; "if"; "in"; "local";
                 "nil"; "not"; "or"; "repeat"; "return"; "then"; "true"; "until"; "while"]%string.

Definition mem (x : name) (l : list name) : bool := existsb (bytes_eqb x) l.

Definition is_lower (c : N) : bool := (97 <=? c) && (c <=? 122).
Definition is_upper (c : N) : bool := (65 <=? c) && (c <=? 90).
Definition is_ident_start (c : N) : bool := is_lower c || is_upper c || (c =? 95).
Definition is_ident_char (c : N) : bool := is_ident_start c || is_digit c.

(** the lexical class of identifiers (ASCII), without the keyword test *)
Definition ident_shape (s : name) : bool :=
  match s with
  | c :: r => is_ident_start c && forallb is_ident_char r
  | [] => false
  end.
(** utils/mod.rs: is_valid_identifier (on ASCII input) *)
Definition valid_ident (s : name) : bool := ident_shape s && negb (mem s keywords).

Definition starts_with_digit (s : name) : bool :=
  match s with c :: _ => is_digit c | [] => false end.

(** least q in [p, p + 2^k) with [good q] *)
Fixpoint search (good : N -> bool) (k : nat) (p : N) : option N :=
  match k with
  | O => if good p then Some p else None
  | S k' =>
    match search good k' p with
    | Some q => Some q
    | None => search good k' (p + 2 ^ N.of_nat k')
    end
  end.
Definition search_bits : nat := 64.

(** utils/mod.rs: generate_identifier = permutator.find(is_valid_identifier); the stream of the
    hook [generated_identifiers]: [gen_stream n] lists the first n generated identifiers *)
Fixpoint gen_stream_from (n : nat) (p : N) : list name :=
  match n with
  | O => []
  | S n' =>
    match search (fun q => valid_ident (nth_raw q)) search_bits p with
    | Some q => nth_raw q :: gen_stream_from n' (q + 1)
    | None => []
    end
  end.
Definition gen_stream (n : nat) : list name := gen_stream_from n 0.

(** ---------------------------------------------------------------------------------------
    rename_processor.rs: sort_char / sort_identifiers *)
Definition cmp_char (a b : N) : comparison :=
  if a =? b then Eq
  else if (is_digit a && is_digit b) || (is_lower a && is_lower b) || (is_upper a && is_upper b) then a ?= b
  else if is_digit a then Gt
  else if is_digit b then Lt
  else if a =? 95 then Gt
  else if b =? 95 then Lt
  else if is_lower a then Lt
  else if is_lower b then Gt
  else Eq.

Fixpoint cmp_ident (a b : name) : comparison :=
  match a, b with
  | [], [] => Eq
  | [], _ :: _ => Lt
  | _ :: _, [] => Gt
  | x :: a', y :: b' =>
    match cmp_char x y with
    | Lt => Lt
    | Gt => Gt
    | Eq => cmp_ident a' b'
    end
  end.

(** the reuse pool is kept ascending for [cmp_ident]; its head is the name [Vec::pop] returns
    (the Rust vector is sorted descending and popped from the back) *)
Fixpoint pool_insert (x : name) (l : list name) : list name :=
  match l with
  | [] => [x]
  | y :: r => match cmp_ident x y with
              | Gt => y :: pool_insert x r
              | _ => x :: l
              end
  end.
Definition pool_add (xs pool : list name) : list name := fold_right pool_insert pool xs.

(** ---------------------------------------------------------------------------------------
    RenameProcessor *)
(** one scope: the dictionary real name -> (new name, reuse flag) (HashMap: one entry per key),
    and - GHOST, never read by [step] - the generated names whose entry was overwritten by a
    later declaration of the same real name in the same scope (their binders are still in scope
    in the program, e.g. captured by a closure) *)
Definition dict := list (name * (name * bool)).
Record frame := mkFrame { f_dict : dict; f_lost : list name }.

Record state := mkState {
  stack : list frame;      (* real_to_obfuscated, innermost first *)
  pos : N;                 (* number of [Permutator::next] calls made so far *)
  avoid : list name;       (* avoid_identifier *)
  pool : list name;        (* reuse_identifiers *)
  stuck : bool             (* the search bound of the model was hit (never within 2^64 names) *)
}.

Inductive op :=
| OPush                      (* Scope::push *)
| OPop                       (* Scope::pop *)
| OInsert (real : name)      (* Scope::insert / insert_local / insert_local_function with include_functions: replace_identifier *)
| OInsertSelf                (* Scope::insert_self *)
| OKeep (real : name)        (* Scope::insert_local_function without include_functions: add(name, name, false) *)
| OLookup (x : name).        (* process_variable_expression / process_type_field *)

Definition init (avoid0 : list name) : state := mkState [] 0 (avoid0 ++ keywords) [] false.

Fixpoint dict_get (d : dict) (x : name) : option (name * bool) :=
  match d with
  | [] => None
  | (k, v) :: r => if bytes_eqb k x then Some v else dict_get r x
  end.
Fixpoint dict_remove (d : dict) (x : name) : dict :=
  match d with
  | [] => []
  | (k, v) :: r => if bytes_eqb k x then dict_remove r x else (k, v) :: dict_remove r x
  end.

(** HashMap::insert on the innermost dictionary (created when the stack is empty) *)
Definition frame_add (f : frame) (real obf : name) (reuse : bool) : frame :=
  mkFrame ((real, (obf, reuse)) :: dict_remove (f_dict f) real)
          (match dict_get (f_dict f) real with
           | Some (old, true) => old :: f_lost f
           | _ => f_lost f
           end).
Definition add (s : state) (real obf : name) (reuse : bool) : state :=
  match stack s with
  | [] => mkState [frame_add (mkFrame [] []) real obf reuse] (pos s) (avoid s) (pool s) (stuck s)
  | f :: r => mkState (frame_add f real obf reuse :: r) (pos s) (avoid s) (pool s) (stuck s)
  end.

(** get_obfuscated_name *)
Fixpoint get_obfuscated (st : list frame) (x : name) : option name :=
  match st with
  | [] => None
  | f :: r => match dict_get (f_dict f) x with
              | Some (n, _) => Some n
              | None => get_obfuscated r x
              end
  end.

(** filter_identifier *)
Definition filter_identifier (av : list name) (s : name) : bool := negb (mem s av) && negb (starts_with_digit s).

(** generate_identifier: new state and the name *)
Definition generate (s : state) : state * option name :=
  match pool s with
  | x :: r => (mkState (stack s) (pos s) (avoid s) r (stuck s), Some x)
  | [] =>
    match search (fun q => filter_identifier (avoid s) (nth_raw q)) search_bits (pos s) with
    | Some q => (mkState (stack s) (q + 1) (avoid s) [] (stuck s), Some (nth_raw q))
    | None => (mkState (stack s) (pos s) (avoid s) [] true, None)
    end
  end.

Definition reusable (d : dict) : list name :=
  flat_map (fun e : name * (name * bool) => if snd (snd e) then [fst (snd e)] else []) d.

Definition step (s : state) (o : op) : state * option name :=
  match o with
  | OPush => (mkState (mkFrame [] [] :: stack s) (pos s) (avoid s) (pool s) (stuck s), None)
  | OPop =>
    match stack s with
    | [] => (s, None)
    | f :: r => (mkState r (pos s) (avoid s) (pool_add (reusable (f_dict f)) (pool s)) (stuck s), None)
    end
  | OInsert real =>
    match generate s with
    | (s', Some n) => (add s' real n true, Some n)
    | (s', None) => (s', None)
    end
  | OInsertSelf => (add s (of_string "self") (of_string "self") false, None)
  | OKeep real => (add s real real false, Some real)
  | OLookup x =>
    match get_obfuscated (stack s) x with
    | Some n => (s, Some n)
    | None => (mkState (stack s) (pos s) (x :: avoid s) (pool s) (stuck s), None)
    end
  end.

Definition run (avoid0 : list name) (ops : list op) : state :=
  fold_left (fun s o => fst (step s o)) ops (init avoid0).

(** the names each operation returned, in order (for the correspondence with the Rust code):
    [] stands for "nothing" *)
Fixpoint trace (s : state) (ops : list op) : list name :=
  match ops with
  | [] => []
  | o :: r => let '(s', out) := step s o in
              match out with Some n => n | None => [] end :: trace s' r
  end.

(** observations used by the invariant *)
Definition live_gen (s : state) : list name := flat_map (fun f => reusable (f_dict f)) (stack s).
Definition lost_gen (s : state) : list name := flat_map f_lost (stack s).
Definition kept (d : dict) : list name :=
  flat_map (fun e : name * (name * bool) => if snd (snd e) then [] else [fst (snd e)]) d.
Definition live_kept (s : state) : list name := flat_map (fun f => kept (f_dict f)) (stack s).

(** ---------------------------------------------------------------------------------------
    src/rules/rename_variables/mod.rs: the configured globals.  [Box::<RenameVariables>::default()]
    starts from DEFAULT; [set_globals] walks the configured list in order and EXTENDS the list:
    "$default" appends DEFAULT, "$roblox" appends ROBLOX, any other (valid) identifier is pushed. *)
Inductive gentry := GDefault | GRoblox | GName (x : name).
Definition expand_entry (dflt roblox : list name) (e : gentry) : list name :=
  match e with GDefault => dflt | GRoblox => roblox | GName x => [x] end.
Definition set_globals (dflt roblox : list name) (current : list name) (l : list gentry) : list name :=
  fold_left (fun acc e => acc ++ expand_entry dflt roblox e) l current.
Definition configured_globals (dflt roblox : list name) (l : list gentry) : list name :=
  set_globals dflt roblox dflt l.
