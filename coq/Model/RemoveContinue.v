(** Model of darklua's rule [remove_continue] ([src/rules/remove_continue.rs]) run by
    [DefaultPostVisitor] ([src/process/post_visitor.rs]), as the code is at the current
    /repo HEAD.  Executable model only; the proofs are in Proof/RemoveContinue*.v.

    THE RUST CODE.  [Processor] holds
      - [loop_stack : Vec<Option<LoopData>>]: [Some {has_continue_statement, loop_break_id}]
        is pushed when a loop statement is ENTERED ([process_while_statement], ... =
        [push_loop], called by [visit_*] before any child is visited), [None] when a function
        statement / function expression is entered ([push_no_loop]); nothing is pushed for a
        LOCAL function or a type function - see "surprises" below;
      - [loop_identifier_count : u16]: incremented by [push_loop], so loops are numbered
        1, 2, ... in the order in which the visitor ENTERS them (pre-order, over the whole
        chunk, nested functions and expressions embedded in types included).
    [process_block] (called by [visit_block] BEFORE the statements of the block are visited):
    when the block's last statement is [continue] and the TOP of the stack is [Some loop],
    the last statement becomes [break], the statement [__DARKLUA_CONTINUE_<id> = true] is
    appended to the block, and the loop's [has_continue_statement] is set.  When the top of
    the stack is [None] or the stack is empty, the [continue] stays.
    [process_after_*] of a loop statement (called after all children were visited) =
    [wrap_loop_block_if_needed]: pops the stack; if the popped loop has
    [has_continue_statement], the (already visited) body [B] is replaced by
      local __DARKLUA_CONTINUE_<id> = false
      repeat B' until true
      if not __DARKLUA_CONTINUE_<id> then break end
    where [B'] is [B] plus a final [__DARKLUA_CONTINUE_<id> = true] when [B] has no last
    statement.  A [break] of the body therefore leaves the flag [false] and is re-issued after
    the inner [repeat]; a converted [continue] sets the flag and only leaves the inner loop.
    [process_after_function_*] pops the [None].

    THE MODEL.  The stack discipline is balanced, and [process_block] only reads the TOP of
    the stack, so the stack is modelled by the parameter [ctx : option N] of the traversal
    (the id of the loop on top, [None] for a function frame or the empty stack), and the
    mutable [has_continue_statement] of the top frame by the boolean RESULT of the traversal
    of a sub-tree ("a [continue] was converted for the frame that was on top on entry").
    The counter is threaded through the traversal in the visitor's order.  The traversal is
    structural (the rule rewrites a block before visiting it only by appending a statement
    without children, and a loop after visiting it), so no fuel is needed.

    Visit order of [NodePostVisitor] (it matters for the numbering, because expressions and
    types can contain function expressions with loops):
      block            [process_block]; statements left to right; last statement
      assign           variables, then values            compound assign   variable, value
      local            VALUES, then the variables' types
      function stmt/expr, local function, type function
                       body, then parameter types, variadic type, return type (function
                       generics are not visited by the Rust code; see [rc_fbody])
      generic for      expressions, BODY, then the variables' types
      numeric for      start, end, step, BODY, then the variable's type
      repeat           CONDITION, then the body          while             condition, body
      if               per branch: condition, block; then the else block
      type declaration generics (defaults), then the type
      call             prefix, arguments                 index             prefix, key
      table entry [k]=v  key, value                      cast              expression, type
      type instantiation  prefix, types                  if-expression, binary, interpolated
                       string, return: left to right
      types            the sub-types left to right, then the embedded expression of
                       [typeof(e)]: the order in which [astdump] lists the children of a
                       [TyNode] is the order in which the visitor reaches them (only kind 8,
                       [typeof], has an expression, and it has no sub-type).

    SURPRISES IN THE RUST CODE (modelled as they are):
    1. a [continue] that is not inside a loop of the same function (the parser accepts it) is
       left in the tree;
    2. [Processor] overrides [process_function_statement] and [process_function_expression]
       but neither [process_local_function_statement] nor [process_type_function]: a LOCAL
       function (and a type function) does not push [None].  Its body is visited with the
       enclosing loop still on top of the stack, so a [continue] written directly in the
       body of a local function that is declared inside a loop (not valid Luau, but parsed)
       is rewritten to [<flag of the ENCLOSING loop> = true; break] - a [break] outside of
       any loop of that function - and makes the enclosing loop wrap its body.  On the way
       out [process_after_local_function_statement] is not overridden either, so the stack
       stays balanced.
    3. the counter is a [u16] incremented with [+= 1]: in a release build the 65536th loop
       gets id 0 and names repeat; a debug build panics there.  The model follows the
       release build ([next_id]).
    4. the [until] condition of a [repeat] whose body is wrapped stays where it is, outside
       the new inner [repeat ... until true]: it no longer sees the locals of the body
       (known finding [remove_continue:repeat-until-condition-reads-body-local] of C06).

    NOT REPRESENTED by the tree (Lua/Syntax.v): tokens (the rule renames the [continue]
    token to [break]), attribute arguments and function generics (no expression inside). *)
From Coq Require Import NArith List Bool.
From DL Require Import Lib.Bytes Lua.Syntax.
Import ListNotations.
Open Scope N_scope.

(** * Names and the generated statements *)

(** [loop_identifier_count += 1] on a [u16] (release build: wraps) *)
Definition next_id (n : N) : N := (n + 1) mod 65536.

(** [LoopData::get_identifier]: [format!("__DARKLUA_CONTINUE_{}", loop_break_id)] *)
Definition continue_prefix : name := of_string "__DARKLUA_CONTINUE_".
Definition continue_name (id : N) : name := continue_prefix ++ dec_digits id.

(** [AssignStatement::from_variable(id, true)] *)
Definition set_flag (id : N) : stmt := SAssign [EIdent (continue_name id)] [ETrue].

(** [Processor::wrap_loop_block_if_needed], the part executed when the popped loop has a
    [continue] *)
Definition wrap_loop_block (id : N) (b : block) : block :=
  match b with
  | Block ss last =>
    let ss' := match last with None => ss ++ [set_flag id] | Some _ => ss end in
    Block [ SLocal false [Param (continue_name id) None] [EFalse];
            SRepeat (Block ss' last) ETrue;
            SIf [SBranch (EUnary UNot (EIdent (continue_name id))) (Block [] (Some LBreak))] None ]
          None
  end.

Definition wrap_if (flag : bool) (id : N) (b : block) : block :=
  if flag then wrap_loop_block id b else b.

(** * State threading over lists and options *)

Section Thread.
Context {A : Type}.

(** children that only thread the counter (expressions, types) *)
Definition mapS (f : N -> A -> A * N) : N -> list A -> list A * N :=
  fix go (n : N) (l : list A) {struct l} : list A * N :=
    match l with
    | [] => ([], n)
    | x :: r =>
      let (x', n1) := f n x in
      let (r', n2) := go n1 r in
      (x' :: r', n2)
    end.

Definition optS (f : N -> A -> A * N) (n : N) (o : option A) : option A * N :=
  match o with
  | Some x => let (x', n1) := f n x in (Some x', n1)
  | None => (None, n)
  end.

(** children that also report a converted [continue] for the frame on top (statements,
    branches) *)
Definition mapSB (f : N -> A -> A * N * bool) : N -> list A -> list A * N * bool :=
  fix go (n : N) (l : list A) {struct l} : list A * N * bool :=
    match l with
    | [] => ([], n, false)
    | x :: r =>
      let '(x', n1, c1) := f n x in
      let '(r', n2, c2) := go n1 r in
      (x' :: r', n2, c1 || c2)
    end.

Definition optSB (f : N -> A -> A * N * bool) (n : N) (o : option A) : option A * N * bool :=
  match o with
  | Some x => let '(x', n1, c) := f n x in (Some x', n1, c)
  | None => (None, n, false)
  end.
End Thread.

(** * The traversal

    [rc_* n x = (x', n')]: the visited node and the counter after it;
    [rc_* ctx n x = (x', n', c)] for the nodes that can hold a block reached without
    crossing a frame: [c] = a [continue] was converted for the frame [ctx]. *)
Fixpoint rc_ty (n : N) (t : ty) {struct t} : ty * N :=
  match t with
  | TyNode kind subs es =>
    let (subs', n1) := mapS rc_ty n subs in
    let (es', n2) := mapS rc_expr n1 es in
    (TyNode kind subs' es', n2)
  end

with rc_expr (n : N) (e : expr) {struct e} : expr * N :=
  match e with
  | ENil | ETrue | EFalse | ENumber _ | EString _ | EVarArgs | EIdent _ => (e, n)
  | EInterp segs => let (segs', n1) := mapS rc_iseg n segs in (EInterp segs', n1)
  | EField p f => let (p', n1) := rc_expr n p in (EField p' f, n1)
  | EIndex p k =>
    let (p', n1) := rc_expr n p in
    let (k', n2) := rc_expr n1 k in
    (EIndex p' k', n2)
  | ECall p m a =>
    let (p', n1) := rc_expr n p in
    let (a', n2) := rc_args n1 a in
    (ECall p' m a', n2)
  | EFunction f =>
    (* [process_function_expression]: [push_no_loop]; [process_after_function_expression]: pop *)
    let '(f', n1, _) := rc_fbody None n f in (EFunction f', n1)
  | EIf bs els =>
    let (bs', n1) := mapS rc_ebranch n bs in
    let (els', n2) := rc_expr n1 els in
    (EIf bs' els', n2)
  | EParen e' => let (e'', n1) := rc_expr n e' in (EParen e'', n1)
  | ETable entries => let (en', n1) := mapS rc_tentry n entries in (ETable en', n1)
  | EUnary op e' => let (e'', n1) := rc_expr n e' in (EUnary op e'', n1)
  | EBinary op l r =>
    let (l', n1) := rc_expr n l in
    let (r', n2) := rc_expr n1 r in
    (EBinary op l' r', n2)
  | ETypeCast e' t =>
    let (e'', n1) := rc_expr n e' in
    let (t', n2) := rc_ty n1 t in
    (ETypeCast e'' t', n2)
  | ETypeInst p tys =>
    let (p', n1) := rc_expr n p in
    let (tys', n2) := mapS rc_ty n1 tys in
    (ETypeInst p' tys', n2)
  end

with rc_iseg (n : N) (s : iseg) {struct s} : iseg * N :=
  match s with
  | ISStr _ => (s, n)
  | ISExpr e => let (e', n1) := rc_expr n e in (ISExpr e', n1)
  end

with rc_ebranch (n : N) (b : ebranch) {struct b} : ebranch * N :=
  match b with
  | EBranch c r =>
    let (c', n1) := rc_expr n c in
    let (r', n2) := rc_expr n1 r in
    (EBranch c' r', n2)
  end

with rc_args (n : N) (a : args) {struct a} : args * N :=
  match a with
  | ATuple es => let (es', n1) := mapS rc_expr n es in (ATuple es', n1)
  | AString _ => (a, n)
  | ATable entries => let (en', n1) := mapS rc_tentry n entries in (ATable en', n1)
  end

with rc_tentry (n : N) (t : tentry) {struct t} : tentry * N :=
  match t with
  | TField f v => let (v', n1) := rc_expr n v in (TField f v', n1)
  | TIndex k v =>
    let (k', n1) := rc_expr n k in
    let (v', n2) := rc_expr n1 v in
    (TIndex k' v', n2)
  | TValue v => let (v', n1) := rc_expr n v in (TValue v', n1)
  end

(** [visit_function_expression] / [visit_function_statement] / [visit_local_function] /
    [visit_type_function_statement] after the frame decision of the caller: body first, then
    the parameter types, the variadic type, the return type.  The Rust visitor does not visit
    function generics; they hold no expression in any tree darklua builds ([astdump]: kinds
    21 / 22 / 20, leaves), so visiting them last - as Model/Visit.v also does, for
    uniformity - changes nothing on such trees. *)
with rc_fbody (ctx : option N) (n : N) (f : fbody) {struct f} : fbody * N * bool :=
  match f with
  | FBody ps variadic vartype ret gen attrs body =>
    let '(body', n1, c) := rc_block ctx n body in
    let (ps', n2) := mapS rc_param n1 ps in
    let (vartype', n3) := optS rc_ty n2 vartype in
    let (ret', n4) := optS rc_ty n3 ret in
    let (gen', n5) := optS rc_ty n4 gen in
    (FBody ps' variadic vartype' ret' gen' attrs body', n5, c)
  end

with rc_param (n : N) (p : param) {struct p} : param * N :=
  match p with
  | Param x t => let (t', n1) := optS rc_ty n t in (Param x t', n1)
  end

with rc_stmt (ctx : option N) (n : N) (s : stmt) {struct s} : stmt * N * bool :=
  match s with
  | SAssign vars vals =>
    let (vars', n1) := mapS rc_expr n vars in
    let (vals', n2) := mapS rc_expr n1 vals in
    (SAssign vars' vals', n2, false)
  | SDo b => let '(b', n1, c) := rc_block ctx n b in (SDo b', n1, c)
  | SCall call => let (call', n1) := rc_expr n call in (SCall call', n1, false)
  | SCompound op var v =>
    let (var', n1) := rc_expr n var in
    let (v', n2) := rc_expr n1 v in
    (SCompound op var' v', n2, false)
  | SFunction base fields m f =>
    (* [process_function_statement]: [push_no_loop] *)
    let '(f', n1, _) := rc_fbody None n f in (SFunction base fields m f', n1, false)
  | SGenericFor vars es b =>
    let id := next_id n in
    let (es', n1) := mapS rc_expr id es in
    let '(b', n2, c) := rc_block (Some id) n1 b in
    let (vars', n3) := mapS rc_param n2 vars in
    (SGenericFor vars' es' (wrap_if c id b'), n3, false)
  | SIf bs els =>
    let '(bs', n1, c1) := mapSB (rc_sbranch ctx) n bs in
    let '(els', n2, c2) := optSB (rc_block ctx) n1 els in
    (SIf bs' els', n2, c1 || c2)
  | SLocal is_const vars vals =>
    let (vals', n1) := mapS rc_expr n vals in
    let (vars', n2) := mapS rc_param n1 vars in
    (SLocal is_const vars' vals', n2, false)
  | SLocalFunction x f =>
    (* [process_local_function_statement] is not overridden: no frame is pushed *)
    let '(f', n1, c) := rc_fbody ctx n f in (SLocalFunction x f', n1, c)
  | SNumericFor var a b step body =>
    let id := next_id n in
    let (a', n1) := rc_expr id a in
    let (b', n2) := rc_expr n1 b in
    let (step', n3) := optS rc_expr n2 step in
    let '(body', n4, c) := rc_block (Some id) n3 body in
    let (var', n5) := rc_param n4 var in
    (SNumericFor var' a' b' step' (wrap_if c id body'), n5, false)
  | SRepeat b cond =>
    let id := next_id n in
    let (cond', n1) := rc_expr id cond in
    let '(b', n2, c) := rc_block (Some id) n1 b in
    (SRepeat (wrap_if c id b') cond', n2, false)
  | SWhile cond b =>
    let id := next_id n in
    let (cond', n1) := rc_expr id cond in
    let '(b', n2, c) := rc_block (Some id) n1 b in
    (SWhile cond' (wrap_if c id b'), n2, false)
  | STypeDecl ex x gen t =>
    let (gen', n1) := optS rc_ty n gen in
    let (t', n2) := rc_ty n1 t in
    (STypeDecl ex x gen' t', n2, false)
  | STypeFunction ex x f =>
    (* [process_type_function] is not overridden: no frame is pushed *)
    let '(f', n1, c) := rc_fbody ctx n f in (STypeFunction ex x f', n1, c)
  end

with rc_sbranch (ctx : option N) (n : N) (b : sbranch) {struct b} : sbranch * N * bool :=
  match b with
  | SBranch cond body =>
    let (cond', n1) := rc_expr n cond in
    let '(body', n2, c) := rc_block ctx n1 body in
    (SBranch cond' body', n2, c)
  end

(** [visit_block]: [process_block] first (a final [continue] under a loop frame becomes
    [flag = true; break]; the appended statement has no children, visiting it changes
    nothing), then the statements, then the last statement *)
with rc_block (ctx : option N) (n : N) (b : block) {struct b} : block * N * bool :=
  match b with
  | Block ss last =>
    let '(ss', n1, c) := mapSB (rc_stmt ctx) n ss in
    match last, ctx with
    | Some LContinue, Some id => (Block (ss' ++ [set_flag id]) (Some LBreak), n1, true)
    | _, _ =>
      let (last', n2) := optS rc_last n1 last in
      (Block ss' last', n2, c)
    end
  end

with rc_last (n : N) (l : laststmt) {struct l} : laststmt * N :=
  match l with
  | LBreak | LContinue => (l, n)
  | LReturn es => let (es', n1) := mapS rc_expr n es in (LReturn es', n1)
  end.

(** [RemoveContinue::flawless_process]: a fresh [Processor] (empty stack, counter 0) *)
Definition remove_continue_block (b : block) : block := fst (fst (rc_block None 0 b)).

(** number of loops the rule entered ( = the last id handed out, modulo 2^16) *)
Definition remove_continue_loops (b : block) : N := snd (fst (rc_block None 0 b)).

(** * Which [continue] statements the rule converts (specification side)

    [stray_* inl x]: the number of [continue] statements of [x] the rule leaves in place:
    those reached while the top of the loop stack is not a loop.  [inl] = the top of the
    stack is a loop.  A function expression / function statement resets it to [false], a
    loop sets it to [true]; a local function and a type function KEEP it (surprise 2). *)
Definition nsum (l : list N) : N := fold_right N.add 0 l.
Definition nopt {A} (f : A -> N) (o : option A) : N := match o with Some a => f a | None => 0 end.

Fixpoint stray_ty (t : ty) {struct t} : N :=
  match t with
  | TyNode _ subs es => nsum (map stray_ty subs) + nsum (map stray_expr es)
  end

with stray_expr (e : expr) {struct e} : N :=
  match e with
  | ENil | ETrue | EFalse | ENumber _ | EString _ | EVarArgs | EIdent _ => 0
  | EInterp segs => nsum (map stray_iseg segs)
  | EField p _ => stray_expr p
  | EIndex p k => stray_expr p + stray_expr k
  | ECall p _ a => stray_expr p + stray_args a
  | EFunction f => stray_fbody false f
  | EIf bs els => nsum (map stray_ebranch bs) + stray_expr els
  | EParen e' => stray_expr e'
  | ETable entries => nsum (map stray_tentry entries)
  | EUnary _ e' => stray_expr e'
  | EBinary _ l r => stray_expr l + stray_expr r
  | ETypeCast e' t => stray_expr e' + stray_ty t
  | ETypeInst p tys => stray_expr p + nsum (map stray_ty tys)
  end

with stray_iseg (s : iseg) {struct s} : N :=
  match s with ISStr _ => 0 | ISExpr e => stray_expr e end

with stray_ebranch (b : ebranch) {struct b} : N :=
  match b with EBranch c r => stray_expr c + stray_expr r end

with stray_args (a : args) {struct a} : N :=
  match a with
  | ATuple es => nsum (map stray_expr es)
  | AString _ => 0
  | ATable entries => nsum (map stray_tentry entries)
  end

with stray_tentry (t : tentry) {struct t} : N :=
  match t with
  | TField _ v => stray_expr v
  | TIndex k v => stray_expr k + stray_expr v
  | TValue v => stray_expr v
  end

with stray_fbody (inl : bool) (f : fbody) {struct f} : N :=
  match f with
  | FBody ps _ vt rt gen _ body =>
    nsum (map stray_param ps) + (nopt stray_ty vt + (nopt stray_ty rt + (nopt stray_ty gen + stray_block inl body)))
  end

with stray_param (p : param) {struct p} : N :=
  match p with Param _ t => nopt stray_ty t end

with stray_stmt (inl : bool) (s : stmt) {struct s} : N :=
  match s with
  | SAssign vars vals => nsum (map stray_expr vars) + nsum (map stray_expr vals)
  | SDo b => stray_block inl b
  | SCall c => stray_expr c
  | SCompound _ var v => stray_expr var + stray_expr v
  | SFunction _ _ _ f => stray_fbody false f
  | SGenericFor vars es b => nsum (map stray_param vars) + (nsum (map stray_expr es) + stray_block true b)
  | SIf bs els => nsum (map (stray_sbranch inl) bs) + nopt (stray_block inl) els
  | SLocal _ vars vals => nsum (map stray_param vars) + nsum (map stray_expr vals)
  | SLocalFunction _ f => stray_fbody inl f
  | SNumericFor var a b step body =>
    stray_param var + (stray_expr a + (stray_expr b + (nopt stray_expr step + stray_block true body)))
  | SRepeat b c => stray_block true b + stray_expr c
  | SWhile c b => stray_expr c + stray_block true b
  | STypeDecl _ _ gen t => nopt stray_ty gen + stray_ty t
  | STypeFunction _ _ f => stray_fbody inl f
  end

with stray_sbranch (inl : bool) (b : sbranch) {struct b} : N :=
  match b with SBranch c body => stray_expr c + stray_block inl body end

with stray_block (inl : bool) (b : block) {struct b} : N :=
  match b with
  | Block stmts last => nsum (map (stray_stmt inl) stmts) + nopt (stray_last inl) last
  end

with stray_last (inl : bool) (l : laststmt) {struct l} : N :=
  match l with
  | LBreak => 0
  | LContinue => if inl then 0 else 1
  | LReturn es => nsum (map stray_expr es)
  end.

(** the [continue] statements of a chunk that are outside every loop frame *)
Definition stray_continues (b : block) : N := stray_block false b.

(** every [continue] of the chunk is reached under a loop frame (true for every valid Luau
    program: there [continue] occurs only inside a loop of the same function) *)
Definition continue_in_loops (b : block) : bool := stray_continues b =? 0.
