(** Model of darklua's number-literal reader ([src/nodes/expressions/number.rs]:
    [impl FromStr for NumberExpression], [compute_value]) including the Rust standard
    library parsers it relies on ([f64::from_str], [u64::from_str_radix], [u32]/[i64]
    [from_str]), whose grammars are transcribed from the Rust documentation.  Decimal to
    binary conversion is exact ([F64.of_decimal]); Rust's is correctly rounded. *)
From Coq Require Import ZArith NArith List Bool.
From Coq Require Import Floats.SpecFloat.
From DL Require Import Lib.Bytes Lib.F64 Lua.Syntax.
Import ListNotations.
Open Scope N_scope.

Definition filter_underscore (s : bytes) : bytes := filter (fun c => negb (c =? 95)) s.

Definition lower (c : N) : N := if (65 <=? c) && (c <=? 90) then c + 32 else c.

Definition digit_val (radix : N) (c : N) : option N :=
  let v := if (48 <=? c) && (c <=? 57) then Some (c - 48)
           else if (97 <=? lower c) && (lower c <=? 122) then Some (lower c - 87)
           else None in
  match v with
  | Some d => if d <? radix then Some d else None
  | None => None
  end.

(** [uN::from_str_radix] / [uN::from_str]: optional '+', at least one digit, overflow is an error *)
Fixpoint parse_digits (radix : N) (bound : N) (s : bytes) (acc : N) : option N :=
  match s with
  | [] => Some acc
  | c :: s' =>
    match digit_val radix c with
    | None => None
    | Some dv => let acc' := acc * radix + dv in
                 if bound <? acc' then None else parse_digits radix bound s' acc'
    end
  end.

Definition parse_unsigned (radix bound : N) (s : bytes) : option N :=
  let s := match s with 43 :: r => r | _ => s end in
  match s with
  | [] => None
  | _ => parse_digits radix bound s 0
  end.

Definition parse_u64_radix (radix : N) (s : bytes) : option N := parse_unsigned radix 18446744073709551615 s.
Definition parse_u32 (s : bytes) : option N := parse_unsigned 10 4294967295 s.

(** [i64::from_str] *)
Definition parse_i64 (s : bytes) : option Z :=
  match s with
  | 45 :: r => match r with
               | [] => None
               | _ => match parse_digits 10 9223372036854775808 r 0 with
                      | Some v => Some (- Z.of_N v)%Z
                      | None => None
                      end
               end
  | _ => match parse_unsigned 10 9223372036854775807 s with
         | Some v => Some (Z.of_N v)
         | None => None
         end
  end.

Definition lower_bytes (s : bytes) : bytes := map lower s.

(** exponent magnitudes beyond this cannot change the result (0 or infinity): clamp so that
    the exact conversion stays cheap.  Mantissa digit count is added to the bound at use. *)

(** Rust [f64::from_str]: [+-] ( inf | infinity | nan | digits [. digits] [ (e|E) [+-] digits ] )
    with at least one mantissa digit.  Returns the double. *)
Definition parse_f64 (s : bytes) : option f64 :=
  let '(neg, u) := match s with
                   | 45 :: r => (true, r)
                   | 43 :: r => (false, r)
                   | _ => (false, s)
                   end in
  let l := lower_bytes u in
  if bytes_eqb l (of_string "inf") || bytes_eqb l (of_string "infinity") then Some (S754_infinity neg)
  else if bytes_eqb l (of_string "nan") then Some S754_nan
  else
    let '(ip, ni, r1) := take_digits u 0 0 in
    let '(mant, nf, r2) :=
      match r1 with
      | 46 :: r => let '(m, nf, r') := take_digits r ip 0 in (m, nf, r')
      | _ => (ip, 0%Z, r1)
      end in
    if (ni + nf =? 0)%Z then None
    else
      let finish (ex : Z) : option f64 := Some (of_decimal_c neg mant (ex - nf)) in
      match r2 with
      | [] => finish 0%Z
      | c :: r3 =>
        if (c =? 101) || (c =? 69) then
          let '(eneg, r4) := match r3 with
                             | 45 :: r => (true, r)
                             | 43 :: r => (false, r)
                             | _ => (false, r3)
                             end in
          let '(ex, ne, r5) := take_digits r4 0 0 in
          if (ne =? 0)%Z then None
          else match r5 with
               | [] => finish (if eneg then - ex else ex)%Z
               | _ => None
               end
        else None
      end.

Fixpoint index_of (c : N) (s : bytes) (i : nat) : option nat :=
  match s with
  | [] => None
  | x :: s' => if x =? c then Some i else index_of c s' (S i)
  end.

(** second character of [s] once underscores are skipped, with its byte position *)
Fixpoint nth_non_underscore (s : bytes) (k : nat) (pos : nat) : option (nat * N) :=
  match s with
  | [] => None
  | c :: s' => if c =? 95 then nth_non_underscore s' k (S pos)
               else match k with
                    | O => Some (pos, c)
                    | S k' => nth_non_underscore s' k' (S pos)
                    end
  end.

Definition is_upper (c : N) : bool := (65 <=? c) && (c <=? 90).

(** [NumberExpression::from_str] *)
Definition from_str (value : bytes) : option number :=
  let starts_with_zero := match value with 48 :: _ => true | _ => false end in
  let decimal (_ : unit) : option number :=
    if prefix_b [46; 95] value then None
    else
      let idx := match index_of 101 value 0 with
                 | Some i => Some (false, i)
                 | None => match index_of 69 value 0 with
                           | Some i => Some (true, i)
                           | None => None
                           end
                 end in
      match idx with
      | Some (upper, i) =>
        if find_sub [95; 45] value || find_sub [95; 43] value then None
        else
          match parse_i64 (filter_underscore (skipn (S i) value)),
                parse_f64 (filter_underscore (firstn i value)),
                parse_f64 (filter_underscore value) with
          | Some ex, Some _, Some x => Some (NDec (to_bits x) (Some (ex, upper)))
          | _, _, _ => None
          end
      | None =>
        match parse_f64 (filter_underscore value) with
        | Some x => Some (NDec (to_bits x) None)
        | None => None
        end
      end in
  match starts_with_zero, nth_non_underscore value 1 0 with
  | true, Some (position, notation) =>
    if (notation =? 120) || (notation =? 88) then
      let idx := match index_of 112 value 0 with
                 | Some i => Some (false, i)
                 | None => match index_of 80 value 0 with
                           | Some i => Some (true, i)
                           | None => None
                           end
                 end in
      match idx with
      | Some (eupper, i) =>
        match parse_u32 (skipn (S i) value),
              parse_u64_radix 16 (firstn (i - S position) (skipn (S position) value)) with
        | Some ex, Some v => Some (NHex v (is_upper notation) (Some (ex, eupper)))
        | _, _ => None
        end
      | None =>
        match parse_u64_radix 16 (filter_underscore (skipn (S position) value)) with
        | Some v => Some (NHex v (is_upper notation) None)
        | None => None
        end
      end
    else if (notation =? 98) || (notation =? 66) then
      match parse_u64_radix 2 (filter_underscore (skipn (S position) value)) with
      | Some v => Some (NBin v (is_upper notation))
      | None => None
      end
    else decimal tt
  | _, _ => decimal tt
  end.
