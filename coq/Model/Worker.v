(** Model of darklua's long-lived worker ([src/frontend/worker_tree.rs], [worker.rs],
    [work_item.rs]) as it is driven by [--watch] ([src/cli/utils/file_watcher.rs]).

    Transcribed from the CURRENT code (after commit 296ef84: [process] calls [clean_files]
    before the early return and before the work loop).  Definitions only; proofs are in
    [Proof/Worker*.v].

    What is collapsed, and why it is sound:
    - [WorkStatus::InProgress] and the graph edges exist only for rules that override
      [Rule::require_content]; no shipped rule does ([grep -rn "fn require_content" src]
      finds the trait default in [src/rules/mod.rs] only), so [Worker::apply_rules] never
      returns with a pending item, [add_edges] stays empty, [toposort] cannot fail and the DFS
      of [restart_work] visits the root only.  The harness asserts on every state dump that no
      item is [in_progress] and that the graph has no edge.
    - the per-file transformation (parse, bundle, rules, generate) is the section variable
      [xform]; it returns the generated code (or failure) and the external files it registered.
    - node indices of the [StableDiGraph] ARE modelled (slot vector + LIFO free list) because
      [external_dependencies] stores indices that [remove_source] on a directory leaves behind.
    - the file system is [Source::Memory] ([Model/WorkerFs.v]); directory pruning in
      [clean_files] is a no-op there ([is_empty_directory] is [false] in memory) and is modelled
      separately in [prune_ancestors] below over an explicit directory set. *)
From DL Require Import Lib.Bytes Model.WorkerFs.
Open Scope N_scope.

(** * Work items ([work_item.rs]) *)

Inductive status := NotStarted | DoneOk | DoneErr.

Definition is_done (s : status) : bool :=
  match s with NotStarted => false | _ => true end.

Record item := mkItem {
  i_src : path;            (* WorkData.source *)
  i_out : path;            (* WorkData.output *)
  i_st : status;
  i_deps : list path       (* external_file_dependencies *)
}.

(** [WorkItem::reset] *)
Definition item_reset (it : item) : item := mkItem (i_src it) (i_out it) NotStarted [].

(** * The tree ([worker_tree.rs]: struct WorkerTree) *)

Record wtree := mkTree {
  slots : list (option item);      (* graph: node index = position; [None] = vacant *)
  free : list nat;                 (* StableGraph free list (most recently freed first) *)
  ext : list (path * list nat);    (* external_dependencies *)
  rmf : list path;                 (* remove_files *)
  last_hash : option N;            (* last_configuration_hash *)
  snap : option (list path)        (* output_structure (keys) *)
}.

Definition empty_tree : wtree := mkTree [] [] [] [] None None.

Definition set_slots t s := mkTree s (free t) (ext t) (rmf t) (last_hash t) (snap t).
Definition set_free t f := mkTree (slots t) f (ext t) (rmf t) (last_hash t) (snap t).
Definition set_ext t e := mkTree (slots t) (free t) e (rmf t) (last_hash t) (snap t).
Definition set_rmf t r := mkTree (slots t) (free t) (ext t) r (last_hash t) (snap t).
Definition set_hash t h := mkTree (slots t) (free t) (ext t) (rmf t) h (snap t).
Definition set_snap t s := mkTree (slots t) (free t) (ext t) (rmf t) (last_hash t) s.

Inductive res (A : Type) := Ok (a : A) | Panic.
Arguments Ok {A} a.
Arguments Panic {A}.

Definition get_slot (s : list (option item)) (i : nat) : option item := nth i s None.

Fixpoint set_slot (s : list (option item)) (i : nat) (v : option item) : list (option item) :=
  match s, i with
  | [], _ => []
  | _ :: s', O => v :: s'
  | x :: s', S i' => x :: set_slot s' i' v
  end.

(** [node_map.get(path)] (the map is kept in step with the graph by every operation) *)
Fixpoint find_src (s : list (option item)) (p : path) (i : nat) : option nat :=
  match s with
  | [] => None
  | Some it :: s' => if path_eqb (i_src it) p then Some i else find_src s' p (S i)
  | None :: s' => find_src s' p (S i)
  end.
Definition node_of (t : wtree) (p : path) : option nat := find_src (slots t) p 0%nat.

(** indices of the items whose source [starts_with] the path *)
Fixpoint nodes_under (s : list (option item)) (p : path) (i : nat) : list nat :=
  match s with
  | [] => []
  | Some it :: s' =>
    if starts_with p (i_src it) then i :: nodes_under s' p (S i) else nodes_under s' p (S i)
  | None :: s' => nodes_under s' p (S i)
  end.

Fixpoint ext_get (e : list (path * list nat)) (p : path) : list nat :=
  match e with
  | [] => []
  | (q, l) :: e' => if path_eqb q p then l else ext_get e' p
  end.

Definition mem_nat (i : nat) (l : list nat) : bool := existsb (Nat.eqb i) l.
Definition remove_nat (i : nat) (l : list nat) : list nat :=
  filter (fun j => negb (Nat.eqb i j)) l.

(** [container.remove(&node_index)] *)
Fixpoint ext_unlink (e : list (path * list nat)) (p : path) (i : nat) : list (path * list nat) :=
  match e with
  | [] => []
  | (q, l) :: e' =>
    if path_eqb q p then (q, remove_nat i l) :: e' else (q, l) :: ext_unlink e' p i
  end.

(** [external_dependencies.entry(path).or_default().insert(node_index)] *)
Fixpoint ext_link (e : list (path * list nat)) (p : path) (i : nat) : list (path * list nat) :=
  match e with
  | [] => [(p, [i])]
  | (q, l) :: e' =>
    if path_eqb q p then (q, if mem_nat i l then l else i :: l) :: e'
    else (q, l) :: ext_link e' p i
  end.

(** [restart_work]: without edges the DFS yields the root only; a vacant (or out-of-range)
    index makes [Dfs::next] / [node_weight_mut(..).expect("node index should exist")] panic *)
Definition restart_work (t : wtree) (idx : nat) : res wtree :=
  match get_slot (slots t) idx with
  | None => Panic
  | Some it =>
    Ok (set_ext (set_slots t (set_slot (slots t) idx (Some (item_reset it))))
                (fold_left (fun e d => ext_unlink e d idx) (i_deps it) (ext t)))
  end.

Fixpoint restart_all (t : wtree) (idxs : list nat) : res wtree :=
  match idxs with
  | [] => Ok t
  | i :: rest =>
    match restart_work t i with
    | Ok t' => restart_all t' rest
    | Panic => Panic
    end
  end.

(** [update_external_dependencies]: the indices are copied out first, then restarted *)
Definition update_external_dependencies (t : wtree) (p : path) : res wtree :=
  restart_all t (ext_get (ext t) p).

(** [source_changed] *)
Definition source_changed (t : wtree) (p : path) : res wtree :=
  match (match node_of t p with
         | Some i => restart_work t i
         | None => restart_all t (nodes_under (slots t) p 0%nat)
         end) with
  | Ok t' => update_external_dependencies t' p
  | Panic => Panic
  end.

(** [StableGraph::remove_node] *)
Definition remove_node (t : wtree) (i : nat) : wtree :=
  match get_slot (slots t) i with
  | None => t
  | Some _ => set_free (set_slots t (set_slot (slots t) i None)) (i :: free t)
  end.

Definition queue_removal (t : wtree) (it : item) : wtree :=
  if path_eqb (i_src it) (i_out it) then t (* is_in_place *) else set_rmf t (rmf t ++ [i_out it]).

Fixpoint remove_nodes (t : wtree) (idxs : list nat) : wtree :=
  match idxs with
  | [] => t
  | i :: rest =>
    match get_slot (slots t) i with
    | Some it => remove_nodes (queue_removal (remove_node t i) it) rest
    | None => remove_nodes t rest
    end
  end.

(** [remove_source]; "below the directory" is [Path::starts_with]: a COMPONENT-wise prefix
    ([nodes_under] uses [starts_with] of [Model/WorkerFs.v]), so [src/sub.lua] and
    [src/sub_extra/x.lua] are not below [src/sub].  The correspondence splits every path of the
    harness at [/] into components before giving it to the model.
    In the directory arm nothing is unlinked from [external_dependencies]
    (the hash-map order of the removals is modelled as index order) *)
Definition remove_source (t : wtree) (p : path) : res wtree :=
  match (match node_of t p with
         | Some i =>
           match get_slot (slots t) i with
           | Some it =>
             match restart_work (queue_removal t it) i with
             | Ok t' => Ok (remove_node t' i)
             | Panic => Panic
             end
           | None => Panic
           end
         | None => Ok (remove_nodes t (nodes_under (slots t) p 0%nat))
         end) with
  | Ok t' => update_external_dependencies t' p
  | Panic => Panic
  end.

(** [StableGraph::add_node]: reuse the most recently freed index, else append *)
Definition add_node (t : wtree) (it : item) : wtree :=
  match free t with
  | i :: fr => set_free (set_slots t (set_slot (slots t) i (Some it))) fr
  | [] => set_slots t (slots t ++ [Some it])
  end.

(** [insert_source] with [Some(output)] *)
Definition insert_source (t : wtree) (p out : path) : wtree :=
  add_node t (mkItem p out NotStarted []).

(** [add_source_if_missing] *)
Definition add_source_if_missing (t : wtree) (p out : path) : wtree :=
  match node_of t p with
  | Some _ => t
  | None => insert_source t p out
  end.

(** [add_source] *)
Definition add_source (t : wtree) (p out : path) : res wtree :=
  match update_external_dependencies t p with
  | Ok t' =>
    match node_of t' p with
    | Some i => restart_work t' i
    | None => Ok (insert_source t' p out)
    end
  | Panic => Panic
  end.

(** [reset] *)
Definition reset (t : wtree) : wtree :=
  set_ext (set_slots t (map (option_map item_reset) (slots t))) [].

(** [has_configuration_changed] (the new hash is stored by the caller below) *)
Definition cfg_changed (t : wtree) (h : N) : bool :=
  match last_hash t with
  | Some l => negb (l =? h)
  | None => false
  end.

Definition count_pending (s : list (option item)) : nat :=
  List.length (filter (fun o => match o with Some it => negb (is_done (i_st it)) | None => false end) s).

(** [clean_files] on memory resources: [resources.remove] for every queued path; the ancestor
    pruning does nothing because [is_empty_directory] is [false] for [Source::Memory] *)
Definition clean_files (t : wtree) (f : fs) : wtree * fs :=
  (set_rmf t [], fold_left fs_remove (rmf t) f).

Section Worker.
  Variable cfg : Type.
  (** xxh3 of the serialized configuration *)
  Variable hash : cfg -> N.
  (** the whole per-file pipeline of [Worker::advance_work]: source path, source text and the
      file system it may read -> generated code (None = any error) and the external file
      dependencies registered in the item *)
  Variable xform : cfg -> path -> content -> fs -> option content * list path.
  (** [Options::input] (a directory) and [Options::output] *)
  Variable inp outp : path.

  Definition out_of (q : path) : path := rebase inp outp q.
  Definition is_source (q : path) : bool := starts_with inp q && is_lua_path q.

  (** [collect_work], arm "output given, input is a directory" *)
  Definition collect_work (t : wtree) (f : fs) : wtree :=
    fold_left (fun t q => add_source_if_missing t q (out_of q)) (fs_collect f inp) t.

  (** [Worker::advance_work] on a [NotStarted] item, then the status the loop gives it *)
  Definition advance (c : cfg) (it : item) (f : fs) : item * fs :=
    match fs_get f (i_src it) with
    | None => (mkItem (i_src it) (i_out it) DoneErr (i_deps it), f)
    | Some txt =>
      let '(r, ds) := xform c (i_src it) txt f in
      match r with
      | Some o => (mkItem (i_src it) (i_out it) DoneOk (ds ++ i_deps it), fs_write f (i_out it) o)
      | None => (mkItem (i_src it) (i_out it) DoneErr (ds ++ i_deps it), f)
      end
    end.

  (** one pass of the [for node_index in node_indexes] loop; returns [done_count] too *)
  Fixpoint sweep (c : cfg) (s : list (option item)) (i : nat) (e : list (path * list nat))
           (f : fs) (done : nat) : list (option item) * list (path * list nat) * fs * nat :=
    match s with
    | [] => ([], e, f, done)
    | None :: s' =>
      let '(s2, e2, f2, d2) := sweep c s' (S i) e f done in (None :: s2, e2, f2, d2)
    | Some it :: s' =>
      let '(it1, f1, d1) :=
        if is_done (i_st it) then (it, f, done)
        else let '(it', f') := advance c it f in (it', f', S done) in
      let e1 := fold_left (fun e d => ext_link e d i) (i_deps it1) e in
      let '(s2, e2, f2, d2) := sweep c s' (S i) e1 f1 d1 in
      (Some it1 :: s2, e2, f2, d2)
    end.

  (** ['work_loop]: repeat passes until [done_count == total_not_done]; [None] = out of fuel *)
  Fixpoint work_loop (fuel : nat) (c : cfg) (t : wtree) (f : fs) (total : nat)
    : option (wtree * fs) :=
    match fuel with
    | O => None
    | S k =>
      let '(s2, e2, f2, d) := sweep c (slots t) 0%nat (ext t) f 0%nat in
      let t2 := set_ext (set_slots t s2) e2 in
      if Nat.eqb d total then Some (t2, f2) else work_loop k c t2 f2 total
    end.

  (** [WorkerTree::process] *)
  Definition process (c : cfg) (t : wtree) (f : fs) : option (wtree * fs) :=
    let h := hash c in
    let t1 := set_hash (if cfg_changed t h then reset t else t) (Some h) in
    let total := count_pending (slots t1) in
    let '(t2, f2) := clean_files t1 f in
    if Nat.eqb total 0 then Some (t2, f2)
    else match work_loop (S total) c t2 f2 total with
         | Some (t3, f3) => Some (clean_files t3 f3)
         | None => None
         end.

  (** [snapshot_output_structure] on memory resources: [exists(location)] is false for a
      directory of [Source::Memory], so nothing is recorded *)
  Definition snapshot_output_structure (t : wtree) (f : fs) : wtree :=
    match snap t with
    | Some _ => t
    | None => if fs_is_file f outp && fs_is_dir f outp then set_snap t (Some (fs_walk f outp)) else t
    end.

  (** * Histories: what the user does to the files and what the watcher tells the worker *)

  Inductive event :=
  | FsWrite (p : path) (c : content)     (* the user saves or creates a file *)
  | FsRemove (p : path)                  (* the user deletes a file *)
  | FsRemoveDir (d : path)               (* the user deletes a directory *)
  | SetCfg (c : cfg)                     (* the configuration changes *)
  | Snapshot                             (* darklua_core::process: snapshot_output_structure *)
  | Collect                              (* worker_collect_work (creation events) *)
  | SrcChanged (p : path)                (* source_changed (modification events) *)
  | RemoveSrc (p : path)                 (* remove_source (removal / rename events) *)
  | AddSrc (p : path)                    (* add_source(p, Some(mirrored output)) *)
  | Process.                             (* run_worker_tree *)

  Record world := mkWorld { w_fs : fs; w_cfg : cfg; w_tree : wtree }.

  Inductive outcome := Running (w : world) | Panicked | OutOfFuel.

  Definition with_tree (w : world) (r : res wtree) : outcome :=
    match r with
    | Ok t => Running (mkWorld (w_fs w) (w_cfg w) t)
    | Panic => Panicked
    end.

  Definition step (w : world) (e : event) : outcome :=
    match e with
    | FsWrite p c => Running (mkWorld (fs_write (w_fs w) p c) (w_cfg w) (w_tree w))
    | FsRemove p => Running (mkWorld (fs_del (w_fs w) p) (w_cfg w) (w_tree w))
    | FsRemoveDir d => Running (mkWorld (fs_del_under (w_fs w) d) (w_cfg w) (w_tree w))
    | SetCfg c => Running (mkWorld (w_fs w) c (w_tree w))
    | Snapshot => Running (mkWorld (w_fs w) (w_cfg w) (snapshot_output_structure (w_tree w) (w_fs w)))
    | Collect => Running (mkWorld (w_fs w) (w_cfg w) (collect_work (w_tree w) (w_fs w)))
    | SrcChanged p => with_tree w (source_changed (w_tree w) p)
    | RemoveSrc p => with_tree w (remove_source (w_tree w) p)
    | AddSrc p => with_tree w (add_source (w_tree w) p (out_of p))
    | Process =>
      match process (w_cfg w) (w_tree w) (w_fs w) with
      | Some (t, f) => Running (mkWorld f (w_cfg w) t)
      | None => OutOfFuel
      end
    end.

  Fixpoint run (w : world) (h : list event) : outcome :=
    match h with
    | [] => Running w
    | e :: h' =>
      match step w e with
      | Running w' => run w' h'
      | bad => bad
      end
    end.

  (** the user's files alone (what a fresh run starts from) *)
  Definition user_step (f : fs) (e : event) : fs :=
    match e with
    | FsWrite p c => fs_write f p c
    | FsRemove p => fs_del f p
    | FsRemoveDir d => fs_del_under f d
    | _ => f
    end.
  Definition user_fs (f : fs) (h : list event) : fs := fold_left user_step h f.

  Definition final_cfg (c : cfg) (h : list event) : cfg :=
    fold_left (fun c e => match e with SetCfg c' => c' | _ => c end) h c.

  (** * The specification: a fresh run

      [darklua_core::process] over the files [f]: every Lua file under the input whose
      transformation succeeds is written at the mirrored path; nothing else changes. *)
  Definition fresh (c : cfg) (f : fs) : fs :=
    fold_left (fun g q =>
                 match fs_get f q with
                 | Some txt =>
                   match fst (xform c q txt f) with
                   | Some o => fs_write g (out_of q) o
                   | None => g
                   end
                 | None => g
                 end) (fs_collect f inp) f.

  (** every source of [f] transforms successfully *)
  Definition healthy (c : cfg) (f : fs) : bool :=
    forallb (fun q => match fs_get f q with
                      | Some txt => match fst (xform c q txt f) with Some _ => true | None => false end
                      | None => true
                      end) (fs_collect f inp).

  (** every source transforms successfully at every [Process] of the history *)
  Fixpoint always_healthy (f : fs) (c : cfg) (h : list event) : bool :=
    match h with
    | [] => true
    | e :: h' =>
      (match e with Process => healthy c f | _ => true end)
      && always_healthy (user_step f e) (match e with SetCfg c' => c' | _ => c end) h'
    end.

  (** * The watcher contract: every change is reported before the next [Process]

      Three kinds of unreported change are tracked along the history:
      [dC] paths whose content changed (cleared by [SrcChanged p], [AddSrc p], [RemoveSrc p]),
      [dN] new sources that may have no work item yet (cleared by [Collect], [AddSrc p]),
      [dR] removed files / directories whose items must go (cleared by [RemoveSrc p]). *)
  Record dirty := mkDirty { dC : list path; dN : list path; dR : list path }.

  Definition no_dirt : dirty := mkDirty [] [] [].
  Definition drop (p : path) (l : list path) : list path := filter (fun q => negb (path_eqb q p)) l.
  Definition covered (l : list path) (p : path) : bool := existsb (fun r => starts_with r p) l.
  Definition is_clean (d : dirty) : bool :=
    match dC d, dN d, dR d with [], [], [] => true | _, _, _ => false end.

  Definition track (f : fs) (d : dirty) (e : event) : dirty :=
    match e with
    | FsWrite p _ =>
      if fs_is_file f p then mkDirty (p :: dC d) (dN d) (dR d)
      else if is_source p then mkDirty (dC d) (p :: dN d) (dR d) else d
    | FsRemove p => mkDirty (p :: dC d) (dN d) (p :: dR d)
    | FsRemoveDir p => mkDirty (dC d) (dN d) (p :: dR d)
    | SrcChanged p => mkDirty (drop p (dC d)) (dN d) (dR d)
    | AddSrc p => mkDirty (drop p (dC d)) (drop p (dN d)) (dR d)
    | Collect => mkDirty (dC d) [] (dR d)
    | RemoveSrc p =>
      mkDirty (drop p (dC d))
              (filter (fun q => starts_with p q) (fs_collect f inp) ++ dN d)
              (drop p (dR d))
    | SetCfg _ | Snapshot | Process => d
    end.

  (** calls the contract forbids: [add_source] for something that is not an existing source *)
  Definition call_ok (f : fs) (e : event) : bool :=
    match e with
    | AddSrc p => fs_is_file f p && is_source p
    | _ => true
    end.

  Fixpoint reported_from (f : fs) (d : dirty) (h : list event) : bool :=
    match h with
    | [] => true
    | e :: h' =>
      call_ok f e
      && (match e with Process => is_clean d | _ => true end)
      && reported_from (user_step f e) (track f d e) h'
    end.

  (** initially no source has a work item *)
  Definition reported (f0 : fs) (h : list event) : bool :=
    reported_from f0 (mkDirty [] (fs_collect f0 inp) []) h.

  (** * Carve-outs (recorded findings), as decidable predicates *)

  Definition all_items (t : wtree) : list item :=
    flat_map (fun o => match o with Some it => [it] | None => [] end) (slots t).

  (** K-dir: a directory removal that [remove_source] does not handle:
      (a) at the file-system change, a file under the directory is a registered external
          dependency of some item (its dependents are not restarted);
      (b) at the call, an item under the directory has registered external dependencies
          (its node index stays in [external_dependencies]: later panic or wrong restart). *)
  Definition dir_event_ok (t : wtree) (e : event) : bool :=
    match e with
    | FsRemoveDir d =>
      forallb (fun it => forallb (fun dep => negb (starts_with d dep)) (i_deps it)) (all_items t)
    | RemoveSrc p =>
      match node_of t p with
      | Some _ => true
      | None => forallb (fun it => negb (starts_with p (i_src it)) ||
                                   match i_deps it with [] => true | _ => false end) (all_items t)
      end
    | _ => true
    end.

  Fixpoint dirs_ok (w : world) (h : list event) : bool :=
    match h with
    | [] => true
    | e :: h' =>
      dir_event_ok (w_tree w) e &&
      match step w e with
      | Running w' => dirs_ok w' h'
      | _ => true
      end
    end.

  (** the user's events stay away from the output folder; no path is both a file and a
      directory; nothing foreign sits at or under the output path of a source *)
  Definition touches_out (p : path) : bool := starts_with outp p || starts_with p outp.

  Definition written_paths (h : list event) : list path :=
    flat_map (fun e => match e with FsWrite p _ => [p] | _ => [] end) h.

  Definition ever_files (f0 : fs) (h : list event) : list path := map fst f0 ++ written_paths h.

  Definition strict_prefix (a b : path) : bool := starts_with a b && negb (path_eqb a b).

  Definition paths_ok (f0 : fs) (h : list event) : bool :=
    let ever := ever_files f0 h in
    forallb (fun e => match e with
                      | FsWrite p _ | FsRemove p => negb (touches_out p)
                      | FsRemoveDir d => negb (touches_out d)
                      | _ => true
                      end) h
    && forallb (fun a => forallb (fun b => negb (strict_prefix a b)) ever) ever
    && forallb (fun q => negb (is_source q) ||
                         forallb (fun p => negb (starts_with (out_of q) p)) (map fst f0)) ever.
End Worker.

Arguments FsWrite {cfg} p c.
Arguments FsRemove {cfg} p.
Arguments FsRemoveDir {cfg} d.
Arguments SetCfg {cfg} c.
Arguments Snapshot {cfg}.
Arguments Collect {cfg}.
Arguments SrcChanged {cfg} p.
Arguments RemoveSrc {cfg} p.
Arguments AddSrc {cfg} p.
Arguments Process {cfg}.
Arguments Running {cfg} w.
Arguments Panicked {cfg}.
Arguments OutOfFuel {cfg}.
Arguments mkWorld {cfg} w_fs w_cfg w_tree.
Arguments w_fs {cfg} w.
Arguments w_cfg {cfg} w.
Arguments w_tree {cfg} w.

(** * Directory pruning of [clean_files] (file-system resources only)

    [dirs] is the set of existing directories, [files] the existing files.  After a queued
    output is removed, its ancestors are removed bottom-up while they are not part of the
    snapshot taken before the first run and are empty. *)
Fixpoint ancestors (p : path) : list path :=
  (* Path::ancestors().skip(1), nearest first, without the empty path *)
  match rev p with
  | [] => []
  | _ :: r =>
    (fix go (r : list string) : list path :=
       match r with
       | [] => []
       | _ :: r' => rev r :: go r'
       end) r
  end.

Definition dir_is_empty (files dirs : list path) (d : path) : bool :=
  mem_path d dirs
  && negb (existsb (fun p => strict_prefix d p) files)
  && negb (existsb (fun p => strict_prefix d p) dirs).

Fixpoint prune_ancestors (snapshot files dirs : list path) (anc : list path) : list path :=
  match anc with
  | [] => dirs
  | a :: rest =>
    if negb (mem_path a snapshot) && dir_is_empty files dirs a
    then prune_ancestors snapshot files (filter (fun d => negb (starts_with a d)) dirs) rest
    else dirs
  end.

(** one iteration of the loop of [clean_files] when [output_structure] is [Some(snapshot)] *)
Definition clean_one (snapshot : list path) (files dirs : list path) (p : path)
  : list path * list path :=
  let files' := filter (fun q => negb (path_eqb q p)) files in
  (files', prune_ancestors snapshot files' dirs (ancestors p)).
