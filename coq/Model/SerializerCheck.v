(** C14 — per-run oracle helpers (no model of the serializer involved): the string literals of
    an emitted text, read by the REFERENCE lexer ([Model/Lexer.v]) and the REFERENCE literal
    decoder ([Model/StringLit.v]), against the string nodes of the tree darklua's parser read
    from the same text.  This removes darklua's own literal reader from what the value
    comparison trusts. *)
From Coq Require Import ZArith NArith List Bool.
From DL Require Import Lib.Bytes Lua.Syntax Model.Lexer Model.StringLit.
Import ListNotations.
Open Scope N_scope.

(** string nodes of an expression, in source order (the constructs emitted texts use) *)
Fixpoint strings_of (e : expr) : list bytes :=
  match e with
  | EString s => [s]
  | ETable entries =>
    (fix go (l : list tentry) : list bytes :=
       match l with
       | [] => []
       | TValue v :: r => strings_of v ++ go r
       | TField _ v :: r => strings_of v ++ go r
       | TIndex k v :: r => strings_of k ++ strings_of v ++ go r
       end) entries
  | EUnary _ x => strings_of x
  | EParen x => strings_of x
  | EBinary _ l r => strings_of l ++ strings_of r
  | _ => []
  end.

Definition strings_of_chunk (b : block) : option (list bytes) :=
  match b with
  | Block [] (Some (LReturn [e])) => Some (strings_of e)
  | _ => None
  end.

Fixpoint decode_all (luau : bool) (toks : list token) : option (list bytes) :=
  match toks with
  | [] => Some []
  | (TString, lit) :: r =>
    match decode_literal luau lit, decode_all luau r with
    | Some v, Some vs => Some (v :: vs)
    | _, _ => None
    end
  | _ :: r => decode_all luau r
  end.

Fixpoint bytes_list_eqb (a b : list bytes) : bool :=
  match a, b with
  | [], [] => true
  | x :: a', y :: b' => bytes_eqb x y && bytes_list_eqb a' b'
  | _, _ => false
  end.

(** the text lexes, and its string literals decode (under the given escape rules) to the
    string nodes of the parsed tree, in order *)
Definition literals_agree (luau : bool) (text : bytes) (b : block) : bool :=
  match lex text, strings_of_chunk b with
  | Some toks, Some expected =>
    match decode_all luau toks with
    | Some vals => bytes_list_eqb vals expected
    | None => false
    end
  | _, _ => false
  end.
