(** Executable model of darklua's bundler at the level of the module graph
    (src/rules/bundle/path_require_mode/mod.rs: RequirePathProcessor::{try_inline_call,
    inline_require, require_resource}; module_definitions.rs: BuildModuleDefinitions::
    {build_module_from_resource, generate_module_name, apply}).  No proofs here
    (Proof/Bundle*.v).

    Abstraction.  A file is a number.  What the bundler does with a file depends on
      - whether it can be read / parsed / transcoded                ([KBroken] when not),
      - for a Lua file: the sequence of its `require` call sites in visit order (DefaultVisitor /
        ScopeVisitor pre-order = textual order) *after* [is_require_call],
        [match_path_require_call], the `excludes` test and the path locator - each site is
        either resolved to a file ([RFile]) or the locator failed ([RNotFound]) - and the
        number of values of its final `return` ([None]: the block does not end with a return).
    Calls that are not require calls for the bundler (method form, two arguments, non-literal
    argument, excluded pattern, and - in the entry file only - a shadowed `require`) are not
    call sites of the model.  Required modules are visited with [DefaultVisitor], which does
    no scope tracking: there, every `require("<literal>")` is a call site, shadowed or not.
    Path resolution itself is the subject of C15 (Model/Require.v). *)
From Coq Require Import NArith List Bool.
From DL Require Import Lib.Bytes Model.Rename.
Import ListNotations.
Open Scope N_scope.

Definition file := N.

Inductive req :=
| RFile (f : file)            (* find_require_path = Ok f *)
| RNotFound (lit : N).        (* find_require_path = Err _ (the literal is only an identifier here) *)

Inductive kind :=
| KLua (reqs : list req) (returns : option nat)
| KData                       (* json, json5, yaml, toml, txt: becomes `return <expression>` *)
| KBroken.                    (* unreadable, syntax error, malformed data, unknown extension *)

Definition graph := list (file * kind).

Fixpoint lookup (g : graph) (f : file) : option kind :=
  match g with
  | [] => None
  | (f', k) :: rest => if f' =? f then Some k else lookup rest f
  end.

Inductive error :=
| ENotFound (lit : N)          (* path locator: "unable to find ..." *)
| ECyclic (chain : list file)  (* "cyclic require detected with `a` > `b` > `a`" *)
| EResource (f : file)         (* resources.get / parser / transcode / extension error for f *)
| EModule (f : file).          (* "invalid Lua module at `f`: module must ..." *)

(** a processed call site: [Some k] = replaced by `<modules_identifier>.<name k>()`,
    [None] = left as it was *)
Definition site := option nat.

Record state := mkState {
  cache : list (file * nat);            (* module_cache: resolved path -> the call expression (its module index) *)
  skip : list file;                     (* skip_module_paths *)
  defs : list (file * list site);       (* module_definitions (IndexMap, insertion order): the k-th entry has the k-th generated name *)
  errors : list error;                  (* self.errors, in push order *)
}.

Definition init : state := mkState [] [] [] [].

Fixpoint cache_get (c : list (file * nat)) (f : file) : option nat :=
  match c with
  | [] => None
  | (f', k) :: rest => if f' =? f then Some k else cache_get rest f
  end.

Definition memf (f : file) (l : list file) : bool := existsb (N.eqb f) l.

(** position of the first occurrence *)
Fixpoint index_of (f : file) (l : list file) : option nat :=
  match l with
  | [] => None
  | x :: rest => if x =? f then Some O
                 else match index_of f rest with Some i => Some (S i) | None => None end
  end.

Definition push_error (e : error) (s : state) : state :=
  mkState (cache s) (skip s) (defs s) (errors s ++ [e]).
Definition add_skip (f : file) (s : state) : state :=
  mkState (cache s) (f :: skip s) (defs s) (errors s).

(** build_module_from_resource (success part) + module_cache.insert: the new module gets the
    next generated name, its definition is appended, the path is cached *)
Definition define (f : file) (sites : list site) (s : state) : state * nat :=
  let k := List.length (defs s) in
  (mkState ((f, k) :: cache s) (skip s) (defs s ++ [(f, sites)]) (errors s), k).

(** result of inline_require: the module index or the error (DarkluaResult<Expression>) *)
Definition inlined := (nat + error)%type.

(** try_inline_call on one call site, given inline_require *)
Definition try_inline (inline_rec : file -> state -> option (state * inlined)) (r : req) (s : state)
  : option (state * site) :=
  match r with
  | RNotFound lit => Some (push_error (ENotFound lit) s, None)
  | RFile f =>
    if memf f (skip s) then Some (s, None)
    else match inline_rec f s with
         | None => None
         | Some (s', inl k) => Some (s', Some k)
         | Some (s', inr e) => Some (add_skip f (push_error e s'), None)
         end
  end.

(** the visitor running over the call sites of one block, in order *)
Fixpoint visit (rec : req -> state -> option (state * site)) (rs : list req) (s : state)
  : option (state * list site) :=
  match rs with
  | [] => Some (s, [])
  | r :: rest =>
    match rec r s with
    | None => None
    | Some (s1, x) =>
      match visit rec rest s1 with
      | None => None
      | Some (s2, xs) => Some (s2, x :: xs)
      end
    end
  end.

Section Graph.
Variable g : graph.

(** inline_require; [stack] = require_stack, oldest first; [None] = out of fuel *)
Fixpoint inline (fuel : nat) (stack : list file) (f : file) (s : state) {struct fuel}
  : option (state * inlined) :=
  match fuel with
  | O => None
  | S fuel' =>
    match cache_get (cache s) f with
    | Some k => Some (s, inl k)
    | None =>
      match index_of f stack with
      | Some i => Some (s, inr (ECyclic (skipn i stack ++ [f])))
      | None =>
        (* require_stack.push(f); require_resource(f); require_stack.pop() *)
        match lookup g f with
        | None | Some KBroken => Some (s, inr (EResource f))
        | Some KData => let '(s', k) := define f [] s in Some (s', inl k)
        | Some (KLua reqs returns) =>
          match visit (try_inline (inline fuel' (stack ++ [f]))) reqs s with
          | None => None
          | Some (s', sites) =>
            match returns with
            | Some 1%nat => let '(s'', k) := define f sites s' in Some (s'', inl k)
            | _ => Some (s', inr (EModule f))
            end
          end
        end
      end
    end
  end.

(** process_block on the entry: its call sites with an empty require stack *)
Definition run_entry (fuel : nat) (reqs : list req) : option (state * list site) :=
  visit (try_inline (inline fuel [])) reqs init.

End Graph.

Inductive result :=
| Bundled (modules : list (file * list site)) (entry_sites : list site)
| Failed (errs : list error)
| OutOfFuel.

Definition files_of (g : graph) : list file := map fst g.

(** enough fuel for every graph (Proof/BundleTerminates.v) *)
Definition enough_fuel (g : graph) : nat := S (S (List.length g)).

(** RequirePathProcessor::apply: an error as soon as one was pushed *)
Definition bundle_with (fuel : nat) (g : graph) (entry_reqs : list req) : result :=
  match run_entry g fuel entry_reqs with
  | None => OutOfFuel
  | Some (s, sites) =>
    match errors s with
    | [] => Bundled (defs s) sites
    | es => Failed es
    end
  end.

Definition bundle (g : graph) (entry_reqs : list req) : result :=
  bundle_with (enough_fuel g) g entry_reqs.

(** generate_module_name: the identifier stream without "cache"; the k-th module definition
    is called [module_name k] *)
Definition not_cache (x : name) : bool := negb (bytes_eqb x (of_string "cache")).
Definition module_names (n : nat) : list name := firstn n (filter not_cache (gen_stream (S n))).
Definition module_name (k : nat) : name := nth k (module_names (S k)) [].

(** ---------------------------------------------------------------------------------------
    Rendering for the correspondence check (vlib/c05.py) *)

Definition site_name (x : site) : name :=
  match x with Some k => module_name k | None => of_string "-" end.

Definition shape := (list (name * (file * list name)) * list name)%type.

Definition render_modules (ms : list (file * list site)) : list (name * (file * list name)) :=
  (fix go (ms : list (file * list site)) (k : nat) :=
     match ms with
     | [] => []
     | (f, sites) :: rest => (module_name k, (f, map site_name sites)) :: go rest (S k)
     end) ms O.
