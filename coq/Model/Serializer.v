(** C14 — model of darklua's data serializer
    (/repo/src/process/expression_serializer.rs: [to_expression], a serde [Serializer] that
    builds a Lua expression) with the serde call protocol collapsed to its effect.

    Input: [data] (Lua/DataSpec.v), the tree of serde calls a JSON / YAML / TOML value drives:
      serialize_unit / serialize_none / serialize_unit_struct      -> DNull
      serialize_bool                                                -> DBool
      serialize_i8..i64, serialize_u8..u64                          -> DInt   (all forward to i64 / u64)
      serialize_f32 (widened), serialize_f64                        -> DFloat
      serialize_str, serialize_char, serialize_unit_variant         -> DString
      serialize_seq / tuple / tuple_struct + elements + end         -> DSeq
      serialize_map / struct + (key, value)* + end                  -> DMap
      serialize_newtype_variant / tuple_variant / struct_variant    -> DMap [(DString variant, inner)]
      serialize_some / serialize_newtype_struct                     -> the inner value
    (serde_json::Value uses unit, bool, u64 / i64 / f64, str, seq, map; serde_yaml::Value the
    same with arbitrary keys, a tagged value is a one-entry map; toml::Value uses bool, i64,
    f64, str, seq, map and a one-field struct for a datetime.)  The harness records exactly
    this tree from the real value (harness/crates/c14/src/record.rs).

    The serializer's state machine ([operation] stack of Table / TableEntryKey /
    TableEntryValue, [expression_stack] of pending keys) is driven by well-bracketed calls
    only, so its effect is structural recursion:
      - [process e] with [Table entries] on top pushes [TableEntry::from_value e]   (sequence element)
      - a key is pushed on [expression_stack], the following value calls
        [complete_table_entry], which looks at the KEY EXPRESSION: a string expression whose
        value [is_valid_identifier] becomes a field entry [name = v], every other key an
        index entry [[key] = v]
      - [close_table] pops the entries into [TableExpression::new(entries)].
    Null elements and null values are emitted as [nil] like any other value.
    Errors: the internal errors are unreachable from well-bracketed calls; the only reachable
    failure is serde's default [serialize_i128] / [serialize_u128] ("i128 is not supported"),
    modelled as [DInt z] outside the i64 / u64 range giving [None]. *)
From Coq Require Import ZArith NArith List Bool.
From DL Require Import Lib.Bytes Lib.F64 Lua.Syntax Lua.DataSpec.
Import ListNotations.
Open Scope N_scope.

(** * /repo/src/process/utils/mod.rs: [is_valid_identifier] and [matches_any_keyword!] *)

Definition keywords : list bytes :=
  map of_string
    [ "and"; "break"; "do"; "else"; "elseif"; "end"; "false"; "for"; "function"; "if"; "in";
      "local"; "nil"; "not"; "or"; "repeat"; "return"; "then"; "true"; "until"; "while" ]%string.

Definition is_ascii_alpha (c : N) : bool := ((65 <=? c) && (c <=? 90)) || ((97 <=? c) && (c <=? 122)).

(** [identifier.char_indices().all(|(i, c)| c.is_alphabetic() || c == '_' || (c.is_ascii_digit() && i > 0))]
    on an ASCII string ([is_ascii] is checked first, so [is_alphabetic] is the ASCII test) *)
Fixpoint ident_chars (first : bool) (s : bytes) : bool :=
  match s with
  | [] => true
  | c :: r => (is_ascii_alpha c || (c =? 95) || (is_digit c && negb first)) && ident_chars false r
  end.

Definition is_valid_identifier (s : bytes) : bool :=
  negb (match s with [] => true | _ => false end)
  && forallb (fun c => c <? 128) s
  && ident_chars true s
  && negb (existsb (bytes_eqb s) keywords).

(** * the serializer *)

(** i64 / u64 *)
Definition int_supported (z : Z) : bool :=
  ((-9223372036854775808 <=? z) && (z <? 18446744073709551616))%Z.

(** [complete_table_entry]: the split on the key expression.  ([get_string_value] asks for
    valid UTF-8, which [is_valid_identifier] subsumes: it only accepts ASCII.) *)
Definition table_entry (key v : expr) : tentry :=
  match key with
  | EString s => if is_valid_identifier s then TField s v else TIndex key v
  | _ => TIndex key v
  end.

Fixpoint to_expression (d : data) : option expr :=
  match d with
  | DNull => Some ENil                                        (* serialize_unit: Expression::nil() *)
  | DBool true => Some ETrue
  | DBool false => Some EFalse
  | DInt z =>                                                 (* DecimalNumber::new(v as f64) *)
    if int_supported z then Some (ENumber (NDec (to_bits (of_Z z)) None)) else None
  | DFloat bits => Some (ENumber (NDec bits None))            (* DecimalNumber::new(v) *)
  | DString s => Some (EString s)                             (* StringExpression::from_value(v) *)
  | DSeq items =>
    match (fix go (l : list data) : option (list tentry) :=
             match l with
             | [] => Some []
             | x :: r =>
               match to_expression x, go r with
               | Some e, Some es => Some (TValue e :: es)
               | _, _ => None
               end
             end) items with
    | Some es => Some (ETable es)
    | None => None
    end
  | DMap entries =>
    match (fix go (l : list (data * data)) : option (list tentry) :=
             match l with
             | [] => Some []
             | (k, v) :: r =>
               match to_expression k, to_expression v, go r with
               | Some ke, Some ve, Some es => Some (table_entry ke ve :: es)
               | _, _, _ => None
               end
             end) entries with
    | Some es => Some (ETable es)
    | None => None
    end
  end.

(** the two list traversals, named (definitionally the local fixpoints above) *)
Fixpoint seq_entries (l : list data) : option (list tentry) :=
  match l with
  | [] => Some []
  | x :: r =>
    match to_expression x, seq_entries r with
    | Some e, Some es => Some (TValue e :: es)
    | _, _ => None
    end
  end.

Fixpoint map_entries (l : list (data * data)) : option (list tentry) :=
  match l with
  | [] => Some []
  | (k, v) :: r =>
    match to_expression k, to_expression v, map_entries r with
    | Some ke, Some ve, Some es => Some (table_entry ke ve :: es)
    | _, _, _ => None
    end
  end.

(** * equality of the trees the serializer can build (correspondence check) *)

Definition number_eqb (a b : number) : bool :=
  match a, b with
  | NDec x None, NDec y None => x =? y
  | _, _ => false
  end.

Fixpoint sexpr_eqb (a b : expr) : bool :=
  match a, b with
  | ENil, ENil | ETrue, ETrue | EFalse, EFalse => true
  | ENumber x, ENumber y => number_eqb x y
  | EString x, EString y => bytes_eqb x y
  | ETable xs, ETable ys =>
    (fix go (xs ys : list tentry) : bool :=
       match xs, ys with
       | [], [] => true
       | TValue x :: xs', TValue y :: ys' => sexpr_eqb x y && go xs' ys'
       | TField f x :: xs', TField g y :: ys' => bytes_eqb f g && sexpr_eqb x y && go xs' ys'
       | TIndex k x :: xs', TIndex l y :: ys' => sexpr_eqb k l && sexpr_eqb x y && go xs' ys'
       | _, _ => false
       end) xs ys
  | _, _ => false
  end.

Definition model_matches (d : data) (tree : expr) : bool :=
  match to_expression d with
  | Some e => sexpr_eqb e tree
  | None => false
  end.
