(** Parenthesisation of operator expressions.

    MODEL (of darklua): [parenthesize] / [tokens_of_expr]: the printer of
    [dense.rs]/[readable.rs] [write_binary_expression] and [write_unary_expression], driven by
    the three predicates [BinaryOperator::left_needs_parentheses],
    [right_needs_parentheses] ([src/nodes/expressions/binary.rs]) and the unary-operand rule
    ([!operator.precedes_unary_expression()]), which are PARAMETERS here ([ptable]): their
    graphs over all (operator, child kind, child operator) are dumped from the compiled Rust
    code on every run ([Generated/C02Tables.v]).

    SPECIFICATION (trusted, not darklua): [subexpr]/[parse_expr]: the precedence-climbing
    expression parser of the reference Lua implementation ([lparser.c]: subexpr) with the
    priorities of the Lua 5.1 manual section 2.5.6 (or < and < comparison < .. < + - < * / %
    < unary < ^; .. and ^ right associative) plus Luau's "//" at the level of "*".

    Fragment: the 16 binary and 3 unary operators, explicit parentheses as nodes
    ([EParen], as darklua's [Expression::Parenthese]), type casts [ECast x t] over a small type
    AST [ty] (one constructor per arm of the type loop of
    [ends_with_type_cast_to_type_name_without_type_parameters]; after a type whose text ends
    with a type name without type parameters Luau reads a following "<" as the start of type
    parameters) and abstract atoms (anything the generator never parenthesises and that begins and ends
    inside itself: names, literals, calls, indexing, tables, functions).  If-expressions are
    outside. *)
From DL Require Import Lib.Bytes.
Open Scope N_scope.

Inductive binop :=
| And | Or | Equal | NotEqual | LowerThan | LowerOrEqualThan | GreaterThan | GreaterOrEqualThan
| Plus | Minus | Asterisk | Slash | DoubleSlash | Percent | Caret | Concat.
Inductive unop := Length | Neg | Not.

Definition binops : list binop :=
  [And; Or; Equal; NotEqual; LowerThan; LowerOrEqualThan; GreaterThan; GreaterOrEqualThan;
   Plus; Minus; Asterisk; Slash; DoubleSlash; Percent; Caret; Concat].
Definition unops : list unop := [Length; Neg; Not].

Definition binop_index (o : binop) : nat :=
  match o with
  | And => 0 | Or => 1 | Equal => 2 | NotEqual => 3 | LowerThan => 4 | LowerOrEqualThan => 5
  | GreaterThan => 6 | GreaterOrEqualThan => 7 | Plus => 8 | Minus => 9 | Asterisk => 10
  | Slash => 11 | DoubleSlash => 12 | Percent => 13 | Caret => 14 | Concat => 15
  end%nat.
Definition unop_index (u : unop) : nat := match u with Length => 0 | Neg => 1 | Not => 2 end%nat.

Definition binop_eqb (a b : binop) : bool := Nat.eqb (binop_index a) (binop_index b).
Definition unop_eqb (a b : unop) : bool := Nat.eqb (unop_index a) (unop_index b).

(** types, as far as the end of their text matters ([params]: the name has type parameters
    "<...>"); members other than the last of unions / intersections and the arguments of
    function types do not matter and are not represented *)
Inductive ty :=
| TyName (params : bool)          (* T, T<P> *)
| TyField (params : bool)         (* M.T, M.T<P> *)
| TyFunType (r : ty)              (* (...) -> r *)
| TyFunVariadic (r : ty)          (* (...) -> ...r *)
| TyFunPack                       (* (...) -> (A, B) *)
| TyFunGeneric                    (* (...) -> T... *)
| TyUnion (last : ty)             (* A | last *)
| TyInter (last : ty)             (* A & last *)
| TyOptional                      (* T? *)
| TyTypeOf                        (* typeof(e) *)
| TyTable                         (* { ... } *)
| TyArray                         (* { T } *)
| TyParen                         (* (T) *)
| TyString                        (* 'lit' *)
| TyBool                          (* true / false *)
| TyNil.                          (* nil *)

Fixpoint ty_eqb (a b : ty) : bool :=
  match a, b with
  | TyName p, TyName q | TyField p, TyField q => Bool.eqb p q
  | TyFunType x, TyFunType y | TyFunVariadic x, TyFunVariadic y
  | TyUnion x, TyUnion y | TyInter x, TyInter y => ty_eqb x y
  | TyFunPack, TyFunPack | TyFunGeneric, TyFunGeneric | TyOptional, TyOptional | TyTypeOf, TyTypeOf
  | TyTable, TyTable | TyArray, TyArray | TyParen, TyParen | TyString, TyString | TyBool, TyBool
  | TyNil, TyNil => true
  | _, _ => false
  end.

Inductive expr :=
| EAtom (a : N)
| EBin (o : binop) (l r : expr)
| EUn (u : unop) (e : expr)
| EParen (e : expr)
| ECast (e : expr) (t : ty).

(** tokens: "-" is ONE symbol, binary or unary by position *)
Inductive opsym :=
| SAnd | SOr | SEq | SNe | SLt | SLe | SGt | SGe | SPlus | SMinus | SStar | SSlash | SSlash2
| SPercent | SCaret | SConcat | SHash | SNot.
(** [KCast t] stands for the tokens of ":: type" *)
Inductive ptok := KAtom (a : N) | KOp (s : opsym) | KLp | KRp | KCast (t : ty).

Definition sym_of_binop (o : binop) : opsym :=
  match o with
  | And => SAnd | Or => SOr | Equal => SEq | NotEqual => SNe | LowerThan => SLt
  | LowerOrEqualThan => SLe | GreaterThan => SGt | GreaterOrEqualThan => SGe | Plus => SPlus
  | Minus => SMinus | Asterisk => SStar | Slash => SSlash | DoubleSlash => SSlash2
  | Percent => SPercent | Caret => SCaret | Concat => SConcat
  end.
Definition sym_of_unop (u : unop) : opsym := match u with Length => SHash | Neg => SMinus | Not => SNot end.

Definition binop_of_sym (s : opsym) : option binop :=
  match s with
  | SAnd => Some And | SOr => Some Or | SEq => Some Equal | SNe => Some NotEqual | SLt => Some LowerThan
  | SLe => Some LowerOrEqualThan | SGt => Some GreaterThan | SGe => Some GreaterOrEqualThan
  | SPlus => Some Plus | SMinus => Some Minus | SStar => Some Asterisk | SSlash => Some Slash
  | SSlash2 => Some DoubleSlash | SPercent => Some Percent | SCaret => Some Caret
  | SConcat => Some Concat | SHash | SNot => None
  end.
Definition unop_of_sym (s : opsym) : option unop :=
  match s with SHash => Some Length | SMinus => Some Neg | SNot => Some Not | _ => None end.

(** * the model of darklua's printer *)

(** the dumped predicates *)
Record ptable := {
  left_bin : binop -> binop -> bool;   (* o.left_needs_parentheses(Binary(o', _, _)) *)
  left_un : binop -> unop -> bool;     (* o.left_needs_parentheses(Unary(u, _)) *)
  right_bin : binop -> binop -> bool;  (* o.right_needs_parentheses(Binary(o', _, _)) *)
  right_un : binop -> unop -> bool;    (* o.right_needs_parentheses(Unary(u, _)) *)
  un_bin : unop -> binop -> bool;      (* operand Binary(o', _, _) of a unary u is parenthesised *)
  cast_bin : bool;                     (* TypeCastExpression::needs_parentheses(Binary) *)
  cast_un : bool;                      (* ... (Unary) *)
  cast_cast : bool;                    (* ... (TypeCast) *)
  left_cast : binop -> bool -> bool    (* o.left_needs_parentheses(TypeCast(_, T)) for [true], (.., T<P>) for [false] *)
}.

Definition wrap (b : bool) (e : expr) : expr := if b then EParen e else e.

(** the type loop of [ends_with_type_cast_to_type_name_without_type_parameters], arm for arm
    ([src/nodes/expressions/binary.rs]) *)
Fixpoint trailing_bare (t : ty) : bool :=
  match t with
  | TyName params => negb params                 (* Type::Name(name) => !name.has_type_parameters() *)
  | TyField params => negb params                (* Type::Field(field) => !field.get_type_name().has_type_parameters() *)
  | TyFunType r => trailing_bare r               (* FunctionReturnType::Type(type) => type *)
  | TyFunVariadic r => trailing_bare r           (* FunctionReturnType::VariadicTypePack(v) => v.get_type() *)
  | TyFunPack | TyFunGeneric => false            (* TypePack(_) | GenericTypePack(_) => break false *)
  | TyUnion last => trailing_bare last           (* Type::Union(u) => u.last_type() *)
  | TyInter last => trailing_bare last           (* Type::Intersection(i) => i.last_type() *)
  | TyOptional | TyTypeOf | TyTable | TyArray | TyParen | TyString | TyBool | TyNil => false
  end.

(** [ends_with_type_cast_to_type_name_without_type_parameters]: the walk down the RIGHT spine
    of the tree (binary.right, unary operand, the cast itself, then the type loop); the
    verdict is judged by the dumped [left_cast o] *)
Fixpoint trailing_cast (T : ptable) (o : binop) (l : expr) : bool :=
  match l with
  | EBin _ _ r => trailing_cast T o r
  | EUn _ x => trailing_cast T o x
  | ECast _ t => left_cast T o (trailing_bare t)
  | _ => false
  end.

Definition left_needs (T : ptable) (o : binop) (l : expr) : bool :=
  match l with EBin o' _ _ => left_bin T o o' | EUn u _ => left_un T o u | _ => false end
  || trailing_cast T o l.

(** [TypeCastExpression::needs_parentheses] *)
Definition cast_inner_needs (T : ptable) (x : expr) : bool :=
  match x with EBin _ _ _ => cast_bin T | EUn _ _ => cast_un T | ECast _ _ => cast_cast T | _ => false end.
Definition right_needs (T : ptable) (o : binop) (r : expr) : bool :=
  match r with EBin o' _ _ => right_bin T o o' | EUn u _ => right_un T o u | _ => false end.
Definition operand_needs (T : ptable) (u : unop) (x : expr) : bool :=
  match x with EBin o' _ _ => un_bin T u o' | _ => false end.

(** the tree with the parentheses the generator writes made explicit *)
Fixpoint parenthesize (T : ptable) (e : expr) : expr :=
  match e with
  | EAtom a => EAtom a
  | EBin o l r =>
    EBin o (wrap (left_needs T o l) (parenthesize T l)) (wrap (right_needs T o r) (parenthesize T r))
  | EUn u x => EUn u (wrap (operand_needs T u x) (parenthesize T x))
  | EParen x => EParen (parenthesize T x)
  | ECast x t => ECast (wrap (cast_inner_needs T x) (parenthesize T x)) t
  end.

(** printing without adding anything: [EParen] is the only source of parentheses *)
Fixpoint print_plain (e : expr) : list ptok :=
  match e with
  | EAtom a => [KAtom a]
  | EBin o l r => print_plain l ++ KOp (sym_of_binop o) :: print_plain r
  | EUn u x => KOp (sym_of_unop u) :: print_plain x
  | EParen x => KLp :: print_plain x ++ [KRp]
  | ECast x t => print_plain x ++ [KCast t]
  end.

(** write_expression on the fragment *)
Definition tokens_of_expr (T : ptable) (e : expr) : list ptok := print_plain (parenthesize T e).

(** all parentheses removed: the operator nesting of a tree *)
Fixpoint strip (e : expr) : expr :=
  match e with
  | EAtom a => EAtom a
  | EBin o l r => EBin o (strip l) (strip r)
  | EUn u x => EUn u (strip x)
  | EParen x => strip x
  | ECast x t => ECast (strip x) t
  end.

(** * the reference parser (specification) *)

(** Lua 5.1 manual 2.5.6 / lparser.c [priority]: (left, right) *)
Definition lprio (o : binop) : N :=
  match o with
  | Or => 1 | And => 2
  | Equal | NotEqual | LowerThan | LowerOrEqualThan | GreaterThan | GreaterOrEqualThan => 3
  | Concat => 5
  | Plus | Minus => 6
  | Asterisk | Slash | DoubleSlash | Percent => 7
  | Caret => 10
  end.
Definition rprio (o : binop) : N :=
  match o with
  | Concat => 4          (* right associative *)
  | Caret => 9           (* right associative *)
  | _ => lprio o
  end.
Definition UNARY_PRIORITY : N := 8.

(** [subexpr f lim toks]: read an expression whose top-level binary operators all have a left
    priority above [lim]; [loop f lim e toks]: the "while next is a binary operator with
    priority above lim" part, [e] being the expression read so far.  [f] is fuel (depth of
    the calls, not tokens); running out of fuel is [None], as is a syntax error. *)
(** SPECIFICATION (Luau type syntax): the text of the type ENDS with a type name that has no
    type parameters.  [T<P>] ends with ">", [T?] with "?", [typeof(e)] and [(T)] and a type pack
    with ")", a table or array type with a closing brace, a generic pack with "...", a string or
    boolean singleton and [nil] with a literal; a function type ends like its return type, a
    variadic pack [...T] like [T], a union / intersection like its last member. *)
Fixpoint ends_with_type_name (t : ty) : bool :=
  match t with
  | TyName params | TyField params => negb params
  | TyFunType r | TyFunVariadic r => ends_with_type_name r
  | TyUnion last | TyInter last => ends_with_type_name last
  | _ => false
  end.

(** Luau [parseAssertionExpr]: ONE optional ":: type" after a simple expression.  When the text
    of the type ends with a type name without type parameters, a following "<" belongs to the
    type (it starts type parameters): the text does not mean a comparison, an error here. *)
Definition with_cast (e : expr) (toks : list ptok) : option (expr * list ptok) :=
  match toks with
  | KCast t :: toks' =>
    if ends_with_type_name t then
      match toks' with
      | KOp SLt :: _ => None
      | _ => Some (ECast e t, toks')
      end
    else Some (ECast e t, toks')
  | _ => Some (e, toks)
  end.

Definition parser := N -> list ptok -> option (expr * list ptok).

Fixpoint loop_with (sub : parser) (lim : N) (g : nat) (e : expr) (toks : list ptok)
  : option (expr * list ptok) :=
  match g with
  | O => None
  | S g' =>
    match toks with
    | KOp s :: t =>
      match binop_of_sym s with
      | Some o =>
        if lim <? lprio o then
          match sub (rprio o) t with
          | Some (r, t') => loop_with sub lim g' (EBin o e r) t'
          | None => None
          end
        else Some (e, toks)
      | None => Some (e, toks)
      end
    | _ => Some (e, toks)
    end
  end.

Fixpoint subexpr (f : nat) (lim : N) (toks : list ptok) {struct f} : option (expr * list ptok) :=
  match f with
  | O => None
  | S f' =>
    match toks with
    | KAtom a :: t =>
      match with_cast (EAtom a) t with
      | Some (e, t') => loop_with (subexpr f') lim f' e t'
      | None => None
      end
    | KLp :: t =>
      match subexpr f' 0 t with
      | Some (c, KRp :: t') =>
        match with_cast (EParen c) t' with
        | Some (e, t'') => loop_with (subexpr f') lim f' e t''
        | None => None
        end
      | _ => None
      end
    | KOp s :: t =>
      match unop_of_sym s with
      | Some u =>
        match subexpr f' UNARY_PRIORITY t with
        | Some (x, t') => loop_with (subexpr f') lim f' (EUn u x) t'
        | None => None
        end
      | None => None
      end
    | _ => None
    end
  end.

Definition parse_fuel (toks : list ptok) : nat := S (S (2 * List.length toks)).

Definition parse_expr (toks : list ptok) : option expr :=
  match subexpr (parse_fuel toks) 0 toks with
  | Some (e, []) => Some e
  | _ => None
  end.

(** * tables as rows (the shape of the dump): rows are indexed by [binop_index] / [unop_index] *)
Definition flag (row : list N) (i : nat) : bool := negb (nth i row 0 =? 0).
Definition flag2 (rows : list (list N)) (i j : nat) : bool := flag (nth i rows []) j.

Definition mk_ptable (left_binary right_binary left_unary right_unary : list (list N))
           (unary_operand : list N) (cast_inner : list N) (left_cast_rows : list (list N)) : ptable :=
  {| left_bin := fun o o' => flag2 left_binary (binop_index o) (binop_index o');
     left_un := fun o u => flag2 left_unary (binop_index o) (unop_index u);
     right_bin := fun o o' => flag2 right_binary (binop_index o) (binop_index o');
     right_un := fun o u => flag2 right_unary (binop_index o) (unop_index u);
     un_bin := fun _ o' => flag unary_operand (binop_index o');
     cast_bin := flag cast_inner 0;
     cast_un := flag cast_inner 1;
     cast_cast := flag cast_inner 2;
     left_cast := fun o b => flag2 left_cast_rows (binop_index o) (if b then 0 else 1)%nat |}.
