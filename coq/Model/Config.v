(** C19 — model of how darklua reads and writes a configuration (executable model only, no proofs).

    Transcribed from
      - /repo/src/rules/mod.rs            : impl Serialize for dyn Rule, impl Deserialize for Box<dyn Rule>,
                                            FromStr for Box<dyn Rule>, verify_* helpers, get_default_rules
      - /repo/src/rules/rule_property.rs  : RulePropertyValue (untagged: Boolean, String, Usize, Float, StringList,
                                            RequireMode, None, Map, Array -- first match wins)
      - /repo/src/rules/<rule>.rs         : RuleConfiguration::configure / serialize_to_properties of every rule
                                            (the per-rule tables are in Model/ConfigRules.v)
      - /repo/src/frontend/configuration.rs : Configuration (deny_unknown_fields, alias process, one-or-many
                                            filters), GeneratorParameters (string or tagged object)
      - /repo/src/utils/serde_one_or_many.rs, serde_string_or_struct.rs, filter_pattern.rs

    Oracles (Section variables): glob validity (wax), regex validity (regex crate), identifier validity,
    the normal form of `rename_variables.globals`, recognition + normal form of a require-mode value
    (derived deserializer of RequireMode), validity of the JSON held by an environment variable,
    and recognition + normal form of the `bundle` block (derived deserializer of BundleConfiguration).

    A configured rule is represented by what determines its behaviour: its name, the accepted properties
    in normal form (values equal to the default dropped) and its two filter lists.  Errors are not
    distinguished (the order in which `configure` walks its HashMap, hence which error is reported, is
    not deterministic in the code either): reading returns [None] for "rejected". *)
From Coq Require Import List Bool String Ascii ZArith NArith.
Import ListNotations.
Open Scope string_scope.

(** * JSON values (what json5 / serde_json hand to the visitors) *)

Inductive jnum := NInt (z : Z) | NFlt (repr : string).   (* integer literal / any other number, by its shortest repr *)

Inductive json :=
| JNull
| JBool (b : bool)
| JNum (n : jnum)
| JStr (s : string)
| JArr (l : list json)
| JObj (l : list (string * json)).     (* in source order, duplicates possible *)

Definition jnum_eqb (a b : jnum) : bool :=
  match a, b with
  | NInt x, NInt y => Z.eqb x y
  | NFlt x, NFlt y => String.eqb x y
  | _, _ => false
  end.

Fixpoint json_eqb (a b : json) : bool :=
  match a, b with
  | JNull, JNull => true
  | JBool x, JBool y => Bool.eqb x y
  | JNum x, JNum y => jnum_eqb x y
  | JStr x, JStr y => String.eqb x y
  | JArr x, JArr y =>
      (fix go (x y : list json) : bool :=
         match x, y with
         | [], [] => true
         | u :: x', v :: y' => json_eqb u v && go x' y'
         | _, _ => false
         end) x y
  | JObj x, JObj y =>
      (fix go (x y : list (string * json)) : bool :=
         match x, y with
         | [], [] => true
         | (k, u) :: x', (k', v) :: y' => String.eqb k k' && json_eqb u v && go x' y'
         | _, _ => false
         end) x y
  | _, _ => false
  end.

(** * Weakly typed property values: RulePropertyValue *)

Inductive pvalue :=
| PBool (b : bool)
| PStr (s : string)
| PUsize (n : N)
| PFloat (x : jnum)
| PStrList (l : list string)
| PReqMode (normal : json)
| PNone
| PMap (l : list (string * json))
| PArr (l : list json).

Fixpoint as_strings (l : list json) : option (list string) :=
  match l with
  | [] => Some []
  | JStr s :: l' => match as_strings l' with Some ss => Some (s :: ss) | None => None end
  | _ => None
  end.

Definition usize_max : Z := 18446744073709551615%Z.

(** kinds of value a property may require (what the `expect_*` calls and `match` arms of a `configure` accept) *)
Inductive kind :=
| KBool                      (* expect_bool *)
| KStr                       (* expect_string *)
| KEnum (allowed : list string)   (* expect_string then a `match` on the text *)
| KRegexList                 (* expect_regex_list *)
| KGlobals                   (* expect_string_list then RenameVariables::set_globals *)
| KReqMode                   (* expect_require_mode: a require mode object or one of the three names *)
| KAny                       (* into_expression: every value *)
| KEnvJson.                  (* expect_string, the named environment variable must hold JSON when it is set *)

(** one property of a rule: name, accepted kind, the value that means the same as leaving it out (if any),
    and whether `serialize_to_properties` writes it *)
Record prop_spec := PropSpec { p_name : string; p_kind : kind; p_default : option pvalue; p_ser : bool }.

(** one rule: name, properties, `verify_required_properties`, `verify_required_any_properties`,
    `verify_property_collisions` (one list per call) *)
Record rule_spec := RuleSpec {
  s_name : string;
  s_props : list prop_spec;
  s_required : list string;
  s_required_any : list string;
  s_collisions : list (list string) }.

(** a configured rule, by what determines its behaviour *)
Record rule_cfg := RuleCfg {
  r_name : string;
  r_props : list (string * pvalue);
  r_apply : list string;
  r_skip : list string }.

Inductive generator := GRetainLines | GDense (span : N) | GReadable (span : N).

Record config := Cfg {
  c_rules : list rule_cfg;
  c_generator : generator;
  c_bundle : option json;        (* normal form of the bundle block *)
  c_apply : list string;
  c_skip : list string }.

Definition mem (s : string) (l : list string) : bool := existsb (String.eqb s) l.

Fixpoint lookup {A} (k : string) (l : list (string * A)) : option A :=
  match l with
  | [] => None
  | (k', v) :: l' => if String.eqb k k' then Some v else lookup k l'
  end.

Definition has_key {A} (k : string) (l : list (string * A)) : bool :=
  match lookup k l with Some _ => true | None => false end.

(** `ordered.sort_by(|a, b| a.0.cmp(&b.0))` of the rule serializer: stable insertion sort on the key,
    byte-wise lexicographic order (String.leb compares the ASCII codes). *)
Fixpoint insert_by_key {A} (kv : string * A) (l : list (string * A)) : list (string * A) :=
  match l with
  | [] => [kv]
  | kv' :: l' => if String.leb (fst kv) (fst kv') then kv :: l else kv' :: insert_by_key kv l'
  end.

Fixpoint sort_by_key {A} (l : list (string * A)) : list (string * A) :=
  match l with
  | [] => []
  | kv :: l' => insert_by_key kv (sort_by_key l')
  end.

Section Config.

Variable valid_glob : string -> bool.            (* FilterPattern::new succeeds *)
Variable valid_regex : string -> bool.           (* Regex::new succeeds *)
Variable valid_ident : string -> bool.           (* is_valid_identifier *)
Variable norm_globals : list string -> list string.   (* set_globals then normalize_globals *)
Variable norm_reqmode : json -> option json.     (* RequireMode deserializes from this value; its serialization *)
Variable env_json_ok : string -> bool.           (* variable unset, or set to text json5 can read *)
Variable norm_bundle : json -> option json.      (* BundleConfiguration deserializes; its serialization *)
Variable specs : list rule_spec.                 (* Model/ConfigRules.v: rule_specs *)
Variable default_rules : list string.            (* get_default_rules *)

(** ** RulePropertyValue: which variant an untagged value becomes *)
Definition classify (j : json) : pvalue :=
  match j with
  | JBool b => PBool b
  | JStr s => PStr s
  | JNum (NInt z) => if (0 <=? z)%Z && (z <=? usize_max)%Z then PUsize (Z.to_N z) else PFloat (NInt z)
  | JNum x => PFloat x
  | JArr l =>
      match as_strings l with
      | Some ss => PStrList ss
      | None => match norm_reqmode j with Some j' => PReqMode j' | None => PArr l end
      end
  | JNull => PNone
  | JObj l => match norm_reqmode j with Some j' => PReqMode j' | None => PMap l end
  end.

(** ... and how a RulePropertyValue is written (untagged: the payload alone) *)
Definition unclassify (v : pvalue) : json :=
  match v with
  | PBool b => JBool b
  | PStr s => JStr s
  | PUsize n => JNum (NInt (Z.of_N n))
  | PFloat x => JNum x
  | PStrList l => JArr (map JStr l)
  | PReqMode j => j
  | PNone => JNull
  | PMap l => JObj l
  | PArr l => JArr l
  end.

(** FromStr for RequireMode *)
Definition reqmode_name (s : string) : bool := mem s ["path"; "luau"; "roblox"].

Definition globals_item_ok (s : string) : bool := mem s ["$default"; "$roblox"] || valid_ident s.

Definition accepts_kind (k : kind) (v : pvalue) : bool :=
  match k, v with
  | KBool, PBool _ => true
  | KStr, PStr _ => true
  | KEnum allowed, PStr s => mem s allowed
  | KRegexList, PStrList l => forallb valid_regex l
  | KGlobals, PStrList l => forallb globals_item_ok l
  | KReqMode, PReqMode _ => true
  | KReqMode, PStr s => reqmode_name s
  | KAny, _ => true
  | KEnvJson, PStr s => env_json_ok s
  | _, _ => false
  end.

(** the value the rule keeps (only `globals` is not kept verbatim) *)
Definition norm_value (k : kind) (v : pvalue) : pvalue :=
  match k, v with
  | KGlobals, PStrList l => PStrList (norm_globals l)
  | _, _ => v
  end.

Fixpoint strings_eqb (a b : list string) : bool :=
  match a, b with
  | [], [] => true
  | x :: a', y :: b' => String.eqb x y && strings_eqb a' b'
  | _, _ => false
  end.

(** equality with a default value (defaults are booleans, strings or string lists) *)
Definition simple_eqb (a b : pvalue) : bool :=
  match a, b with
  | PBool x, PBool y => Bool.eqb x y
  | PStr x, PStr y => String.eqb x y
  | PStrList x, PStrList y => strings_eqb x y
  | _, _ => false
  end.

Definition find_prop (s : rule_spec) (k : string) : option prop_spec :=
  find (fun p => String.eqb k (p_name p)) (s_props s).

Definition find_spec (name : string) : option rule_spec :=
  find (fun s => String.eqb name (s_name s)) specs.

Definition is_default (p : prop_spec) (v : pvalue) : bool :=
  match p_default p with Some d => simple_eqb v d | None => false end.

(** verify_required_properties / verify_required_any_properties / verify_property_collisions *)
Definition required_ok (s : rule_spec) (ps : list (string * pvalue)) : bool :=
  forallb (fun n => has_key n ps) (s_required s).

Definition required_any_ok (s : rule_spec) (ps : list (string * pvalue)) : bool :=
  match s_required_any s with [] => true | names => existsb (fun n => has_key n ps) names end.

Definition collisions_ok (s : rule_spec) (ps : list (string * pvalue)) : bool :=
  forallb (fun names => Nat.leb (List.length (filter (fun n => has_key n ps) names)) 1) (s_collisions s).

(** the `for (key, value) in properties { match key.as_str() { ... } }` loop: every key known, every value of
    the expected kind; the result is the list of kept values without those equal to the default *)
Fixpoint configure_props (s : rule_spec) (ps : list (string * pvalue)) : option (list (string * pvalue)) :=
  match ps with
  | [] => Some []
  | (k, v) :: ps' =>
      match find_prop s k with
      | None => None                                    (* UnexpectedProperty *)
      | Some p =>
          if accepts_kind (p_kind p) v then
            match configure_props s ps' with
            | None => None
            | Some out =>
                let v' := norm_value (p_kind p) v in
                if is_default p v' then Some out else Some ((k, v') :: out)
            end
          else None                                      (* BooleanExpected, StringExpected, ... *)
      end
  end.

(** RuleConfiguration::configure *)
Definition configure (s : rule_spec) (ps : list (string * pvalue)) : option (list (string * pvalue)) :=
  if required_ok s ps && required_any_ok s ps && collisions_ok s ps then configure_props s ps else None.

(** ** Reading a rule: impl Deserialize for Box<dyn Rule> *)

(** OneOrMany<FilterPattern> *)
Definition one_or_many (j : json) : option (list string) :=
  match j with
  | JStr s => if valid_glob s then Some [s] else None
  | JArr l => match as_strings l with
              | Some ss => if forallb valid_glob ss then Some ss else None
              | None => None
              end
  | _ => None
  end.

Record scan_state := Scan {
  sc_rule : option string;
  sc_props : list (string * pvalue);      (* in order of appearance *)
  sc_apply : option (list string);
  sc_skip : option (list string) }.

Definition scan_start : scan_state := Scan None [] None None.

(** the `while let Some(key) = map.next_key()` loop of visit_map *)
Fixpoint scan (kvs : list (string * json)) (st : scan_state) : option scan_state :=
  match kvs with
  | [] => Some st
  | (k, j) :: kvs' =>
      if String.eqb k "rule" then
        match sc_rule st, j with
        | None, JStr name => scan kvs' (Scan (Some name) (sc_props st) (sc_apply st) (sc_skip st))
        | _, _ => None                                  (* duplicate field / not a string *)
        end
      else if String.eqb k "apply_to_files" then
        match sc_apply st, one_or_many j with
        | None, Some l => scan kvs' (Scan (sc_rule st) (sc_props st) (Some l) (sc_skip st))
        | _, _ => None
        end
      else if String.eqb k "skip_files" then
        match sc_skip st, one_or_many j with
        | None, Some l => scan kvs' (Scan (sc_rule st) (sc_props st) (sc_apply st) (Some l))
        | _, _ => None
        end
      else if has_key k (sc_props st) then None          (* duplicate field in rule object *)
      else scan kvs' (Scan (sc_rule st) (sc_props st ++ [(k, classify j)]) (sc_apply st) (sc_skip st))
  end.

Definition or_nil (o : option (list string)) : list string := match o with Some l => l | None => [] end.

Definition deserialize_rule (j : json) : option rule_cfg :=
  match j with
  | JStr name =>                                        (* visit_str *)
      match find_spec name with
      | None => None                                    (* invalid rule name *)
      | Some s => match configure s [] with
                  | Some ps => Some (RuleCfg name ps [] [])
                  | None => None
                  end
      end
  | JObj kvs =>                                         (* visit_map *)
      match scan kvs scan_start with
      | None => None
      | Some st =>
          match sc_rule st with
          | None => None                                (* missing field rule *)
          | Some name =>
              match find_spec name with
              | None => None
              | Some s => match configure s (sc_props st) with
                          | Some ps => Some (RuleCfg name ps (or_nil (sc_apply st)) (or_nil (sc_skip st)))
                          | None => None
                          end
              end
          end
      end
  | _ => None                                           (* expected rule name or rule object *)
  end.

(** ** Writing a rule: impl Serialize for dyn Rule *)

(** serialize_to_properties: the kept values the rule's serializer writes *)
Definition ser_props (s : rule_spec) (ps : list (string * pvalue)) : list (string * pvalue) :=
  filter (fun kv => match find_prop s (fst kv) with Some p => p_ser p | None => false end) ps.

Definition filter_entry (key : string) (l : list string) : list (string * json) :=
  match l with
  | [] => []
  | [s] => [(key, JStr s)]
  | _ => [(key, JArr (map JStr l))]
  end.

Definition serialize_rule (r : rule_cfg) : json :=
  let props := match find_spec (r_name r) with
               | Some s => sort_by_key (ser_props s (r_props r))
               | None => []
               end in
  match props, r_apply r, r_skip r with
  | [], [], [] => JStr (r_name r)
  | _, _, _ =>
      JObj (("rule", JStr (r_name r))
            :: filter_entry "apply_to_files" (r_apply r)
            ++ filter_entry "skip_files" (r_skip r)
            ++ map (fun kv => (fst kv, unclassify (snd kv))) props)
  end.

(** ** The generator: GeneratorParameters through string_or_struct *)

Definition default_span : N := 80%N.

Definition generator_of_name (s : string) : option generator :=
  if mem s ["retain_lines"; "retain-lines"] then Some GRetainLines
  else if String.eqb s "dense" then Some (GDense default_span)
  else if String.eqb s "readable" then Some (GReadable default_span)
  else None.

Definition count_key {A} (k : string) (l : list (string * A)) : nat :=
  List.length (filter (fun kv => String.eqb k (fst kv)) l).

Definition as_usize (j : json) : option N :=
  match j with
  | JNum (NInt z) => if (0 <=? z)%Z && (z <=? usize_max)%Z then Some (Z.to_N z) else None
  | _ => None
  end.

(** the derived deserializer of the internally tagged enum (tag `name`, deny_unknown_fields): the tag must
    occur exactly once and be a known name; `dense` / `readable` accept `column_span` once and nothing
    else; the unit variant `retain_lines` does not look at the other entries at all *)
Definition generator_of_object (kvs : list (string * json)) : option generator :=
  match count_key "name" kvs, lookup "name" kvs with
  | 1%nat, Some (JStr tag) =>
      if mem tag ["retain_lines"; "retain-lines"] then Some GRetainLines
      else if mem tag ["dense"; "readable"] then
        let others := filter (fun kv => negb (String.eqb "name" (fst kv))) kvs in
        if forallb (fun kv => String.eqb "column_span" (fst kv)) others && Nat.leb (List.length others) 1 then
          match others with
          | [] => Some (if String.eqb tag "dense" then GDense default_span else GReadable default_span)
          | (_, j) :: _ => match as_usize j with
                           | Some n => Some (if String.eqb tag "dense" then GDense n else GReadable n)
                           | None => None
                           end
          end
        else None
      else None
  | _, _ => None
  end.

Definition deserialize_generator (j : json) : option generator :=
  match j with
  | JStr s => generator_of_name s
  | JObj kvs => generator_of_object kvs
  | _ => None
  end.

Definition serialize_generator (g : generator) : json :=
  match g with
  | GRetainLines => JObj [("name", JStr "retain_lines")]
  | GDense n => JObj [("name", JStr "dense"); ("column_span", JNum (NInt (Z.of_N n)))]
  | GReadable n => JObj [("name", JStr "readable"); ("column_span", JNum (NInt (Z.of_N n)))]
  end.

(** ** The configuration object *)

Fixpoint map_opt {A B} (f : A -> option B) (l : list A) : option (list B) :=
  match l with
  | [] => Some []
  | x :: l' => match f x, map_opt f l' with
               | Some y, Some ys => Some (y :: ys)
               | _, _ => None
               end
  end.

(** field identification of the derived deserializer: `process` is an alias of `rules` *)
Definition field_of (k : string) : option string :=
  if mem k ["rules"; "process"] then Some "rules"
  else if mem k ["generator"; "bundle"; "apply_to_files"; "skip_files"] then Some k
  else None.                                            (* deny_unknown_fields (`location` is skipped: unknown) *)

(** every key is a known field and no field occurs twice *)
Fixpoint fields_ok (kvs : list (string * json)) (seen : list string) : bool :=
  match kvs with
  | [] => true
  | (k, _) :: kvs' =>
      match field_of k with
      | None => false
      | Some f => negb (mem f seen) && fields_ok kvs' (f :: seen)
      end
  end.

Definition field (f : string) (kvs : list (string * json)) : option json :=
  match find (fun kv => match field_of (fst kv) with Some f' => String.eqb f f' | None => false end) kvs with
  | Some kv => Some (snd kv)
  | None => None
  end.

Definition default_rule_cfgs : list rule_cfg := map (fun n => RuleCfg n [] [] []) default_rules.

Definition deserialize_config (j : json) : option config :=
  match j with
  | JObj kvs =>
      if fields_ok kvs [] then
        let rules := match field "rules" kvs with
                     | None => Some default_rule_cfgs
                     | Some (JArr l) => map_opt deserialize_rule l
                     | Some _ => None
                     end in
        let gen := match field "generator" kvs with
                   | None => Some GRetainLines
                   | Some g => deserialize_generator g
                   end in
        let bundle := match field "bundle" kvs with
                      | None | Some JNull => Some None
                      | Some b => match norm_bundle b with Some b' => Some (Some b') | None => None end
                      end in
        let flt f := match field f kvs with None => Some [] | Some x => one_or_many x end in
        match rules, gen, bundle, flt "apply_to_files", flt "skip_files" with
        | Some rs, Some g, Some b, Some a, Some s => Some (Cfg rs g b a s)
        | _, _, _, _, _ => None
        end
      else None
  | _ => None
  end.

Definition list_entry (key : string) (l : list string) : list (string * json) :=
  match l with [] => [] | _ => [(key, JArr (map JStr l))] end.

Definition serialize_config (c : config) : json :=
  JObj (("rules", JArr (map serialize_rule (c_rules c)))
        :: ("generator", serialize_generator (c_generator c))
        :: match c_bundle c with Some b => [("bundle", b)] | None => [] end
        ++ list_entry "apply_to_files" (c_apply c)
        ++ list_entry "skip_files" (c_skip c)).

End Config.
