(** C02: the per-case checker of the correspondence streams (what is compared with what).

    One case = one tree at one column span: the push list of the walker (when the tree is in
    the modelled fragment), the text the real dense generator wrote, the text the real
    readable generator wrote, and the dense text at an unbounded span (reference).

    The same definitions are evaluated by [vm_compute] inside coqc (sample) and, extracted to
    OCaml, on the whole stream ([Extract/C02Extract.v]). *)
From DL Require Import Lib.Bytes Model.Lexer Model.DenseGen.
Open Scope N_scope.

Record tcase := {
  c_span : N;
  c_items : option (list item);
  c_dense : bytes;
  c_readable : bytes;
  c_ref : bytes
}.

(** the readable generator writes a separator after the last entry of a multi-line table: a ","
    directly before a closing brace is dropped on both sides before the comparison *)
Fixpoint drop_trailing_commas (l : list token) : list token :=
  match l with
  | [] => []
  | x :: l' =>
    match l' with
    | y :: _ => if token_eqb x (TSym, [44]) && token_eqb y (TSym, [125]) then drop_trailing_commas l'
                else x :: drop_trailing_commas l'
    | [] => [x]
    end
  end.
Definition lexn (s : bytes) : option (list token) := option_map drop_trailing_commas (lex s).

Section WithTables.
Variable T : tables.

(** (1) model = code: the push automaton of the model writes what dense.rs wrote *)
Definition model_ok (c : tcase) : bool :=
  match c_items c with
  | None => true
  | Some its => bytes_eqb (emit T (c_span c) its) (c_dense c)
  end.

(** (2) oracle, independent of the model of the generator: the reference lexer reads the same
    tokens from the dense text at this span, from the readable text, and from the dense text
    at an unbounded span *)
Definition same_tokens (a b : bytes) : bool :=
  match lexn a, lexn b with
  | Some x, Some y => tokens_eqb x y
  | _, _ => false
  end.
Definition lex_dense_ok (c : tcase) : bool := same_tokens (c_ref c) (c_dense c).
Definition lex_readable_ok (c : tcase) : bool := same_tokens (c_ref c) (c_readable c).

(** (3) the tokens are the ones the generator pushed *)
Definition intent_ok (c : tcase) : bool :=
  match c_items c with
  | None => true
  | Some its => same_tokens (canon its) (c_dense c)
  end.

Definition check_case (c : tcase) : bool :=
  model_ok c && lex_dense_ok c && lex_readable_ok c && intent_ok c.

Fixpoint first_diff (a b : list token) : bytes :=
  match a, b with
  | x :: a', y :: b' => if token_eqb x y then first_diff a' b'
                        else of_string "expected " ++ show_tokens [x] ++ of_string "got " ++ show_tokens [y]
  | [], [] => of_string "same"
  | x :: _, [] => of_string "expected " ++ show_tokens [x] ++ of_string "got end"
  | [], y :: _ => of_string "expected end got " ++ show_tokens [y]
  end.
Definition lex_diff (ref got : bytes) : bytes :=
  match lexn ref, lexn got with
  | Some a, Some b => first_diff a b
  | None, _ => of_string "reference does not lex"
  | _, None => of_string "does not lex"
  end.

Definition diag_bytes (c : tcase) : bytes :=
  (if model_ok c then [] else
     of_string "MODEL model=" ++ match c_items c with Some its => tohex_b (emit T (c_span c) its) | None => [] end ++ [32]) ++
  (if lex_dense_ok c then [] else of_string "LEXDENSE " ++ lex_diff (c_ref c) (c_dense c) ++ [32]) ++
  (if lex_readable_ok c then [] else of_string "LEXREADABLE " ++ lex_diff (c_ref c) (c_readable c) ++ [32]) ++
  (if intent_ok c then [] else of_string "INTENT " ++
     match c_items c with Some its => lex_diff (canon its) (c_dense c) | None => [] end ++ [32]).
End WithTables.
