(** C02: the per-case checker of the correspondence streams (what is compared with what).

    One case = one tree at one column span: the push list of the walker (when the tree is in
    the modelled fragment), the text the real dense generator wrote, the text the real
    readable generator wrote, and the dense text at an unbounded span (reference).

    The same definitions are evaluated by [vm_compute] inside coqc (sample) and, extracted to
    OCaml, on the whole stream ([Extract/C02Extract.v]). *)
From DL Require Model.StringLit.
From DL Require Import Lib.Bytes Model.Lexer Model.DenseGen Model.Precedence Model.C02Spec.
Open Scope N_scope.

Record tcase := {
  c_span : N;
  c_items : option (list item);
  c_dense : bytes;
  c_readable : bytes;
  c_ref : bytes
}.

(** the readable generator writes a separator after the last entry of a multi-line table: a ","
    directly before a closing brace is dropped on both sides before the comparison *)
Fixpoint drop_trailing_commas (l : list token) : list token :=
  match l with
  | [] => []
  | x :: l' =>
    match l' with
    | y :: _ => if token_eqb x (TSym, [44]) && token_eqb y (TSym, [125]) then drop_trailing_commas l'
                else x :: drop_trailing_commas l'
    | [] => [x]
    end
  end.
Definition lexn (s : bytes) : option (list token) := option_map drop_trailing_commas (lex s).

Section WithTables.
Variable T : tables.

(** (1) model = code: the push automaton of the model writes what dense.rs wrote *)
Definition model_ok (c : tcase) : bool :=
  match c_items c with
  | None => true
  | Some its => bytes_eqb (emit T (c_span c) its) (c_dense c)
  end.

(** (2) oracle, independent of the model of the generator: the reference lexer reads the same
    tokens from the dense text at this span, from the readable text, and from the dense text
    at an unbounded span *)
Definition same_tokens (a b : bytes) : bool :=
  match lexn a, lexn b with
  | Some x, Some y => tokens_eqb x y
  | _, _ => false
  end.
Definition lex_dense_ok (c : tcase) : bool := same_tokens (c_ref c) (c_dense c).
Definition lex_readable_ok (c : tcase) : bool := same_tokens (c_ref c) (c_readable c).

(** (3) the tokens are the ones the generator pushed *)
Definition intent_ok (c : tcase) : bool :=
  match c_items c with
  | None => true
  | Some its => same_tokens (canon its) (c_dense c)
  end.

(** (4) the push list satisfies the hypotheses of the theorems: [stream_ok] under the current
    table ([no_fusion_stream]) and [adjacency_ok], the table-independent adjacency universe
    ([no_fusion]); so the theorems apply to this very list *)
Definition hyp_ok (c : tcase) : bool :=
  match c_items c with
  | None => true
  | Some its => stream_ok T its && adjacency_ok its
  end.

Definition check_case (c : tcase) : bool :=
  model_ok c && lex_dense_ok c && lex_readable_ok c && intent_ok c && hyp_ok c.

Fixpoint first_diff (a b : list token) : bytes :=
  match a, b with
  | x :: a', y :: b' => if token_eqb x y then first_diff a' b'
                        else of_string "expected " ++ show_tokens [x] ++ of_string "got " ++ show_tokens [y]
  | [], [] => of_string "same"
  | x :: _, [] => of_string "expected " ++ show_tokens [x] ++ of_string "got end"
  | [], y :: _ => of_string "expected end got " ++ show_tokens [y]
  end.
Definition lex_diff (ref got : bytes) : bytes :=
  match lexn ref, lexn got with
  | Some a, Some b => first_diff a b
  | None, _ => of_string "reference does not lex"
  | _, None => of_string "does not lex"
  end.

Definition diag_bytes (c : tcase) : bytes :=
  (if model_ok c then [] else
     of_string "MODEL model=" ++ match c_items c with Some its => tohex_b (emit T (c_span c) its) | None => [] end ++ [32]) ++
  (if lex_dense_ok c then [] else of_string "LEXDENSE " ++ lex_diff (c_ref c) (c_dense c) ++ [32]) ++
  (if lex_readable_ok c then [] else of_string "LEXREADABLE " ++ lex_diff (c_ref c) (c_readable c) ++ [32]) ++
  (if hyp_ok c then [] else of_string "HYP ") ++
  (if intent_ok c then [] else of_string "INTENT " ++
     match c_items c with Some its => lex_diff (canon its) (c_dense c) | None => [] end ++ [32]).
End WithTables.

(** * operator trees (stage 2)

    One case = one operator tree (atoms are the names "a", "b", ...; atom 99 stands for any
    number token), the text the dense generator wrote for [return <tree>] and the text the
    readable generator wrote. *)

Record pcase := { p_expr : expr; p_dense : bytes; p_readable : bytes }.

Fixpoint expr_eqb (a b : expr) : bool :=
  match a, b with
  | EAtom x, EAtom y => x =? y
  | EBin o l r, EBin o' l' r' => binop_eqb o o' && expr_eqb l l' && expr_eqb r r'
  | EUn u x, EUn u' x' => unop_eqb u u' && expr_eqb x x'
  | EParen x, EParen x' => expr_eqb x x'
  | ECast x k, ECast x' k' => ty_eqb k k' && expr_eqb x x'
  | _, _ => false
  end.

Definition opsym_index (s : opsym) : nat :=
  match s with
  | SAnd => 0 | SOr => 1 | SEq => 2 | SNe => 3 | SLt => 4 | SLe => 5 | SGt => 6 | SGe => 7 | SPlus => 8
  | SMinus => 9 | SStar => 10 | SSlash => 11 | SSlash2 => 12 | SPercent => 13 | SCaret => 14
  | SConcat => 15 | SHash => 16 | SNot => 17
  end%nat.
Definition ptok_eqb (a b : ptok) : bool :=
  match a, b with
  | KAtom x, KAtom y => x =? y
  | KOp s, KOp s' => Nat.eqb (opsym_index s) (opsym_index s')
  | KLp, KLp | KRp, KRp => true
  | KCast k, KCast k' => ty_eqb k k'
  | _, _ => false
  end.
Fixpoint ptoks_eqb (a b : list ptok) : bool :=
  match a, b with
  | [], [] => true
  | x :: a', y :: b' => ptok_eqb x y && ptoks_eqb a' b'
  | _, _ => false
  end.

Definition sym_table : list (bytes * opsym) :=
  [(of_string "and", SAnd); (of_string "or", SOr); (of_string "==", SEq); (of_string "~=", SNe);
   (of_string "<", SLt); (of_string "<=", SLe); (of_string ">", SGt); (of_string ">=", SGe);
   (of_string "+", SPlus); (of_string "-", SMinus); (of_string "*", SStar); (of_string "/", SSlash);
   (of_string "//", SSlash2); (of_string "%", SPercent); (of_string "^", SCaret);
   (of_string "..", SConcat); (of_string "#", SHash); (of_string "not", SNot)].

Fixpoint find_sym (s : bytes) (l : list (bytes * opsym)) : option opsym :=
  match l with
  | [] => None
  | (t, y) :: l' => if bytes_eqb s t then Some y else find_sym s l'
  end.

Definition ptok_of_token (t : token) : option ptok :=
  let '(k, s) := t in
  match k with
  | TNumber => Some (KAtom 99)
  | TName =>
    match find_sym s sym_table with
    | Some y => Some (KOp y)
    | None => match s with [c] => Some (KAtom (c - 97)) | _ => None end
    end
  | TSym =>
    match find_sym s sym_table with
    | Some y => Some (KOp y)
    | None => if bytes_eqb s [40] then Some KLp else if bytes_eqb s [41] then Some KRp else None
    end
  | _ => None
  end.

(** the concrete spelling of the types of the cast stream (the harness builds exactly these
    types through darklua's constructors): T, T<P>, M.T, M.T<P>, ()->r, ()->...r, ()->(A,B),
    <G...>()->G..., A|last, A&last, T?, typeof(z), {}, {T}, (T), 'lit', true, nil *)
Definition nm (s : string) : token := (TName, of_string s).
Definition sy (s : string) : token := (TSym, of_string s).
Fixpoint ty_text (t : ty) : list token :=
  match t with
  | TyName false => [nm "T"]
  | TyName true => [nm "T"; sy "<"; nm "P"; sy ">"]
  | TyField false => [nm "M"; sy "."; nm "T"]
  | TyField true => [nm "M"; sy "."; nm "T"; sy "<"; nm "P"; sy ">"]
  | TyFunType r => [sy "("; sy ")"; sy "->"] ++ ty_text r
  | TyFunVariadic r => [sy "("; sy ")"; sy "->"; sy "..."] ++ ty_text r
  | TyFunPack => [sy "("; sy ")"; sy "->"; sy "("; nm "A"; sy ","; nm "B"; sy ")"]
  | TyFunGeneric => [sy "<"; nm "G"; sy "..."; sy ">"; sy "("; sy ")"; sy "->"; nm "G"; sy "..."]
  | TyUnion l => [nm "A"; sy "|"] ++ ty_text l
  | TyInter l => [nm "A"; sy "&"] ++ ty_text l
  | TyOptional => [nm "T"; sy "?"]
  | TyTypeOf => [nm "typeof"; sy "("; nm "z"; sy ")"]
  | TyTable => [sy "{"; sy "}"]
  | TyArray => [sy "{"; nm "T"; sy "}"]
  | TyParen => [sy "("; nm "T"; sy ")"]
  | TyString => [(TString, of_string "'lit'")]
  | TyBool => [nm "true"]
  | TyNil => [nm "nil"]
  end.

Fixpoint tokens_prefix (p l : list token) : option (list token) :=
  match p, l with
  | [], _ => Some l
  | x :: p', y :: l' => if token_eqb x y then tokens_prefix p' l' else None
  | _ :: _, [] => None
  end.

(** tokens of the real text -> abstract tokens; the text after each "::" must be the spelling of
    the next expected cast type ([tys], in order of appearance) *)
Fixpoint ptoks_fuel (f : nat) (tys : list ty) (l : list token) : option (list ptok) :=
  match f with
  | O => None
  | S f' =>
    match l with
    | [] => Some []
    | t :: l' =>
      if token_eqb t (TSym, [58; 58]) then
        match tys with
        | k :: tys' =>
          match tokens_prefix (ty_text k) l' with
          | Some r => option_map (cons (KCast k)) (ptoks_fuel f' tys' r)
          | None => None
          end
        | [] => None
        end
      else
        match ptok_of_token t, ptoks_fuel f' tys l' with
        | Some p, Some r => Some (p :: r)
        | _, _ => None
        end
    end
  end.
Definition ptoks_of_tokens (tys : list ty) (l : list token) : option (list ptok) :=
  ptoks_fuel (S (List.length l)) tys l.

Definition cast_types (toks : list ptok) : list ty :=
  flat_map (fun k => match k with KCast t => [t] | _ => [] end) toks.

(** tokens of the expression in [return <expression>] *)
Definition expr_ptoks (tys : list ty) (text : bytes) : option (list ptok) :=
  match lex text with
  | Some ((TName, r) :: l) => if bytes_eqb r (of_string "return") then ptoks_of_tokens tys l else None
  | _ => None
  end.

Section WithPTable.
Variable P : ptable.

(** (1) model = code: the generator wrote exactly the tokens of the modelled printer *)
Definition p_model_ok (text : bytes) (e : expr) : bool :=
  match expr_ptoks (cast_types (tokens_of_expr P e)) text with
  | Some l => ptoks_eqb l (tokens_of_expr P e)
  | None => false
  end.

(** (2) oracle, independent of the model of the printer: the REFERENCE parser reads the real
    text back as a tree with the same operator nesting *)
Definition p_oracle_ok (text : bytes) (e : expr) : bool :=
  match expr_ptoks (cast_types (tokens_of_expr P e)) text with
  | Some l => match parse_expr l with
              | Some e' => expr_eqb (strip e') (strip e)
              | None => false
              end
  | None => false
  end.

Definition pcheck_case (c : pcase) : bool :=
  p_model_ok (p_dense c) (p_expr c) && p_model_ok (p_readable c) (p_expr c)
  && p_oracle_ok (p_dense c) (p_expr c) && p_oracle_ok (p_readable c) (p_expr c).

Definition pdiag_bytes (c : pcase) : bytes :=
  (if p_model_ok (p_dense c) (p_expr c) then [] else of_string "MODEL-DENSE ") ++
  (if p_model_ok (p_readable c) (p_expr c) then [] else of_string "MODEL-READABLE ") ++
  (if p_oracle_ok (p_dense c) (p_expr c) then [] else of_string "ORACLE-DENSE ") ++
  (if p_oracle_ok (p_readable c) (p_expr c) then [] else of_string "ORACLE-READABLE ").
End WithPTable.

(** * statement boundaries (stage 3, correspondence only)

    One case = two statements A and B: the dense text of A alone, of B alone, and the dense
    and readable texts of the block [A B].  Reference criterion (token level, written from
    the Lua grammar: a prefix expression followed by "(" is a call): when A ends with an
    expression ([s_exprend]), B starts with "(" and the last token of A is ")", "]", a
    name that is not a keyword, or ">" ">" (the end of an explicit type instantiation
    [f<<T>>], which is a prefix expression), then a ";" MUST separate them (statements containing a type
    cast "::" are not judged: they may end inside a type, where a name is not a prefix
    expression); in every case the tokens of the block are those of A, then at most one ";",
    then those of B. *)
Record scase := { s_exprend : bool; s_a : bytes; s_b : bytes; s_dense : bytes; s_readable : bytes }.

Definition semicolon : token := (TSym, [59]).

Definition must_separate (exprend : bool) (ta tb : list token) : bool :=
  exprend
  && negb (existsb (token_eqb (TSym, [58; 58])) ta)   (* a type cast: A may end inside a type; not judged *)
  && match tb with t :: _ => token_eqb t (TSym, [40]) | [] => false end
  && match last ta (TSym, []) with
     | (TSym, s) => bytes_eqb s [41] || bytes_eqb s [93]
                    || (bytes_eqb s [62] && token_eqb (last (removelast ta) (TSym, [])) (TSym, [62]))
     | (TName, s) => negb (is_keyword s)
     | _ => false
     end.

Definition boundary_ok (exprend : bool) (a b ab : bytes) : bool :=
  match lexn a, lexn b, lexn ab with
  | Some ta, Some tb, Some tab =>
    (tokens_eqb tab (ta ++ tb) && negb (must_separate exprend ta tb))
    || tokens_eqb tab (ta ++ semicolon :: tb)
  | _, _, _ => false
  end.

Definition scheck_case (c : scase) : bool :=
  boundary_ok (s_exprend c) (s_a c) (s_b c) (s_dense c)
  && boundary_ok (s_exprend c) (s_a c) (s_b c) (s_readable c).

Definition sdiag_bytes (c : scase) : bytes :=
  (if boundary_ok (s_exprend c) (s_a c) (s_b c) (s_dense c) then [] else of_string "BOUNDARY-DENSE ") ++
  (if boundary_ok (s_exprend c) (s_a c) (s_b c) (s_readable c) then [] else of_string "BOUNDARY-READABLE ").

(** * string literals next to other tokens (long brackets)

    One case = one string VALUE, written as the only string of a small tree (return value, index
    key, call argument, ...): the reference lexer must read exactly ONE string token from the text
    and the reference decoder of C13 ([StringLit.decode_literal], Luau escapes) must decode that
    token to the value. *)
Record vcase := { v_value : bytes; v_dense : bytes; v_readable : bytes }.

Definition one_string_ok (value text : bytes) : bool :=
  match lex text with
  | Some toks =>
    match filter (fun t => tkind_eqb (fst t) TString) toks with
    | [(_, s)] =>
      match StringLit.decode_literal true s with
      | Some v => bytes_eqb v value
      | None => false
      end
    | _ => false
    end
  | None => false
  end.

(** the same for a backtick string with one text segment: exactly one [TInterp] token, whose body
    (between the backticks) the reference unescaper (delimiter "`") decodes to the value *)
Definition one_interp_ok (value text : bytes) : bool :=
  match lex text with
  | Some toks =>
    match filter (fun t => tkind_eqb (fst t) TInterp) toks with
    | [(_, 96 :: s)] =>
      match rev s with
      | 96 :: rbody =>
        match StringLit.unescape true 96 (rev rbody) with
        | Some v => bytes_eqb v value
        | None => false
        end
      | _ => false
      end
    | _ => false
    end
  | None => false
  end.

Definition vcheck_case (c : vcase) : bool :=
  one_string_ok (v_value c) (v_dense c) && one_string_ok (v_value c) (v_readable c).

Definition icheck_case (c : vcase) : bool :=
  one_interp_ok (v_value c) (v_dense c) && one_interp_ok (v_value c) (v_readable c).

Definition vdiag_bytes (c : vcase) : bytes :=
  (if one_string_ok (v_value c) (v_dense c) then [] else of_string "STRING-DENSE ") ++
  (if one_string_ok (v_value c) (v_readable c) then [] else of_string "STRING-READABLE ").

(** * every entry point at node level: literals are single tokens that decode to their values

    One case = a text written by one entry point of a generator at one column span, the dense
    text of the same entry point at an unbounded span (reference) and the literals of the tree
    in writing order: [(false, v)] a string of value [v]; [(true, v)] one text part of an
    interpolated string (the text between two holes; adjacent text segments are one part).
    The reference lexer must read the same tokens from both texts (so no token is broken by a
    line) and each literal token must decode to its value: strings with
    [StringLit.decode_literal], text parts with [StringLit.decode_segment] applied to the token
    without its first and last byte. *)
Record ncase := { n_lits : list (bool * bytes); n_text : bytes; n_ref : bytes }.

Definition decode_token (t : token) : option (bool * bytes) :=
  match t with
  | (TString, s) => option_map (pair false) (StringLit.decode_literal true s)
  | (TInterp, _ :: s) => option_map (pair true) (StringLit.decode_segment (removelast s))
  | _ => None
  end.

Fixpoint literals_match (toks : list token) (lits : list (bool * bytes)) : bool :=
  match toks with
  | [] => match lits with [] => true | _ => false end
  | t :: toks' =>
    match fst t with
    | TString | TInterp =>
      match lits, decode_token t with
      | (k, v) :: lits', Some (k', v') => Bool.eqb k k' && bytes_eqb v v' && literals_match toks' lits'
      | _, _ => false
      end
    | _ => literals_match toks' lits
    end
  end.

Definition literals_ok (c : ncase) : bool :=
  match lex (n_text c) with
  | Some toks => literals_match toks (n_lits c)
  | None => false
  end.

Definition ncheck_case (c : ncase) : bool := same_tokens (n_ref c) (n_text c) && literals_ok c.

Definition ndiag_bytes (c : ncase) : bytes :=
  (if same_tokens (n_ref c) (n_text c) then [] else of_string "TOKENS " ++ lex_diff (n_ref c) (n_text c) ++ [32]) ++
  (if literals_ok c then [] else of_string "LITERAL-VALUE ").
