(** C03 / C04 — model of the token-based generator's writing discipline.

    Code under test (transcribed as it is, including what it does wrong):
    - [src/nodes/token.rs]: [Position], [Trivia], [Token], [Token::read], [shift_token_line];
    - [src/generator/token_based.rs]: [push_str], [write_trivia], [write_token_options]
      (comment break, line padding [while line_number > self.current_line], space check),
      [write_symbol], [write_symbol_without_space_check], [needs_space], [uncomment],
      and the three raw pushes ([push_str("...")] twice, [output.push(' ')]);
    - [src/generator/utils.rs]: [should_break_with_space].
    The generator is a state machine fed, in order, by the per-node code (about 2000 lines of
    [write_*_with_tokens] and 2500 lines of [ast_converter.rs] that decide WHICH tokens exist
    and in which order they are written).  That per-node plumbing is NOT modelled: the model
    takes the sequence of write requests ([event]) as its input, and the correspondence run
    feeds it the sequence recorded from the real generator ([verif_hooks::token_trace]). *)
From DL Require Import Lib.Bytes Model.CommentText.
Open Scope N_scope.
Local Notation length := List.length.

(** * Tokens ([src/nodes/token.rs]) *)

Inductive position :=
| Ref (start stop line : nat)           (* LineNumberReference *)
| Owned (content : bytes) (line : nat)  (* LineNumber *)
| AnyPos (content : bytes).             (* Any *)

Inductive tkind := KComment | KWhitespace.

Record trivia := mk_trivia { tr_kind : tkind; tr_pos : position }.
Record token := mk_token { tk_pos : position; tk_leading : list trivia; tk_trailing : list trivia }.

(** what the per-node code asks the generator to write *)
Inductive event :=
| EToken (t : token) (space_check : bool)   (* write_token_options *)
| ESymbol (s : bytes) (space_check : bool)  (* write_symbol / write_symbol_without_space_check *)
| ERaw (s : bytes).                         (* push_str("...") / output.push(' ') *)

Definition slice (src : bytes) (a b : nat) : bytes := firstn (b - a) (skipn a src).

(** [Token::read] / [Trivia::read]: [code.get(start..end)], a panic when out of range
    ([None] here; character boundaries are not modelled: offsets come from the parser) *)
Definition read (src : bytes) (p : position) : option bytes :=
  match p with
  | Ref a b _ => if Nat.leb a b && Nat.leb b (length src) then Some (slice src a b) else None
  | Owned c _ | AnyPos c => Some c
  end.

Definition line_of (p : position) : option nat :=
  match p with
  | Ref _ _ l | Owned _ l => Some l
  | AnyPos _ => None
  end.

(** [Token::shift_token_line] ([saturating_add_signed], non-negative amounts only here) *)
Definition shift_position (k : nat) (p : position) : position :=
  match p with
  | Ref a b l => Ref a b (l + k)
  | Owned c l => Owned c (l + k)
  | AnyPos c => AnyPos c
  end.
Definition shift_token (k : nat) (t : token) : token :=
  mk_token (shift_position k (tk_pos t)) (tk_leading t) (tk_trailing t).

(** * Resolved write requests: content read, in writing order *)

Inductive rpiece :=
| RTrivia (k : tkind) (content : bytes)
| RToken (content : bytes) (line : option nat) (space_check : bool)
| RSymbol (content : bytes) (space_check : bool)
| RRaw (content : bytes).

Definition resolve_trivia (src : bytes) (t : trivia) : option rpiece :=
  option_map (RTrivia (tr_kind t)) (read src (tr_pos t)).

Fixpoint resolve_trivias (src : bytes) (l : list trivia) : option (list rpiece) :=
  match l with
  | [] => Some []
  | t :: l' =>
    match resolve_trivia src t, resolve_trivias src l' with
    | Some p, Some ps => Some (p :: ps)
    | _, _ => None
    end
  end.

(** [write_token_options]: leading trivia, the token, trailing trivia *)
Definition resolve_event (src : bytes) (e : event) : option (list rpiece) :=
  match e with
  | EToken t sc =>
    match resolve_trivias src (tk_leading t), read src (tk_pos t), resolve_trivias src (tk_trailing t) with
    | Some l, Some c, Some r => Some (l ++ RToken c (line_of (tk_pos t)) sc :: r)
    | _, _, _ => None
    end
  | ESymbol s sc => Some [RSymbol s sc]
  | ERaw s => Some [RRaw s]
  end.

Fixpoint resolve_all (src : bytes) (evs : list event) : option (list rpiece) :=
  match evs with
  | [] => Some []
  | e :: evs' =>
    match resolve_event src e, resolve_all src evs' with
    | Some p, Some ps => Some (p ++ ps)
    | _, _ => None
    end
  end.

(** * [should_break_with_space] ([src/generator/utils.rs]) on bytes.
    The Rust function works on [char]s; a non-ASCII character matches no arm, and its last /
    first byte is >= 128, which matches no arm here either. *)
Definition is_dig (c : N) : bool := (48 <=? c) && (c <=? 57).
Definition is_upper (c : N) : bool := (65 <=? c) && (c <=? 90).
Definition is_lower (c : N) : bool := (97 <=? c) && (c <=? 122).

Definition should_break_with_space (e n : N) : bool :=
  if is_dig e then is_dig n || is_upper n || is_lower n || (n =? 95) || (n =? 46)
  else if is_upper e || is_lower e || (e =? 95) then is_dig n || is_upper n || is_lower n || (n =? 95)
  else if e =? 62 then n =? 61
  else if e =? 45 then n =? 45
  else if e =? 91 then n =? 91
  else if e =? 93 then n =? 93
  else if e =? 46 then (n =? 46) || is_dig n
  else false.

(** * The generator state machine *)

Record gstate := mk_gstate { g_out : bytes; g_commenting : bool; g_line : nat }.

Definition g_init : gstate := mk_gstate [] false 1.

(** [push_str]: [current_line += count_new_lines(string)] *)
Definition push_str (st : gstate) (s : bytes) : gstate :=
  mk_gstate (g_out st ++ s) (g_commenting st) (g_line st + count_lf s).

(** [self.output.push(' ')] (the line counter is not touched) *)
Definition push_space (st : gstate) : gstate :=
  mk_gstate (g_out st ++ [32]) (g_commenting st) (g_line st).

Definition uncomment (st : gstate) : gstate :=
  mk_gstate (g_out st ++ [10]) false (S (g_line st)).

Fixpoint last_byte (s : bytes) : option N :=
  match s with
  | [] => None
  | c :: s' => match s' with [] => Some c | _ :: _ => last_byte s' end
  end.

Definition needs_space (st : gstate) (next : N) : bool :=
  match last_byte (g_out st) with
  | Some l => should_break_with_space l next
  | None => false
  end.

(** [while line_number > self.current_line { self.output.push('\n'); self.current_line += 1; }] *)
Definition pad_to (st : gstate) (target : nat) : gstate :=
  mk_gstate (g_out st ++ repeat 10 (target - g_line st)) (g_commenting st) (Nat.max (g_line st) target).

Definition set_commenting (st : gstate) (b : bool) : gstate :=
  mk_gstate (g_out st) b (g_line st).

Definition write_trivia (st : gstate) (k : tkind) (content : bytes) : gstate :=
  match k with
  | KComment =>
    if is_single_line_comment content then set_commenting (push_str st content) true
    else push_str (if g_commenting st then uncomment st else st) content
  | KWhitespace =>
    let st' := push_str st content in
    if g_commenting st' && has_lf content then set_commenting st' false else st'
  end.

Definition write_token (st : gstate) (content : bytes) (line : option nat) (space_check : bool) : gstate :=
  match content with
  | [] => st
  | c :: _ =>
    let st1 := if g_commenting st then uncomment st else st in
    let st2 := match line with Some l => pad_to st1 l | None => st1 end in
    let st3 := if space_check && needs_space st2 c then push_space st2 else st2 in
    push_str st3 content
  end.

(** [write_symbol] ([space_check = true]) and [write_symbol_without_space_check] *)
Definition write_symbol (st : gstate) (s : bytes) (space_check : bool) : gstate :=
  let st1 :=
    if g_commenting st then uncomment st
    else if space_check then
      match s with
      | c :: _ => if needs_space st c then push_space st else st
      | [] => st
      end
    else st in
  push_str st1 s.

Definition step (st : gstate) (p : rpiece) : gstate :=
  match p with
  | RTrivia k c => write_trivia st k c
  | RToken c l sc => write_token st c l sc
  | RSymbol s sc => write_symbol st s sc
  | RRaw s => push_str st s      (* [output.push(' ')] = [push_str " "]: no line break in it *)
  end.

Definition run (st : gstate) (ps : list rpiece) : gstate := fold_left step ps st.

(** the generated text; [None] = the Rust code panics reading a position *)
Definition generate (src : bytes) (evs : list event) : option bytes :=
  option_map (fun ps => g_out (run g_init ps)) (resolve_all src evs).

(** * C03: what "the tokens are the source, losslessly" means *)

(** a laid-out piece: kind, byte range in the source, recorded line *)
Inductive lkind := LTrivia (k : tkind) | LToken (space_check : bool).
Record lpiece := mk_lpiece { lp_kind : lkind; lp_start : nat; lp_stop : nat; lp_line : nat }.

Definition layout_trivia (t : trivia) : option lpiece :=
  match tr_pos t with
  | Ref a b l => Some (mk_lpiece (LTrivia (tr_kind t)) a b l)
  | _ => None
  end.

Fixpoint layout_trivias (l : list trivia) : option (list lpiece) :=
  match l with
  | [] => Some []
  | t :: l' =>
    match layout_trivia t, layout_trivias l' with
    | Some p, Some ps => Some (p :: ps)
    | _, _ => None
    end
  end.

(** every request is a parsed token whose parts all refer to the source *)
Definition layout_event (e : event) : option (list lpiece) :=
  match e with
  | EToken t sc =>
    match layout_trivias (tk_leading t), tk_pos t, layout_trivias (tk_trailing t) with
    | Some l, Ref a b ln, Some r => Some (l ++ mk_lpiece (LToken sc) a b ln :: r)
    | _, _, _ => None
    end
  | _ => None
  end.

Fixpoint layout (evs : list event) : option (list lpiece) :=
  match evs with
  | [] => Some []
  | e :: evs' =>
    match layout_event e, layout evs' with
    | Some p, Some ps => Some (p ++ ps)
    | _, _ => None
    end
  end.

(** every byte of the source belongs to exactly one piece, in order: the ranges tile
    [from, length src) *)
Fixpoint tiles (len from : nat) (ps : list lpiece) : bool :=
  match ps with
  | [] => Nat.eqb from len
  | p :: ps' => Nat.eqb (lp_start p) from && Nat.leb (lp_start p) (lp_stop p) && Nat.leb (lp_stop p) len
               && tiles len (lp_stop p) ps'
  end.

(** the recorded line of a token is the line its first byte is on *)
Definition true_line (src : bytes) (at_ : nat) : nat := S (count_lf (firstn at_ src)).

Definition lines_true (src : bytes) (ps : list lpiece) : bool :=
  forallb (fun p => match lp_kind p with
                    | LToken _ => Nat.eqb (lp_line p) (true_line src (lp_start p))
                    | LTrivia _ => true
                    end) ps.

(** no two pieces are glued where the generator's space check fires: for a non-empty token
    written with the check, the source byte before it and its first byte do not "break" *)
Definition adjacent_break (src : bytes) (p : lpiece) : bool :=
  match lp_kind p with
  | LToken true =>
    Nat.ltb (lp_start p) (lp_stop p) && Nat.ltb 0 (lp_start p) &&
    match nth_error src (lp_start p - 1), nth_error src (lp_start p) with
    | Some a, Some b => should_break_with_space a b
    | _, _ => false
    end
  | _ => false
  end.

Definition no_adjacent_break (src : bytes) (ps : list lpiece) : bool :=
  forallb (fun p => negb (adjacent_break src p)) ps.

Definition lp_resolve (src : bytes) (p : lpiece) : rpiece :=
  match lp_kind p with
  | LTrivia k => RTrivia k (slice src (lp_start p) (lp_stop p))
  | LToken sc => RToken (slice src (lp_start p) (lp_stop p)) (Some (lp_line p)) sc
  end.

(** * Comment safety: the generator never has to break a line comment itself.
    [cm_ok commenting ps]: starting with the flag [commenting], no piece of [ps] makes the
    generator insert the line break of [uncomment]. *)
Fixpoint cm_ok (cm : bool) (ps : list rpiece) : bool :=
  match ps with
  | [] => true
  | RTrivia KComment c :: r =>
    if is_single_line_comment c then cm_ok true r else negb cm && cm_ok false r
  | RTrivia KWhitespace w :: r => cm_ok (cm && negb (has_lf w)) r
  | RToken [] _ _ :: r => cm_ok cm r
  | RToken _ _ _ :: r => negb cm && cm_ok false r
  | RSymbol _ _ :: r => negb cm && cm_ok false r
  | RRaw _ :: r => cm_ok cm r
  end.

(** * C04: where tokens land *)

(** line on which the next byte written would be *)
Definition out_line (st : gstate) : nat := S (count_lf (g_out st)).

(** for every non-empty token that carries a line: (recorded line, line it is written on),
    the latter measured on the output text itself *)
Definition placement (st : gstate) (p : rpiece) : list (nat * nat) :=
  match p with
  | RToken (c :: t) (Some l) sc =>
    let st1 := if g_commenting st then uncomment st else st in
    let st2 := pad_to st1 l in
    [(l, out_line st2)]
  | _ => []
  end.

Fixpoint placements (st : gstate) (ps : list rpiece) : list (nat * nat) :=
  match ps with
  | [] => []
  | p :: r => placement st p ++ placements (step st p) r
  end.

(** static accounting of line breaks: [lines_fit cur cm ps] — with [cur] the line reached so
    far and [cm] the comment flag, every token with a recorded line still has room: the
    breaks contained in what is written before it (content, trivia, one per line comment that
    must be closed) do not pass its line.  This is "monotone lines + comment safety". *)
Definition bump (cm : bool) (cur : nat) : nat := if cm then S cur else cur.

Fixpoint lines_fit (cur : nat) (cm : bool) (ps : list rpiece) : bool :=
  match ps with
  | [] => true
  | RTrivia KComment c :: r =>
    if is_single_line_comment c then lines_fit (cur + count_lf c) true r
    else lines_fit (bump cm cur + count_lf c) false r
  | RTrivia KWhitespace w :: r => lines_fit (cur + count_lf w) (cm && negb (has_lf w)) r
  | RToken [] _ _ :: r => lines_fit cur cm r
  | RToken c (Some l) _ :: r => Nat.leb (bump cm cur) l && lines_fit (l + count_lf c) false r
  | RToken c None _ :: r => lines_fit (bump cm cur + count_lf c) false r
  | RSymbol s _ :: r => lines_fit (bump cm cur + count_lf s) false r
  | RRaw s :: r => lines_fit (cur + count_lf s) cm r
  end.

(** [ShiftTokenLine] on resolved pieces *)
Definition shift_piece (k : nat) (p : rpiece) : rpiece :=
  match p with
  | RToken c (Some l) sc => RToken c (Some (l + k)%nat) sc
  | _ => p
  end.
