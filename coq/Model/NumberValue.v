(** The value of a number node and the value of a written number text: the oracle of the C13
    number streams (vlib/c13.py evaluates [text_value] on the bytes the real generator wrote and
    compares with [lit_value] of the node), kept here so that the theorems of
    [Proof/NumberWriteValue.v] are about the very definitions the per-run check evaluates. *)
From Coq Require Import ZArith NArith List Bool.
From Coq Require Import Floats.SpecFloat.
From DL Require Import Lib.Bytes Lib.F64 Lua.Syntax Model.NumberLit.
Import ListNotations.
Open Scope N_scope.

(** value of a node ([NumberExpression::compute_value]) *)
Definition lit_value (n : number) : f64 :=
  match n with
  | NDec bits _ => of_bits bits
  | NHex i _ None => of_N i
  | NHex i _ (Some (e, _)) => of_N ((i * (if N.leb 64 e then 0 else 2 ^ e)) mod 18446744073709551616)
  | NBin i _ => of_N i
  end.

(** a Lua numeral starts with a digit, or a dot followed by a digit (after an optional minus sign): words such as
    inf / nan, which a float parser may accept, are names in Lua *)
Definition numeral_shape (t : bytes) : bool :=
  let u := match t with 45 :: r => r | _ => t end in
  match u with
  | c :: r => if is_digit c then true
              else if N.eqb c 46 then match r with d :: _ => is_digit d | [] => false end else false
  | [] => false
  end.

(** value of a written number: the three parenthesised forms for nan / infinities, otherwise the
    literal read back with correctly rounded decimal -> binary conversion *)
Definition text_value (t : bytes) : option f64 :=
  if bytes_eqb t (of_string "(0/0)") then Some S754_nan
  else if bytes_eqb t (of_string "(1/0)") then Some (S754_infinity false)
  else if bytes_eqb t (of_string "(-1/0)") then Some (S754_infinity true)
  else if numeral_shape t then option_map lit_value (from_str t) else None.

(** the per-run verdict on (node, written text) *)
Definition value_kept (n : number) (t : bytes) : bool :=
  match text_value t with
  | Some v => same_f64 v (lit_value n)
  | None => false
  end.
