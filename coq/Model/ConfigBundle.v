(** C19 — a concrete model of the `bundle` block, usable for the oracle [norm_bundle] of Model/Config.v.

    Transcribed from the serde attributes of
      - /repo/src/frontend/configuration.rs : BundleConfiguration (deny_unknown_fields; require_mode through
        string_or_struct; modules_identifier: Option<String>, skipped when None; excludes: HashSet<String>,
        default, skipped when empty)
      - /repo/src/rules/bundle/mod.rs       : BundleRequireMode (tag `name`: path | luau; FromStr for the names)
      - /repo/src/rules/require/path_require_mode.rs : PathRequireMode (module_folder_name: default "init", skipped
        when "init"; sources: map, default, skipped when empty; use_luau_configuration: default true, ALWAYS written)
      - /repo/src/rules/require/luau_require_mode.rs : LuauRequireMode (use_luau_configuration: default true, always
        written; aliases (alias `sources`): map, default, skipped when empty)
    Result = what serde_json writes for the value read, fields in declaration order; the entries of the maps
    sorted by key and `excludes` sorted without duplicates (the code keeps them in hash tables: no order). *)
From Coq Require Import List Bool String Ascii ZArith.
From DL Require Import Model.Config.
Import ListNotations.
Open Scope string_scope.

Fixpoint insert_str (s : string) (l : list string) : list string :=
  match l with
  | [] => [s]
  | x :: l' => if String.eqb s x then l else if String.leb s x then s :: l else x :: insert_str s l'
  end.

(** sorted, without duplicates *)
Definition str_set (l : list string) : list string := fold_right insert_str [] l.

(** a JSON object whose values are all strings, as a map: a repeated key keeps its last value (HashMap::insert) *)
Fixpoint str_entries (kvs : list (string * json)) : option (list (string * string)) :=
  match kvs with
  | [] => Some []
  | (k, JStr v) :: rest =>
      match str_entries rest with
      | Some m => Some (if has_key k m then m else (k, v) :: m)
      | None => None
      end
  | _ => None
  end.

Definition str_map (j : json) : option (list (string * string)) :=
  match j with JObj kvs => option_map sort_by_key (str_entries kvs) | _ => None end.

Definition map_json (m : list (string * string)) : json := JObj (map (fun kv => (fst kv, JStr (snd kv))) m).

Fixpoint nodup_keys (kvs : list (string * json)) : bool :=
  match kvs with
  | [] => true
  | (k, _) :: rest => negb (has_key k rest) && nodup_keys rest
  end.

(** derived struct deserializer with deny_unknown_fields: known keys only, none twice *)
Definition fields_in (allowed : list string) (kvs : list (string * json)) : bool :=
  forallb (fun kv => mem (fst kv) allowed) kvs && nodup_keys kvs.

Definition opt_bool (o : option json) (default : bool) : option bool :=
  match o with None => Some default | Some (JBool b) => Some b | Some _ => None end.

Definition opt_map (o : option json) : option (list (string * string)) :=
  match o with None => Some [] | Some j => str_map j end.

Definition path_mode (kvs : list (string * json)) : option json :=
  if fields_in ["module_folder_name"; "sources"; "use_luau_configuration"] kvs then
    let folder := match lookup "module_folder_name" kvs with
                  | None => Some "init" | Some (JStr s) => Some s | Some _ => None end in
    match folder, opt_map (lookup "sources" kvs), opt_bool (lookup "use_luau_configuration" kvs) true with
    | Some f, Some srcs, Some b =>
        Some (JObj (("name", JStr "path")
                    :: (if String.eqb f "init" then [] else [("module_folder_name", JStr f)])
                    ++ (match srcs with [] => [] | _ => [("sources", map_json srcs)] end)
                    ++ [("use_luau_configuration", JBool b)]))
    | _, _, _ => None
    end
  else None.

Definition luau_mode (kvs : list (string * json)) : option json :=
  (* `sources` is an alias of `aliases`: both together are a duplicate field *)
  if fields_in ["use_luau_configuration"; "aliases"; "sources"] kvs
     && negb (has_key "aliases" kvs && has_key "sources" kvs) then
    let al := match lookup "aliases" kvs with Some j => Some j | None => lookup "sources" kvs end in
    match opt_bool (lookup "use_luau_configuration" kvs) true, opt_map al with
    | Some b, Some m =>
        Some (JObj (("name", JStr "luau") :: ("use_luau_configuration", JBool b)
                    :: (match m with [] => [] | _ => [("aliases", map_json m)] end)))
    | _, _ => None
    end
  else None.

(** BundleRequireMode through string_or_struct *)
Definition bundle_require_mode (j : json) : option json :=
  match j with
  | JStr "path" => path_mode []
  | JStr "luau" => luau_mode []
  | JObj kvs =>
      match count_key "name" kvs, lookup "name" kvs with
      | 1%nat, Some (JStr tag) =>
          let others := filter (fun kv => negb (String.eqb "name" (fst kv))) kvs in
          if String.eqb tag "path" then path_mode others
          else if String.eqb tag "luau" then luau_mode others
          else None
      | _, _ => None
      end
  | _ => None
  end.

Definition bundle_norm (j : json) : option json :=
  match j with
  | JObj kvs =>
      if fields_in ["require_mode"; "modules_identifier"; "excludes"] kvs then
        let ident := match lookup "modules_identifier" kvs with
                     | None | Some JNull => Some None | Some (JStr s) => Some (Some s) | Some _ => None end in
        let excl := match lookup "excludes" kvs with
                    | None => Some [] | Some (JArr l) => option_map str_set (as_strings l) | Some _ => None end in
        match lookup "require_mode" kvs with
        | None => None
        | Some rm =>
            match bundle_require_mode rm, ident, excl with
            | Some rm', Some i, Some e =>
                Some (JObj (("require_mode", rm')
                            :: (match i with Some s => [("modules_identifier", JStr s)] | None => [] end)
                            ++ (match e with [] => [] | _ => [("excludes", JArr (map JStr e))] end)))
            | _, _, _ => None
            end
        end
      else None
  | _ => None
  end.
