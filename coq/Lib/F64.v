(** IEEE-754 binary64 as [spec_float] (Coq.Floats.SpecFloat at prec 53, emax 1024):
    pure Gallina over [Z]; no primitive floats, so neither the PrimFloat primitives nor
    FloatAxioms enter the trusted base.  Decimal <-> binary conversion ([%.14g], shortest
    round-trip digits, correctly rounded parsing) is done exactly over [Z]. *)
From Coq Require Import ZArith NArith List Bool Lia.
From Coq Require Import Floats.SpecFloat.
From DL Require Import Lib.Bytes.
Import ListNotations.
Open Scope Z_scope.

Definition f64 := spec_float.
Definition prec := 53.
Definition emax := 1024.

Definition fadd := SFadd prec emax.
Definition fsub := SFsub prec emax.
Definition fmul := SFmul prec emax.
Definition fdiv := SFdiv prec emax.
Definition fsqrt := SFsqrt prec emax.
Definition fneg := SFopp.
Definition fabs := SFabs.
Definition feqb := SFeqb.      (* IEEE ==: nan <> nan, -0 == 0 *)
Definition fltb := SFltb.
Definition fleb := SFleb.
Definition fnorm (m e : Z) (szero : bool) : f64 := binary_normalize prec emax m e szero.

Definition is_nan (x : f64) : bool := match x with S754_nan => true | _ => false end.
Definition is_inf (x : f64) : bool := match x with S754_infinity _ => true | _ => false end.
Definition is_zero (x : f64) : bool := match x with S754_zero _ => true | _ => false end.
Definition is_finite (x : f64) : bool :=
  match x with S754_zero _ | S754_finite _ _ _ => true | _ => false end.
Definition sign_of (x : f64) : bool :=
  match x with
  | S754_zero s | S754_infinity s | S754_finite s _ _ => s
  | S754_nan => false
  end.

Definition fzero : f64 := S754_zero false.
Definition fone : f64 := S754_finite false 4503599627370496 (-52).
Definition of_Z (z : Z) : f64 := fnorm z 0 false.
Definition of_N (n : N) : f64 := of_Z (Z.of_N n).

(** * bit patterns (transport format of the correspondence check) *)

Definition of_bits (b : N) : f64 :=
  let b := Z.of_N b in
  let s := Z.testbit b 63 in
  let e := (b / 4503599627370496) mod 2048 in
  let m := b mod 4503599627370496 in
  if e =? 0 then
    match m with
    | Zpos p => S754_finite s p (-1074)
    | _ => S754_zero s
    end
  else if e =? 2047 then
    (if m =? 0 then S754_infinity s else S754_nan)
  else
    match m + 4503599627370496 with
    | Zpos p => S754_finite s p (e - 1075)
    | _ => S754_nan
    end.

(** canonical quiet NaN pattern for every NaN *)
Definition to_bits (x : f64) : N :=
  let sb (s : bool) := if s then 9223372036854775808 else 0 in
  Z.to_N
  match x with
  | S754_zero s => sb s
  | S754_infinity s => sb s + 9218868437227405312
  | S754_nan => 9221120237041090560
  | S754_finite s m e =>
    match fnorm (Zpos m) e false with
    | S754_finite _ m' e' =>
      if Zpos m' <? 4503599627370496 then sb s + Zpos m'
      else sb s + (e' + 1075) * 4503599627370496 + (Zpos m' - 4503599627370496)
    | S754_infinity _ => sb s + 9218868437227405312
    | _ => sb s
    end
  end.

(** total-order style equality used to compare results: all NaNs equal, -0 <> +0 *)
Definition same_f64 (x y : f64) : bool := N.eqb (to_bits x) (to_bits y).

(** * floor, fmod, integer tests *)

Definition ffloor (x : f64) : f64 :=
  match x with
  | S754_finite s m e =>
    if 0 <=? e then x
    else
      let d := 2 ^ (- e) in
      let q := Zpos m / d in
      let r := Zpos m mod d in
      if s then fnorm (- (if r =? 0 then q else q + 1)) 0 true
      else fnorm q 0 false
  | _ => x
  end.

Definition is_integer (x : f64) : bool :=
  match x with
  | S754_zero _ => true
  | S754_finite _ _ _ => same_f64 (ffloor x) x
  | _ => false
  end.

(** exact integer value of a float that [is_integer] *)
Definition to_Z (x : f64) : Z :=
  match x with
  | S754_finite s m e =>
    let v := if 0 <=? e then Zpos m * 2 ^ e else Zpos m / 2 ^ (- e) in
    if s then - v else v
  | _ => 0
  end.

(** C [fmod]: result has the sign of [a], exact *)
Definition ffmod (a b : f64) : f64 :=
  match a, b with
  | S754_nan, _ | _, S754_nan => S754_nan
  | S754_infinity _, _ => S754_nan
  | _, S754_zero _ => S754_nan
  | S754_zero _, _ => a
  | _, S754_infinity _ => a
  | S754_finite sa ma ea, S754_finite _ mb eb =>
    let e := Z.min ea eb in
    let A := Zpos ma * 2 ^ (ea - e) in
    let B := Zpos mb * 2 ^ (eb - e) in
    let r := A mod B in
    fnorm (if sa then - r else r) e sa
  end.

(** Lua 5.1 [luai_nummod]: a - floor(a/b)*b *)
Definition fmod_51 (a b : f64) : f64 := fsub a (fmul (ffloor (fdiv a b)) b).

(** Luau / Lua 5.3 [luai_nummod]: fmod, adjusted when signs differ *)
Definition fmod_luau (a b : f64) : f64 :=
  let r := ffmod a b in
  if negb (is_nan r) && negb (feqb r fzero) && negb (Bool.eqb (fltb r fzero) (fltb b fzero))
  then fadd r b else r.

(** * pow: exact for the cases the generators use; [None] elsewhere (not modelled) *)

Definition fpow (x y : f64) : option f64 :=
  if is_zero y then Some fone                       (* pow(x, +-0) = 1, even for nan *)
  else if same_f64 x fone then Some fone            (* pow(1, y) = 1 *)
  else if is_nan x || is_nan y then Some S754_nan
  else if same_f64 y (S754_finite false 4503599627370496 (-53)) then   (* y = 0.5 *)
    match x with
    | S754_zero _ => Some fzero                     (* pow(-0, 0.5) = +0 *)
    | S754_infinity _ => Some (S754_infinity false) (* pow(-inf, 0.5) = +inf *)
    | S754_finite true _ _ => Some S754_nan
    | _ => Some (fsqrt x)                           (* correctly rounded in both; exactness assumed of libm *)
    end
  else if is_integer y then
    let k := to_Z y in
    if (Z.abs k <=? 1100) then
      match x with
      | S754_finite s m e =>
        let sr := s && Z.odd k in
        let pm := Zpos m ^ Z.abs k in
        let pe := e * Z.abs k in
        (* libm's pow is not guaranteed to be correctly rounded: the result is modelled only
           when it is exact (or overflows), which every implementation returns exactly *)
        (* a negative power is exact only when the mantissa is a power of two: x = +-2^j gives
           +-2^(-j*|k|), built directly (a division of such operands takes minutes in vm_compute);
           [S754_nan] stands for "not modelled" and is rejected below *)
        let lg := Z.log2 (Zpos m) in
        let r := if 0 <? k then fnorm (if sr then - pm else pm) pe sr
                 else if (Zpos m =? 2 ^ lg) && (-1074 <=? - (e + lg) * Z.abs k)
                      then fnorm (if sr then -1 else 1) (- (e + lg) * Z.abs k) sr
                      else S754_nan in
        match r with
        | S754_infinity _ => Some r
        | S754_finite _ m' e' =>
          let exact_eq (m1 e1 m2 e2 : Z) :=
            let e0 := Z.min e1 e2 in (m1 * 2 ^ (e1 - e0) =? m2 * 2 ^ (e2 - e0)) in
          if (if 0 <? k then exact_eq (Zpos m') e' pm pe else exact_eq (Zpos m' * pm) (e' + pe) 1 0)
          then Some r else None
        | _ => None
        end
      | S754_zero s =>
        if 0 <? k then Some (S754_zero (s && Z.odd k)) else Some (S754_infinity (s && Z.odd k))
      | S754_infinity s =>
        if 0 <? k then Some (S754_infinity (s && Z.odd k)) else Some (S754_zero (s && Z.odd k))
      | S754_nan => Some S754_nan
      end
    else
      (* |k| > 1100: the cases every implementation returns exactly - a magnitude of exactly 1, certain
         overflow (|x| >= 2) and certain underflow (|x| <= 1/2), zeros and infinities *)
      let sr := (match x with S754_finite s _ _ | S754_zero s | S754_infinity s => s | S754_nan => false end)
                && Z.odd k in
      match x with
      | S754_finite _ _ _ =>
        let a := fabs x in
        if same_f64 a fone then Some (if sr then fneg fone else fone)
        else if fleb (S754_finite false 4503599627370496 (-51)) a then           (* 2 <= |x| *)
          Some (if 0 <? k then S754_infinity sr else S754_zero sr)
        else if fleb a (S754_finite false 4503599627370496 (-53)) then           (* |x| <= 1/2 *)
          Some (if 0 <? k then S754_zero sr else S754_infinity sr)
        else None
      | S754_zero _ => if 0 <? k then Some (S754_zero sr) else Some (S754_infinity sr)
      | S754_infinity _ => if 0 <? k then Some (S754_infinity sr) else Some (S754_zero sr)
      | S754_nan => Some S754_nan
      end
  else None.

(** * decimal rendering *)

(** number of decimal digits of a positive integer *)
Fixpoint ndigits_fuel (fuel : nat) (n : Z) : Z :=
  match fuel with
  | O => 1
  | S f => if n <? 10 then 1 else 1 + ndigits_fuel f (n / 10)
  end.
Definition ndigits (n : Z) : Z := ndigits_fuel (S (Z.to_nat (Z.log2 n))) n.

(** decimal exponent X of a positive finite m*2^e: 10^X <= value < 10^(X+1) *)
Definition dec_exponent (m : positive) (e : Z) : Z :=
  if 0 <=? e then ndigits (Zpos m * 2 ^ e) - 1
  else
    (* estimate from the bit length, then correct by exact comparison *)
    let bits := Z.log2 (Zpos m) + e in              (* 2^bits <= v < 2^(bits+1) *)
    let est := (bits * 30103) / 100000 in           (* floor-ish of bits*log10(2), within 1 *)
    let ge_pow10 (X : Z) : bool :=                  (* v >= 10^X ? *)
      if 0 <=? X then 10 ^ X * 2 ^ (- e) <=? Zpos m
      else 2 ^ (- e) <=? Zpos m * 10 ^ (- X) in
    if ge_pow10 (est + 1) then est + 1 else if ge_pow10 est then est else est - 1.

(** round-half-even of num/den (both positive) *)
Definition div_rhe (num den : Z) : Z :=
  let q := num / den in
  let r := num mod den in
  match 2 * r ?= den with
  | Lt => q
  | Gt => q + 1
  | Eq => if Z.even q then q else q + 1
  end.

(** the integer of [k] significant decimal digits nearest (half-even) to m*2^e, with the
    decimal exponent of its leading digit (adjusted when rounding carries to 10^k) *)
Definition round_sig (k : Z) (m : positive) (e : Z) : Z * Z :=
  let X := dec_exponent m e in
  let sh := k - 1 - X in                       (* scale by 10^sh *)
  let num := Zpos m * (if 0 <=? e then 2 ^ e else 1) * (if 0 <=? sh then 10 ^ sh else 1) in
  let den := (if 0 <=? e then 1 else 2 ^ (- e)) * (if 0 <=? sh then 1 else 10 ^ (- sh)) in
  let d := div_rhe num den in
  if 10 ^ k <=? d then (d / 10, X + 1) else (d, X).

Definition zdigits (n : Z) : bytes := dec_digits (Z.to_N n).

Fixpoint strip_trailing_zeros_rev (r : bytes) : bytes :=
  match r with
  | 48%N :: r' => strip_trailing_zeros_rev r'
  | _ => r
  end.
Definition strip_trailing_zeros (d : bytes) : bytes := rev (strip_trailing_zeros_rev (rev d)).

Definition zeros (n : Z) : bytes := repeat 48%N (Z.to_nat n).

Definition exp_suffix (X : Z) : bytes :=
  let a := Z.abs X in
  (101%N :: (if X <? 0 then 45%N else 43%N) :: (if a <? 10 then 48%N :: zdigits a else zdigits a)).

(** layout of significant digits [ds] (no trailing zeros, non-empty) with decimal exponent X
    in fixed notation *)
Definition layout_fixed (ds : bytes) (X : Z) : bytes :=
  let n := Z.of_nat (List.length ds) in
  if X <? 0 then [48%N; 46%N] ++ zeros (- X - 1) ++ ds
  else if n <=? X + 1 then ds ++ zeros (X + 1 - n)
  else firstn (Z.to_nat (X + 1)) ds ++ [46%N] ++ skipn (Z.to_nat (X + 1)) ds.

Definition layout_sci (ds : bytes) (X : Z) : bytes :=
  match ds with
  | [] => []
  | d :: rest => (d :: (match rest with [] => [] | _ => 46%N :: rest end)) ++ exp_suffix X
  end.

Definition with_sign (s : bool) (b : bytes) : bytes := if s then 45%N :: b else b.

(** C [printf("%.14g")] as used by Lua 5.1's tostring / concatenation.
    NaN rendering is platform dependent ("nan" / "-nan"): we return "nan". *)
Definition tostring_51 (x : f64) : bytes :=
  match x with
  | S754_zero s => with_sign s [48%N]
  | S754_infinity s => with_sign s [105; 110; 102]%N
  | S754_nan => [110; 97; 110]%N
  | S754_finite s m e =>
    let '(d, X) := round_sig 14 m e in
    let ds := strip_trailing_zeros (zdigits d) in
    with_sign s (if (X <? -4) || (14 <=? X) then layout_sci ds X else layout_fixed ds X)
  end.

(** correctly rounded value of d * 10^X (d > 0) *)
Definition of_decimal (s : bool) (d : Z) (X : Z) : f64 :=
  match d with
  | Zpos p =>
    if 0 <=? X then fnorm (if s then - (d * 10 ^ X) else d * 10 ^ X) 0 s
    else match 10 ^ (- X) with
         | Zpos q => fdiv (S754_finite s p 0) (S754_finite false q 0)
         | _ => S754_nan
         end
  | _ => S754_zero s
  end.

(** [of_decimal] with the decimal exponent clamped to the range where it can matter:
    beyond it the result is already zero or infinity; keeps evaluation cheap on texts such
    as 1e999999999 *)
Definition clampZ (lo hi z : Z) : Z := Z.max lo (Z.min hi z).
Definition of_decimal_c (s : bool) (d : Z) (X : Z) : f64 :=
  of_decimal s d (clampZ (-400 - ndigits d) 400 X).

(** shortest digit string (by increasing length, correctly rounded at that length) that
    parses back to the same double *)
Fixpoint shortest_fuel (fuel : nat) (k : Z) (m : positive) (e : Z) : Z * Z :=
  match fuel with
  | O => round_sig 17 m e
  | S f =>
    let '(d, X) := round_sig k m e in
    if same_f64 (of_decimal false d (X - (k - 1))) (S754_finite false m e) then (d, X)
    else shortest_fuel f (k + 1) m e
  end.

(** Luau's number printing (lnumprint.cpp): shortest round-trip digits; fixed notation when
    the decimal point position is within [-5, 21], scientific otherwise. *)
Definition tostring_luau (x : f64) : bytes :=
  match x with
  | S754_zero s => with_sign s [48%N]
  | S754_infinity s => with_sign s [105; 110; 102]%N
  | S754_nan => [110; 97; 110]%N
  | S754_finite s m e =>
    let '(d, X) := shortest_fuel 17 1 m e in
    let ds := strip_trailing_zeros (zdigits d) in
    let dot := X + 1 in
    with_sign s (if (-5 <=? dot) && (dot <=? 21) then layout_fixed ds X else layout_sci ds X)
  end.

(** * parsing (Lua's string -> number coercion) *)

Definition is_space_c (c : N) : bool := ((c =? 32) || ((9 <=? c) && (c <=? 13)))%N.

Fixpoint ltrim (s : bytes) : bytes :=
  match s with
  | c :: s' => if is_space_c c then ltrim s' else s
  | [] => []
  end.
Definition trim (s : bytes) : bytes := rev (ltrim (rev (ltrim s))).

Fixpoint take_digits (s : bytes) (acc : Z) (n : Z) : Z * Z * bytes :=
  match s with
  | c :: s' => if is_digit c then take_digits s' (acc * 10 + Z.of_N (c - 48)) (n + 1) else (acc, n, s)
  | [] => (acc, n, [])
  end.

Definition is_hex_c (c : N) : bool :=
  (((48 <=? c) && (c <=? 57)) || ((97 <=? c) && (c <=? 102)) || ((65 <=? c) && (c <=? 70)))%N.

Fixpoint take_hex (s : bytes) (acc : Z) (n : Z) : Z * Z * bytes :=
  match s with
  | c :: s' => if is_hex_c c then take_hex s' (acc * 16 + Z.of_N (unhexdigit c)) (n + 1) else (acc, n, s)
  | [] => (acc, n, [])
  end.

(** unsigned decimal floating literal: digits [. digits] [(e|E) [+-] digits]; whole input *)
Definition parse_decimal (s : bytes) : option (Z * Z) :=
  let '(ip, ni, r1) := take_digits s 0 0 in
  let '(mant, nf, r2) :=
    match r1 with
    | 46%N :: r => let '(m, nf, r') := take_digits r ip 0 in (m, nf, r')
    | _ => (ip, 0, r1)
    end in
  if (ni + nf =? 0) then None
  else match r2 with
       | [] => Some (mant, - nf)
       | c :: r3 =>
         if ((c =? 101) || (c =? 69))%N then
           let '(neg, r4) := match r3 with
                             | 45%N :: r => (true, r)
                             | 43%N :: r => (false, r)
                             | _ => (false, r3)
                             end in
           let '(ex, ne, r5) := take_digits r4 0 0 in
           if (ne =? 0) then None
           else match r5 with
                | [] => Some (mant, (if neg then - ex else ex) - nf)
                | _ => None
                end
         else None
       end.

(** Lua's str2number restricted to the forms on which Lua 5.1 (C strtod) and Luau agree:
    optional blanks, optional sign, decimal literal or 0x hexadecimal integer, blanks.
    Anything else is [None] (a run-time error for arithmetic: the property then allows any
    static result). *)
Definition str2num (s : bytes) : option f64 :=
  let t := trim s in
  let '(neg, u) := match t with
                   | 45%N :: r => (true, r)
                   | 43%N :: r => (false, r)
                   | _ => (false, t)
                   end in
  match u with
  | 48%N :: x :: h =>
    if ((x =? 120) || (x =? 88))%N then
      let '(v, n, r) := take_hex h 0 0 in
      match r with
      | [] => if (n =? 0) then None
              else (* values above 2^64 differ between strtoul-based and strtod-based readers *)
                if v <? 18446744073709551616 then Some (fnorm (if neg then - v else v) 0 neg) else None
      | _ => None
      end
    else match parse_decimal u with
         | Some (d, X) => Some (of_decimal_c neg d X)
         | None => None
         end
  | _ => match parse_decimal u with
         | Some (d, X) => Some (of_decimal_c neg d X)
         | None => None
         end
  end.
