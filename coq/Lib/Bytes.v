(** Bytes and byte strings: [byte := N] (values below 256), strings are [list N].
    Hex transport encoding used by the correspondence check ([unhex]/[tohex]). *)
From Coq Require Export List NArith Bool Lia String Ascii.
Export ListNotations.
Open Scope N_scope.

Definition byte := N.
Definition bytes := list N.

Definition is_byte (b : N) : bool := b <? 256.
Definition wf_bytes (s : bytes) : bool := forallb is_byte s.

Fixpoint bytes_eqb (a b : bytes) : bool :=
  match a, b with
  | [], [] => true
  | x :: a', y :: b' => (x =? y) && bytes_eqb a' b'
  | _, _ => false
  end.

Lemma bytes_eqb_eq a b : bytes_eqb a b = true <-> a = b.
Proof.
  revert b; induction a as [|x a IH]; intros [|y b]; cbn [bytes_eqb]; split; intros H;
    try reflexivity; try discriminate.
  - apply andb_true_iff in H as [H1 H2]. apply N.eqb_eq in H1. apply IH in H2. congruence.
  - inversion H; subst. rewrite N.eqb_refl. apply IH. reflexivity.
Qed.

(** ASCII helpers *)
Definition of_ascii (c : ascii) : N := N_of_ascii c.
Fixpoint of_string (s : string) : bytes :=
  match s with
  | EmptyString => []
  | String c s' => of_ascii c :: of_string s'
  end.
Fixpoint to_string (b : bytes) : string :=
  match b with
  | [] => EmptyString
  | x :: b' => String (ascii_of_N x) (to_string b')
  end.

Definition hexdigit (n : N) : N := if n <? 10 then 48 + n else 87 + n.
Definition unhexdigit (c : N) : N :=
  if (48 <=? c) && (c <=? 57) then c - 48
  else if (97 <=? c) && (c <=? 102) then c - 87
  else if (65 <=? c) && (c <=? 70) then c - 55 else 0.

Fixpoint unhex_b (s : bytes) : bytes :=
  match s with
  | h :: l :: s' => (unhexdigit h * 16 + unhexdigit l) :: unhex_b s'
  | _ => []
  end.
Definition unhex (s : string) : bytes := unhex_b (of_string s).

Fixpoint tohex_b (b : bytes) : bytes :=
  match b with
  | [] => []
  | x :: b' => hexdigit (x / 16) :: hexdigit (x mod 16) :: tohex_b b'
  end.
Definition tohex (b : bytes) : string := to_string (tohex_b b).

(** decimal rendering of a natural number, most significant digit first *)
Fixpoint dec_digits_fuel (fuel : nat) (n : N) (acc : bytes) : bytes :=
  match fuel with
  | O => acc
  | S f => if n <? 10 then (48 + n) :: acc
           else dec_digits_fuel f (n / 10) ((48 + n mod 10) :: acc)
  end.
Definition dec_digits (n : N) : bytes := dec_digits_fuel (S (N.to_nat (N.log2 n))) n [].

Definition is_digit (c : N) : bool := (48 <=? c) && (c <=? 57).

Fixpoint prefix_b (p s : bytes) : bool :=
  match p, s with
  | [], _ => true
  | x :: p', y :: s' => (x =? y) && prefix_b p' s'
  | _ :: _, [] => false
  end.

(** [find_sub p s]: does [p] occur in [s] as a contiguous sub-list *)
Fixpoint find_sub (p s : bytes) : bool :=
  prefix_b p s ||
  match s with
  | [] => false
  | _ :: s' => find_sub p s'
  end.

Fixpoint ends_with_b (s : bytes) (c : N) : bool :=
  match s with
  | [] => false
  | [x] => x =? c
  | _ :: s' => ends_with_b s' c
  end.

Definition count_b (c : N) (s : bytes) : nat := List.length (filter (N.eqb c) s).

(** lexicographic order on byte strings (C locale) *)
Fixpoint bytes_ltb (a b : bytes) : bool :=
  match a, b with
  | [], [] => false
  | [], _ :: _ => true
  | _ :: _, [] => false
  | x :: a', y :: b' => if x <? y then true else if y <? x then false else bytes_ltb a' b'
  end.
Definition bytes_leb (a b : bytes) : bool := negb (bytes_ltb b a).
