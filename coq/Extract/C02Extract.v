(** Extraction of the C02 checker (same terms as in the theorems) for bulk evaluation. *)
From Coq Require Import Extraction ExtrOcamlBasic.
From DL Require Import Lib.Bytes Model.Lexer Model.DenseGen Model.Precedence Model.C02Check Generated.C02Tables.
Extraction Language OCaml.
Definition c02_check := check_case tbl.
Definition c02_diag := diag_bytes tbl.
Definition c02_pcheck := pcheck_case ptbl.
Definition c02_pdiag := pdiag_bytes ptbl.
Extraction "c02_model.ml" ncheck_case ndiag_bytes Build_ncase vcheck_case icheck_case vdiag_bytes Build_vcase scheck_case sdiag_bytes Build_scase c02_check c02_diag c02_pcheck c02_pdiag Build_pcase binops unops EAtom EBin EUn EParen ECast TyName TyField TyFunType TyFunVariadic TyFunPack TyFunGeneric TyUnion TyInter TyOptional TyTypeOf TyTable TyArray TyParen TyString TyBool TyNil Build_tcase Build_item MStr MBreak MRaw MNlRaw MMerge MSpace
  BConcat BVarargs BMinus BEqual BLongString N.of_nat.
