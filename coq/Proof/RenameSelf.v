(** The generator can hand out "self" (Model/Rename.v): it is never in the avoid set, and
    [insert_self] keeps it as it is.  Declaring enough locals inside a method reaches it. *)
From Coq Require Import NArith List Bool Lia ZArith ZifyBool ZifyN ZifyNat.
From DL Require Import Lib.Bytes Model.Rename Proof.RenameStream Proof.RenameInv.
Import ListNotations.
Open Scope N_scope.

Definition self := of_string "self".

Lemma bytes_eqb_false a b : a <> b -> bytes_eqb a b = false.
Proof. intros NE. destruct (bytes_eqb a b) eqn:E; [apply bytes_eqb_eq in E; contradiction | reflexivity]. Qed.

(** [search] finds a good position when there is one in range *)
Lemma search_complete good : forall k p r,
  p <= r < p + 2 ^ N.of_nat k -> good r = true -> exists q, search good k p = Some q.
Proof.
  induction k as [|k IH]; intros p r Hr G; cbn [search].
  - cbn in Hr. assert (r = p) by lia. subst r. rewrite G. eauto.
  - destruct (search good k p) as [q|] eqn:E; [eauto|].
    rewrite Nat2N.inj_succ, N.pow_succ_r' in Hr.
    destruct (r <? p + 2 ^ N.of_nat k) eqn:C.
    + destruct (IH p r ltac:(lia) G) as [q Hq]. congruence.
    + apply (IH _ r); [lia | exact G].
Qed.

Lemma self_passes av : ~ In self av -> filter_identifier av (nth_raw self_index) = true.
Proof.
  intros H. rewrite nth_raw_self. unfold filter_identifier. apply andb_true_iff. split.
  - apply negb_true_iff. now apply mem_false.
  - reflexivity.
Qed.

(** a state in which only fresh names have been drawn, inside a method *)
Definition inside_method (av : list name) (s : state) : Prop :=
  pool s = [] /\ avoid s = av /\ stuck s = false /\
  exists d lost r, stack s = mkFrame d lost :: r /\ dict_get d self = Some (self, false).

Lemma step_insert_inside av s x :
  ~ In self av -> x <> self -> inside_method av s -> pos s <= self_index ->
  exists q, pos s <= q <= self_index /\
            step s (OInsert x) = (add (mkState (stack s) (q + 1) (avoid s) [] (stuck s)) x (nth_raw q) true, Some (nth_raw q)) /\
            inside_method av (fst (step s (OInsert x))).
Proof.
  intros NS NX [P [A [ST [d [lost [r [E G]]]]]]] L.
  assert (R : 2 ^ N.of_nat search_bits > self_index) by (vm_compute; reflexivity).
  destruct (search_complete (fun q => filter_identifier (avoid s) (nth_raw q)) search_bits (pos s) self_index)
    as [q Hq]; [lia | rewrite A; now apply self_passes|].
  pose proof (search_spec _ _ _ _ Hq) as [_ Lq].
  assert (Uq : q <= self_index).
  { destruct (q <=? self_index) eqn:C; [lia|]. exfalso.
    pose proof (search_least _ _ _ _ Hq self_index ltac:(lia)) as K. cbv beta in K.
    rewrite A, self_passes in K by exact NS. discriminate. }
  exists q. split; [lia|].
  assert (S : step s (OInsert x) = (add (mkState (stack s) (q + 1) (avoid s) [] (stuck s)) x (nth_raw q) true, Some (nth_raw q))).
  { cbn [step]. unfold generate. rewrite P, Hq. reflexivity. }
  split; [exact S|]. rewrite S. cbn [fst]. unfold add. cbn [stack pos avoid pool stuck]. rewrite E.
  repeat split; try assumption.
  exists ((x, (nth_raw q, true)) :: dict_remove d x), (f_lost (frame_add (mkFrame d lost) x (nth_raw q) true)), r.
  split; [reflexivity|]. cbn [dict_get].
  rewrite bytes_eqb_false by exact NX. rewrite dict_get_remove_other by (now apply bytes_eqb_false). exact G.
Qed.

Lemma kept_remove_other d x k o :
  dict_get d k = Some (o, false) -> x <> k -> In o (kept (dict_remove d x)).
Proof.
  intros G NE. induction d as [|[k' [o' b']] d IH]; [discriminate|].
  cbn [dict_get] in G. cbn [dict_remove]. destruct (bytes_eqb k' k) eqn:Ek.
  - inversion G; subst o' b'. apply bytes_eqb_eq in Ek. subst k'.
    rewrite (bytes_eqb_false k x) by congruence. unfold kept. cbn [flat_map snd fst]. now left.
  - destruct (bytes_eqb k' x); [now apply IH|]. unfold kept. cbn [flat_map]. apply in_or_app. right. now apply IH.
Qed.

Lemma kept_after_add d x k o n :
  dict_get d k = Some (o, false) -> x <> k -> In o (kept ((x, (n, true)) :: dict_remove d x)).
Proof.
  intros G NE. unfold kept. cbn [flat_map snd fst app]. now apply (kept_remove_other d x k o).
Qed.

Lemma bytes_neq_x : [120] <> self.
Proof. discriminate. Qed.

(** with enough declarations, one of them is renamed to self while the method's self is live *)
Lemma reach_self av : ~ In self av -> forall fuel s,
  inside_method av s -> pos s <= self_index -> (N.to_nat (self_index - pos s) < fuel)%nat ->
  exists n, let s' := fold_left (fun s o => fst (step s o)) (repeat (OInsert [120]) n) s in
            In self (live_gen s') /\ In self (live_kept s').
Proof.
  intros NS. induction fuel as [|fuel IH]; intros s HI L F; [lia|].
  destruct (step_insert_inside av s [120] NS bytes_neq_x HI L) as [q [[Lq Uq] [St HI']]].
  destruct (q =? self_index) eqn:C.
  - apply N.eqb_eq in C. subst q. exists 1%nat. cbn [repeat fold_left]. rewrite St. cbn [fst].
    destruct HI as [_ [_ [_ [d [lost [r [E G]]]]]]].
    unfold live_gen, live_kept, add. cbn [stack]. rewrite E. cbn [flat_map frame_add f_dict].
    rewrite nth_raw_self. split.
    + apply in_or_app. left. unfold reusable. cbn [flat_map snd fst]. now left.
    + apply in_or_app. left. apply (kept_after_add d [120] self self); [exact G | discriminate].
  - destruct (IH (fst (step s (OInsert [120]))) HI') as [n Hn].
    + rewrite St. cbn [fst]. rewrite add_pos. cbn [pos]. lia.
    + rewrite St. cbn [fst]. rewrite add_pos. cbn [pos]. lia.
    + exists (S n). cbn [repeat fold_left]. exact Hn.
Qed.

(** REFUTED: generated names are not always disjoint from kept ones.  For every avoid set without
    "self" (the rule never puts it there) some run has "self" both as a live generated name and as
    the kept name of the method receiver. *)
Theorem generated_disjoint_from_kept_refuted : forall avoid0, ~ In self avoid0 ->
  exists ops, let s := run avoid0 ops in
    incl (keeps ops) avoid0 /\ exists n, In n (live_gen s) /\ In n (live_kept s).
Proof.
  intros avoid0 NS.
  assert (NS' : ~ In self (avoid0 ++ keywords)).
  { intros H. apply in_app_or in H as [H|H]; [contradiction|]. revert H. apply mem_false. reflexivity. }
  destruct (reach_self (avoid0 ++ keywords) NS' (S (N.to_nat self_index))
                       (fold_left (fun s o => fst (step s o)) [OPush; OInsertSelf] (init avoid0))) as [n Hn].
  - cbn. repeat split. exists [(self, (self, false))], [], []. split; reflexivity.
  - cbn. discriminate.
  - cbn [fold_left step fst init add stack pos]. lia.
  - exists ([OPush; OInsertSelf] ++ repeat (OInsert [120]) n). cbv zeta. split.
    + rewrite keeps_app. cbn [keeps app]. clear. induction n; [intros x []|exact IHn].
    + exists self. unfold run. rewrite fold_left_app. exact Hn.
Qed.
