(** C01, LIFTING - closed constant expressions: a small evaluator [cval] for expressions built
    from literals with [not], unary minus on numbers, arithmetic (not [%]) and comparisons on
    numbers, comparisons and [..] on strings, [==] / [~=], [and] / [or] and parentheses, and its
    soundness against the reference interpreter in EVERY store ([cval_sound]): no metatable is
    ever consulted and nothing is allocated, so no store invariant is needed (unlike the static
    evaluator of C08, which also decides expressions whose run depends on the string metatable
    or allocates).  Used as the oracle of the restricted rules in Proof/LiftingRulesConst.v. *)
From Coq Require Import ZArith NArith List Bool String Lia.
From DL Require Import Lib.Bytes Lib.F64 Lua.Syntax Lua.Sem.
From DL Require Import Proof.LoweringFuel.
From DL Require Import Proof.SemFacts Proof.DefaultRulesSem.
From DL Require Import Proof.LiftingRulesExpr.
Import ListNotations.
Open Scope N_scope.

Definition arith_nomod (op : binop) (x y : f64) : option f64 :=
  match op with
  | BMod => None
  | _ => arith_num L51 op x y
  end.

Definition cbin (op : binop) (a b : value) : option value :=
  match op with
  | BEq => match a with VTable _ => None | _ => Some (VBool (raw_equal a b)) end
  | BNeq => match a with VTable _ => None | _ => Some (VBool (negb (raw_equal a b))) end
  | BLt => match a, b with
           | VNum x, VNum y => Some (VBool (fltb x y))
           | VStr x, VStr y => Some (VBool (bytes_ltb x y))
           | _, _ => None
           end
  | BLe => match a, b with
           | VNum x, VNum y => Some (VBool (fleb x y))
           | VStr x, VStr y => Some (VBool (bytes_leb x y))
           | _, _ => None
           end
  | BGt => match a, b with
           | VNum x, VNum y => Some (VBool (fltb y x))
           | VStr x, VStr y => Some (VBool (bytes_ltb y x))
           | _, _ => None
           end
  | BGe => match a, b with
           | VNum x, VNum y => Some (VBool (fleb y x))
           | VStr x, VStr y => Some (VBool (bytes_leb y x))
           | _, _ => None
           end
  | BConcat => match a, b with
               | VStr x, VStr y => Some (VStr (x ++ y))
               | _, _ => None
               end
  | BAnd | BOr => None
  | _ => match a, b with
         | VNum x, VNum y => option_map VNum (arith_nomod op x y)
         | _, _ => None
         end
  end.

Fixpoint cval (e : expr) : option value :=
  match e with
  | ENil => Some VNil
  | ETrue => Some (VBool true)
  | EFalse => Some (VBool false)
  | ENumber x => Some (VNum (number_value x))
  | EString s => Some (VStr s)
  | EParen e' => cval e'
  | EUnary UNot e' => option_map (fun v => VBool (negb (truthy v))) (cval e')
  | EUnary UMinus e' => match cval e' with Some (VNum x) => Some (VNum (fneg x)) | _ => None end
  | EBinary BAnd l r => match cval l with Some a => if truthy a then cval r else Some a | None => None end
  | EBinary BOr l r => match cval l with Some a => if truthy a then Some a else cval r | None => None end
  | EBinary op l r => match cval l, cval r with Some a, Some b => cbin op a b | _, _ => None end
  | _ => None
  end.

Section Sound.
Variable d : dialect.

Lemma arith_nomod_num op x y r : arith_nomod op x y = Some r -> arith_num d op x y = Some r.
Proof. destruct op, d; cbn; intros H; try discriminate H; exact H. Qed.

Lemma eval1_of_eval rho va e v :
  (forall n, refines (eval d n rho va e) (ret [v])) -> forall n, refines (eval1 d n rho va e) (ret v).
Proof.
  intros H [|n]; [apply refines_fuel|]. rewrite eval1_S.
  eapply refines_bind_const; [apply H|apply refines_refl].
Qed.

Lemma equal_S_nontable n a b s : (match a with VTable _ => False | _ => True end) ->
  equal d (S n) a b s = Ok (raw_equal a b) s.
Proof.
  intros Ha. rewrite equal_S. destruct (raw_equal a b) eqn:E; [reflexivity|].
  destruct a; try contradiction; reflexivity.
Qed.

Lemma cbin_sound op a b v : cbin op a b = Some v -> forall n, refines (binop_sem d n op a b) (ret [v]).
Proof.
  intros H n. destruct n as [|n].
  { destruct op; cbn [binop_sem]; intros s Hf; exfalso; apply Hf; reflexivity. }
  destruct op; cbn [cbin] in H; try discriminate H; cbn [binop_sem].
  - (* == *) apply refines_eq. intros s. unfold bind.
    rewrite equal_S_nontable by (destruct a; try exact I; discriminate H).
    destruct a; inversion H; subst; reflexivity.
  - apply refines_eq. intros s. unfold bind.
    rewrite equal_S_nontable by (destruct a; try exact I; discriminate H).
    destruct a; inversion H; subst; reflexivity.
  - rewrite less_S. destruct a, b; inversion H; subst; apply refines_refl.
  - rewrite less_S. destruct a, b; inversion H; subst; apply refines_refl.
  - rewrite less_S. destruct a, b; inversion H; subst; apply refines_refl.
  - rewrite less_S. destruct a, b; inversion H; subst; apply refines_refl.
  - rewrite arith_S. destruct a, b; try discriminate H. cbn [tonum].
    destruct (arith_nomod BAdd x x0) eqn:E; inversion H; subst. rewrite (arith_nomod_num _ _ _ _ E). apply refines_refl.
  - rewrite arith_S. destruct a, b; try discriminate H. cbn [tonum].
    destruct (arith_nomod BSub x x0) eqn:E; inversion H; subst. rewrite (arith_nomod_num _ _ _ _ E). apply refines_refl.
  - rewrite arith_S. destruct a, b; try discriminate H. cbn [tonum].
    destruct (arith_nomod BMul x x0) eqn:E; inversion H; subst. rewrite (arith_nomod_num _ _ _ _ E). apply refines_refl.
  - rewrite arith_S. destruct a, b; try discriminate H. cbn [tonum].
    destruct (arith_nomod BDiv x x0) eqn:E; inversion H; subst. rewrite (arith_nomod_num _ _ _ _ E). apply refines_refl.
  - rewrite arith_S. destruct a, b; try discriminate H. cbn [tonum].
    destruct (arith_nomod BIDiv x x0) eqn:E; inversion H; subst. rewrite (arith_nomod_num _ _ _ _ E). apply refines_refl.
  - destruct a, b; discriminate H.
  - rewrite arith_S. destruct a, b; try discriminate H. cbn [tonum].
    destruct (arith_nomod BPow x x0) eqn:E; inversion H; subst. rewrite (arith_nomod_num _ _ _ _ E). apply refines_refl.
  - rewrite concat_S. destruct a, b; inversion H; subst. apply refines_refl.
Qed.

Lemma bind_const1 {B} rho va e v n (f : value -> M B) (g : M B) :
  (forall k, refines (eval d k rho va e) (ret [v])) -> refines (f v) g ->
  refines (bind (eval1 d n rho va e) f) g.
Proof. intros H Hf. eapply refines_bind_const; [apply eval1_of_eval; exact H|exact Hf]. Qed.

Theorem cval_sound rho va e : forall v, cval e = Some v ->
  forall n, refines (eval d n rho va e) (ret [v]).
Proof.
  induction e; intros v H; try discriminate H; cbn [cval] in H.
  - inversion H; subst. intros [|n]; [apply refines_fuel|]. apply refines_refl.
  - inversion H; subst. intros [|n]; [apply refines_fuel|]. apply refines_refl.
  - inversion H; subst. intros [|n]; [apply refines_fuel|]. apply refines_refl.
  - inversion H; subst. intros [|k]; [apply refines_fuel|]. apply refines_refl.
  - inversion H; subst. intros [|k]; [apply refines_fuel|]. apply refines_refl.
  - (* paren *) intros [|n]; [apply refines_fuel|]. rewrite eval_S_paren.
    apply (bind_const1 rho va e v); [exact (IHe v H)|apply refines_refl].
  - (* unary *) destruct op; try discriminate H.
    + destruct (cval e) as [w|] eqn:E; [|discriminate H]. cbn in H. inversion H; subst.
      intros [|n]; [apply refines_fuel|]. rewrite eval_S_unary.
      apply (bind_const1 rho va e w); [exact (IHe w eq_refl)|apply refines_refl].
    + destruct (cval e) as [[| |x| | | | |]|] eqn:E; try discriminate H. inversion H; subst.
      intros [|n]; [apply refines_fuel|]. rewrite eval_S_unary.
      apply (bind_const1 rho va e (VNum x)); [exact (IHe _ eq_refl)|apply refines_refl].
  - (* binary *)
    assert (Hgen : forall a b, cval e1 = Some a -> cval e2 = Some b -> SemFacts.is_andor op = false ->
                   cbin op a b = Some v -> forall n, refines (eval d n rho va (EBinary op e1 e2)) (ret [v])).
    { intros a b Ea Eb Ho Hc [|n]; [apply refines_fuel|]. rewrite eval_S_binop by exact Ho.
      apply (bind_const1 rho va e1 a); [exact (IHe1 a Ea)|].
      apply (bind_const1 rho va e2 b); [exact (IHe2 b Eb)|]. now apply cbin_sound. }
    destruct op;
      try (destruct (cval e1) as [a|] eqn:Ea; [|discriminate H];
           destruct (cval e2) as [b|] eqn:Eb; [|discriminate H];
           exact (Hgen a b eq_refl eq_refl eq_refl H)).
    + destruct (cval e1) as [a|] eqn:Ea; [|discriminate H].
      intros [|n]; [apply refines_fuel|]. rewrite eval_S_and.
      apply (bind_const1 rho va e1 a); [exact (IHe1 a eq_refl)|].
      destruct (truthy a); [|inversion H; subst; apply refines_refl].
      apply (bind_const1 rho va e2 v); [exact (IHe2 v H)|apply refines_refl].
    + destruct (cval e1) as [a|] eqn:Ea; [|discriminate H].
      intros [|n]; [apply refines_fuel|]. rewrite eval_S_or.
      apply (bind_const1 rho va e1 a); [exact (IHe1 a eq_refl)|].
      destruct (truthy a); [inversion H; subst; apply refines_refl|].
      apply (bind_const1 rho va e2 v); [exact (IHe2 v H)|apply refines_refl].
Qed.

Corollary cval_sound1 rho va e v : cval e = Some v -> forall n, refines (eval1 d n rho va e) (ret v).
Proof. intros H. apply eval1_of_eval. now apply cval_sound. Qed.

End Sound.
