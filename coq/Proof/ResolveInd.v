(** A mutual induction principle for the MiniLua syntax (Lua/Syntax.v), whose nested lists and
    options Coq's generated schemes ignore: list children come with [Forall P], optional
    children with [OptP P]. *)
From Coq Require Import NArith List Bool.
From DL Require Import Lib.Bytes Lua.Syntax.
Import ListNotations.

Definition OptP {A} (P : A -> Prop) (o : option A) : Prop :=
  match o with Some a => P a | None => True end.

Definition list_forall {A} (P : A -> Prop) (f : forall a, P a) : forall l, Forall P l :=
  fix go (l : list A) : Forall P l :=
    match l with
    | [] => Forall_nil P
    | x :: r => Forall_cons x (f x) (go r)
    end.

Definition opt_forall {A} (P : A -> Prop) (f : forall a, P a) (o : option A) : OptP P o :=
  match o with Some a => f a | None => I end.

Section Scheme.
Variable Pty : ty -> Prop.
Variable Pexpr : expr -> Prop.
Variable Piseg : iseg -> Prop.
Variable Pebranch : ebranch -> Prop.
Variable Pargs : args -> Prop.
Variable Ptentry : tentry -> Prop.
Variable Pfbody : fbody -> Prop.
Variable Pparam : param -> Prop.
Variable Pstmt : stmt -> Prop.
Variable Psbranch : sbranch -> Prop.
Variable Pblock : block -> Prop.
Variable Plast : laststmt -> Prop.

Hypothesis H_TyNode : forall k subs es, Forall Pty subs -> Forall Pexpr es -> Pty (TyNode k subs es).

Hypothesis H_ENil : Pexpr ENil.
Hypothesis H_ETrue : Pexpr ETrue.
Hypothesis H_EFalse : Pexpr EFalse.
Hypothesis H_ENumber : forall n, Pexpr (ENumber n).
Hypothesis H_EString : forall s, Pexpr (EString s).
Hypothesis H_EInterp : forall segs, Forall Piseg segs -> Pexpr (EInterp segs).
Hypothesis H_EVarArgs : Pexpr EVarArgs.
Hypothesis H_EIdent : forall x, Pexpr (EIdent x).
Hypothesis H_EField : forall p f, Pexpr p -> Pexpr (EField p f).
Hypothesis H_EIndex : forall p k, Pexpr p -> Pexpr k -> Pexpr (EIndex p k).
Hypothesis H_ECall : forall p m a, Pexpr p -> Pargs a -> Pexpr (ECall p m a).
Hypothesis H_EFunction : forall f, Pfbody f -> Pexpr (EFunction f).
Hypothesis H_EIf : forall bs els, Forall Pebranch bs -> Pexpr els -> Pexpr (EIf bs els).
Hypothesis H_EParen : forall e, Pexpr e -> Pexpr (EParen e).
Hypothesis H_ETable : forall entries, Forall Ptentry entries -> Pexpr (ETable entries).
Hypothesis H_EUnary : forall op e, Pexpr e -> Pexpr (EUnary op e).
Hypothesis H_EBinary : forall op l r, Pexpr l -> Pexpr r -> Pexpr (EBinary op l r).
Hypothesis H_ETypeCast : forall e t, Pexpr e -> Pty t -> Pexpr (ETypeCast e t).
Hypothesis H_ETypeInst : forall p tys, Pexpr p -> Forall Pty tys -> Pexpr (ETypeInst p tys).

Hypothesis H_ISStr : forall s, Piseg (ISStr s).
Hypothesis H_ISExpr : forall e, Pexpr e -> Piseg (ISExpr e).

Hypothesis H_EBranch : forall c r, Pexpr c -> Pexpr r -> Pebranch (EBranch c r).

Hypothesis H_ATuple : forall es, Forall Pexpr es -> Pargs (ATuple es).
Hypothesis H_AString : forall s, Pargs (AString s).
Hypothesis H_ATable : forall entries, Forall Ptentry entries -> Pargs (ATable entries).

Hypothesis H_TField : forall f v, Pexpr v -> Ptentry (TField f v).
Hypothesis H_TIndex : forall k v, Pexpr k -> Pexpr v -> Ptentry (TIndex k v).
Hypothesis H_TValue : forall v, Pexpr v -> Ptentry (TValue v).

Hypothesis H_FBody : forall ps va vt rt gen attrs body,
  Forall Pparam ps -> OptP Pty vt -> OptP Pty rt -> OptP Pty gen -> Pblock body ->
  Pfbody (FBody ps va vt rt gen attrs body).

Hypothesis H_Param : forall x t, OptP Pty t -> Pparam (Param x t).

Hypothesis H_SAssign : forall vars vals, Forall Pexpr vars -> Forall Pexpr vals -> Pstmt (SAssign vars vals).
Hypothesis H_SDo : forall b, Pblock b -> Pstmt (SDo b).
Hypothesis H_SCall : forall c, Pexpr c -> Pstmt (SCall c).
Hypothesis H_SCompound : forall op var v, Pexpr var -> Pexpr v -> Pstmt (SCompound op var v).
Hypothesis H_SFunction : forall base fields method f, Pfbody f -> Pstmt (SFunction base fields method f).
Hypothesis H_SGenericFor : forall vars es b,
  Forall Pparam vars -> Forall Pexpr es -> Pblock b -> Pstmt (SGenericFor vars es b).
Hypothesis H_SIf : forall bs els, Forall Psbranch bs -> OptP Pblock els -> Pstmt (SIf bs els).
Hypothesis H_SLocal : forall c vars vals, Forall Pparam vars -> Forall Pexpr vals -> Pstmt (SLocal c vars vals).
Hypothesis H_SLocalFunction : forall x f, Pfbody f -> Pstmt (SLocalFunction x f).
Hypothesis H_SNumericFor : forall var a b step body,
  Pparam var -> Pexpr a -> Pexpr b -> OptP Pexpr step -> Pblock body -> Pstmt (SNumericFor var a b step body).
Hypothesis H_SRepeat : forall b c, Pblock b -> Pexpr c -> Pstmt (SRepeat b c).
Hypothesis H_SWhile : forall c b, Pexpr c -> Pblock b -> Pstmt (SWhile c b).
Hypothesis H_STypeDecl : forall ex x gen t, OptP Pty gen -> Pty t -> Pstmt (STypeDecl ex x gen t).
Hypothesis H_STypeFunction : forall ex x f, Pfbody f -> Pstmt (STypeFunction ex x f).

Hypothesis H_SBranch : forall c b, Pexpr c -> Pblock b -> Psbranch (SBranch c b).

Hypothesis H_Block : forall ss last, Forall Pstmt ss -> OptP Plast last -> Pblock (Block ss last).

Hypothesis H_LBreak : Plast LBreak.
Hypothesis H_LContinue : Plast LContinue.
Hypothesis H_LReturn : forall es, Forall Pexpr es -> Plast (LReturn es).

Fixpoint ind_ty (t : ty) : Pty t :=
  match t with
  | TyNode k subs es => H_TyNode k subs es (list_forall Pty ind_ty subs) (list_forall Pexpr ind_expr es)
  end

with ind_expr (e : expr) : Pexpr e :=
  match e with
  | ENil => H_ENil
  | ETrue => H_ETrue
  | EFalse => H_EFalse
  | ENumber n => H_ENumber n
  | EString s => H_EString s
  | EInterp segs => H_EInterp segs (list_forall Piseg ind_iseg segs)
  | EVarArgs => H_EVarArgs
  | EIdent x => H_EIdent x
  | EField p f => H_EField p f (ind_expr p)
  | EIndex p k => H_EIndex p k (ind_expr p) (ind_expr k)
  | ECall p m a => H_ECall p m a (ind_expr p) (ind_args a)
  | EFunction f => H_EFunction f (ind_fbody f)
  | EIf bs els => H_EIf bs els (list_forall Pebranch ind_ebranch bs) (ind_expr els)
  | EParen e' => H_EParen e' (ind_expr e')
  | ETable entries => H_ETable entries (list_forall Ptentry ind_tentry entries)
  | EUnary op e' => H_EUnary op e' (ind_expr e')
  | EBinary op l r => H_EBinary op l r (ind_expr l) (ind_expr r)
  | ETypeCast e' t => H_ETypeCast e' t (ind_expr e') (ind_ty t)
  | ETypeInst p tys => H_ETypeInst p tys (ind_expr p) (list_forall Pty ind_ty tys)
  end

with ind_iseg (s : iseg) : Piseg s :=
  match s with
  | ISStr s' => H_ISStr s'
  | ISExpr e => H_ISExpr e (ind_expr e)
  end

with ind_ebranch (b : ebranch) : Pebranch b :=
  match b with EBranch c r => H_EBranch c r (ind_expr c) (ind_expr r) end

with ind_args (a : args) : Pargs a :=
  match a with
  | ATuple es => H_ATuple es (list_forall Pexpr ind_expr es)
  | AString s => H_AString s
  | ATable entries => H_ATable entries (list_forall Ptentry ind_tentry entries)
  end

with ind_tentry (t : tentry) : Ptentry t :=
  match t with
  | TField f v => H_TField f v (ind_expr v)
  | TIndex k v => H_TIndex k v (ind_expr k) (ind_expr v)
  | TValue v => H_TValue v (ind_expr v)
  end

with ind_fbody (f : fbody) : Pfbody f :=
  match f with
  | FBody ps va vt rt gen attrs body =>
    H_FBody ps va vt rt gen attrs body (list_forall Pparam ind_param ps)
            (opt_forall Pty ind_ty vt) (opt_forall Pty ind_ty rt) (opt_forall Pty ind_ty gen) (ind_block body)
  end

with ind_param (p : param) : Pparam p :=
  match p with Param x t => H_Param x t (opt_forall Pty ind_ty t) end

with ind_stmt (s : stmt) : Pstmt s :=
  match s with
  | SAssign vars vals => H_SAssign vars vals (list_forall Pexpr ind_expr vars) (list_forall Pexpr ind_expr vals)
  | SDo b => H_SDo b (ind_block b)
  | SCall c => H_SCall c (ind_expr c)
  | SCompound op var v => H_SCompound op var v (ind_expr var) (ind_expr v)
  | SFunction base fields method f => H_SFunction base fields method f (ind_fbody f)
  | SGenericFor vars es b =>
    H_SGenericFor vars es b (list_forall Pparam ind_param vars) (list_forall Pexpr ind_expr es) (ind_block b)
  | SIf bs els => H_SIf bs els (list_forall Psbranch ind_sbranch bs) (opt_forall Pblock ind_block els)
  | SLocal c vars vals => H_SLocal c vars vals (list_forall Pparam ind_param vars) (list_forall Pexpr ind_expr vals)
  | SLocalFunction x f => H_SLocalFunction x f (ind_fbody f)
  | SNumericFor var a b step body =>
    H_SNumericFor var a b step body (ind_param var) (ind_expr a) (ind_expr b) (opt_forall Pexpr ind_expr step)
                  (ind_block body)
  | SRepeat b c => H_SRepeat b c (ind_block b) (ind_expr c)
  | SWhile c b => H_SWhile c b (ind_expr c) (ind_block b)
  | STypeDecl ex x gen t => H_STypeDecl ex x gen t (opt_forall Pty ind_ty gen) (ind_ty t)
  | STypeFunction ex x f => H_STypeFunction ex x f (ind_fbody f)
  end

with ind_sbranch (b : sbranch) : Psbranch b :=
  match b with SBranch c body => H_SBranch c body (ind_expr c) (ind_block body) end

with ind_block (b : block) : Pblock b :=
  match b with
  | Block ss last => H_Block ss last (list_forall Pstmt ind_stmt ss) (opt_forall Plast ind_last last)
  end

with ind_last (l : laststmt) : Plast l :=
  match l with
  | LBreak => H_LBreak
  | LContinue => H_LContinue
  | LReturn es => H_LReturn es (list_forall Pexpr ind_expr es)
  end.
End Scheme.
