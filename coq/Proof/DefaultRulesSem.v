(** One-step unfolding equations of the statement-level functions of the reference
    interpreter ([exec_stmt], [exec_stmts], [exec_block], [exec_while], [eval_list],
    [eval_args], calls), in the style of [Proof/SemFacts.v], and a few inversion helpers. *)
From Coq Require Import ZArith NArith List Bool String Lia.
From DL Require Import Lib.Bytes Lib.F64 Lua.Syntax Lua.Sem Proof.SemFacts.
Import ListNotations.
Open Scope N_scope.

(** results of a bind, for every outcome *)
Lemma bind_eq {A B} (m : M A) (f g : A -> M B) s :
  (forall a s1, m s = Ok a s1 -> f a s1 = g a s1) -> bind m f s = bind m g s.
Proof. intros H. unfold bind. destruct (m s); auto. Qed.

Lemma bind_cong_l {A B} (m1 m2 : M A) (f : A -> M B) s : m1 s = m2 s -> bind m1 f s = bind m2 f s.
Proof. intros H. unfold bind. rewrite H. reflexivity. Qed.

Lemma bind_fuel_l {A B} (m : M A) (f : A -> M B) s : m s = Fuel -> bind m f s = Fuel.
Proof. intros H. unfold bind. rewrite H. reflexivity. Qed.

Lemma bind_ret_l {A B} (a : A) (f : A -> M B) s : bind (ret a) f s = f a s.
Proof. reflexivity. Qed.

Lemma bind_bind_ret {A B C} (a : A) (f : A -> B) (k : B -> M C) s :
  bind (bind (ret a) (fun x => ret (f x))) k s = k (f a) s.
Proof. reflexivity. Qed.

Section Unfold.
Variable d : dialect.

Lemma exec_block_0 rho va b s : exec_block d 0 rho va b s = Fuel. Proof. reflexivity. Qed.
Lemma exec_stmts_0 rho va ss last s : exec_stmts d 0 rho va ss last s = Fuel. Proof. reflexivity. Qed.
Lemma exec_stmt_0 rho va st s : exec_stmt d 0 rho va st s = Fuel. Proof. reflexivity. Qed.
Lemma eval_list_0 rho va es s : eval_list d 0 rho va es s = Fuel. Proof. reflexivity. Qed.
Lemma eval_args_0 rho va a s : eval_args d 0 rho va a s = Fuel. Proof. reflexivity. Qed.

Lemma exec_block_S n rho va ss last :
  exec_block d (S n) rho va (Block ss last) = exec_stmts d n rho va ss last.
Proof. reflexivity. Qed.

Lemma exec_stmts_S_nil n rho va last :
  exec_stmts d (S n) rho va [] last =
  match last with
  | None => ret SigNone
  | Some LBreak => ret SigBreak
  | Some LContinue => ret SigContinue
  | Some (LReturn es) => vs <- eval_list d n rho va es ;; ret (SigReturn vs)
  end.
Proof. reflexivity. Qed.

Definition stmts_cont (n : nat) (va : list value) (rest : list stmt) (last : option laststmt)
           (x : env * signal) : M signal :=
  let '(rho', sg) := x in
  match sg with
  | SigNone => exec_stmts d n rho' va rest last
  | _ => ret sg
  end.

Lemma exec_stmts_S_cons n rho va st rest last :
  exec_stmts d (S n) rho va (st :: rest) last =
  bind (exec_stmt d n rho va st) (stmts_cont n va rest last).
Proof. reflexivity. Qed.

Lemma exec_stmt_S_do n rho va b :
  exec_stmt d (S n) rho va (SDo b) = (sg <- exec_block d n rho va b ;; ret (rho, sg)).
Proof. reflexivity. Qed.

Lemma exec_stmt_S_call n rho va c :
  exec_stmt d (S n) rho va (SCall c) = (_ <- eval d n rho va c ;; ret (rho, SigNone)).
Proof. reflexivity. Qed.

Definition sif_go (n : nat) (rho : env) (va : list value) (els : option block) :=
  fix go (bs : list sbranch) : M signal :=
    match bs with
    | [] => match els with
            | Some b => exec_block d n rho va b
            | None => ret SigNone
            end
    | SBranch c b :: rest =>
      cv <- eval1 d n rho va c ;;
      if truthy cv then exec_block d n rho va b else go rest
    end.

Lemma exec_stmt_S_if n rho va bs els :
  exec_stmt d (S n) rho va (SIf bs els) = (sg <- sif_go n rho va els bs ;; ret (rho, sg)).
Proof. reflexivity. Qed.
Lemma sif_go_nil n rho va els :
  sif_go n rho va els [] = match els with Some b => exec_block d n rho va b | None => ret SigNone end.
Proof. reflexivity. Qed.
Lemma sif_go_cons n rho va els c b rest :
  sif_go n rho va els (SBranch c b :: rest) =
  (cv <- eval1 d n rho va c ;; if truthy cv then exec_block d n rho va b else sif_go n rho va els rest).
Proof. reflexivity. Qed.

Lemma exec_stmt_S_while n rho va c b :
  exec_stmt d (S n) rho va (SWhile c b) = (sg <- exec_while d n rho va c b ;; ret (rho, sg)).
Proof. reflexivity. Qed.

Lemma exec_while_0 rho va c b s : exec_while d 0 rho va c b s = Fuel. Proof. reflexivity. Qed.
Lemma exec_while_S n rho va c b :
  exec_while d (S n) rho va c b =
  (cv <- eval1 d n rho va c ;;
   if truthy cv then
     sg <- exec_block d n rho va b ;;
     match sg with
     | SigBreak => ret SigNone
     | SigReturn vs => ret sg
     | _ => exec_while d n rho va c b
     end
   else ret SigNone).
Proof. reflexivity. Qed.

Definition local_go :=
  fix go (ps : list param) (vs : list value) (acc : env) : M env :=
    match ps with
    | [] => ret acc
    | p :: rest => a <- new_cell (arg vs 0) ;; go rest (tl vs) ((param_name p, a) :: acc)
    end.

Lemma exec_stmt_S_local n rho va k vars vals :
  exec_stmt d (S n) rho va (SLocal k vars vals) =
  (vs <- eval_list d n rho va vals ;; rho' <- local_go vars vs rho ;; ret (rho', SigNone)).
Proof. reflexivity. Qed.

(** function statements: everything after the closure has been allocated *)
Definition path_go (n : nat) :=
  fix go (o : value) (ks : list name) : M value :=
    match ks with
    | [] | [_] => ret o
    | k :: rest => o' <- index d n o (VStr k) ;; go o' rest
    end.

Definition sfunction_store (n : nat) (rho : env) (va : list value) (base : name) (path : list name)
           (c : N) : M (env * signal) :=
  match path with
  | [] =>
    t <- eval_target d n rho va (EIdent base) ;;
    _ <- assign_target d n rho t (VClosure c) ;; ret (rho, SigNone)
  | _ =>
    o <- eval1 d n rho va (EIdent base) ;;
    o <- path_go n o path ;;
    _ <- setindex d n o (VStr (last path [])) (VClosure c) ;;
    ret (rho, SigNone)
  end.

Lemma exec_stmt_S_function n rho va base fields method f :
  exec_stmt d (S n) rho va (SFunction base fields method f) =
  (c <- new_closure (mkClosure f rho (match method with Some _ => true | None => false end)) ;;
   sfunction_store n rho va base (fields ++ (match method with Some m => [m] | None => [] end)) c).
Proof. reflexivity. Qed.

(** calling a closure: only the effective parameter list, the variadic flag, the body and the
    captured environment of the closure record matter *)
Definition effective_params (c : closure) : list param :=
  match c_body c with
  | FBody ps _ _ _ _ _ _ => if c_self c then Param (of_string "self") None :: ps else ps
  end.
Definition closure_variadic (c : closure) : bool :=
  match c_body c with FBody _ v _ _ _ _ _ => v end.
Definition closure_block (c : closure) : block :=
  match c_body c with FBody _ _ _ _ _ _ b => b end.

Definition call_closure (n : nat) (ps : list param) (variadic : bool) (body : block) (cenv : env)
           (args : list value) : M (list value) :=
  rho <- bind_params ps args ;;
  let va := if variadic then skipn (List.length ps) args else [] in
  sg <- exec_block d n (rev rho ++ cenv) va body ;;
  match sg with
  | SigReturn vs => ret vs
  | _ => ret []
  end.

Lemma call_S_closure n a args s :
  call d (S n) (VClosure a) args s =
  (c <- get_closure a ;;
   call_closure n (effective_params c) (closure_variadic c) (closure_block c) (c_env c) args) s.
Proof.
  change (call d (S n) (VClosure a) args s) with
    ((c <- get_closure a ;;
      match c_body c with
      | FBody ps variadic _ _ _ _ body =>
        let ps := if c_self c then Param (of_string "self") None :: ps else ps in
        rho <- bind_params ps args ;;
        let va := if variadic then skipn (List.length ps) args else [] in
        sg <- exec_block d n (rev rho ++ c_env c) va body ;;
        match sg with
        | SigReturn vs => ret vs
        | _ => ret []
        end
      end) s).
  apply bind_eq. intros c s1 _.
  unfold call_closure, effective_params, closure_variadic, closure_block.
  destruct (c_body c). reflexivity.
Qed.

(** expression lists and arguments *)
Lemma eval_list_S_nil n rho va : eval_list d (S n) rho va [] = ret []. Proof. reflexivity. Qed.
Lemma eval_list_S_one n rho va e : eval_list d (S n) rho va [e] = eval d n rho va e. Proof. reflexivity. Qed.
Lemma eval_list_S_cons n rho va e e2 rest :
  eval_list d (S n) rho va (e :: e2 :: rest) =
  (v <- eval1 d n rho va e ;; vs <- eval_list d n rho va (e2 :: rest) ;; ret (v :: vs)).
Proof. reflexivity. Qed.

Lemma eval_args_S_tuple n rho va es : eval_args d (S n) rho va (ATuple es) = eval_list d n rho va es.
Proof. reflexivity. Qed.
Lemma eval_args_S_string n rho va x : eval_args d (S n) rho va (AString x) = ret [VStr x].
Proof. reflexivity. Qed.
Lemma eval_args_S_table n rho va ens :
  eval_args d (S n) rho va (ATable ens) =
  (t <- new_table (mkTable [] None) ;; _ <- fill_table d n rho va t ens 1 ;; ret [VTable t]).
Proof. reflexivity. Qed.

Lemma eval_S_call n rho va p m a :
  eval d (S n) rho va (ECall p m a) =
  (o <- eval1 d n rho va p ;;
   match m with
   | None => args <- eval_args d n rho va a ;; call d n o args
   | Some mname =>
     f <- index d n o (VStr mname) ;;
     args <- eval_args d n rho va a ;;
     call d n f (o :: args)
   end).
Proof. reflexivity. Qed.

End Unfold.

