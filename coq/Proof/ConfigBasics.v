(** C19 — basic lemmas about Model/Config.v: association lists, sorting, property values. *)
From Coq Require Import List Bool String Ascii ZArith NArith Lia Permutation.
From DL Require Import Model.Config.
Import ListNotations.
Open Scope string_scope.

(** * association lists *)

Lemma has_key_true_iff {A} (k : string) (l : list (string * A)) :
  has_key k l = true <-> In k (map fst l).
Proof.
  unfold has_key. induction l as [|[k' v] l IH]; cbn [lookup map fst In].
  - split; [discriminate|tauto].
  - destruct (String.eqb k k') eqn:E.
    + apply String.eqb_eq in E. subst. split; auto.
    + apply String.eqb_neq in E. rewrite IH. split; [auto|]. intros [H|H]; [congruence|exact H].
Qed.

Lemma has_key_false_iff {A} (k : string) (l : list (string * A)) :
  has_key k l = false <-> ~ In k (map fst l).
Proof.
  rewrite <- has_key_true_iff. destruct (has_key k l); split; intros; congruence.
Qed.

Lemma has_key_perm {A} (k : string) (l l' : list (string * A)) :
  Permutation l l' -> has_key k l = has_key k l'.
Proof.
  intros P. destruct (has_key k l') eqn:E.
  - apply has_key_true_iff. apply has_key_true_iff in E.
    eapply Permutation_in; [apply Permutation_sym, Permutation_map, P|exact E].
  - apply has_key_false_iff. apply has_key_false_iff in E. intros H. apply E.
    eapply Permutation_in; [apply Permutation_map, P|exact H].
Qed.

Lemma lookup_in {A} (k : string) (l : list (string * A)) v : lookup k l = Some v -> In (k, v) l.
Proof.
  induction l as [|[k' v'] l IH]; cbn [lookup]; [discriminate|].
  destruct (String.eqb k k') eqn:E.
  - apply String.eqb_eq in E. subst. intros [= ->]. left. reflexivity.
  - intros H. right. apply IH. exact H.
Qed.

Lemma in_lookup_nodup {A} (k : string) (l : list (string * A)) v :
  NoDup (map fst l) -> In (k, v) l -> lookup k l = Some v.
Proof.
  induction l as [|[k' v'] l IH]; cbn [lookup map fst]; intros ND Hin; [destruct Hin|].
  inversion ND as [|? ? Hnot ND']; subst. destruct Hin as [Heq|Hin].
  - inversion Heq; subst. rewrite String.eqb_refl. reflexivity.
  - destruct (String.eqb k k') eqn:E.
    + apply String.eqb_eq in E. subst. exfalso. apply Hnot. apply in_map_iff. exists (k', v). split; [reflexivity|exact Hin].
    + apply IH; assumption.
Qed.

(** * the serializer's sort is a permutation *)

Lemma insert_by_key_perm {A} (kv : string * A) l : Permutation (insert_by_key kv l) (kv :: l).
Proof.
  induction l as [|kv' l IH]; cbn [insert_by_key]; [reflexivity|].
  destruct (String.leb (fst kv) (fst kv')); [reflexivity|].
  rewrite IH. apply perm_swap.
Qed.

Lemma sort_by_key_perm {A} (l : list (string * A)) : Permutation (sort_by_key l) l.
Proof.
  induction l as [|kv l IH]; cbn [sort_by_key]; [reflexivity|].
  rewrite insert_by_key_perm. constructor. exact IH.
Qed.

Lemma sort_by_key_nil {A} (l : list (string * A)) : sort_by_key l = [] -> l = [].
Proof.
  intros H. pose proof (sort_by_key_perm l) as P. rewrite H in P. apply Permutation_nil in P. exact P.
Qed.

(** * strings lists as JSON *)

Lemma as_strings_map_JStr (l : list string) : as_strings (map JStr l) = Some l.
Proof. induction l as [|s l IH]; cbn [map as_strings]; [reflexivity|]. rewrite IH. reflexivity. Qed.

Lemma mem_true_iff s l : mem s l = true <-> In s l.
Proof.
  unfold mem. rewrite existsb_exists. split.
  - intros [x [Hin E]]. apply String.eqb_eq in E. subst. exact Hin.
  - intros Hin. exists s. split; [exact Hin|apply String.eqb_refl].
Qed.

(** * filter monotonicity *)
Lemma filter_length_le {A} (f g : A -> bool) (l : list A) :
  (forall x, f x = true -> g x = true) -> List.length (filter f l) <= List.length (filter g l).
Proof.
  intros H. induction l as [|x l IH]; cbn [filter]; [lia|].
  destruct (f x) eqn:Ef.
  - rewrite (H x Ef). cbn [List.length]. lia.
  - destruct (g x); cbn [List.length]; lia.
Qed.

Lemma filter_ext_in_length {A} (f g : A -> bool) (l : list A) :
  (forall x, f x = g x) -> filter f l = filter g l.
Proof. intros H. apply filter_ext. exact H. Qed.

Lemma filter_all_true {A} (f : A -> bool) (l : list A) : (forall x, In x l -> f x = true) -> filter f l = l.
Proof.
  induction l as [|x l IH]; intros H; cbn [filter]; [reflexivity|].
  rewrite (H x (or_introl eq_refl)). f_equal. apply IH. intros y Hy. apply H. right. exact Hy.
Qed.
