(** Capstone over every node the writer model covers: whenever [write_number_model] produces a
    text for a well-formed node, that text keeps the node's value ([value_kept], the per-run
    oracle of [Model/NumberValue.v]). *)
From Coq Require Import ZArith NArith List Bool Lia Zpower.
From Coq Require Import Floats.SpecFloat.
From DL Require Import Lib.Bytes Lib.F64 Lua.Syntax Model.NumberLit Model.NumberWrite Model.NumberValue.
From DL Require Import Proof.EvaluatorF64 Proof.SerializerF64 Proof.NumberWrite Proof.NumberWriteValue.
Import ListNotations.

Local Open Scope Z_scope.

(** * a canonical binary64 holding an integer below 2^53 is the small representation of it *)

Lemma repr_nonneg m e : bounded prec emax m e = true -> 0 <= e ->
  Z.pos m * 2 ^ e < 9007199254740992 -> e = 0 /\ small_repr m = (m, 0).
Proof.
  intros Hb He Hv. apply bounded_spec in Hb as [Hc _].
  pose proof (digits_bounds m) as [Hlo _]. set (dg := Z.pos (digits2_pos m)) in *.
  assert (0 < dg) by (unfold dg; lia).
  assert (Hd : dg - 1 + e < 53).
  { apply pow2_lt_inv; try lia. rewrite Z.pow_add_r by lia.
    change (2 ^ 53) with 9007199254740992.
    pose proof (Z.mul_le_mono_nonneg_r _ _ (2 ^ e) ltac:(apply Z.pow_nonneg; lia) Hlo). lia. }
  assert (e = 0) by lia. assert (dg = 53) by lia. split; [assumption|].
  unfold small_repr. fold dg. replace (53 - dg) with 0 by lia. reflexivity.
Qed.

Lemma repr_neg m k : bounded prec emax m (Z.neg k) = true ->
  Z.pos m mod 2 ^ Z.pos k = 0 ->
  exists p, Z.pos m / 2 ^ Z.pos k = Z.pos p /\ Z.pos p < 9007199254740992 /\
            small_repr p = (m, Z.neg k).
Proof.
  intros Hb Hmod.
  assert (Hpk : 0 < 2 ^ Z.pos k) by (apply Z.pow_pos_nonneg; lia).
  pose proof (Z.div_mod (Z.pos m) (2 ^ Z.pos k) ltac:(lia)) as Hdm. rewrite Hmod, Z.add_0_r in Hdm.
  destruct (Z.pos m / 2 ^ Z.pos k) as [|p|p] eqn:Eq; try lia.
  assert (Hm : m = shift_pos k p).
  { apply Pos2Z.inj. rewrite shift_pos_correct. change (Zpower_pos 2 k) with (2 ^ Z.pos k).
    exact Hdm. }
  subst m. apply bounded_spec in Hb as [Hc _]. rewrite digits2_shift, Pos2Z.inj_add in Hc.
    pose proof (digits_bounds p) as [_ Hhi]. set (dg := Z.pos (digits2_pos p)) in *.
    assert (0 < dg) by (unfold dg; lia).
    exists p. split; [reflexivity|]. split.
  - assert (2 ^ dg <= 2 ^ 53) by (apply Z.pow_le_mono_r; lia).
      change (2 ^ 53) with 9007199254740992 in *. lia.
  - unfold small_repr. fold dg. replace (53 - dg) with (Z.pos k) by lia. reflexivity.
Qed.

Local Open Scope N_scope.

Lemma small_int_value_kept (s : bool) p m e bits :
  of_bits bits = S754_finite s m e -> (Z.pos p < 9007199254740992)%Z -> small_repr p = (m, e) ->
  value_kept (NDec bits None) (write_dec_int s (N.pos p)) = true.
Proof.
  intros Hx Hp Hsr. unfold value_kept. rewrite text_value_dec_int. cbn [lit_value].
  rewrite sg_of_N_pos by assumption. rewrite Hsr. cbn [fst snd]. rewrite <- Hx.
  rewrite of_to_bits by apply valid_of_bits. apply same_f64_refl.
Qed.

Definition number_wf (n : number) : Prop :=
  match n with
  | NHex v _ e => v < 2 ^ 64 /\ (forall ex up, e = Some (ex, up) -> ex < 2 ^ 32)
  | NBin v _ => v < 2 ^ 64
  | NDec bits _ => bits < 2 ^ 64
  end.

Theorem write_number_model_value_kept : forall n t, number_wf n ->
  write_number_model n = Some t -> value_kept n t = true.
Proof.
  intros n t Hwf Hw. destruct n as [bits ex|v u e|v u].
  - destruct (of_bits bits) as [s|s| |s m e] eqn:Hx.
    + unfold write_number_model in Hw. rewrite Hx in Hw. destruct ex; [discriminate|].
      injection Hw as <-. unfold value_kept. rewrite text_value_dec_int. cbn [lit_value].
      rewrite Hx. destruct s; reflexivity.
    + eapply write_nonfinite_value_kept; [right; exists s; exact Hx|exact Hw].
    + eapply write_nonfinite_value_kept; [left; exact Hx|exact Hw].
    + pose proof (valid_of_bits bits) as Hb. rewrite Hx in Hb. unfold valid in Hb.
      cbn [valid_binary] in Hb.
      unfold write_number_model in Hw. rewrite Hx in Hw. destruct ex; [discriminate|].
      cbv beta iota zeta in Hw.
      destruct (Z.leb_spec 0 e) as [He|He].
      * destruct (Z.ltb_spec (Z.pos m * 2 ^ e) 9007199254740992) as [Hv|Hv]; [|discriminate].
        injection Hw as <-.
        destruct (repr_nonneg m e Hb He Hv) as [-> Hsr].
        rewrite Z.pow_0_r, Z.mul_1_r in *. cbn [Z.to_N]. rewrite ?Pos.mul_1_r.
        apply (small_int_value_kept s m m 0%Z bits Hx Hv Hsr).
      * destruct e as [|k|k]; try lia. change (- Z.neg k)%Z with (Z.pos k) in Hw.
        destruct (Z.eqb_spec (Z.pos m mod 2 ^ Z.pos k) 0) as [Hmod|Hmod]; [|discriminate].
        injection Hw as <-.
        destruct (repr_neg m k Hb Hmod) as [p [Hq [Hp Hsr]]]. change (Z.pow_pos 2 k) with (2 ^ Z.pos k)%Z. rewrite Hq. cbn [Z.to_N].
        apply (small_int_value_kept s p m (Z.neg k) bits Hx Hp Hsr).
  - cbn [write_number_model] in Hw. injection Hw as <-. destruct Hwf as [Hv He].
    apply write_hex_value_kept; assumption.
  - cbn [write_number_model] in Hw. injection Hw as <-. apply write_bin_value_kept. exact Hwf.
Qed.

Print Assumptions write_number_model_value_kept.
