(** C19 — the theorems of Proof/ConfigFacts.v and Proof/ConfigTop.v for darklua's own rule tables
    (Model/ConfigRules.v), the refutation of the unrestricted round trip, and examples. *)
From Coq Require Import List Bool String Ascii ZArith NArith Permutation.
From DL Require Import Model.Config Model.ConfigRules Proof.ConfigBasics Proof.ConfigFacts Proof.ConfigTop.
Import ListNotations.
Open Scope string_scope.

(** the decidable conditions on the tables *)
Lemma rule_specs_ok : specs_ok rule_specs = true.
Proof. vm_compute. reflexivity. Qed.

Lemma default_rules_ok : defaults_ok rule_specs default_rule_names = true.
Proof. vm_compute. reflexivity. Qed.

(** the properties that a rule accepts but its `serialize_to_properties` never writes *)
Definition dropped_properties (specs : list rule_spec) : list (string * string) :=
  flat_map (fun s => map (fun p => (s_name s, p_name p)) (filter (fun p => negb (p_ser p)) (s_props s))) specs.

Lemma dropped_properties_today :
  dropped_properties rule_specs =
  [("convert_require", "current"); ("convert_require", "target")].
Proof. vm_compute. reflexivity. Qed.

(** decidable carve-out: the configured rule keeps no property that its serializer drops *)
Definition writes_all (specs : list rule_spec) (r : rule_cfg) : bool :=
  forallb (fun kv => negb (existsb (fun d => String.eqb (fst d) (r_name r) && String.eqb (snd d) (fst kv))
                                   (dropped_properties specs))) (r_props r).

(** assumptions on the oracles, as one proposition *)
Definition oracles_ok (valid_ident : string -> bool) (norm_globals : list string -> list string)
           (norm_reqmode : json -> option json) : Prop :=
  (forall j j', norm_reqmode j = Some j' -> norm_reqmode j' = Some j') /\
  (forall j j', norm_reqmode j = Some j' -> exists l, j' = JObj l) /\
  (forall l, norm_globals (norm_globals l) = norm_globals l) /\
  (forall l, forallb (globals_item_ok valid_ident) l = true -> forallb (globals_item_ok valid_ident) (norm_globals l) = true).

Definition bundle_ok (norm_bundle : json -> option json) : Prop :=
  forall j j', norm_bundle j = Some j' -> norm_bundle j' = Some j' /\ j' <> JNull.

Section Instances.

Variable valid_glob valid_regex valid_ident : string -> bool.
Variable norm_globals : list string -> list string.
Variable norm_reqmode : json -> option json.
Variable env_json_ok : string -> bool.
Variable norm_bundle : json -> option json.

Notation de_rule := (deserialize_rule valid_glob valid_regex valid_ident norm_globals norm_reqmode env_json_ok rule_specs).
Notation se_rule := (serialize_rule rule_specs).
Notation de_config := (deserialize_config valid_glob valid_regex valid_ident norm_globals norm_reqmode env_json_ok
                                          norm_bundle rule_specs default_rule_names).
Notation se_config := (serialize_config rule_specs).

(** a rule read from a configuration only has properties of its table: dropped ones are recognisable by name *)
Lemma writes_all_complete j r : de_rule j = Some r -> writes_all rule_specs r = true -> ser_complete rule_specs r.
Proof.
  intros Hd Hw s Hs kv Hin.
  (* every kept property is a declared property of s ... *)
  assert (Known : exists p, find_prop s (fst kv) = Some p).
  { pose proof (deserialize_rule_inv valid_glob valid_regex valid_ident norm_globals norm_reqmode env_json_ok rule_specs) as Inv.
    (* rule_inv needs the oracle hypotheses only for well-formedness facts we do not use here; go through configure directly *)
    clear Inv.
    destruct j as [| | |name| |kvs]; cbn [deserialize_rule] in Hd; try discriminate.
    - destruct (find_spec rule_specs name) as [s'|] eqn:Hs'; [|discriminate].
      destruct (configure valid_regex valid_ident norm_globals env_json_ok s' []) as [ps|] eqn:Hc; [|discriminate].
      inversion Hd; subst. cbn [r_props] in Hin. unfold configure in Hc.
      destruct (_ && _ && _); [|discriminate]. cbn in Hc. inversion Hc; subst. destruct Hin.
    - destruct (scan valid_glob norm_reqmode kvs scan_start) as [st|]; [|discriminate].
      destruct (sc_rule st) as [name|]; [|discriminate].
      destruct (find_spec rule_specs name) as [s'|] eqn:Hs'; [|discriminate].
      destruct (configure valid_regex valid_ident norm_globals env_json_ok s' (sc_props st)) as [ps|] eqn:Hc; [|discriminate].
      inversion Hd; subst. cbn [r_name r_props] in *. rewrite Hs' in Hs. inversion Hs; subst s'.
      unfold configure in Hc. destruct (_ && _ && _); [|discriminate].
      clear -Hc Hin. revert ps Hc Hin. generalize (sc_props st) as ps0.
      induction ps0 as [|[k v] ps0 IH]; cbn [configure_props]; intros ps Hc Hin.
      + inversion Hc; subst. destruct Hin.
      + destruct (find_prop s k) as [p|] eqn:Hf; [|discriminate].
        destruct (accepts_kind _ _ _ _ _); [|discriminate].
        destruct (configure_props _ _ _ _ s ps0) as [out|] eqn:Ho; [|discriminate].
        destruct (is_default _ _); inversion Hc; subst.
        * eapply IH; [reflexivity|exact Hin].
        * destruct Hin as [<-|Hin]; [exists p; exact Hf|eapply IH; [reflexivity|exact Hin]]. }
  destruct Known as [p Hf]. exists p. split; [exact Hf|].
  (* ... and it is not in the list of dropped ones *)
  unfold writes_all in Hw. rewrite forallb_forall in Hw. specialize (Hw kv Hin). apply negb_true_iff in Hw.
  destruct (p_ser p) eqn:Hp; [reflexivity|]. exfalso.
  assert (Hex : existsb (fun d => String.eqb (fst d) (r_name r) && String.eqb (snd d) (fst kv)) (dropped_properties rule_specs) = true).
  { apply existsb_exists. exists (s_name s, p_name p). split.
    - unfold dropped_properties. apply in_flat_map. exists s. split.
      + unfold find_spec in Hs. apply find_some in Hs. tauto.
      + apply in_map_iff. exists p. split; [reflexivity|]. apply filter_In. split.
        * unfold find_prop in Hf. apply find_some in Hf. tauto.
        * rewrite Hp. reflexivity.
    - cbn [fst snd]. unfold find_spec in Hs. apply find_some in Hs. destruct Hs as [_ Hs].
      unfold find_prop in Hf. apply find_some in Hf. destruct Hf as [_ Hf].
      apply String.eqb_eq in Hs. apply String.eqb_eq in Hf. rewrite <- Hs, <- Hf, !String.eqb_refl. reflexivity. }
  congruence.
Qed.

Hypothesis H_oracles : oracles_ok valid_ident norm_globals norm_reqmode.
Hypothesis H_bundle : bundle_ok norm_bundle.

Theorem rule_roundtrip_darklua j r :
  de_rule j = Some r -> writes_all rule_specs r = true ->
  exists r', de_rule (se_rule r) = Some r' /\ rule_equiv r r'.
Proof.
  destruct H_oracles as [H1 [H2 [H3 H4]]]. intros Hd Hw.
  eapply rule_roundtrip; eauto using rule_specs_ok. eapply writes_all_complete; eassumption.
Qed.

Theorem rule_injective_darklua j1 j2 r1 r2 :
  de_rule j1 = Some r1 -> de_rule j2 = Some r2 ->
  writes_all rule_specs r1 = true -> writes_all rule_specs r2 = true ->
  se_rule r1 = se_rule r2 -> rule_equiv r1 r2.
Proof.
  destruct H_oracles as [H1 [H2 [H3 H4]]]. intros Hd1 Hd2 Hw1 Hw2 E.
  eapply (rule_injective valid_glob valid_regex valid_ident norm_globals norm_reqmode env_json_ok rule_specs); eauto using rule_specs_ok;
    eapply writes_all_complete; eassumption.
Qed.

Lemma config_rules_from_json : forall l rs,
  map_opt de_rule l = Some rs -> Forall (fun r => exists j, de_rule j = Some r) rs.
Proof.
  induction l as [|j l IH]; cbn [map_opt]; intros rs H.
  - inversion H; subst. constructor.
  - destruct (de_rule j) as [r|] eqn:Hr; [|discriminate]. destruct (map_opt de_rule l) as [rs'|]; [|discriminate].
    inversion H; subst. constructor; [exists j; exact Hr|apply IH; reflexivity].
Qed.

Lemma config_rules_readable j c : de_config j = Some c -> Forall (fun r => exists j, de_rule j = Some r) (c_rules c).
Proof.
  destruct j as [| | | | |kvs]; cbn [deserialize_config]; try discriminate.
  destruct (fields_ok kvs []); [|discriminate].
  destruct (field "rules" kvs) as [[| | | |l|]|] eqn:Ef; try discriminate.
  - destruct (map_opt de_rule l) as [rs|] eqn:Er; [|discriminate].
    destruct (match field "generator" kvs with None => _ | Some g => _ end); [|discriminate].
    destruct (match field "bundle" kvs with None => _ | Some b => _ end); [|discriminate].
    destruct (match field "apply_to_files" kvs with None => _ | Some b => _ end); [|discriminate].
    destruct (match field "skip_files" kvs with None => _ | Some b => _ end); [|discriminate].
    intros [= <-]. cbn [c_rules]. eapply config_rules_from_json; exact Er.
  - destruct (match field "generator" kvs with None => _ | Some g => _ end); [|discriminate].
    destruct (match field "bundle" kvs with None => _ | Some b => _ end); [|discriminate].
    destruct (match field "apply_to_files" kvs with None => _ | Some b => _ end); [|discriminate].
    destruct (match field "skip_files" kvs with None => _ | Some b => _ end); [|discriminate].
    intros [= <-]. cbn [c_rules]. apply Forall_forall. intros r Hin.
    assert (G : Forall (fun r => de_rule (JStr (r_name r)) = Some r) (default_rule_cfgs default_rule_names))
      by (repeat constructor).
    rewrite Forall_forall in G. exists (JStr (r_name r)). apply G. exact Hin.
Qed.

Lemma config_writes_all_complete j c :
  de_config j = Some c -> forallb (writes_all rule_specs) (c_rules c) = true -> Forall (ser_complete rule_specs) (c_rules c).
Proof.
  intros Hd Hw. pose proof (config_rules_readable j c Hd) as HR. rewrite forallb_forall in Hw.
  rewrite Forall_forall in *. intros r Hin. destruct (HR r Hin) as [jr Hjr].
  eapply writes_all_complete; [exact Hjr|apply Hw; exact Hin].
Qed.

Theorem config_roundtrip_darklua j c :
  de_config j = Some c -> forallb (writes_all rule_specs) (c_rules c) = true ->
  exists c', de_config (se_config c) = Some c' /\ config_equiv c c'.
Proof.
  destruct H_oracles as [H1 [H2 [H3 H4]]]. intros Hd Hw.
  eapply config_roundtrip; eauto using rule_specs_ok, default_rules_ok. eapply config_writes_all_complete; eassumption.
Qed.

Theorem config_injective_darklua j1 j2 c1 c2 :
  de_config j1 = Some c1 -> de_config j2 = Some c2 ->
  forallb (writes_all rule_specs) (c_rules c1) = true -> forallb (writes_all rule_specs) (c_rules c2) = true ->
  se_config c1 = se_config c2 -> config_equiv c1 c2.
Proof.
  destruct H_oracles as [H1 [H2 [H3 H4]]]. intros Hd1 Hd2 Hw1 Hw2 E.
  eapply (config_injective valid_glob valid_regex valid_ident norm_globals norm_reqmode env_json_ok norm_bundle
            rule_specs default_rule_names); eauto using rule_specs_ok, default_rules_ok;
    eapply config_writes_all_complete; eassumption.
Qed.

End Instances.

(** * the unrestricted statements are false for the code as it is *)

(** witness 1: an accepted rule whose written form is rejected when read back *)
Definition w_convert_require : json :=
  JObj [("rule", JStr "convert_require"); ("current", JStr "path"); ("target", JStr "roblox")].

Lemma roundtrip_refuted_unreadable :
  forall valid_glob valid_regex valid_ident norm_globals norm_reqmode env_json_ok,
  exists r, deserialize_rule valid_glob valid_regex valid_ident norm_globals norm_reqmode env_json_ok rule_specs
              w_convert_require = Some r /\
            serialize_rule rule_specs r = JStr "convert_require" /\
            deserialize_rule valid_glob valid_regex valid_ident norm_globals norm_reqmode env_json_ok rule_specs
              (serialize_rule rule_specs r) = None.
Proof. intros. eexists. split; [reflexivity|]. split; reflexivity. Qed.

(** witness 2: two accepted rules that differ and are written identically *)
Definition w_convert_require_luau : json :=
  JObj [("rule", JStr "convert_require"); ("current", JStr "path"); ("target", JStr "luau")].

Lemma injective_refuted :
  forall valid_glob valid_regex valid_ident norm_globals norm_reqmode env_json_ok,
  exists r1 r2, deserialize_rule valid_glob valid_regex valid_ident norm_globals norm_reqmode env_json_ok rule_specs
                  w_convert_require = Some r1 /\
                deserialize_rule valid_glob valid_regex valid_ident norm_globals norm_reqmode env_json_ok rule_specs
                  w_convert_require_luau = Some r2 /\
                serialize_rule rule_specs r1 = serialize_rule rule_specs r2 /\ ~ rule_equiv r1 r2.
Proof.
  intros. eexists. eexists. split; [reflexivity|]. split; [reflexivity|]. split; [reflexivity|].
  intros [_ [P _]]. cbn in P.
  assert (Hin : In ("target", PStr "roblox") [("current", PStr "path"); ("target", PStr "luau")]).
  { eapply Permutation_in; [exact P|]. right. left. reflexivity. }
  cbn in Hin. destruct Hin as [H|[H|[]]]; discriminate.
Qed.

(** the patterns of remove_comments / remove_attribute are written since darklua 1875b55: order and
    duplicates are kept, an empty list is the same as no list *)
Definition w_remove_comments : json :=
  JObj [("rule", JStr "remove_comments"); ("except", JArr [JStr "^ keep"; JStr "b|a"; JStr "^ keep"])].

Example ex_patterns_roundtrip :
  forall valid_glob valid_regex valid_ident norm_globals norm_reqmode env_json_ok,
  valid_regex "^ keep" = true -> valid_regex "b|a" = true ->
  exists r, deserialize_rule valid_glob valid_regex valid_ident norm_globals norm_reqmode env_json_ok rule_specs
              w_remove_comments = Some r /\
            writes_all rule_specs r = true /\ serialize_rule rule_specs r = w_remove_comments /\
            deserialize_rule valid_glob valid_regex valid_ident norm_globals norm_reqmode env_json_ok rule_specs
              (JObj [("rule", JStr "remove_attribute"); ("match", JArr [])]) =
            Some (RuleCfg "remove_attribute" [] [] []).
Proof.
  intros ? valid_regex ? ? ? ? H1 H2. eexists.
  split; [cbn; rewrite H1, H2; reflexivity|]. split; [reflexivity|]. split; reflexivity.
Qed.

(** witness 4 (strictness): the `retain_lines` generator object is accepted with keys nobody reads *)
Lemma generator_extra_key_accepted :
  deserialize_generator (JObj [("name", JStr "retain_lines"); ("column_span", JStr "not even a number"); ("foo", JNull)])
  = Some GRetainLines.
Proof. reflexivity. Qed.

(** * the hypotheses of the positive theorems are satisfiable by non-trivial inputs *)

Definition ex_true (_ : string) := true.
Definition ex_id (l : list string) := l.
Definition ex_none (_ : json) : option json := None.

Example ex_oracles_ok : oracles_ok ex_true ex_id ex_none /\ bundle_ok ex_none.
Proof.
  split; [|intros j j' H; discriminate]. repeat split; try (intros; discriminate); auto.
Qed.

Definition ex_rule : json :=
  JObj [("skip_files", JArr [JStr "a/**"; JStr "b.lua"]); ("value", JObj [("k", JArr [JNum (NInt 1); JNull])]);
        ("rule", JStr "inject_global_value"); ("identifier", JStr "FLAG"); ("apply_to_files", JStr "**/*.lua")].

Example ex_rule_roundtrip :
  exists r, deserialize_rule ex_true ex_true ex_true ex_id ex_none ex_true rule_specs ex_rule = Some r /\
            writes_all rule_specs r = true /\
            serialize_rule rule_specs r =
              JObj [("rule", JStr "inject_global_value"); ("apply_to_files", JStr "**/*.lua");
                    ("skip_files", JArr [JStr "a/**"; JStr "b.lua"]); ("identifier", JStr "FLAG");
                    ("value", JObj [("k", JArr [JNum (NInt 1); JNull])])].
Proof. eexists. split; [reflexivity|]. split; reflexivity. Qed.

Definition ex_config : json :=
  JObj [("generator", JObj [("column_span", JNum (NInt 120)); ("name", JStr "dense")]);
        ("process", JArr [JStr "remove_spaces";
                          JObj [("rule", JStr "rename_variables"); ("include_functions", JBool true); ("detect_globals", JBool true)];
                          ex_rule]);
        ("skip_files", JStr "vendor/**")].

Example ex_config_roundtrip :
  exists c, deserialize_config ex_true ex_true ex_true ex_id ex_none ex_true ex_none rule_specs default_rule_names ex_config = Some c /\
            forallb (writes_all rule_specs) (c_rules c) = true /\ List.length (c_rules c) = 3%nat /\
            c_generator c = GDense 120 /\ c_skip c = ["vendor/**"].
Proof. eexists. split; [reflexivity|]. repeat split; reflexivity. Qed.

(* strictness: a rule object that is rejected only because of one unknown key *)
Example ex_strict_rejects :
  deserialize_rule ex_true ex_true ex_true ex_id ex_none ex_true rule_specs
    (JObj [("rule", JStr "remove_spaces"); ("prop", JStr "something")]) = None /\
  deserialize_rule ex_true ex_true ex_true ex_id ex_none ex_true rule_specs
    (JObj [("rule", JStr "remove_spaces")]) <> None.
Proof. split; [reflexivity|discriminate]. Qed.
