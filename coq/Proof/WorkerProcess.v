(** [WorkerTree::process] preserves the invariant, finishes every item in one pass of the
    work loop and leaves no queued removal. *)
From Coq Require Import Arith PeanoNat Lia.
From DL Require Import Lib.Bytes Model.WorkerFs Model.Worker Proof.WorkerBasics Proof.WorkerInv
     Proof.WorkerStep.
Open Scope N_scope.

Lemma get_slot_map_reset s j :
  get_slot (map (option_map item_reset) s) j = option_map item_reset (get_slot s j).
Proof.
  unfold get_slot. change (@None item) with (option_map item_reset None) at 1. apply map_nth.
Qed.

Lemma count_pending_zero s :
  count_pending s = 0%nat -> forall j it, get_slot s j = Some it -> is_done (i_st it) = true.
Proof.
  unfold count_pending, get_slot. induction s as [|[x|] s IH]; intros H j it Hj.
  - destruct j; discriminate.
  - cbn [filter] in H. destruct (is_done (i_st x)) eqn:Ed; cbn [negb] in H; [|cbn in H; lia].
    destruct j; cbn in Hj; [inversion Hj; subst; exact Ed|]. eapply IH; eassumption.
  - cbn [filter] in H. destruct j; cbn in Hj; [discriminate|]. eapply IH; eassumption.
Qed.

(** whether some occupied slot has the given output path is decidable *)
Lemma classic_item_out (s : list (option item)) (p : path) :
  (exists i it, get_slot s i = Some it /\ i_out it = p) \/
  (forall k it, nth k s None = Some it -> i_out it <> p).
Proof.
  unfold get_slot. induction s as [|o s IH].
  - right. intros k it Hk. destruct k; discriminate.
  - destruct IH as [[i [it [Hi Ho]]]|Hno].
    + left. exists (S i), it. auto.
    + destruct o as [x|].
      * destruct (path_eq_dec (i_out x) p) as [Heq|Hne].
        -- left. exists 0%nat, x. auto.
        -- right. intros k it Hk. destruct k; cbn in Hk; [inversion Hk; subst; exact Hne|eapply Hno; exact Hk].
      * right. intros k it Hk. destruct k; cbn in Hk; [discriminate|eapply Hno; exact Hk].
Qed.

Section Process.
  Variable cfg : Type.
  Variable hash : cfg -> N.
  Variable xform : cfg -> path -> content -> fs -> option content * list path.
  Variable inp outp : path.

  Hypothesis io_disjoint1 : starts_with inp outp = false.
  Hypothesis io_disjoint2 : starts_with outp inp = false.
  Hypothesis hash_faithful : forall c1 c2, hash c1 = hash c2 ->
                                           forall q t f, xform c1 q t f = xform c2 q t f.
  Hypothesis xform_frame : forall c q t f f',
      fst (xform c q t f) <> None ->
      (forall d, In d (snd (xform c q t f)) -> fs_get f' d = fs_get f d) ->
      xform c q t f' = xform c q t f.
  Hypothesis deps_exist : forall c q t f d,
      fst (xform c q t f) <> None -> In d (snd (xform c q t f)) -> fs_get f d <> None.
  Hypothesis deps_outside : forall c q t f d,
      fst (xform c q t f) <> None -> In d (snd (xform c q t f)) -> starts_with outp d = false.

  Notation out_of := (out_of inp outp).
  Notation is_source := (is_source inp).

  Variable f0 : fs.
  Variable E : list path.
  Hypothesis E_nonest : forall a b, In a E -> In b E -> starts_with a b = true -> a = b.
  (** nothing foreign sits at or under the output path of a source *)
  Hypothesis E_foreign : forall q p, In q E -> is_source q = true -> fs_get f0 p <> None ->
                                     starts_with (out_of q) p = false.

  Notation wf := (wf inp outp E).
  Notation inv := (inv cfg hash xform inp outp f0 E).
  Notation good := (good cfg xform).

  (** the invariant only looks at these fields *)
  Lemma wf_same_fields t t' :
    slots t' = slots t -> ext t' = ext t -> free t' = free t -> rmf t' = rmf t ->
    wf t -> wf t'.
  Proof.
    intros H1 H2 H3 H4 [W1 W2 W3 W4 W5 W6 W7 W8 W9].
    constructor; rewrite ?H1, ?H2, ?H3, ?H4; assumption.
  Qed.

  (** ** configuration comparison *)

  Lemma wf_reset t : wf t -> wf (reset t).
  Proof.
    intros W. unfold reset.
    assert (Hg : forall j, get_slot (map (option_map item_reset) (slots t)) j =
                           option_map item_reset (get_slot (slots t) j)) by apply get_slot_map_reset.
    constructor; cbn [slots ext free rmf set_ext set_slots].
    - intros i j a b Ha Hb Hs. rewrite Hg in Ha, Hb.
      destruct (get_slot (slots t) i) as [x|] eqn:Ei; [|discriminate].
      destruct (get_slot (slots t) j) as [y|] eqn:Ej; [|discriminate].
      cbn in Ha, Hb. inversion Ha; inversion Hb; subst. cbn in Hs. eapply (wf_nodup _ _ _ _ W); eassumption.
    - intros p i [].
    - intros i Hi. apply (wf_free _ _ _ _ W) in Hi as [H1 H2]. rewrite Hg, H1, map_length. auto.
    - apply (wf_free_nodup _ _ _ _ W).
    - intros i it Hi. rewrite Hg in Hi. destruct (get_slot (slots t) i) as [x|] eqn:Ei; [|discriminate].
      cbn in Hi. inversion Hi; subst. cbn. eapply (wf_item _ _ _ _ W); eassumption.
    - intros i it Hi _. rewrite Hg in Hi. destruct (get_slot (slots t) i) as [x|]; [|discriminate].
      cbn in Hi. inversion Hi; subst. reflexivity.
    - intros i it dep Hi Hd. rewrite Hg in Hi. destruct (get_slot (slots t) i) as [x|]; [|discriminate].
      cbn in Hi. inversion Hi; subst. cbn in Hd. contradiction.
    - apply (wf_rmf _ _ _ _ W).
    - intros i it Hi Hd. rewrite Hg in Hi. destruct (get_slot (slots t) i) as [x|]; [|discriminate].
      cbn in Hi. inversion Hi; subst. discriminate.
  Qed.

  Lemma good_same_xform c c' f it :
    (forall q t g, xform c q t g = xform c' q t g) -> good c f it -> good c' f it.
  Proof. intros H [txt [o [H1 [H2 [H3 H4]]]]]. exists txt, o. rewrite <- H. auto. Qed.

  Lemma inv_after_hash c0 d u w :
    inv c0 d u w ->
    let c := w_cfg w in
    let t := w_tree w in
    let t1 := set_hash (if cfg_changed t (hash c) then reset t else t) (Some (hash c)) in
    inv c d u (mkWorld (w_fs w) c t1).
  Proof.
    intros I c t t1. pose proof (inv_wf _ _ _ _ _ _ _ _ _ _ _ I) as W. fold t in W.
    destruct (cfg_changed t (hash c)) eqn:Ec; subst t1.
    - (* reset: every item is NotStarted *)
      assert (Hg : forall j, get_slot (slots (reset t)) j = option_map item_reset (get_slot (slots t) j))
        by (intros j; apply get_slot_map_reset).
      constructor; cbn [w_tree w_fs set_hash slots ext free rmf last_hash].
      + eapply wf_same_fields; [| | | |apply wf_reset; exact W]; reflexivity.
      + reflexivity.
      + intros i it Hi Hd. change (slots (reset t)) with (slots (reset t)) in Hi. rewrite Hg in Hi.
        destruct (get_slot (slots t) i); [|discriminate]. cbn in Hi. inversion Hi; subst. discriminate.
      + intros i it Hi Hc. rewrite Hg in Hi. destruct (get_slot (slots t) i) as [x|] eqn:Ei; [|discriminate].
        cbn in Hi. inversion Hi; subst. cbn. eapply (inv_exists _ _ _ _ _ _ _ _ _ _ _ I); eassumption.
      + intros q Hq Hex Hn. pose proof (inv_hasitem _ _ _ _ _ _ _ _ _ _ _ I q Hq Hex Hn) as Hnode.
        apply node_of_ne_none in Hnode as [i [it [Hi Hs]]]. fold t in Hi.
        eapply node_of_exists with (i := i); [cbn [slots set_hash]; rewrite Hg, Hi; reflexivity|exact Hs].
      + intros p Hp. destruct (inv_out _ _ _ _ _ _ _ _ _ _ _ I p Hp) as [[i [it [Hi Ho]]]|[Hr|Hf]].
        * left. exists i, (item_reset it). fold t in Hi. rewrite Hg, Hi. auto.
        * right. left. exact Hr.
        * right. right. exact Hf.
      + apply (inv_user _ _ _ _ _ _ _ _ _ _ _ I).
      + apply (inv_ufs_E _ _ _ _ _ _ _ _ _ _ _ I).
      + apply (inv_ufs_out _ _ _ _ _ _ _ _ _ _ _ I).
      + intros i it Hi. rewrite Hg in Hi. destruct (get_slot (slots t) i); [|discriminate].
        cbn in Hi. inversion Hi; subst. discriminate.
    - (* same hash (or first pass): the finished items are those of an equivalent configuration *)
      assert (Hx : forall i it, get_slot (slots t) i = Some it -> is_done (i_st it) = true ->
                                forall q tx g, xform c0 q tx g = xform c q tx g).
      { intros i it Hi Hd. apply hash_faithful.
        pose proof (inv_hash _ _ _ _ _ _ _ _ _ _ _ I _ _ Hi Hd) as Hh. fold t in Hh.
        unfold cfg_changed in Ec. rewrite Hh in Ec. apply negb_false_iff, N.eqb_eq in Ec. exact Ec. }
      constructor; cbn [w_tree w_fs set_hash slots ext free rmf last_hash].
      + eapply wf_same_fields; [| | | |exact W]; reflexivity.
      + reflexivity.
      + intros i it Hi Hd Hc. eapply good_same_xform; [eapply Hx; eassumption|].
        eapply (inv_good _ _ _ _ _ _ _ _ _ _ _ I); eassumption.
      + apply (inv_exists _ _ _ _ _ _ _ _ _ _ _ I).
      + apply (inv_hasitem _ _ _ _ _ _ _ _ _ _ _ I).
      + apply (inv_out _ _ _ _ _ _ _ _ _ _ _ I).
      + apply (inv_user _ _ _ _ _ _ _ _ _ _ _ I).
      + apply (inv_ufs_E _ _ _ _ _ _ _ _ _ _ _ I).
      + apply (inv_ufs_out _ _ _ _ _ _ _ _ _ _ _ I).
      + apply (inv_noerr _ _ _ _ _ _ _ _ _ _ _ I).
  Qed.

  (** ** clean_files *)

  Definition leaf (f : fs) (p : path) : Prop :=
    forall r, fs_get f r <> None -> starts_with p r = true -> r = p.

  Lemma fold_remove_spec l : forall f,
    (forall p, In p l -> leaf f p) ->
    forall q, fs_get (fold_left fs_remove l f) q = if mem_path q l then None else fs_get f q.
  Proof.
    induction l as [|p l IH]; intros f Hl q; cbn [fold_left mem_path]; [reflexivity|].
    assert (Hp : leaf f p) by (apply Hl; left; reflexivity).
    rewrite IH.
    - rewrite (fs_get_remove_leaf f p q Hp). rewrite (path_eqb_sym q p).
      destruct (path_eqb p q); cbn [orb]; [destruct (mem_path q l); reflexivity|reflexivity].
    - intros p' Hp' r Hr Hsw. apply (Hl p'); [right; exact Hp'| |exact Hsw].
      rewrite (fs_get_remove_leaf f p r Hp) in Hr. destruct (path_eqb p r); [congruence|exact Hr].
  Qed.

  Lemma rmf_leaf c0 d u w p :
    inv c0 d u w -> In p (rmf (w_tree w)) -> leaf (w_fs w) p.
  Proof.
    intros I Hp r Hr Hsw. pose proof (inv_wf _ _ _ _ _ _ _ _ _ _ _ I) as W.
    destruct (wf_rmf _ _ _ _ W p Hp) as [q [HqE [Hqs ->]]].
    assert (Hro : starts_with outp r = true).
    { eapply starts_with_trans; [|exact Hsw]. apply rebase_starts. }
    assert (Hsrc : forall q', In q' E -> is_source q' = true -> r = out_of q' -> r = out_of q).
    { intros q' HE' Hs' ->. f_equal. symmetry. apply E_nonest; [exact HqE|exact HE'|].
      unfold Worker.is_source in Hqs, Hs'. apply andb_true_iff in Hqs as [Hqs _]. apply andb_true_iff in Hs' as [Hs' _].
      eapply rebase_prefix; eassumption. }
    destruct (inv_out _ _ _ _ _ _ _ _ _ _ _ I r Hro) as [[i [it [Hi Ho]]]|[Hrm|Hf]].
    - destruct (wf_item _ _ _ _ W _ _ Hi) as [Hout [Hs HE']]. eapply Hsrc; [exact HE'|exact Hs|congruence].
    - destruct (wf_rmf _ _ _ _ W r Hrm) as [q' [HE' [Hs' ->]]]. eapply Hsrc; [exact HE'|exact Hs'|reflexivity].
    - exfalso. rewrite Hf in Hr. pose proof (E_foreign q r HqE Hqs Hr) as Hc. congruence.
  Qed.

  Lemma inv_after_clean c d u w :
    inv c d u w ->
    let t2 := fst (clean_files (w_tree w) (w_fs w)) in
    let f2 := snd (clean_files (w_tree w) (w_fs w)) in
    inv c d u (mkWorld f2 (w_cfg w) t2) /\ rmf t2 = [] /\ slots t2 = slots (w_tree w) /\
    last_hash t2 = last_hash (w_tree w) /\ ext t2 = ext (w_tree w) /\
    (forall p, starts_with outp p = false -> fs_get f2 p = fs_get (w_fs w) p).
  Proof.
    intros I. pose proof (inv_wf _ _ _ _ _ _ _ _ _ _ _ I) as W. set (t := w_tree w) in *. set (f := w_fs w) in *.
    cbn [clean_files fst snd]. cbv zeta.
    assert (Hget : forall q, fs_get (fold_left fs_remove (rmf t) f) q =
                             if mem_path q (rmf t) then None else fs_get f q).
    { apply fold_remove_spec. intros p Hp. eapply rmf_leaf; eassumption. }
    assert (Hrm_out : forall q, In q (rmf t) -> starts_with outp q = true).
    { intros q Hq. destruct (wf_rmf _ _ _ _ W q Hq) as [q' [_ [_ ->]]]. apply rebase_starts. }
    assert (Hkeep : forall q, starts_with outp q = false -> fs_get (fold_left fs_remove (rmf t) f) q = fs_get f q).
    { intros q Hq. rewrite Hget. destruct (mem_path q (rmf t)) eqn:Em; [|reflexivity].
      apply mem_path_In in Em. apply Hrm_out in Em. congruence. }
    split; [|repeat split; try reflexivity; exact Hkeep].
    constructor; cbn [w_tree w_fs set_rmf slots ext free rmf last_hash].
    - destruct W as [W1 W2 W3 W4 W5 W6 W7 W8 W9].
      constructor; cbn [set_rmf slots ext free rmf]; try assumption.
      + intros p [].
      + intros i it _ _ [].
    - apply (inv_hash _ _ _ _ _ _ _ _ _ _ _ I).
    - intros i it Hi Hd Hc. pose proof (inv_good _ _ _ _ _ _ _ _ _ _ _ I _ _ Hi Hd Hc) as G.
      apply (good_frame cfg xform xform_frame c f); [exact G| | |].
      + apply Hkeep. eapply item_src_not_out; eassumption.
      + intros x Hx. apply Hkeep. destruct G as [txt [o [_ [Hok [Hdeps _]]]]]. apply Hdeps in Hx.
        eapply deps_outside; [|exact Hx]. congruence.
      + rewrite Hget. destruct (mem_path (i_out it) (rmf t)) eqn:Em; [|reflexivity].
        apply mem_path_In in Em. exfalso. eapply (wf_done_rmf _ _ _ _ W); eassumption.
    - intros i it Hi Hc. rewrite Hkeep; [eapply (inv_exists _ _ _ _ _ _ _ _ _ _ _ I); eassumption|].
      eapply item_src_not_out; eassumption.
    - intros q Hq Hex Hn. apply (inv_hasitem _ _ _ _ _ _ _ _ _ _ _ I q Hq); [|exact Hn].
      rewrite <- Hkeep; [exact Hex|]. eapply source_not_out; eassumption.
    - intros p Hp. destruct (inv_out _ _ _ _ _ _ _ _ _ _ _ I p Hp) as [Hit|[Hr|Hf]]; [left; exact Hit| |].
      + right. right. rewrite Hget.
        assert (Hm : mem_path p (rmf t) = true) by (apply mem_path_In; exact Hr). rewrite Hm.
        destruct (wf_rmf _ _ _ _ W p Hr) as [q [HqE [Hqs ->]]].
        destruct (fs_get f0 (out_of q)) eqn:Ef; [|reflexivity].
        assert (Hne : fs_get f0 (out_of q) <> None) by congruence.
        pose proof (E_foreign q (out_of q) HqE Hqs Hne) as Hc. rewrite starts_with_refl in Hc. discriminate.
      + destruct (mem_path p (rmf t)) eqn:Em.
        * right. right. rewrite Hget, Em. apply mem_path_In in Em.
          destruct (wf_rmf _ _ _ _ W p Em) as [q [HqE [Hqs ->]]].
          destruct (fs_get f0 (out_of q)) eqn:Ef; [|reflexivity].
          assert (Hne : fs_get f0 (out_of q) <> None) by congruence.
          pose proof (E_foreign q (out_of q) HqE Hqs Hne) as Hc. rewrite starts_with_refl in Hc. discriminate.
        * right. right. rewrite Hget, Em. exact Hf.
    - intros p Hp. rewrite Hkeep by exact Hp. apply (inv_user _ _ _ _ _ _ _ _ _ _ _ I p Hp).
    - apply (inv_ufs_E _ _ _ _ _ _ _ _ _ _ _ I).
    - apply (inv_ufs_out _ _ _ _ _ _ _ _ _ _ _ I).
    - apply (inv_noerr _ _ _ _ _ _ _ _ _ _ _ I).
  Qed.

  (** ** one pass of the work loop *)

  Lemma count_pending_cons o s :
    count_pending (o :: s) =
    ((match o with Some it => if is_done (i_st it) then 0 else 1 | None => 0 end) + count_pending s)%nat.
  Proof.
    unfold count_pending. cbn [filter]. destruct o as [it|]; [|reflexivity].
    destruct (is_done (i_st it)); reflexivity.
  Qed.

  Lemma advance_spec c it f txt :
    i_deps it = [] -> fs_get f (i_src it) = Some txt ->
    fst (xform c (i_src it) txt f) <> None ->
    starts_with outp (i_src it) = false -> starts_with outp (i_out it) = true ->
    good c (snd (advance cfg xform c it f)) (fst (advance cfg xform c it f)) /\
    is_done (i_st (fst (advance cfg xform c it f))) = true /\
    i_src (fst (advance cfg xform c it f)) = i_src it /\
    i_out (fst (advance cfg xform c it f)) = i_out it /\
    (forall p, p <> i_out it -> fs_get (snd (advance cfg xform c it f)) p = fs_get f p).
  Proof.
    intros Hd Hs Hok Hso Hoo. unfold advance. rewrite Hs.
    assert (Hne : i_src it <> i_out it) by (intros Heq; rewrite Heq in Hso; congruence).
    destruct (xform c (i_src it) txt f) as [r ds] eqn:Ex. destruct r as [o|]; cbn [fst snd] in *; [|congruence].
    assert (Hx : xform c (i_src it) txt (fs_write f (i_out it) o) = xform c (i_src it) txt f).
    { apply xform_frame; [rewrite Ex; discriminate|]. intros x Hx. rewrite fs_get_write.
      destruct (path_eqb (i_out it) x) eqn:Ep; [|reflexivity]. apply path_eqb_eq in Ep. subst x.
      apply deps_outside in Hx; [congruence|rewrite Ex; discriminate]. }
    split; [|repeat split; try reflexivity].
    - exists txt, o. cbn [i_src i_out i_st i_deps]. rewrite fs_get_write.
      assert (Hp : path_eqb (i_out it) (i_src it) = false) by (apply path_eqb_neq; congruence).
      rewrite Hp, Hx, Ex. cbn [fst snd]. split; [exact Hs|]. split; [reflexivity|]. split.
      + intros x. rewrite Hd, app_nil_r. tauto.
      + split; [reflexivity|]. rewrite fs_get_write, path_eqb_refl. reflexivity.
    - intros p Hp. rewrite fs_get_write. destruct (path_eqb (i_out it) p) eqn:Ep; [|reflexivity].
      apply path_eqb_eq in Ep. congruence.
  Qed.

  Definition head_item c (it : item) (f : fs) : item :=
    if is_done (i_st it) then it else fst (advance cfg xform c it f).
  Definition head_fs c (it : item) (f : fs) : fs :=
    if is_done (i_st it) then f else snd (advance cfg xform c it f).
  Definition head_done (it : item) (done : nat) : nat :=
    if is_done (i_st it) then done else S done.

  Lemma sweep_cons_some c it s i e f done :
    sweep cfg xform c (Some it :: s) i e f done =
    (let '(s2, e2, f2, d2) :=
         sweep cfg xform c s (S i)
               (fold_left (fun e0 d => ext_link e0 d i) (i_deps (head_item c it f)) e)
               (head_fs c it f) (head_done it done) in
     (Some (head_item c it f) :: s2, e2, f2, d2)).
  Proof.
    cbn [sweep]. unfold head_item, head_fs, head_done. destruct (is_done (i_st it)); [reflexivity|].
    destruct (advance cfg xform c it f); reflexivity.
  Qed.

  Lemma head_spec c it f :
    i_out it = out_of (i_src it) -> is_source (i_src it) = true ->
    (i_st it = NotStarted -> i_deps it = []) ->
    fs_get f (i_src it) <> None ->
    (forall txt, fs_get f (i_src it) = Some txt -> fst (xform c (i_src it) txt f) <> None) ->
    (is_done (i_st it) = true -> good c f it) ->
    good c (head_fs c it f) (head_item c it f) /\
    is_done (i_st (head_item c it f)) = true /\
    i_src (head_item c it f) = i_src it /\ i_out (head_item c it f) = i_out it /\
    (forall p, p <> i_out it -> fs_get (head_fs c it f) p = fs_get f p) /\
    (is_done (i_st it) = true -> head_item c it f = it).
  Proof.
    intros Hout Hsrc Hns Hex Hok Hgood. unfold head_item, head_fs.
    destruct (is_done (i_st it)) eqn:Ed.
    - repeat split; auto.
    - assert (Hst : i_st it = NotStarted) by (destruct (i_st it); [reflexivity|discriminate|discriminate]).
      destruct (fs_get f (i_src it)) as [txt|] eqn:Es; [|congruence].
      assert (Hso : starts_with outp (i_src it) = false) by (eapply source_not_out; eassumption).
      assert (Hoo : starts_with outp (i_out it) = true) by (rewrite Hout; apply rebase_starts).
      destruct (advance_spec c it f txt (Hns Hst) Es (Hok txt eq_refl) Hso Hoo) as [G [Hd [H1 [H2 H3]]]].
      repeat split; auto. discriminate.
  Qed.

  Lemma good_deps_outside c f it x : good c f it -> In x (i_deps it) -> starts_with outp x = false.
  Proof.
    intros [txt [o [_ [Hok [Hdeps _]]]]] Hx. apply Hdeps in Hx. eapply deps_outside; [|exact Hx]. congruence.
  Qed.

  Lemma sweep_spec c : forall s i e f done s2 e2 f' d2,
    sweep cfg xform c s i e f done = (s2, e2, f', d2) ->
    (forall k it, nth k s None = Some it -> i_out it = out_of (i_src it) /\ is_source (i_src it) = true) ->
    (forall k k' a b, nth k s None = Some a -> nth k' s None = Some b -> i_src a = i_src b -> k = k') ->
    (forall k it, nth k s None = Some it -> i_st it = NotStarted -> i_deps it = []) ->
    (forall k it, nth k s None = Some it -> fs_get f (i_src it) <> None) ->
    (forall k it, nth k s None = Some it -> is_done (i_st it) = true -> good c f it) ->
    (forall k it txt g, nth k s None = Some it -> fs_get f (i_src it) = Some txt ->
                        (forall p, starts_with outp p = false -> fs_get g p = fs_get f p) ->
                        fst (xform c (i_src it) txt g) <> None) ->
    List.length s2 = List.length s /\
    d2 = (done + count_pending s)%nat /\
    (forall k, nth k s None = None -> nth k s2 None = None) /\
    (forall k it, nth k s None = Some it ->
        exists it2, nth k s2 None = Some it2 /\ i_src it2 = i_src it /\ i_out it2 = i_out it /\
                    is_done (i_st it2) = true /\ good c f' it2 /\
                    (is_done (i_st it) = true -> it2 = it)) /\
    (forall p, starts_with outp p = false -> fs_get f' p = fs_get f p) /\
    (forall p, (forall k it, nth k s None = Some it -> i_out it <> p) -> fs_get f' p = fs_get f p) /\
    (forall q j, In j (ext_get e2 q) <->
                 In j (ext_get e q) \/
                 exists k it2, nth k s2 None = Some it2 /\ j = (i + k)%nat /\ In q (i_deps it2)).
  Proof.
    induction s as [|o s IH]; intros i e f done s2 e2 f' d2 Hsw P1 P2 P3 P4 P5 P6.
    - cbn [sweep] in Hsw. inversion Hsw; subst. cbn [count_pending filter List.length].
      split; [reflexivity|]. split; [lia|]. split; [intros k _; destruct k; reflexivity|].
      split; [intros k it Hk; destruct k; discriminate|]. split; [reflexivity|]. split; [reflexivity|].
      intros q j. split; [auto|]. intros [H|[k [it2 [Hk _]]]]; [exact H|destruct k; discriminate].
    - destruct o as [it|].
      + (* an occupied slot *)
        rewrite sweep_cons_some in Hsw.
        destruct (P1 0%nat it eq_refl) as [Hout Hsrc].
        assert (Hso : starts_with outp (i_src it) = false) by (eapply source_not_out; eassumption).
        assert (Hoo : starts_with outp (i_out it) = true) by (rewrite Hout; apply rebase_starts).
        destruct (head_spec c it f Hout Hsrc (P3 0%nat it eq_refl) (P4 0%nat it eq_refl)) as [G1 [Hd1 [Hs1 [Ho1 [Hf1 Hsame1]]]]].
        { intros txt Htxt. apply (P6 0%nat it txt f eq_refl Htxt). reflexivity. }
        { apply (P5 0%nat it eq_refl). }
        set (it1 := head_item c it f) in *. set (f1 := head_fs c it f) in *.
        destruct (sweep cfg xform c s (S i) (fold_left (fun e0 d => ext_link e0 d i) (i_deps it1) e) f1
                        (head_done it done)) as [[[s2' e2'] f2'] d2'] eqn:Etail.
        inversion Hsw; subst s2 e2 f' d2. clear Hsw.
        (* facts about the rest of the slots with respect to [f1] *)
        assert (Hother : forall k itk, nth k s None = Some itk -> i_out itk <> i_out it).
        { intros k itk Hk Heq. destruct (P1 (S k) itk Hk) as [Houtk Hsrck].
          rewrite Hout, Houtk in Heq. apply out_of_inj in Heq; try assumption.
          pose proof (P2 (S k) 0%nat itk it Hk eq_refl Heq) as Hc. discriminate. }
        assert (Hf1out : forall p, starts_with outp p = false -> fs_get f1 p = fs_get f p).
        { intros p Hp. apply Hf1. intros ->. congruence. }
        specialize (IH (S i) (fold_left (fun e0 d => ext_link e0 d i) (i_deps it1) e) f1 (head_done it done)
                       s2' e2' f2' d2' Etail).
        destruct IH as [C1 [C2 [C3 [C4 [C5 [C6 C7]]]]]].
        { intros k itk Hk. apply (P1 (S k) itk Hk). }
        { intros k k' a b Ha Hb Hab. specialize (P2 (S k) (S k') a b Ha Hb Hab). lia. }
        { intros k itk Hk. apply (P3 (S k) itk Hk). }
        { intros k itk Hk. destruct (P1 (S k) itk Hk) as [_ Hsrck].
          rewrite Hf1out; [apply (P4 (S k) itk Hk)|]. eapply source_not_out; eassumption. }
        { intros k itk Hk Hdk. pose proof (P5 (S k) itk Hk Hdk) as Gk.
          destruct (P1 (S k) itk Hk) as [_ Hsrck].
          apply (good_frame cfg xform xform_frame c f); [exact Gk| | |].
          - apply Hf1out. eapply source_not_out; eassumption.
          - intros x Hx. apply Hf1out. eapply good_deps_outside; eassumption.
          - apply Hf1. apply (Hother k itk Hk). }
        { intros k itk txt g Hk Htxt Hg. destruct (P1 (S k) itk Hk) as [_ Hsrck].
          assert (Hsk : starts_with outp (i_src itk) = false) by (eapply source_not_out; eassumption).
          apply (P6 (S k) itk txt g Hk).
          - rewrite <- Hf1out; assumption.
          - intros p Hp. rewrite Hg by exact Hp. apply Hf1out. exact Hp. }
        split; [cbn [List.length]; lia|]. split.
        { rewrite count_pending_cons, C2. unfold head_done. destruct (is_done (i_st it)); lia. }
        split; [intros k Hk; destruct k; [discriminate|cbn; apply C3; exact Hk]|]. split.
        { intros k itk Hk. destruct k as [|k].
          - cbn in Hk. inversion Hk; subst itk. exists it1. cbn [nth].
            split; [reflexivity|]. split; [exact Hs1|]. split; [exact Ho1|]. split; [exact Hd1|]. split; [|exact Hsame1].
            apply (good_frame cfg xform xform_frame c f1); [exact G1| | |].
            + apply C5. rewrite Hs1. exact Hso.
            + intros x Hx. apply C5. eapply good_deps_outside; eassumption.
            + apply C6. intros k itk Hk' Heq. rewrite Ho1 in Heq. eapply Hother; eassumption.
          - cbn in Hk. destruct (C4 k itk Hk) as [it2 [H1 H2]]. exists it2. cbn [nth]. auto. }
        split.
        { intros p Hp. rewrite C5 by exact Hp. apply Hf1out. exact Hp. }
        split.
        { intros p Hp. rewrite C6.
          - apply Hf1. intros ->. apply (Hp 0%nat it eq_refl). reflexivity.
          - intros k itk Hk. apply (Hp (S k) itk Hk). }
        intros q j. rewrite C7, ext_get_link_all. split.
        * intros [[H|[Hq Hj]]|[k [it2 [Hk [Hj Hq]]]]].
          -- left. exact H.
          -- right. exists 0%nat, it1. cbn [nth]. split; [reflexivity|]. split; [lia|exact Hq].
          -- right. exists (S k), it2. cbn [nth]. split; [exact Hk|]. split; [lia|exact Hq].
        * intros [H|[k [it2 [Hk [Hj Hq]]]]]; [left; left; exact H|].
          destruct k as [|k]; cbn [nth] in Hk.
          -- inversion Hk; subst it2. left. right. split; [exact Hq|lia].
          -- right. exists k, it2. split; [exact Hk|]. split; [lia|exact Hq].
      + (* a vacant slot *)
        cbn [sweep] in Hsw.
        destruct (sweep cfg xform c s (S i) e f done) as [[[s2' e2'] f2'] d2'] eqn:Etail.
        inversion Hsw; subst s2 e2 f' d2. clear Hsw.
        specialize (IH (S i) e f done s2' e2' f2' d2' Etail).
        destruct IH as [C1 [C2 [C3 [C4 [C5 [C6 C7]]]]]].
        { intros k itk Hk. apply (P1 (S k) itk Hk). }
        { intros k k' a b Ha Hb Hab. specialize (P2 (S k) (S k') a b Ha Hb Hab). lia. }
        { intros k itk Hk. apply (P3 (S k) itk Hk). }
        { intros k itk Hk. apply (P4 (S k) itk Hk). }
        { intros k itk Hk. apply (P5 (S k) itk Hk). }
        { intros k itk txt g Hk. apply (P6 (S k) itk txt g Hk). }
        split; [cbn [List.length]; lia|]. split; [rewrite count_pending_cons; lia|].
        split; [intros k Hk; destruct k; [reflexivity|cbn; apply C3; exact Hk]|]. split.
        { intros k itk Hk. destruct k as [|k]; [discriminate|]. cbn in Hk.
          destruct (C4 k itk Hk) as [it2 H]. exists it2. cbn [nth]. exact H. }
        split; [exact C5|]. split.
        { intros p Hp. apply C6. intros k itk Hk. apply (Hp (S k) itk Hk). }
        intros q j. rewrite C7. split.
        * intros [H|[k [it2 [Hk [Hj Hq]]]]]; [left; exact H|].
          right. exists (S k), it2. cbn [nth]. split; [exact Hk|]. split; [lia|exact Hq].
        * intros [H|[k [it2 [Hk [Hj Hq]]]]]; [left; exact H|].
          destruct k as [|k]; cbn [nth] in Hk; [discriminate|].
          right. exists k, it2. split; [exact Hk|]. split; [lia|exact Hq].
  Qed.

  (** ** process *)

  Lemma clean_dirty d : is_clean d = true -> dC d = [] /\ dN d = [] /\ dR d = [].
  Proof.
    unfold is_clean. destruct (dC d); [|discriminate]. destruct (dN d); [|discriminate].
    destruct (dR d); [auto|discriminate].
  Qed.

  Lemma step_Process c0 d u w :
    inv c0 d u w -> is_clean d = true ->
    healthy cfg xform inp (w_cfg w) u = true ->
    exists t' f',
      process cfg hash xform (w_cfg w) (w_tree w) (w_fs w) = Some (t', f') /\
      inv (w_cfg w) d u (mkWorld f' (w_cfg w) t') /\ rmf t' = [] /\
      (forall j it, get_slot (slots t') j = Some it -> is_done (i_st it) = true).
  Proof.
    intros I Hclean Hhealthy. destruct (clean_dirty d Hclean) as [HdC [HdN HdR]].
    set (c := w_cfg w) in *. set (t := w_tree w). set (f := w_fs w).
    pose proof (inv_after_hash c0 d u w I) as I1. cbv zeta in I1. fold c t f in I1.
    set (t1 := set_hash (if cfg_changed t (hash c) then reset t else t) (Some (hash c))) in *.
    pose proof (inv_after_clean c d u (mkWorld f c t1) I1) as I2. cbv zeta in I2. cbn [w_tree w_fs w_cfg] in I2.
    destruct I2 as [I2 [Hrm2 [Hsl2 [Hh2 [He2 Hkeep2]]]]].
    unfold process. fold c t f. cbv zeta. fold t1.
    destruct (clean_files t1 f) as [t2 f2] eqn:Ecl. cbn [fst snd] in *.
    assert (Hcleanitem : forall it, clean_item d it).
    { intros it. unfold clean_item. rewrite HdC, HdR. cbn. auto. }
    pose proof (inv_wf _ _ _ _ _ _ _ _ _ _ _ I2) as W2. cbn [w_tree] in W2.
    destruct (Nat.eqb (count_pending (slots t1)) 0) eqn:Etot.
    - (* nothing pending *)
      exists t2, f2. split; [reflexivity|]. split; [exact I2|]. split; [exact Hrm2|].
      apply Nat.eqb_eq in Etot. rewrite Hsl2. apply count_pending_zero. exact Etot.
    - (* one pass of the loop finishes everything *)
      cbn [work_loop].
      destruct (sweep cfg xform c (slots t2) 0 (ext t2) f2 0) as [[[s3 e3] f3] d3] eqn:Esw.
      assert (Hlast : last_hash t2 = Some (hash c)) by (rewrite Hh2; reflexivity).
      destruct (sweep_spec c (slots t2) 0%nat (ext t2) f2 0%nat s3 e3 f3 d3 Esw)
        as [C1 [C2 [C3 [C4 [C5 [C6 C7]]]]]].
      { intros k it Hk. destruct (wf_item _ _ _ _ W2 k it Hk) as [H1 [H2 _]]. auto. }
      { intros k k' a b Ha Hb Hab. eapply (wf_nodup _ _ _ _ W2); eassumption. }
      { intros k it Hk. apply (wf_notstarted _ _ _ _ W2 k it Hk). }
      { intros k it Hk. apply (inv_exists _ _ _ _ _ _ _ _ _ _ _ I2 k it Hk). rewrite HdR. reflexivity. }
      { intros k it Hk Hd. apply (inv_good _ _ _ _ _ _ _ _ _ _ _ I2 k it Hk Hd). apply Hcleanitem. }
      { (* every pending transformation succeeds: the project is healthy *)
        intros k it txt g Hk Htxt Hg.
        destruct (wf_item _ _ _ _ W2 k it Hk) as [_ [Hs _]].
        assert (Hso : starts_with outp (i_src it) = false) by (eapply source_not_out; eassumption).
        assert (Hu : fs_get u (i_src it) = Some txt).
        { rewrite <- (inv_user _ _ _ _ _ _ _ _ _ _ _ I2); [exact Htxt|exact Hso]. }
        assert (Hin : In (i_src it) (fs_collect u inp)).
        { apply fs_collect_spec. unfold Worker.is_source in Hs. apply andb_true_iff in Hs as [H1 H2].
          split; [congruence|auto]. }
        unfold healthy in Hhealthy. rewrite forallb_forall in Hhealthy. specialize (Hhealthy _ Hin).
        rewrite Hu in Hhealthy.
        destruct (fst (xform c (i_src it) txt u)) as [o|] eqn:Ex; [|discriminate].
        assert (Hx : xform c (i_src it) txt g = xform c (i_src it) txt u).
        { apply xform_frame; [congruence|]. intros x Hx.
          assert (Hxo : starts_with outp x = false) by (eapply deps_outside; [|exact Hx]; congruence).
          rewrite Hg by exact Hxo. apply (inv_user _ _ _ _ _ _ _ _ _ _ _ I2 x Hxo). }
        rewrite Hx, Ex. discriminate. }
      assert (Hd3 : Nat.eqb d3 (count_pending (slots t1)) = true).
      { apply Nat.eqb_eq. rewrite C2, Hsl2. reflexivity. }
      rewrite Hd3. set (t3 := set_ext (set_slots t2 s3) e3).
      assert (Hrm3 : rmf t3 = []) by exact Hrm2.
      unfold clean_files. rewrite Hrm3. cbn [fold_left].
      exists (set_rmf t3 []), f3. split; [reflexivity|].
      (* every slot of [s3] comes from a slot of [t2] *)
      assert (Hback : forall k it3, get_slot s3 k = Some it3 ->
                 exists it, get_slot (slots t2) k = Some it /\ i_src it3 = i_src it /\ i_out it3 = i_out it /\
                            is_done (i_st it3) = true /\ good c f3 it3 /\ (is_done (i_st it) = true -> it3 = it)).
      { intros k it3 Hk. unfold get_slot in *. destruct (nth k (slots t2) None) as [it|] eqn:Ek.
        - destruct (C4 k it Ek) as [it2 [H1 H2]]. rewrite H1 in Hk. inversion Hk; subst it2. exists it. auto.
        - rewrite (C3 k Ek) in Hk. discriminate. }
      assert (Hfwd : forall k it, get_slot (slots t2) k = Some it ->
                 exists it3, get_slot s3 k = Some it3 /\ i_src it3 = i_src it /\ i_out it3 = i_out it).
      { intros k it Hk. destruct (C4 k it Hk) as [it3 [H1 [H2 [H3 _]]]]. exists it3. auto. }
      split; [|split; [reflexivity|]].
      + constructor; cbn [w_tree w_fs set_rmf set_ext set_slots t3 slots ext free rmf last_hash].
        * (* wf *)
          constructor; cbn [set_rmf set_ext set_slots slots ext free rmf].
          -- intros i j a b Ha Hb Hab. destruct (Hback _ _ Ha) as [a0 [Ha0 [Hsa _]]].
             destruct (Hback _ _ Hb) as [b0 [Hb0 [Hsb _]]].
             eapply (wf_nodup _ _ _ _ W2); [exact Ha0|exact Hb0|congruence].
          -- intros p i Hi. apply C7 in Hi as [Hi|[k [it3 [Hk [-> Hp]]]]].
             ++ destruct (wf_ext _ _ _ _ W2 p i Hi) as [it [Hs Hp]].
                destruct (C4 i it Hs) as [it3 [H1 [_ [_ [_ [_ Hsame]]]]]].
                destruct (is_done (i_st it)) eqn:Ed.
                ** rewrite (Hsame eq_refl) in H1. eauto.
                ** assert (Hst : i_st it = NotStarted) by (destruct (i_st it); [reflexivity|discriminate|discriminate]).
                   rewrite (wf_notstarted _ _ _ _ W2 i it Hs Hst) in Hp. contradiction.
             ++ exists it3. auto.
          -- intros i Hi. destruct (wf_free _ _ _ _ W2 i Hi) as [H1 H2]. split; [apply C3; exact H1|].
             rewrite <- C1 in H2. exact H2.
          -- apply (wf_free_nodup _ _ _ _ W2).
          -- intros i it3 Hi. destruct (Hback _ _ Hi) as [it [Hs [Hsrc [Hout _]]]].
             destruct (wf_item _ _ _ _ W2 i it Hs) as [H1 [H2 H3]]. rewrite Hsrc, Hout. auto.
          -- intros i it3 Hi Hst. destruct (Hback _ _ Hi) as [it [_ [_ [_ [Hd _]]]]].
             rewrite Hst in Hd. discriminate.
          -- intros i it3 dep Hi Hdep. apply C7. right. exists i, it3. auto.
          -- intros p [].
          -- intros i it3 _ _ [].
        * intros i it3 Hi Hd. exact Hlast.
        * intros i it3 Hi Hd _. destruct (Hback _ _ Hi) as [it [_ [_ [_ [_ [G _]]]]]]. exact G.
        * intros i it3 Hi Hc. destruct (Hback _ _ Hi) as [it [Hs [Hsrc _]]]. rewrite Hsrc.
          rewrite C5; [apply (inv_exists _ _ _ _ _ _ _ _ _ _ _ I2 i it Hs); rewrite HdR; reflexivity|].
          eapply item_src_not_out; eassumption.
        * intros q Hq Hex Hn.
          assert (Hex2 : fs_get f2 q <> None).
          { rewrite <- C5; [exact Hex|]. eapply source_not_out; eassumption. }
          pose proof (inv_hasitem _ _ _ _ _ _ _ _ _ _ _ I2 q Hq Hex2 Hn) as Hnode.
          apply node_of_ne_none in Hnode as [i [it [Hi Hs]]]. cbn [w_tree] in Hi.
          destruct (Hfwd _ _ Hi) as [it3 [H1 [H2 _]]].
          eapply node_of_exists with (i := i); [exact H1|congruence].
        * intros p Hp. destruct (inv_out _ _ _ _ _ _ _ _ _ _ _ I2 p Hp) as [[i [it [Hi Ho]]]|[Hr|Hf]].
          -- cbn [w_tree] in Hi. destruct (Hfwd _ _ Hi) as [it3 [H1 [_ H3]]].
             left. exists i, it3. split; [exact H1|congruence].
          -- cbn [w_tree] in Hr. rewrite Hrm2 in Hr. contradiction.
          -- cbn [w_fs] in Hf.
             destruct (classic_item_out (slots t2) p) as [[i [it [Hi Ho]]]|Hno].
             ++ destruct (Hfwd _ _ Hi) as [it3 [H1 [_ H3]]]. left. exists i, it3. split; [exact H1|congruence].
             ++ right. right. rewrite C6; [exact Hf|]. intros k it Hk Heq. apply (Hno k it Hk Heq).
        * intros p Hp. rewrite C5 by exact Hp. apply (inv_user _ _ _ _ _ _ _ _ _ _ _ I2 p Hp).
        * apply (inv_ufs_E _ _ _ _ _ _ _ _ _ _ _ I2).
        * apply (inv_ufs_out _ _ _ _ _ _ _ _ _ _ _ I2).
        * intros i it3 Hi. destruct (Hback _ _ Hi) as [it [_ [_ [_ [_ [[txt [o [_ [_ [_ [Hst _]]]]]] _]]]]]].
          rewrite Hst. discriminate.
      + intros j it3 Hj. cbn [set_rmf set_ext set_slots t3 slots] in Hj.
        destruct (Hback _ _ Hj) as [it [_ [_ [_ [Hd _]]]]]. exact Hd.
  Qed.
End Process.
