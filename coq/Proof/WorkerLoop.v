(** The work loop of [WorkerTree::process] terminates: one pass finishes every pending item,
    so [done_count == total_not_done] holds after the first pass and the fuel of the model
    is never exhausted.  (No invariant is needed for this.) *)
From Coq Require Import Arith PeanoNat Lia.
From DL Require Import Lib.Bytes Model.WorkerFs Model.Worker.
Open Scope N_scope.

Section Loop.
  Variable cfg : Type.
  Variable hash : cfg -> N.
  Variable xform : cfg -> path -> content -> fs -> option content * list path.

  Lemma count_pending_cons' o s :
    count_pending (o :: s) =
    ((match o with Some it => if is_done (i_st it) then 0 else 1 | None => 0 end) + count_pending s)%nat.
  Proof.
    unfold count_pending. cbn [filter]. destruct o as [it|]; [|reflexivity].
    destruct (is_done (i_st it)); reflexivity.
  Qed.

  Lemma advance_done c it f : is_done (i_st (fst (advance cfg xform c it f))) = true.
  Proof.
    unfold advance. destruct (fs_get f (i_src it)); [|reflexivity].
    destruct (xform c (i_src it) c0 f) as [[o|] ds]; reflexivity.
  Qed.

  (** the measure: [done_count] grows by exactly the number of pending items, and no item is
      pending afterwards *)
  Lemma sweep_measure c : forall s i e f done s2 e2 f2 d2,
    sweep cfg xform c s i e f done = (s2, e2, f2, d2) ->
    d2 = (done + count_pending s)%nat /\ count_pending s2 = 0%nat.
  Proof.
    induction s as [|o s IH]; intros i e f done s2 e2 f2 d2 H.
    - cbn in H. inversion H; subst. cbn. split; [lia|reflexivity].
    - destruct o as [it|]; cbn [sweep] in H.
      + destruct (is_done (i_st it)) eqn:Ed.
        * destruct (sweep cfg xform c s (S i) (fold_left (fun e0 d => ext_link e0 d i) (i_deps it) e) f done)
            as [[[s' e'] f'] d'] eqn:Et.
          inversion H; subst. destruct (IH _ _ _ _ _ _ _ _ Et) as [H1 H2].
          rewrite !count_pending_cons', Ed. split; [lia|exact H2].
        * destruct (advance cfg xform c it f) as [it' f'] eqn:Ea.
          destruct (sweep cfg xform c s (S i) (fold_left (fun e0 d => ext_link e0 d i) (i_deps it') e) f' (S done))
            as [[[s' e'] f''] d'] eqn:Et.
          inversion H; subst. destruct (IH _ _ _ _ _ _ _ _ Et) as [H1 H2].
          rewrite !count_pending_cons', Ed.
          pose proof (advance_done c it f) as Hd. rewrite Ea in Hd. cbn [fst] in Hd. rewrite Hd.
          split; [lia|exact H2].
      + destruct (sweep cfg xform c s (S i) e f done) as [[[s' e'] f'] d'] eqn:Et.
        inversion H; subst. destruct (IH _ _ _ _ _ _ _ _ Et) as [H1 H2].
        rewrite !count_pending_cons'. split; [lia|exact H2].
  Qed.

  (** with any positive fuel the loop stops after its first pass *)
  Theorem work_loop_one_pass c t f k :
    exists t' f', work_loop cfg xform (S k) c t f (count_pending (slots t)) = Some (t', f') /\
                  count_pending (slots t') = 0%nat.
  Proof.
    cbn [work_loop]. destruct (sweep cfg xform c (slots t) 0 (ext t) f 0) as [[[s2 e2] f2] d2] eqn:Es.
    destruct (sweep_measure c _ _ _ _ _ _ _ _ _ Es) as [H1 H2]. cbn in H1. subst d2.
    rewrite Nat.eqb_refl. eexists. eexists. split; [reflexivity|]. exact H2.
  Qed.

  (** [process] never runs out of fuel *)
  Theorem process_total c t f : process cfg hash xform c t f <> None.
  Proof.
    unfold process. cbv zeta.
    set (t1 := set_hash (if cfg_changed t (hash c) then reset t else t) (Some (hash c))).
    destruct (clean_files t1 f) as [t2 f2] eqn:Ec.
    destruct (Nat.eqb (count_pending (slots t1)) 0); [discriminate|].
    assert (Hs : slots t2 = slots t1) by (unfold clean_files in Ec; inversion Ec; reflexivity).
    rewrite <- Hs.
    destruct (work_loop_one_pass c t2 f2 (count_pending (slots t2))) as [t' [f' [H _]]].
    rewrite H. discriminate.
  Qed.
End Loop.
