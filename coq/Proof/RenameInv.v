(** The scope-stack invariant of RenameProcessor (Model/Rename.v: step), by induction over ALL
    operation sequences: in every reachable state the generated names that are live (in a
    dictionary of the stack), lost (overwritten in a scope that is still open) or waiting in the
    reuse pool are pairwise distinct, each is a valid identifier, not a keyword, not in the avoid
    set the processor was created with, and was produced by the permutator before its current
    position. *)
From Coq Require Import NArith List Bool Lia ZArith ZifyBool ZifyN ZifyNat Permutation.
From DL Require Import Lib.Bytes Model.Rename Proof.RenameStream.
Import ListNotations.
Open Scope N_scope.

Definition name_eq_dec : forall a b : name, {a = b} + {a <> b} := list_eq_dec N.eq_dec.
Definition cnt (l : list name) (x : name) : nat := count_occ name_eq_dec l x.

Lemma cnt_app l1 l2 x : cnt (l1 ++ l2) x = (cnt l1 x + cnt l2 x)%nat.
Proof. apply count_occ_app. Qed.
Lemma cnt_cons y l x : cnt (y :: l) x = ((if name_eq_dec y x then 1 else 0) + cnt l x)%nat.
Proof. unfold cnt. cbn [count_occ]. destruct (name_eq_dec y x); reflexivity. Qed.
Lemma cnt_nil x : cnt [] x = 0%nat.
Proof. reflexivity. Qed.
Lemma cnt_In l x : In x l <-> (cnt l x > 0)%nat.
Proof. apply count_occ_In. Qed.
Lemma cnt_NoDup l : NoDup l <-> forall x, (cnt l x <= 1)%nat.
Proof. apply NoDup_count_occ. Qed.

(** the pool: insertion keeps the multiset *)
Lemma cnt_pool_insert y l x : cnt (pool_insert y l) x = cnt (y :: l) x.
Proof.
  induction l as [|z l IH]; cbn [pool_insert]; [reflexivity|].
  destruct (cmp_ident y z); try reflexivity.
  rewrite cnt_cons, IH, !cnt_cons. lia.
Qed.
Lemma cnt_pool_add xs l x : cnt (pool_add xs l) x = (cnt xs x + cnt l x)%nat.
Proof.
  induction xs as [|y xs IH]; [reflexivity|].
  unfold pool_add in *. cbn [fold_right]. rewrite cnt_pool_insert, !cnt_cons, IH. lia.
Qed.

(** dictionaries *)
Definition frame_names (f : frame) : list name := reusable (f_dict f) ++ f_lost f.
Definition gen_names (s : state) : list name := flat_map frame_names (stack s) ++ pool s.

Lemma reusable_cons k o (r : bool) d :
  reusable ((k, (o, r)) :: d) = (if r then [o] else []) ++ reusable d.
Proof. reflexivity. Qed.

Lemma cnt_dict_remove d k x :
  (cnt (reusable (dict_remove d k)) x
   + match dict_get d k with Some (old, true) => if name_eq_dec old x then 1 else 0 | _ => 0 end
   <= cnt (reusable d) x)%nat.
Proof.
  induction d as [|[k' [o r]] d IH]; [cbn; lia|].
  cbn [dict_remove dict_get]. destruct (bytes_eqb k' k) eqn:E.
  - rewrite reusable_cons, cnt_app.
    assert (cnt (reusable (dict_remove d k)) x <= cnt (reusable d) x)%nat.
    { destruct (dict_get d k) as [[? []]|]; lia. }
    destruct r; [|lia]. rewrite cnt_cons, cnt_nil. destruct (name_eq_dec o x); lia.
  - rewrite !reusable_cons, !cnt_app. lia.
Qed.

Lemma cnt_frame_add f real obf reuse x :
  (cnt (frame_names (frame_add f real obf reuse)) x
   <= (if reuse then if name_eq_dec obf x then 1 else 0 else 0) + cnt (frame_names f) x)%nat.
Proof.
  unfold frame_names, frame_add. cbn [f_dict f_lost]. rewrite reusable_cons, !cnt_app.
  pose proof (cnt_dict_remove (f_dict f) real x) as H.
  assert (A : (cnt (if reuse then [obf] else []) x = if reuse then if name_eq_dec obf x then 1 else 0 else 0)%nat).
  { destruct reuse; [rewrite cnt_cons, cnt_nil; destruct (name_eq_dec obf x); lia | reflexivity]. }
  rewrite A.
  destruct (dict_get (f_dict f) real) as [[old []]|]; try lia.
  rewrite cnt_cons. lia.
Qed.

Lemma cnt_add s real obf reuse x :
  (cnt (gen_names (add s real obf reuse)) x
   <= (if reuse then if name_eq_dec obf x then 1 else 0 else 0) + cnt (gen_names s) x)%nat.
Proof.
  unfold gen_names, add. destruct (stack s) as [|f r]; cbn [stack pool flat_map]; rewrite !cnt_app.
  - pose proof (cnt_frame_add (mkFrame [] []) real obf reuse x) as H. cbn in H |- *. cbn in H. lia.
  - pose proof (cnt_frame_add f real obf reuse x) as H. lia.
Qed.

Lemma add_pos s real obf reuse : pos (add s real obf reuse) = pos s.
Proof. unfold add. destruct (stack s); reflexivity. Qed.
Lemma add_avoid s real obf reuse : avoid (add s real obf reuse) = avoid s.
Proof. unfold add. destruct (stack s); reflexivity. Qed.

(** ---------------------------------------------------------------------------------------
    the invariant *)
Definition good_name (avoid0 : list name) (p : N) (n : name) : Prop :=
  (exists q, q < p /\ nth_raw q = n) /\ valid_ident n = true /\ ~ In n avoid0.

Record Inv (avoid0 : list name) (s : state) : Prop := {
  inv_nodup : forall x, (cnt (gen_names s) x <= 1)%nat;
  inv_good : forall n, In n (gen_names s) -> good_name avoid0 (pos s) n;
  inv_avoid : incl (avoid0 ++ keywords) (avoid s)
}.

Lemma good_mono avoid0 p p' n : p <= p' -> good_name avoid0 p n -> good_name avoid0 p' n.
Proof.
  intros L [[q [Hq E]] R]. split; [|exact R]. exists q. split; [lia | exact E].
Qed.

Lemma Inv_init avoid0 : Inv avoid0 (init avoid0).
Proof.
  split.
  - intros x. cbn. lia.
  - intros n H. cbn in H. contradiction.
  - cbn [init avoid]. apply incl_refl.
Qed.

(** a state whose names are a sub-multiset of an invariant state's, with the same or a later
    position and a larger avoid set *)
Lemma Inv_sub avoid0 s s' :
  Inv avoid0 s ->
  (forall x, (cnt (gen_names s') x <= cnt (gen_names s) x)%nat) ->
  pos s <= pos s' -> incl (avoid s) (avoid s') ->
  Inv avoid0 s'.
Proof.
  intros [N G A] C P V. split.
  - intros x. specialize (C x). specialize (N x). lia.
  - intros n H. apply (good_mono avoid0 (pos s)); [exact P|]. apply G.
    apply cnt_In. apply cnt_In in H. specialize (C n). lia.
  - eapply incl_tran; eassumption.
Qed.

Lemma step_generate_pool avoid0 s x r real :
  Inv avoid0 s -> pool s = x :: r ->
  Inv avoid0 (add (mkState (stack s) (pos s) (avoid s) r (stuck s)) real x true).
Proof.
  intros I E. apply (Inv_sub avoid0 s); [exact I| | |].
  - intros y. eapply Nat.le_trans; [apply cnt_add|].
    unfold gen_names. cbn [stack pool]. rewrite E, !cnt_app, cnt_cons. lia.
  - rewrite add_pos. cbn. lia.
  - rewrite add_avoid. cbn. apply incl_refl.
Qed.

Lemma step_generate_fresh avoid0 s q real :
  Inv avoid0 s -> pool s = [] ->
  search (fun q => filter_identifier (avoid s) (nth_raw q)) search_bits (pos s) = Some q ->
  Inv avoid0 (add (mkState (stack s) (q + 1) (avoid s) [] (stuck s)) real (nth_raw q) true).
Proof.
  intros I E S. apply search_spec in S as [F L]. destruct I as [N G A].
  assert (Fresh : cnt (gen_names s) (nth_raw q) = 0%nat).
  { destruct (cnt (gen_names s) (nth_raw q)) eqn:C; [reflexivity|]. exfalso.
    assert (H : In (nth_raw q) (gen_names s)) by (apply cnt_In; lia).
    apply G in H as [[q' [Hq' E']] _]. apply nth_raw_inj in E'. lia. }
  assert (Same : forall y, cnt (gen_names (mkState (stack s) (q + 1) (avoid s) [] (stuck s))) y = cnt (gen_names s) y).
  { intros y. unfold gen_names. cbn [stack pool]. now rewrite E. }
  split.
  - intros x. eapply Nat.le_trans; [apply cnt_add|]. rewrite Same.
    destruct (name_eq_dec (nth_raw q) x) as [<-|]; [lia | apply N].
  - intros n H. rewrite add_pos. cbn [pos].
    apply cnt_In in H. pose proof (cnt_add (mkState (stack s) (q + 1) (avoid s) [] (stuck s)) real (nth_raw q) true n) as C.
    rewrite Same in C. destruct (name_eq_dec (nth_raw q) n) as [<-|].
    + split; [exists q; split; [lia | reflexivity]|]. split.
      * apply (filter_valid (avoid s)); [|exact F]. eapply incl_tran; [|exact A]. apply incl_appr, incl_refl.
      * unfold filter_identifier in F. apply andb_true_iff in F as [F1 _].
        apply negb_true_iff in F1. apply mem_false in F1. intros K. apply F1. apply A. apply in_or_app. now left.
    + apply (good_mono avoid0 (pos s)); [lia|]. apply G. apply cnt_In. lia.
  - rewrite add_avoid. exact A.
Qed.

Theorem step_Inv avoid0 s o : Inv avoid0 s -> Inv avoid0 (fst (step s o)).
Proof.
  intros I. destruct o as [| |real| |real|x]; cbn [step].
  - (* push *) apply (Inv_sub avoid0 s); cbn; auto using incl_refl; try lia.
  - (* pop *) destruct (stack s) as [|f r] eqn:E; [exact I|]. cbn [fst].
    apply (Inv_sub avoid0 s); [exact I| | cbn; lia | cbn; apply incl_refl].
    intros x. unfold gen_names. rewrite E. cbn [stack pool flat_map].
    rewrite !cnt_app, cnt_pool_add. unfold frame_names. rewrite cnt_app. lia.
  - (* insert *) unfold generate. destruct (pool s) as [|x r] eqn:E.
    + destruct (search _ search_bits (pos s)) as [q|] eqn:S; cbn [fst].
      * now apply step_generate_fresh.
      * apply (Inv_sub avoid0 s); [exact I| | cbn; lia | cbn; apply incl_refl].
        intros y. unfold gen_names. cbn [stack pool]. rewrite E. lia.
    + cbn [fst]. now apply step_generate_pool.
  - (* self *) cbn [fst]. apply (Inv_sub avoid0 s); [exact I| | rewrite add_pos; lia | rewrite add_avoid; apply incl_refl].
    intros y. eapply Nat.le_trans; [apply cnt_add|]. cbv iota. lia.
  - (* keep *) cbn [fst]. apply (Inv_sub avoid0 s); [exact I| | rewrite add_pos; lia | rewrite add_avoid; apply incl_refl].
    intros y. eapply Nat.le_trans; [apply cnt_add|]. cbv iota. lia.
  - (* lookup *) destruct (get_obfuscated (stack s) x); cbn [fst]; [exact I|].
    apply (Inv_sub avoid0 s); [exact I| | cbn; lia | cbn; apply incl_tl, incl_refl].
    intros y. unfold gen_names. cbn [stack pool]. lia.
Qed.

Theorem run_Inv avoid0 ops : Inv avoid0 (run avoid0 ops).
Proof.
  unfold run. generalize (Inv_init avoid0). generalize (init avoid0).
  induction ops as [|o ops IH]; intros s I; [exact I|].
  cbn [fold_left]. apply IH. now apply step_Inv.
Qed.

(** ---------------------------------------------------------------------------------------
    the statement in terms of the three observations *)
Lemma cnt_flat_frame_names st x :
  cnt (flat_map frame_names st) x
  = (cnt (flat_map (fun f => reusable (f_dict f)) st) x + cnt (flat_map f_lost st) x)%nat.
Proof.
  induction st as [|f r IH]; [reflexivity|].
  cbn [flat_map]. unfold frame_names at 1. rewrite !cnt_app, IH. lia.
Qed.

Lemma cnt_gen_names s x :
  cnt (gen_names s) x = cnt (live_gen s ++ lost_gen s ++ pool s) x.
Proof.
  unfold gen_names, live_gen, lost_gen. rewrite !cnt_app, cnt_flat_frame_names. lia.
Qed.

Theorem scope_invariant : forall avoid0 ops,
  let s := run avoid0 ops in
  NoDup (live_gen s ++ lost_gen s ++ pool s) /\
  (forall n, In n (live_gen s ++ lost_gen s ++ pool s) ->
     valid_ident n = true /\ ~ In n keywords /\ ~ In n avoid0 /\ exists q, q < pos s /\ nth_raw q = n) /\
  incl (avoid0 ++ keywords) (avoid s).
Proof.
  intros avoid0 ops s. destruct (run_Inv avoid0 ops) as [N G A]. fold s in N, G, A.
  split; [|split; [|exact A]].
  - apply cnt_NoDup. intros x. rewrite <- cnt_gen_names. apply N.
  - intros n H. assert (H' : In n (gen_names s)).
    { apply cnt_In. rewrite cnt_gen_names. now apply cnt_In. }
    apply G in H' as [Q [V NA]]. repeat split; try assumption. now apply valid_not_keyword.
Qed.

(** the dictionaries behave like scopes: the innermost declaration wins, others are untouched *)
Lemma dict_get_remove_other d k x : bytes_eqb k x = false -> dict_get (dict_remove d k) x = dict_get d x.
Proof.
  intros NE. induction d as [|[k' v] d IH]; [reflexivity|].
  cbn [dict_remove dict_get]. destruct (bytes_eqb k' k) eqn:E1.
  - apply bytes_eqb_eq in E1. subst k'. rewrite NE. exact IH.
  - cbn [dict_get]. now rewrite IH.
Qed.

Theorem lookup_after_add s real obf reuse :
  get_obfuscated (stack (add s real obf reuse)) real = Some obf.
Proof.
  unfold add. destruct (stack s) as [|f r]; cbn [stack get_obfuscated frame_add f_dict dict_get];
    rewrite (proj2 (bytes_eqb_eq real real) eq_refl); reflexivity.
Qed.

Theorem lookup_other_after_add s real obf reuse x :
  real <> x -> get_obfuscated (stack (add s real obf reuse)) x = get_obfuscated (stack s) x.
Proof.
  intros NE. assert (E : bytes_eqb real x = false).
  { destruct (bytes_eqb real x) eqn:E; [apply bytes_eqb_eq in E; contradiction | reflexivity]. }
  unfold add. destruct (stack s) as [|f r]; cbn [stack get_obfuscated frame_add f_dict dict_get]; rewrite E.
  - reflexivity.
  - now rewrite dict_get_remove_other.
Qed.

(** ---------------------------------------------------------------------------------------
    generated names against the names that are kept as they are *)
Fixpoint keeps (ops : list op) : list name :=
  match ops with
  | [] => []
  | OKeep x :: r => x :: keeps r
  | _ :: r => keeps r
  end.

Lemma kept_remove d k : incl (kept (dict_remove d k)) (kept d).
Proof.
  induction d as [|[k' [o r]] d IH]; [apply incl_refl|].
  cbn [dict_remove]. destruct (bytes_eqb k' k).
  - unfold kept at 2. cbn [flat_map]. fold (kept d). apply incl_appr. exact IH.
  - unfold kept. cbn [flat_map]. fold (kept (dict_remove d k)). fold (kept d).
    apply incl_app; [apply incl_appl, incl_refl | apply incl_appr; exact IH].
Qed.

Lemma live_kept_add s real obf reuse :
  incl (live_kept (add s real obf reuse)) ((if reuse then [] else [obf]) ++ live_kept s).
Proof.
  unfold live_kept, add. destruct (stack s) as [|f r]; cbn [stack flat_map frame_add f_dict].
  - unfold kept. cbn [flat_map snd fst]. rewrite !app_nil_r. apply incl_refl.
  - unfold kept at 1. cbn [flat_map snd fst]. fold (kept (dict_remove (f_dict f) real)).
    rewrite <- app_assoc. apply incl_app; [apply incl_appl, incl_refl|].
    apply incl_appr. apply incl_app; [apply incl_appl, kept_remove | apply incl_appr, incl_refl].
Qed.

Lemma live_kept_step s o : incl (live_kept (fst (step s o))) (of_string "self" :: keeps [o] ++ live_kept s).
Proof.
  destruct o as [| |real| |real|x]; cbn [step keeps app].
  - cbn. apply incl_tl, incl_refl.
  - destruct (stack s) as [|f r] eqn:E; cbn [fst]; [apply incl_tl, incl_refl|].
    unfold live_kept. rewrite E. cbn [stack flat_map]. apply incl_tl, incl_appr, incl_refl.
  - unfold generate. destruct (pool s) as [|y r].
    + destruct (search _ search_bits (pos s)); cbn [fst].
      * eapply incl_tran; [apply live_kept_add|]. cbn. apply incl_tl, incl_refl.
      * cbn. apply incl_tl, incl_refl.
    + cbn [fst]. eapply incl_tran; [apply live_kept_add|]. cbn. apply incl_tl, incl_refl.
  - cbn [fst]. eapply incl_tran; [apply live_kept_add|]. cbn [app]. apply incl_refl.
  - cbn [fst]. eapply incl_tran; [apply live_kept_add|]. cbn [app]. apply incl_tl, incl_refl.
  - destruct (get_obfuscated (stack s) x); cbn [fst]; apply incl_tl, incl_refl.
Qed.

Lemma keeps_app a b : keeps (a ++ b) = keeps a ++ keeps b.
Proof.
  induction a as [|o a IH]; [reflexivity|]. destruct o; cbn [app keeps]; rewrite IH; reflexivity.
Qed.

Lemma live_kept_run avoid0 ops :
  incl (live_kept (run avoid0 ops)) (of_string "self" :: keeps ops).
Proof.
  induction ops as [|o ops IH] using rev_ind.
  - cbn. intros x [].
  - unfold run in *. rewrite fold_left_app. cbn [fold_left].
    eapply incl_tran; [apply live_kept_step|].
    rewrite keeps_app. intros x [H|H]; [now left|].
    apply in_app_or in H as [H|H].
    + right. apply in_or_app. now right.
    + apply IH in H as [H|H]; [now left | right; apply in_or_app; now left].
Qed.

(** no generated name collides with a kept one, as long as the kept function names were given to
    the processor as names to avoid (mod.rs: CollectFunctionNames) and the permutator has not
    reached "self" *)
Theorem generated_disjoint_from_kept : forall avoid0 ops,
  let s := run avoid0 ops in
  incl (keeps ops) avoid0 -> pos s <= self_index ->
  forall n, In n (live_gen s ++ lost_gen s ++ pool s) -> ~ In n (live_kept s).
Proof.
  intros avoid0 ops s K P n H HK.
  destruct (scope_invariant avoid0 ops) as [_ [G _]]. fold s in G.
  apply G in H as [_ [_ [NA [q [Hq E]]]]].
  apply live_kept_run in HK as [HK|HK].
  - rewrite <- nth_raw_self in HK. subst n. apply nth_raw_inj in HK. lia.
  - apply NA. now apply K.
Qed.

(** ---------------------------------------------------------------------------------------
    the order of the reuse pool is total on generated names: the HashMap iteration order in
    [Scope::pop] (values are extended in arbitrary order, then sorted) cannot influence it *)
Lemma cmp_char_eq a b :
  is_ident_char a = true -> is_ident_char b = true -> cmp_char a b = Eq -> a = b.
Proof.
  unfold cmp_char, is_ident_char, is_ident_start, is_lower, is_upper, is_digit. intros Ha Hb.
  destruct (a =? b) eqn:E; [intros _; lia|].
  destruct ((48 <=? a) && (a <=? 57) && ((48 <=? b) && (b <=? 57))
            || (97 <=? a) && (a <=? 122) && ((97 <=? b) && (b <=? 122))
            || (65 <=? a) && (a <=? 90) && ((65 <=? b) && (b <=? 90))) eqn:C.
  - intros K. apply N.compare_eq in K. exact K.
  - destruct ((48 <=? a) && (a <=? 57)) eqn:D1; [discriminate|].
    destruct ((48 <=? b) && (b <=? 57)) eqn:D2; [discriminate|].
    destruct (a =? 95) eqn:U1; [discriminate|]. destruct (b =? 95) eqn:U2; [discriminate|].
    destruct ((97 <=? a) && (a <=? 122)) eqn:L1; [discriminate|].
    destruct ((97 <=? b) && (b <=? 122)) eqn:L2; [discriminate|]. intros _. lia.
Qed.

Theorem cmp_ident_total : forall a b,
  Forall (fun c => is_ident_char c = true) a -> Forall (fun c => is_ident_char c = true) b ->
  cmp_ident a b = Eq -> a = b.
Proof.
  induction a as [|x a IH]; intros [|y b] Fa Fb H; cbn [cmp_ident] in H; try discriminate; [reflexivity|].
  inversion Fa; inversion Fb; subst.
  destruct (cmp_char x y) eqn:C; try discriminate.
  apply cmp_char_eq in C; try assumption. subst y. f_equal. now apply IH.
Qed.
