(** C01, expression-level rewrites that rest on the static evaluator (C08):
    compute_expression ([compute_replace_sound], [compute_andor_sound], the refuted multi-value
    position), the if-expression form of remove_unused_if_branch, convert_index_to_field,
    remove_function_call_parens. *)
From Coq Require Import ZArith NArith List Bool String Lia.
From Coq Require Import Floats.SpecFloat.
From DL Require Import Lib.Bytes Lib.F64 Lua.Syntax Lua.Sem Model.Evaluator Model.DefaultRules
  Lua.EvalSpec Lua.EvalSpec2 Proof.SemFacts Proof.EvaluatorStore Proof.EvaluatorF64 Proof.EvaluatorInv
  Proof.EvaluatorSound Proof.DefaultRulesSem.
Import ListNotations.
Open Scope N_scope.
Local Notation llen := List.length.

(** * What the C08 invariant gives for an expression free of side effects *)

Lemma pure_run d e n rho va s vs s' :
  has_side_effects false e = false -> deep_safe d e = true -> env_plain s ->
  eval d n rho va e s = Ok vs s' -> store_extends s s' /\ lv_ok s s' (evaluate e) (first vs).
Proof.
  intros Hs Hd He H. unfold deep_safe in Hd. apply andb_true_iff in Hd as [Hd Ht].
  eapply (proj1 (main_all d n) false e rho va s vs s'); [|exact He|exact H].
  cbn [Hyp]. unfold HypP. auto.
Qed.

Lemma pure_run1 d e n rho va s v s' :
  has_side_effects false e = false -> deep_safe d e = true -> env_plain s ->
  eval1 d n rho va e s = Ok v s' -> store_extends s s' /\ lv_ok s s' (evaluate e) v.
Proof.
  intros Hs Hd He H. unfold deep_safe in Hd. apply andb_true_iff in Hd as [Hd Ht].
  eapply (proj1 (proj2 (main_all d n)) false e rho va s v s'); [|exact He|exact H].
  cbn [Hyp]. unfold HypP. auto.
Qed.

Lemma len1 {A} (dflt : A) (vs : list A) : llen vs = 1%nat -> exists v, vs = [v].
Proof. destruct vs as [|v [|w vs]]; try discriminate. eauto. Qed.

(** * compute_expression *)

(** the three kinds of node [Computer::replace_with] looks at yield exactly one value *)
Definition computable_shape (e : expr) : bool :=
  match e with EUnary _ _ | EBinary _ _ _ | EIf _ _ => true | _ => false end.

Lemma computable_single d e n rho va s vs s' :
  computable_shape e = true -> eval d n rho va e s = Ok vs s' -> vs = [first vs].
Proof.
  intros Hc H. destruct n as [|n]; [discriminate|].
  destruct e; try discriminate Hc.
  - rewrite eval_S_if in H. apply if_go_single in H. destruct (len1 VNil _ H) as [v ->]. reflexivity.
  - rewrite eval_S_unary in H. apply bind_ok in H as (v & s1 & _ & H). destruct op.
    + inv_ok H. subst; reflexivity.
    + destruct (tonum v); [inv_ok H; subst; reflexivity|].
      apply bind_ok in H as (h & s2 & _ & H). destruct h; inv_ok H; subst; reflexivity.
    + inv_ok H. subst; reflexivity.
  - destruct (is_andor op) eqn:Eo.
    + destruct op; try discriminate Eo.
      * rewrite eval_S_and in H. apply bind_ok in H as (a & s1 & _ & H).
        destruct (truthy a); inv_ok H; subst; reflexivity.
      * rewrite eval_S_or in H. apply bind_ok in H as (a & s1 & _ & H).
        destruct (truthy a); inv_ok H; subst; reflexivity.
    + rewrite (eval_S_binop _ _ _ _ _ _ _ Eo) in H.
      apply bind_ok in H as (a & s1 & _ & H). apply bind_ok in H as (b & s2 & _ & H).
      destruct op; try discriminate Eo; cbn [binop_sem] in H; inv_ok H; subst; reflexivity.
Qed.

(** evaluation of the literals [LuaValue::to_expression] builds *)
Section Literals.
Variable d : dialect.
Variables (rho : env) (va : list value).

Lemma eval1_dec n x s : valid x -> eval1 d (S (S n)) rho va (dec x) s = Ok (VNum x) s.
Proof.
  intros Hv. unfold dec. rewrite eval1_S, eval_S_number. cbn [number_value].
  rewrite (of_to_bits _ Hv). reflexivity.
Qed.

Lemma eval_dec n x s : valid x -> eval d (S n) rho va (dec x) s = Ok [VNum x] s.
Proof.
  intros Hv. unfold dec. rewrite eval_S_number. cbn [number_value].
  rewrite (of_to_bits _ Hv). reflexivity.
Qed.

Lemma eval_neg_dec n x s : valid x ->
  eval d (S (S (S n))) rho va (EUnary UMinus (dec x)) s = Ok [VNum (fneg x)] s.
Proof.
  intros Hv. rewrite eval_S_unary. unfold bind. rewrite (eval1_dec _ _ _ Hv). reflexivity.
Qed.

Lemma eval1_neg_dec n x s : valid x ->
  eval1 d (S (S (S (S n)))) rho va (EUnary UMinus (dec x)) s = Ok (VNum (fneg x)) s.
Proof. intros Hv. rewrite eval1_S. unfold bind. rewrite (eval_neg_dec _ _ _ Hv). reflexivity. Qed.

Lemma eval_div n a b x y s :
  eval1 d (S n) rho va a s = Ok (VNum x) s -> eval1 d (S n) rho va b s = Ok (VNum y) s ->
  eval d (S (S n)) rho va (EBinary BDiv a b) s = Ok [VNum (fdiv x y)] s.
Proof.
  intros Ha Hb. rewrite eval_S_binop by reflexivity. unfold bind. rewrite Ha, Hb.
  cbn [binop_sem]. unfold bind. rewrite arith_S. reflexivity.
Qed.

Lemma valid_fzero : valid fzero. Proof. reflexivity. Qed.

Lemma lit_of_f64_eval x n s : valid x ->
  eval d (S (S (S (S (S n))))) rho va (lit_of_f64 x) s = Ok [VNum x] s.
Proof.
  intros Hv. destruct x as [sg|sg| |sg m e]; cbn [lit_of_f64].
  - apply eval_dec. exact Hv.
  - destruct sg.
    + rewrite (eval_div _ _ _ (fneg fone) fzero); [reflexivity| |].
      * apply eval1_neg_dec. apply valid_fone.
      * apply eval1_dec. apply valid_fzero.
    + rewrite (eval_div _ _ _ fone fzero); [reflexivity| |]; apply eval1_dec; (apply valid_fone || apply valid_fzero).
  - rewrite (eval_div _ _ _ fzero fzero); [reflexivity| |]; apply eval1_dec; apply valid_fzero.
  - destruct sg.
    + rewrite eval_neg_dec; [reflexivity|exact Hv].
    + apply eval_dec. exact Hv.
Qed.

Lemma lit_of_lv_eval s0 s1 v x lit n s :
  lit_of_lv v = Some lit -> lv_ok s0 s1 v x ->
  eval d (S (S (S (S (S n))))) rho va lit s = Ok [x] s.
Proof.
  intros Hl Hok. destruct v; cbn [lit_of_lv] in Hl; inversion Hl; subst; clear Hl.
  - destruct x; try contradiction. destruct b; [contradiction|]. reflexivity.
  - destruct x; try contradiction. reflexivity.
  - destruct x; try contradiction. cbn in Hok. destruct Hok as [<- Hv]. now apply lit_of_f64_eval.
  - destruct x; try contradiction. cbn in Hok. subst. reflexivity.
  - destruct x; try contradiction. destruct b; [|contradiction]. reflexivity.
Qed.

End Literals.

(** Replacing a side-effect-free [Unary]/[Binary]/[If] node whose static value is a
    boolean, nil, a string or a number by the literal of that value: the literal evaluates,
    in the ORIGINAL store and with any fuel >= 5, to exactly the value list of the node
    (numbers bit for bit); the node itself only added fresh allocations to the store. *)
Theorem compute_replace_sound : forall d e lit n rho va s vs s',
  computable_shape e = true ->
  has_side_effects false e = false -> deep_safe d e = true -> env_plain s ->
  lit_of_lv (evaluate e) = Some lit ->
  eval d n rho va e s = Ok vs s' ->
  store_extends s s' /\
  forall n', (5 <= n')%nat -> eval d n' rho va lit s = Ok vs s.
Proof.
  intros d e lit n rho va s vs s' Hc Hs Hd He Hl H.
  destruct (pure_run _ _ _ _ _ _ _ _ Hs Hd He H) as [Hext Hok]. split; [exact Hext|].
  intros n' Hn. do 5 (destruct n' as [|n']; [lia|]).
  rewrite (computable_single _ _ _ _ _ _ _ _ Hc H).
  eapply lit_of_lv_eval; eauto.
Qed.

(** the first arm of [rw_compute] is this replacement *)
Lemma rw_compute_literal e lit :
  computable_shape e = true -> has_side_effects false e = false ->
  lit_of_lv (evaluate e) = Some lit -> rw_compute e = lit.
Proof.
  intros Hc Hs Hl. destruct e; try discriminate Hc; cbn [rw_compute]; unfold hse; rewrite Hs, Hl; reflexivity.
Qed.

(** ** [and] / [or] with a side-effect-free left operand of known truthiness *)

Definition is_and (op : binop) : bool := match op with BAnd => true | _ => false end.

(** the operand [rw_compute] keeps when the whole expression has side effects *)
Lemma rw_compute_andor op l r b :
  (op = BAnd \/ op = BOr) -> has_side_effects false (EBinary op l r) = true ->
  has_side_effects false l = false -> is_truthy (evaluate l) = Some b ->
  rw_compute (EBinary op l r) = if Bool.eqb b (is_and op) then r else l.
Proof.
  intros [-> | ->] Hs Hl Hb; cbn [rw_compute]; unfold hse; rewrite Hs, Hl, Hb; destruct b; reflexivity.
Qed.

(** In a single-value position the kept operand yields the value of the whole expression.
    When the right operand is kept, it runs in a store [s1] that differs from [s] only by the
    fresh allocations of the dropped left operand; when the left operand is kept the run is
    the same run. *)
Theorem compute_andor_sound : forall d op l r n rho va s vs s' b,
  (op = BAnd \/ op = BOr) ->
  has_side_effects false l = false -> deep_safe d l = true -> env_plain s ->
  is_truthy (evaluate l) = Some b ->
  eval d n rho va (EBinary op l r) s = Ok vs s' ->
  exists m, n = S m /\
    if Bool.eqb b (is_and op)
    then exists s1 v, store_extends s s1 /\ eval1 d m rho va r s1 = Ok v s' /\ vs = [v]
    else exists v, eval1 d m rho va l s = Ok v s' /\ vs = [v].
Proof.
  intros d op l r n rho va s vs s' b Hop Hs Hd He Hb H.
  destruct n as [|m]; [discriminate|]. exists m. split; [reflexivity|].
  destruct Hop as [-> | ->]; cbn [is_and].
  - rewrite eval_S_and in H. apply bind_ok in H as (a & s1 & Ha & H).
    destruct (pure_run1 _ _ _ _ _ _ _ _ Hs Hd He Ha) as [Hext Hok].
    rewrite (lv_ok_truthy _ _ _ _ _ Hok Hb) in H. destruct b; cbn [Bool.eqb].
    + inv_ok H. subst. eauto 6.
    + inv_ok H. subst. eauto.
  - rewrite eval_S_or in H. apply bind_ok in H as (a & s1 & Ha & H).
    destruct (pure_run1 _ _ _ _ _ _ _ _ Hs Hd He Ha) as [Hext Hok].
    rewrite (lv_ok_truthy _ _ _ _ _ Hok Hb) in H. destruct b; cbn [Bool.eqb].
    + inv_ok H. subst. eauto.
    + inv_ok H. subst. eauto 6.
Qed.

(** REFUTED in a multi-value position (recorded finding: [return true and f()] becomes
    [return f()]): the last expression of a list keeps all its values, and [rw_compute]
    does not parenthesise the kept operand. *)
Definition fb0 (blk : block) : fbody := FBody [] false None None None 0 blk.
Definition two_values : expr :=
  ECall (EParen (EFunction (fb0 (Block [] (Some (LReturn [ENumber (NDec (to_bits fone) None);
                                                          ENumber (NDec (to_bits (of_Z 2)) None)]))))))
        None (ATuple []).
Definition e_true_and_call : expr := EBinary BAnd ETrue two_values.

Theorem compute_multivalue_refuted : exists d n rho va s e vs s' vs2 s2,
  env_plain s /\
  eval_list d n rho va [e] s = Ok vs s' /\ eval_list d n rho va [rw_compute e] s = Ok vs2 s2 /\
  llen vs = 1%nat /\ llen vs2 = 2%nat.
Proof.
  set (s := initial_store []).
  set (r1 := eval_list L51 20 [] [] [e_true_and_call] s).
  set (r2 := eval_list L51 20 [] [] [rw_compute e_true_and_call] s).
  exists L51, 20%nat, [], [], s, e_true_and_call, (ok_vs r1), (ok_st s r1), (ok_vs r2), (ok_st s r2).
  split; [apply env_plain_initial|]. repeat split; vm_compute; reflexivity.
Qed.

(** the hypotheses of the two positive theorems are satisfiable *)
Example compute_replace_example :
  let e := EBinary BConcat (EString (of_string "a")) (EBinary BAdd (ENumber (NDec (to_bits fone) None)) (EString (of_string "2"))) in
  let s := initial_store [] in
  computable_shape e = true /\ has_side_effects false e = false /\ deep_safe L51 e = true /\ env_plain s /\
  lit_of_lv (evaluate e) = Some (EString (of_string "a3")) /\ rw_compute e = EString (of_string "a3") /\
  exists s', eval L51 20 [] [] e s = Ok [VStr (of_string "a3")] s'.
Proof.
  cbv zeta. repeat split; try (vm_compute; reflexivity); try apply env_plain_initial.
  eexists. vm_compute. reflexivity.
Qed.

Example compute_andor_example :
  let l := EBinary BEq (ENumber (NDec (to_bits fone) None)) (ENumber (NDec (to_bits fone) None)) in
  let r := ECall (EIdent (of_string "ext_f")) None (ATuple []) in
  let s := initial_store [[ONum 7]] in
  has_side_effects false (EBinary BAnd l r) = true /\
  has_side_effects false l = false /\ deep_safe Luau l = true /\ env_plain s /\
  is_truthy (evaluate l) = Some true /\ rw_compute (EBinary BAnd l r) = r /\
  exists s', eval Luau 20 [] [] (EBinary BAnd l r) s = Ok [VNum (of_bits 7)] s'.
Proof.
  cbv zeta. repeat split; try (vm_compute; reflexivity); try apply env_plain_initial.
  eexists. vm_compute. reflexivity.
Qed.

(** * remove_unused_if_branch, expression form *)

Lemma paren_if_multi_eval d r n rho va s v s' :
  eval1 d (S n) rho va r s = Ok v s' ->
  exists n', eval d n' rho va (paren_if_multi r) s = Ok [v] s'.
Proof.
  intros H. unfold paren_if_multi. destruct (can_return_multiple_values r) eqn:Ec.
  - exists (S (S n)). rewrite eval_S_paren. unfold bind. rewrite H. reflexivity.
  - rewrite eval1_S in H. apply bind_ok in H as (vs & s1 & Hv & H). inv_ok H. subst.
    exists n. pose proof (single_sound _ _ _ _ _ _ _ _ Ec Hv) as Hl.
    destruct (len1 VNil _ Hl) as [w ->]. exact Hv.
Qed.

(** [if c then r elseif ... else ...] with [c] free of side effects and statically truthy is
    replaced by [r] (parenthesised when [r] may yield several values): same value list, the
    result running in a store that differs from [s] by the fresh allocations of [c] only. *)
Theorem if_expr_true_sound : forall d c r rest els n rho va s vs s',
  has_side_effects false c = false -> deep_safe d c = true -> env_plain s ->
  is_truthy (evaluate c) = Some true ->
  eval d n rho va (EIf (EBranch c r :: rest) els) s = Ok vs s' ->
  rw_if_expr (EIf (EBranch c r :: rest) els) = paren_if_multi r /\
  exists s1 n', store_extends s s1 /\ eval d n' rho va (paren_if_multi r) s1 = Ok vs s'.
Proof.
  intros d c r rest els n rho va s vs s' Hs Hd He Hb H. split.
  { cbn [rw_if_expr]. destruct rest; cbn [simplify_if]; unfold hse; rewrite Hb, Hs; reflexivity. }
  destruct n as [|n]; [discriminate|]. rewrite eval_S_if, if_go_cons in H.
  apply bind_ok in H as (cv & s1 & Hc & H).
  destruct (pure_run1 _ _ _ _ _ _ _ _ Hs Hd He Hc) as [Hext Hok].
  rewrite (lv_ok_truthy _ _ _ _ _ Hok Hb) in H.
  apply bind_ok in H as (v & s2 & Hr & H). inv_ok H. subst.
  destruct n as [|n]; [discriminate|].
  destruct (paren_if_multi_eval _ _ _ _ _ _ _ _ Hr) as [n' Hn']. eauto.
Qed.

(** statically falsy: the node behaves as the rest of the chain *)
Theorem if_expr_false_sound : forall d c r rest els n rho va s vs s',
  has_side_effects false c = false -> deep_safe d c = true -> env_plain s ->
  is_truthy (evaluate c) = Some false ->
  eval d n rho va (EIf (EBranch c r :: rest) els) s = Ok vs s' ->
  exists s1 n', store_extends s s1 /\
    eval d n' rho va (match rest with [] => paren_if_multi els | _ => EIf rest els end) s1 = Ok vs s'.
Proof.
  intros d c r rest els n rho va s vs s' Hs Hd He Hb H.
  destruct n as [|n]; [discriminate|]. rewrite eval_S_if, if_go_cons in H.
  apply bind_ok in H as (cv & s1 & Hc & H).
  destruct (pure_run1 _ _ _ _ _ _ _ _ Hs Hd He Hc) as [Hext Hok].
  rewrite (lv_ok_truthy _ _ _ _ _ Hok Hb) in H.
  destruct rest as [|b2 rest].
  - rewrite if_go_nil in H. apply bind_ok in H as (v & s2 & Hr & H). inv_ok H. subst.
    destruct n as [|n]; [discriminate|].
    destruct (paren_if_multi_eval _ _ _ _ _ _ _ _ Hr) as [n' Hn']. eauto.
  - exists s1, (S n). split; [exact Hext|]. rewrite eval_S_if. exact H.
Qed.

(** one elimination step of [simplify_if] on a statically falsy, pure first condition *)
Lemma rw_if_expr_false_step c r c2 r2 rest els :
  has_side_effects false c = false -> is_truthy (evaluate c) = Some false ->
  rw_if_expr (EIf (EBranch c r :: EBranch c2 r2 :: rest) els) = rw_if_expr (EIf (EBranch c2 r2 :: rest) els).
Proof. intros Hs Hb. cbn [rw_if_expr simplify_if]. unfold hse. rewrite Hb, Hs. reflexivity. Qed.

Example if_expr_example :
  let c := EUnary UNot ENil in
  let r := ECall (EIdent (of_string "ext_f")) None (ATuple []) in
  let e := EIf [EBranch c r] (EString (of_string "no")) in
  let s := initial_store [[ONum 1; ONum 2]] in
  has_side_effects false c = false /\ deep_safe L51 c = true /\ env_plain s /\
  is_truthy (evaluate c) = Some true /\ rw_if_expr e = EParen r /\
  exists s', eval L51 20 [] [] e s = Ok [VNum (of_bits 1)] s'.
Proof.
  cbv zeta. repeat split; try (vm_compute; reflexivity); try apply env_plain_initial.
  eexists. vm_compute. reflexivity.
Qed.

(** * convert_index_to_field *)

(** a string-literal key: whatever [p["x"]] yields (values, a Lua error, unsupported), [p.x]
    yields at the same fuel *)
Lemma index_literal_tail d m rho va o str s1 :
  (kv <- eval1 d (S (S m)) rho va (EString str) ;; v <- index d (S (S m)) o kv ;; ret [v]) s1 =
  (v <- index d (S (S m)) o (VStr str) ;; ret [v]) s1.
Proof. rewrite eval1_S, eval_S_string. generalize (S (S m)). intros k. reflexivity. Qed.

Theorem index_to_field_literal_sound : forall d n rho va p str s r,
  eval d n rho va (EIndex p (EString str)) s = r -> r <> Fuel ->
  eval d n rho va (EField p str) s = r.
Proof.
  intros d n rho va p str s r H Hf. subst r.
  destruct n as [|n]; [exfalso; apply Hf; apply eval_0|].
  rewrite eval_S_index in *. rewrite eval_S_field. symmetry. apply bind_eq. intros o s1 Ep.
  unfold bind at 1 in Hf. rewrite Ep in Hf.
  destruct n as [|[|m]].
  - rewrite eval1_0 in Ep. discriminate.
  - exfalso. apply Hf. unfold bind at 1. rewrite eval1_S. unfold bind at 1. rewrite eval_0. reflexivity.
  - apply index_literal_tail.
Qed.

(** the general case: the key is free of side effects and statically the string [str].
    The run of [p[k]] is: the prefix ([o], [s1]), then the key, which yields exactly [VStr str]
    and only adds fresh allocations ([s2]), then [index o "str"] in [s2].  [p.str] is: the
    same prefix run, then [index o "str"] in [s1] ([eval_S_field]).  [env_plain] is required
    of the store in which the key is evaluated (after the prefix). *)
Theorem index_to_field_sound : forall d p k str n rho va s vs s',
  has_side_effects false k = false -> deep_safe d k = true -> evaluate k = LString str ->
  (forall m o s1, eval1 d m rho va p s = Ok o s1 -> env_plain s1) ->
  eval d n rho va (EIndex p k) s = Ok vs s' ->
  exists m o s1 s2 v,
    n = S m /\ eval1 d m rho va p s = Ok o s1 /\
    eval1 d m rho va k s1 = Ok (VStr str) s2 /\ store_extends s1 s2 /\
    index d m o (VStr str) s2 = Ok v s' /\ vs = [v] /\
    eval d n rho va (EField p str) s = (v <- index d m o (VStr str) ;; ret [v]) s1.
Proof.
  intros d p k str n rho va s vs s' Hs Hd Hk He H.
  destruct n as [|m]; [discriminate|]. rewrite eval_S_index in H.
  apply bind_ok in H as (o & s1 & Ho & H). apply bind_ok in H as (kv & s2 & Hkv & H).
  apply bind_ok in H as (v & s3 & Hv & H). inv_ok H. subst.
  destruct (pure_run1 _ _ _ _ _ _ _ _ Hs Hd (He _ _ _ Ho) Hkv) as [Hext Hok].
  rewrite Hk in Hok. destruct kv; try contradiction. cbn in Hok. subst s0.
  exists m, o, s1, s2, v.
  split; [reflexivity|]. split; [exact Ho|]. split; [exact Hkv|]. split; [exact Hext|].
  split; [exact Hv|]. split; [reflexivity|].
  rewrite eval_S_field. unfold bind at 1. rewrite Ho. reflexivity.
Qed.

(** a raw hit in a table: no metamethod runs, the store is left alone *)
Lemma index_raw_hit d m a t k s :
  nth_N (tables s) (N.to_nat a) = Some t -> norm_key k = Some k -> raw_get (t_entries t) k <> VNil ->
  index d (S m) (VTable a) k s = Ok (raw_get (t_entries t) k) s.
Proof.
  intros Ht Hk Hr. rewrite index_S_table. unfold bind. rewrite (get_table_some _ _ _ Ht). rewrite Hk.
  destruct (raw_get (t_entries t) k); try reflexivity. congruence.
Qed.

(** when the prefix is a table that holds the key (no metamethod runs), both forms yield the
    same value list; the final store of [p.str] is the one of [p[k]] minus the key's fresh
    allocations *)
Theorem index_to_field_raw_sound : forall d p k str n rho va s vs s',
  has_side_effects false k = false -> deep_safe d k = true -> evaluate k = LString str ->
  (forall m o s1, eval1 d m rho va p s = Ok o s1 ->
     env_plain s1 /\ exists a t, o = VTable a /\ nth_N (tables s1) (N.to_nat a) = Some t /\
                                 raw_get (t_entries t) (VStr str) <> VNil) ->
  eval d n rho va (EIndex p k) s = Ok vs s' ->
  exists s1, eval d n rho va (EField p str) s = Ok vs s1 /\ store_extends s1 s'.
Proof.
  intros d p k str n rho va s vs s' Hs Hd Hk He H.
  destruct (index_to_field_sound _ _ _ _ _ _ _ _ _ _ Hs Hd Hk (fun m o s1 E => proj1 (He m o s1 E)) H)
    as (m & o & s1 & s2 & v & -> & Ho & Hkv & Hext & Hv & -> & Hf).
  destruct (He _ _ _ Ho) as (_ & a & t & -> & Ht & Hr).
  destruct m as [|m]; [discriminate|].
  assert (nth_N (tables s2) (N.to_nat a) = Some t) as Ht2.
  { destruct Hext as (_ & _ & _ & _ & Hx & _). eapply nth_N_extends; eauto. }
  rewrite (index_raw_hit d m a t (VStr str) s2 Ht2 eq_refl Hr) in Hv. inversion Hv; subst; clear Hv.
  exists s1. split; [|exact Hext]. rewrite Hf. unfold bind.
  rewrite (index_raw_hit d m a t (VStr str) s1 Ht eq_refl Hr). reflexivity.
Qed.

Example index_to_field_example :
  let k := EBinary BConcat (EString (of_string "ma")) (EString (of_string "th")) in
  let e := EIndex (EIdent (of_string "_G")) k in
  let s := initial_store [] in
  has_side_effects false k = false /\ deep_safe L51 k = true /\ evaluate k = LString (of_string "math") /\
  env_plain s /\ rw_index_to_field e = EField (EIdent (of_string "_G")) (of_string "math") /\
  exists s', eval L51 20 [] [] e s = Ok [VTable A_math] s'.
Proof.
  cbv zeta. repeat split; try (vm_compute; reflexivity); try apply env_plain_initial.
  eexists. vm_compute. reflexivity.
Qed.

(** * remove_function_call_parens *)

(** [f("s")] and [f "s"]: the argument lists evaluate alike ... *)
Theorem call_parens_string_args : forall d n rho va str s r,
  eval_args d n rho va (ATuple [EString str]) s = r -> r <> Fuel ->
  eval_args d n rho va (AString str) s = r.
Proof.
  intros d n rho va str s r H Hf.
  destruct n as [|n]; [subst; exfalso; apply Hf; reflexivity|]. rewrite eval_args_S_tuple in H.
  destruct n as [|n]; [subst; exfalso; apply Hf; reflexivity|]. rewrite eval_list_S_one in H.
  destruct n as [|n]; [subst; exfalso; apply Hf; reflexivity|]. rewrite eval_S_string in H.
  rewrite eval_args_S_string. exact H.
Qed.

(** ... and so do the calls, at the same fuel *)
Theorem call_parens_string_sound : forall d n rho va p m str s vs s',
  eval d n rho va (ECall p m (ATuple [EString str])) s = Ok vs s' ->
  rw_call_parens (ECall p m (ATuple [EString str])) = ECall p m (AString str) /\
  eval d n rho va (ECall p m (AString str)) s = Ok vs s'.
Proof.
  intros d n rho va p m str s vs s' H. split; [reflexivity|].
  destruct n as [|n]; [discriminate|]. rewrite eval_S_call in *.
  apply bind_ok in H as (o & s1 & Ho & H). unfold bind at 1. rewrite Ho.
  destruct m as [mname|].
  - apply bind_ok in H as (f & s2 & Hf & H). unfold bind at 1. rewrite Hf.
    apply bind_ok in H as (args & s3 & Ha & H). unfold bind at 1.
    rewrite (call_parens_string_args _ _ _ _ _ _ _ Ha) by discriminate. exact H.
  - apply bind_ok in H as (args & s3 & Ha & H). unfold bind at 1.
    rewrite (call_parens_string_args _ _ _ _ _ _ _ Ha) by discriminate. exact H.
Qed.

(** [f({...})] and [f {...}]: the same computation of the argument list, two units of fuel
    apart, for every outcome *)
Theorem call_parens_table_args : forall d n rho va ens s,
  eval_args d (S (S (S n))) rho va (ATuple [ETable ens]) s = eval_args d (S n) rho va (ATable ens) s.
Proof.
  intros. rewrite eval_args_S_tuple, eval_list_S_one, eval_S_table, eval_args_S_table. reflexivity.
Qed.

Example call_parens_example :
  let e := ECall (EIdent (of_string "ext_f")) None (ATuple [EString (of_string "s")]) in
  let s := initial_store [[ONum 3]] in
  exists s', eval L51 20 [] [] e s = Ok [VNum (of_bits 3)] s' /\
             eval L51 20 [] [] (rw_call_parens e) s = Ok [VNum (of_bits 3)] s'.
Proof. cbv zeta. eexists. split; vm_compute; reflexivity. Qed.
