(** A bounded, exhaustive complement to [convert_keeps_target]: on a fixed universe that
    also contains aliases (with longest-alias selection), a custom module folder name,
    file-valued aliases (an ordinary file and a module-folder file),
    module-folder requiring files at every depth, absolute targets and targets reached
    through redundant segments, every conversion between the path and the luau mode keeps
    the target unless (a) the target is not the first existing candidate of its stripped
    form, or (b) the resolved path starts with "."/".." and the requiring file is not
    directly in the working directory. Proved by evaluation ([vm_compute]) of all
    6 configuration pairs x 128 file subsets x 6 requiring files x 35 require strings. *)
From DL Require Import Lib.Bytes Model.Paths Model.Require Proof.PathsBasics Proof.PathsFacts Proof.PathsConvert.
Open Scope N_scope.
Local Open Scope string_scope.

Definition BS (s : string) : bytes := of_string s.
Definition BP (s : string) : path := parse_path (BS s).

(** carve-out (a), for any resolved path: compare files, not spellings *)
Definition ambiguousb (tgt : config) (f : fs) (t : path) : bool :=
  match first_file f (candidates (strip_target tgt (normalize false t)) (module_folder_name tgt)) with
  | Some q => negb (same_file q t)
  | None => true
  end.
(** carve-out (b) *)
Definition nested (src : path) : bool := Nat.ltb 1 (List.length (normalize false src)).
Definition relative_result (src t : path) : bool := is_require_relative t && nested src.

Definition conv_ok (cur tgt : config) (f : fs) (src : path) (lit : bytes) : bool :=
  match find_require cur [] f src lit with
  | Found t =>
    match find_require tgt [] f src (generate_require tgt src t) with
    | Found t' => same_file t' t
    | Failed _ => false
    end || ambiguousb tgt f t || relative_result src t
  | Failed _ => true
  end.

Definition mk_config (luau : bool) (mfn : string) (srcs : list (string * string)) (proj : option string) : config :=
  {| c_luau := luau; c_mfn := BS mfn; c_sources := map (fun kv => (BS (fst kv), BP (snd kv))) srcs;
     c_project := option_map BP proj; c_use_rc := false |}.

Definition bounded_pairs : list (config * config) :=
  [ (mk_config false "init" [] None, mk_config true "init" [] None);
    (mk_config true "init" [] None, mk_config false "init" [] None);
    (mk_config false "index" [] None, mk_config true "init" [] None);
    (mk_config true "init" [] None, mk_config false "index" [] None);
    (mk_config false "init" [("pkg", "pkg"); ("@deep", "pkg/b"); ("@binit", "src/b/init.lua"); ("@bfile", "pkg/b.lua")] (Some ""),
     mk_config true "init" [("@pkg", "pkg"); ("@deep", "pkg/b"); ("@binit", "src/b/init.lua"); ("@bfile", "pkg/b.lua")] (Some ""));
    (mk_config true "init" [("@pkg", "pkg"); ("@deep", "pkg/b"); ("@binit", "src/b/init.lua"); ("@bfile", "pkg/b.lua")] (Some ""),
     mk_config false "init" [("@pkg", "pkg"); ("@deep", "pkg/b"); ("@binit", "src/b/init.lua"); ("@bfile", "pkg/b.lua")] (Some "")) ].

Definition bounded_optional : list path :=
  map BP ["src/b.lua"; "src/b.luau"; "src/b/init.lua"; "pkg/b.lua"; "pkg/b/c.luau"; "b.lua"; "/abs/b.lua"].
Definition bounded_base : list path :=
  map BP ["src/a.lua"; "src/init.lua"; "main.lua"; "init.luau"; "src/sub/init.luau"; "src/sub/c.lua"].
Definition bounded_sources : list path := bounded_base.
Definition bounded_literals : list bytes :=
  map BS ["./b"; "./b.lua"; "./b.luau"; "./b/init"; "./b/init.lua"; "./b/index"; "../b"; "../src/b"; "./x/../b"; "../../b";
          "@self/b"; "@self"; "."; ".."; "./sub"; "./c"; "../c"; "./a"; "../a"; "./init"; "../init";
          "pkg/b"; "@pkg/b"; "@pkg/b.lua"; "@pkg/b/c"; "@deep"; "@deep/c"; "/abs/b"; "/abs/b.lua"; "../pkg/b"; "./pkg/b"; "src/b"; "b"; "@binit"; "@bfile"].

Fixpoint select_mask {A} (l : list A) (mask : N) : list A :=
  match l with
  | [] => []
  | x :: r => if N.odd mask then x :: select_mask r (N.div2 mask) else select_mask r (N.div2 mask)
  end.
Definition bounded_masks : list N := map N.of_nat (seq 0 128).
(** the in-memory file system holding the always-present files and the subset [mask] of the optional ones *)
Definition bounded_fs (mask : N) : fs := (select_mask (mk_fs bounded_optional) mask ++ mk_fs bounded_base)%list.

(** the four nested enumerations; the statement that is evaluated is an explicit [forallb]
    (a defined constant here would make the kernel unfold the wrong side at [Qed]) *)
Definition ok_literals (cur tgt : config) (f : fs) (src : path) : bool :=
  forallb (conv_ok cur tgt f src) bounded_literals.
Definition ok_sources (cur tgt : config) (f : fs) : bool := forallb (ok_literals cur tgt f) bounded_sources.
Definition ok_masks (cur tgt : config) : bool :=
  forallb (fun mask => ok_sources cur tgt (bounded_fs mask)) bounded_masks.

Lemma bounded_ok_true : forallb (fun pr => ok_masks (fst pr) (snd pr)) bounded_pairs = true.
Proof. vm_compute. reflexivity. Qed.

Lemma bounded_all :
  forall pr, In pr bounded_pairs -> forall mask, In mask bounded_masks ->
  forall src, In src bounded_sources -> forall lit, In lit bounded_literals ->
  conv_ok (fst pr) (snd pr) (bounded_fs mask) src lit = true.
Proof.
  intros pr Hp mask Hm src Hs lit Hl.
  pose proof (proj1 (forallb_forall _ _) bounded_ok_true pr Hp) as H1. cbv beta in H1.
  unfold ok_masks in H1.
  pose proof (proj1 (forallb_forall _ _) H1 mask Hm) as H2. cbv beta in H2. clear H1.
  unfold ok_sources in H2.
  pose proof (proj1 (forallb_forall _ _) H2 src Hs) as H3. clear H2.
  unfold ok_literals in H3.
  exact (proj1 (forallb_forall _ _) H3 lit Hl).
Qed.

Theorem convert_keeps_target_bounded :
  forall cur tgt mask src lit t,
    In (cur, tgt) bounded_pairs -> In mask bounded_masks -> In src bounded_sources -> In lit bounded_literals ->
    find_require cur [] (bounded_fs mask) src lit = Found t ->
    ambiguousb tgt (bounded_fs mask) t = false ->
    relative_result src t = false ->
    exists t', find_require tgt [] (bounded_fs mask) src (generate_require tgt src t) = Found t' /\ same_file t' t = true.
Proof.
  intros cur tgt mask src lit t Hp Hm Hs Hl Hfind Ha Hr.
  pose proof (bounded_all (cur, tgt) Hp mask Hm src Hs lit Hl) as H.
  unfold conv_ok, fst, snd in H. rewrite Hfind, Ha, Hr, !orb_false_r in H.
  destruct (find_require tgt [] (bounded_fs mask) src (generate_require tgt src t)) as [t'|]; [|discriminate].
  exists t'. split; [reflexivity|exact H].
Qed.

(** both carve-outs are needed in this universe *)
Example bounded_ambiguous_witness :
  conv_ok (mk_config false "init" [] None) (mk_config true "init" [] None) (bounded_fs 3) (BP "src/a.lua") (BS "./b.lua") = true /\
  ambiguousb (mk_config true "init" [] None) (bounded_fs 3) (BP "src/b.lua") = true.
Proof. vm_compute. split; reflexivity. Qed.
