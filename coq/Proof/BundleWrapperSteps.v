(** The accessor of a bundled module, statement by statement: what each of its four
    statements does to the store ([Model/BundleWrapper.v: accessor_block]).  Pure symbolic
    execution of the reference interpreter; the module body appears only through one
    hypothesis [call d _ fv [] _ = Ok vs s2] in [assign_box_step]. *)
From Coq Require Import ZArith NArith List Bool String Lia.
From DL Require Import Lib.Bytes Lib.F64 Lua.Syntax Lua.Sem Proof.SemFacts Model.BundleWrapper
  Proof.BundleWrapperBase.
Import ListNotations.
Open Scope N_scope.
Local Notation llen := List.length.

Section Steps.
Variable d : dialect.

(** [<M>.cache] *)
Lemma mcache_eval1 n rho va M s aM tM tblM tc :
  lookup rho M = Some aM ->
  nth_N (cells s) (N.to_nat aM) = Some (VTable tM) ->
  nth_N (tables s) (N.to_nat tM) = Some tblM ->
  raw_get (t_entries tblM) (VStr s_cache) = VTable tc ->
  eval1 d (S (S (S (S n)))) rho va (EField (EIdent M) s_cache) s = Ok (VTable tc) s.
Proof.
  intros Hl Hc Ht Hg.
  change (VTable tc) with (first [VTable tc]). apply eval1_of_eval.
  rewrite eval_S_field. eapply bind_intro.
  { eapply eval1_ident_cell; eassumption. }
  cbv beta. eapply bind_intro.
  { eapply index_table_get; [eassumption|exact Hg|left; discriminate]. }
  reflexivity.
Qed.

(** [<M>.cache.<name>]: a raw read when the entry is there or the cache has no metatable *)
Lemma cache_slot_eval n rho va M nm s aM tM tblM tc tblC v :
  lookup rho M = Some aM ->
  nth_N (cells s) (N.to_nat aM) = Some (VTable tM) ->
  nth_N (tables s) (N.to_nat tM) = Some tblM ->
  raw_get (t_entries tblM) (VStr s_cache) = VTable tc ->
  nth_N (tables s) (N.to_nat tc) = Some tblC ->
  raw_get (t_entries tblC) (VStr nm) = v ->
  (v <> VNil \/ t_meta tblC = None) ->
  eval d (S (S (S (S (S n))))) rho va (cache_slot M nm) s = Ok [v] s.
Proof.
  intros Hl Hc Ht Hg HtC Hv Hm. unfold cache_slot.
  rewrite eval_S_field. eapply bind_intro.
  { eapply mcache_eval1; eassumption. }
  cbv beta. eapply bind_intro.
  { eapply index_table_get; eassumption. }
  reflexivity.
Qed.

(** statement 1: [local v = <M>.cache.<name>] *)
Lemma local_step n rho va M nm s aM tM tblM tc tblC v :
  lookup rho M = Some aM ->
  nth_N (cells s) (N.to_nat aM) = Some (VTable tM) ->
  nth_N (tables s) (N.to_nat tM) = Some tblM ->
  raw_get (t_entries tblM) (VStr s_cache) = VTable tc ->
  nth_N (tables s) (N.to_nat tc) = Some tblC ->
  raw_get (t_entries tblC) (VStr nm) = v ->
  (v <> VNil \/ t_meta tblC = None) ->
  exec_stmt d (S (S (S (S (S (S (S n))))))) rho va
            (SLocal false [Param s_v None] [cache_slot M nm]) s =
  Ok ((s_v, N.of_nat (llen (cells s))) :: rho, SigNone) (add_cell s v).
Proof.
  intros Hl Hc Ht Hg HtC Hv Hm.
  rewrite exec_stmt_S_local1. eapply bind_intro.
  { rewrite eval_list_S_one. eapply cache_slot_eval; eassumption. }
  cbv beta. reflexivity.
Qed.

(** the condition [not v] *)
Lemma cond_eval1 n rho va s av v :
  lookup rho s_v = Some av ->
  nth_N (cells s) (N.to_nat av) = Some v ->
  eval1 d (S (S (S (S n)))) rho va (EUnary UNot (EIdent s_v)) s = Ok (VBool (negb (truthy v))) s.
Proof.
  intros Hl Hc.
  change (VBool (negb (truthy v))) with (first [VBool (negb (truthy v))]). apply eval1_of_eval.
  rewrite eval_S_unary. eapply bind_intro.
  { eapply eval1_ident_cell; eassumption. }
  reflexivity.
Qed.

(** statement 2a: [v = { c = __modImpl() }].  The box is allocated (empty) BEFORE the body
    runs; [s2] is the store the body leaves. *)
Lemma assign_box_step n rho va s av aI fv vs s2 :
  lookup rho s_v = Some av ->
  lookup rho s_impl = Some aI ->
  nth_N (cells s) (N.to_nat aI) = Some fv ->
  call d (S (S n)) fv [] (add_table s (mkTable [] None)) = Ok vs s2 ->
  nth_N (tables s2) (llen (tables s)) = Some (mkTable [] None) ->
  exec_stmt d (S (S (S (S (S (S (S (S n)))))))) rho va
            (SAssign [EIdent s_v] [ETable [TField s_c impl_call]]) s =
  Ok (rho, SigNone)
     (upd_cell (upd_table s2 (N.of_nat (llen (tables s)))
                          (mkTable (raw_set [] (VStr s_c) (first vs)) None))
               av (VTable (N.of_nat (llen (tables s))))).
Proof.
  intros Hlv Hli HcI Hcall Hbox.
  rewrite exec_stmt_S_assign1. eapply bind_intro.
  { rewrite eval_target_S_ident, Hlv. reflexivity. }
  cbv beta. eapply bind_intro.
  { rewrite eval_list_S_one, eval_S_table. eapply bind_intro.
    { apply new_table_eq. }
    cbv beta. eapply bind_intro.
    { rewrite fill_S_field. eapply bind_intro.
      { apply eval1_of_eval. unfold impl_call. rewrite eval_S_call. eapply bind_intro.
        { eapply eval1_ident_cell; [exact Hli|exact HcI]. }
        cbv beta. eapply bind_intro.
        { rewrite eval_args_S_tuple, eval_list_S_nil. reflexivity. }
        cbv beta. exact Hcall. }
      cbv beta. eapply bind_intro.
      { unfold put. unfold bind at 1. unfold get_table at 1. rewrite Nat2N.id, Hbox.
        cbn [norm_key t_entries t_meta]. apply set_table_eq. }
      cbv beta. rewrite fill_S_nil. reflexivity. }
    reflexivity. }
  cbv beta. eapply bind_intro.
  { eapply bind_intro.
    { rewrite assign_target_S_cell. apply set_cell_eq. }
    reflexivity. }
  reflexivity.
Qed.

(** statement 2b: [<M>.cache.<name> = v] *)
Lemma assign_cache_step n rho va M nm s aM tM tblM tc tblC av v :
  lookup rho M = Some aM ->
  nth_N (cells s) (N.to_nat aM) = Some (VTable tM) ->
  nth_N (tables s) (N.to_nat tM) = Some tblM ->
  raw_get (t_entries tblM) (VStr s_cache) = VTable tc ->
  nth_N (tables s) (N.to_nat tc) = Some tblC ->
  t_meta tblC = None ->
  lookup rho s_v = Some av ->
  nth_N (cells s) (N.to_nat av) = Some v ->
  exec_stmt d (S (S (S (S (S (S n)))))) rho va (SAssign [cache_slot M nm] [EIdent s_v]) s =
  Ok (rho, SigNone) (upd_table s tc (mkTable (raw_set (t_entries tblC) (VStr nm) v) None)).
Proof.
  intros Hl Hc Ht Hg HtC Hm Hlv Hcv.
  rewrite exec_stmt_S_assign1. eapply bind_intro.
  { eapply bind_intro.
    { unfold cache_slot. rewrite eval_target_S_field. eapply bind_intro.
      { eapply mcache_eval1; eassumption. }
      reflexivity. }
    reflexivity. }
  cbv beta. eapply bind_intro.
  { rewrite eval_list_S_one. eapply eval_ident_cell; eassumption. }
  cbv beta. eapply bind_intro.
  { eapply bind_intro.
    { rewrite assign_target_S_index. cbn [arg nth]. eapply setindex_table_raw; eassumption. }
    reflexivity. }
  reflexivity.
Qed.

(** the final [return v.c] *)
Lemma return_step n rho va s av tb tblB :
  lookup rho s_v = Some av ->
  nth_N (cells s) (N.to_nat av) = Some (VTable tb) ->
  nth_N (tables s) (N.to_nat tb) = Some tblB ->
  t_meta tblB = None ->
  exec_stmts d (S (S (S (S (S n))))) rho va [] (Some (LReturn [EField (EIdent s_v) s_c])) s =
  Ok (SigReturn [raw_get (t_entries tblB) (VStr s_c)]) s.
Proof.
  intros Hl Hc Ht Hm.
  rewrite exec_stmts_S_return. eapply bind_intro.
  { rewrite eval_list_S_one, eval_S_field. eapply bind_intro.
    { eapply eval1_ident_cell; eassumption. }
    cbv beta. eapply bind_intro.
    { eapply index_table_get; [eassumption|reflexivity|right; assumption]. }
    reflexivity. }
  reflexivity.
Qed.

End Steps.
