(** The semantic invariant of the worker model and its preservation by every event except
    [Process] (which is in [Proof/WorkerProcess.v]). *)
From Coq Require Import Arith PeanoNat Lia.
From DL Require Import Lib.Bytes Model.WorkerFs Model.Worker Proof.WorkerBasics Proof.WorkerInv.
Open Scope N_scope.

Lemma node_of_ne_none t q :
  node_of t q <> None -> exists i it, get_slot (slots t) i = Some it /\ i_src it = q.
Proof.
  destruct (node_of t q) as [i|] eqn:En; [|congruence]. intros _.
  apply node_of_some in En as [it [H1 H2]]. eauto.
Qed.

Lemma drop_In p q l : In q (drop p l) <-> In q l /\ q <> p.
Proof. unfold drop. rewrite filter_In, negb_true_iff, path_eqb_neq. tauto. Qed.

Lemma covered_spec l p : covered l p = true <-> exists r, In r l /\ starts_with r p = true.
Proof. unfold covered. apply existsb_exists. Qed.

Lemma covered_false l p : covered l p = false <-> forall r, In r l -> starts_with r p = false.
Proof.
  split.
  - intros H r Hr. destruct (starts_with r p) eqn:E; [|reflexivity].
    assert (covered l p = true) by (apply covered_spec; eauto). congruence.
  - intros H. destruct (covered l p) eqn:E; [|reflexivity].
    apply covered_spec in E as [r [H1 H2]]. rewrite (H r H1) in H2. discriminate.
Qed.

Section Step.
  Variable cfg : Type.
  Variable hash : cfg -> N.
  Variable xform : cfg -> path -> content -> fs -> option content * list path.
  Variable inp outp : path.

  Hypothesis io_disjoint1 : starts_with inp outp = false.
  Hypothesis io_disjoint2 : starts_with outp inp = false.
  (** the transformation only depends on the source text and the files it registered *)
  Hypothesis xform_frame : forall c q t f f',
      (forall d, In d (snd (xform c q t f)) -> fs_get f' d = fs_get f d) ->
      xform c q t f' = xform c q t f.
  (** registered dependencies are files that were read, outside the output folder *)
  Hypothesis deps_exist : forall c q t f d, In d (snd (xform c q t f)) -> fs_get f d <> None.
  Hypothesis deps_outside : forall c q t f d, In d (snd (xform c q t f)) -> starts_with outp d = false.

  Notation out_of := (out_of inp outp).
  Notation is_source := (is_source inp).
  Notation step := (step cfg hash xform inp outp).

  Variable f0 : fs.
  Variable E : list path.
  Hypothesis E_nonest : forall a b, In a E -> In b E -> starts_with a b = true -> a = b.

  Notation wf := (wf inp outp E).

  Definition good (c : cfg) (f : fs) (it : item) : Prop :=
    exists txt, fs_get f (i_src it) = Some txt /\
      (forall x, In x (i_deps it) <-> In x (snd (xform c (i_src it) txt f))) /\
      match fst (xform c (i_src it) txt f) with
      | Some o => i_st it = DoneOk /\ fs_get f (i_out it) = Some o
      | None => i_st it = DoneErr
      end.

  Definition clean_item (d : dirty) (it : item) : Prop :=
    ~ In (i_src it) (dC d) /\ covered (dR d) (i_src it) = false /\
    forall x, In x (i_deps it) -> ~ In x (dC d).

  Record inv (c0 : cfg) (d : dirty) (u : fs) (w : world cfg) : Prop := mkInv {
    inv_wf : wf (w_tree w);
    inv_hash : forall i it, get_slot (slots (w_tree w)) i = Some it -> is_done (i_st it) = true ->
                            last_hash (w_tree w) = Some (hash c0);
    inv_good : forall i it, get_slot (slots (w_tree w)) i = Some it -> is_done (i_st it) = true ->
                            clean_item d it -> good c0 (w_fs w) it;
    inv_exists : forall i it, get_slot (slots (w_tree w)) i = Some it ->
                              covered (dR d) (i_src it) = false -> fs_get (w_fs w) (i_src it) <> None;
    inv_hasitem : forall q, is_source q = true -> fs_get (w_fs w) q <> None -> ~ In q (dN d) ->
                            node_of (w_tree w) q <> None;
    inv_out : forall p, starts_with outp p = true ->
                        (exists i it, get_slot (slots (w_tree w)) i = Some it /\ i_out it = p)
                        \/ In p (rmf (w_tree w)) \/ fs_get (w_fs w) p = fs_get f0 p;
    inv_user : forall p, starts_with outp p = false -> fs_get (w_fs w) p = fs_get u p;
    inv_ufs_E : forall p, fs_get u p <> None -> In p E;
    inv_ufs_out : forall p, starts_with outp p = true -> fs_get u p = fs_get f0 p
  }.

  Lemma good_frame c f f' it :
    good c f it ->
    fs_get f' (i_src it) = fs_get f (i_src it) ->
    (forall x, In x (i_deps it) -> fs_get f' x = fs_get f x) ->
    fs_get f' (i_out it) = fs_get f (i_out it) ->
    good c f' it.
  Proof.
    intros [txt [Hs [Hd Hr]]] Hsrc Hdeps Hout. exists txt.
    assert (Hx : xform c (i_src it) txt f' = xform c (i_src it) txt f).
    { apply xform_frame. intros x Hx. apply Hdeps. apply Hd. exact Hx. }
    rewrite Hx, Hsrc, Hout. auto.
  Qed.

  Lemma touches_out_false p : touches_out outp p = false ->
                              starts_with outp p = false /\ starts_with p outp = false.
  Proof. unfold touches_out. intros H. apply orb_false_iff in H. exact H. Qed.

  (** a path under the output folder is not under a directory that does not touch it *)
  Lemma under_out_not_under dd p :
    touches_out outp dd = false -> starts_with outp p = true -> starts_with dd p = false.
  Proof.
    intros H Ho. apply touches_out_false in H as [H1 H2].
    destruct (starts_with dd p) eqn:Ed; [|reflexivity].
    destruct (prefixes_comparable _ _ _ Ho Ed); congruence.
  Qed.

  Lemma item_out_under t i it : wf t -> get_slot (slots t) i = Some it -> starts_with outp (i_out it) = true.
  Proof. intros W H. destruct (wf_item _ _ _ _ W _ _ H) as [-> _]. apply rebase_starts. Qed.

  Lemma item_src_not_out t i it : wf t -> get_slot (slots t) i = Some it -> starts_with outp (i_src it) = false.
  Proof.
    intros W H. destruct (wf_item _ _ _ _ W _ _ H) as [_ [Hs _]].
    eapply source_not_out; eassumption.
  Qed.

  (** * A generic way to re-establish the invariant after a tree operation *)

  Lemma inv_tree_change c0 d d' u w t' :
    inv c0 d u w -> wf t' ->
    last_hash t' = last_hash (w_tree w) ->
    (forall j it, get_slot (slots t') j = Some it -> is_done (i_st it) = true ->
                  get_slot (slots (w_tree w)) j = Some it) ->
    (forall j it, get_slot (slots t') j = Some it -> is_done (i_st it) = true ->
                  clean_item d' it -> clean_item d it) ->
    (forall j it, get_slot (slots t') j = Some it -> covered (dR d') (i_src it) = false ->
                  fs_get (w_fs w) (i_src it) <> None) ->
    (forall q, is_source q = true -> fs_get (w_fs w) q <> None -> ~ In q (dN d') -> node_of t' q <> None) ->
    (forall j it, get_slot (slots (w_tree w)) j = Some it ->
                  (exists k it', get_slot (slots t') k = Some it' /\ i_out it' = i_out it)
                  \/ In (i_out it) (rmf t')) ->
    (forall p, In p (rmf (w_tree w)) -> In p (rmf t')) ->
    inv c0 d' u (mkWorld (w_fs w) (w_cfg w) t').
  Proof.
    intros I W' Hh H1 H2 H3 H4 H5 H6. constructor; cbn [w_tree w_fs].
    - exact W'.
    - intros i it Hi Hd. rewrite Hh. eapply (inv_hash _ _ _ _ I); [apply H1; eassumption|exact Hd].
    - intros i it Hi Hd Hc. eapply (inv_good _ _ _ _ I); [apply H1; eassumption|exact Hd|eapply H2; eassumption].
    - exact H3.
    - exact H4.
    - intros p Hp. destruct (inv_out _ _ _ _ I p Hp) as [[i [it [Hi Ho]]]|[Hr|Hf]].
      + destruct (H5 _ _ Hi) as [[k [it' [Hk Ho']]]|Hr].
        * left. exists k, it'. split; [exact Hk|congruence].
        * right. left. congruence.
      + right. left. apply H6. exact Hr.
      + right. right. exact Hf.
    - apply (inv_user _ _ _ _ I).
    - apply (inv_ufs_E _ _ _ _ I).
    - apply (inv_ufs_out _ _ _ _ I).
  Qed.

  (** * User events *)

  Lemma step_FsWrite c0 d u w p c :
    inv c0 d u w -> touches_out outp p = false -> In p E ->
    inv c0 (track cfg inp u d (FsWrite p c)) (fs_write u p c)
        (mkWorld (fs_write (w_fs w) p c) (w_cfg w) (w_tree w)).
  Proof.
    intros I Ht HE. apply touches_out_false in Ht as [Hpo _].
    pose proof (inv_wf _ _ _ _ I) as W.
    assert (Hfu : fs_get (w_fs w) p = fs_get u p) by (apply (inv_user _ _ _ _ I); exact Hpo).
    set (d' := track cfg inp u d (FsWrite p c)).
    assert (HdC : forall x, In x (dC d) -> In x (dC d')).
    { intros x Hx. unfold d', track. destruct (fs_is_file u p); [right; exact Hx|]. destruct (is_source p); exact Hx. }
    assert (HdR : dR d' = dR d).
    { unfold d', track. destruct (fs_is_file u p); [reflexivity|]. destruct (is_source p); reflexivity. }
    constructor; cbn [w_tree w_fs].
    - exact W.
    - apply (inv_hash _ _ _ _ I).
    - intros i it Hi Hd [Hc1 [Hc2 Hc3]].
      assert (Hclean : clean_item d it).
      { split; [auto|]. split; [rewrite <- HdR; exact Hc2|]. intros x Hx Hin. apply (Hc3 x Hx). auto. }
      pose proof (inv_good _ _ _ _ I _ _ Hi Hd Hclean) as G.
      assert (Hne : forall x, (x = i_src it \/ In x (i_deps it)) -> x <> p).
      { intros x Hx ->. destruct (fs_is_file u p) eqn:Ef.
        - (* the file existed: p is dirty *)
          assert (Hin : In p (dC d')) by (unfold d', track; rewrite Ef; left; reflexivity).
          destruct Hx as [->|Hx]; [apply Hc1; exact Hin|apply (Hc3 _ Hx); exact Hin].
        - (* the file did not exist: nothing clean mentions it *)
          assert (Hnone : fs_get (w_fs w) p = None).
          { rewrite Hfu. unfold fs_is_file in Ef. destruct (fs_get u p); [discriminate|reflexivity]. }
          destruct Hx as [->|Hx].
          + apply (inv_exists _ _ _ _ I _ _ Hi); [rewrite <- HdR; exact Hc2|exact Hnone].
          + destruct G as [txt [_ [Hdeps _]]]. apply Hdeps in Hx. apply deps_exist in Hx. contradiction. }
      apply (good_frame _ (w_fs w)); [exact G| | |].
      + rewrite fs_get_write. destruct (path_eqb p (i_src it)) eqn:Ep; [|reflexivity].
        apply path_eqb_eq in Ep. exfalso. eapply Hne; [left; reflexivity|auto].
      + intros x Hx. rewrite fs_get_write. destruct (path_eqb p x) eqn:Ep; [|reflexivity].
        apply path_eqb_eq in Ep. exfalso. eapply Hne; [right; exact Hx|auto].
      + rewrite fs_get_write. destruct (path_eqb p (i_out it)) eqn:Ep; [|reflexivity].
        apply path_eqb_eq in Ep. pose proof (item_out_under _ _ _ W Hi) as Ho. rewrite <- Ep in Ho. congruence.
    - intros i it Hi Hc. rewrite fs_get_write. destruct (path_eqb p (i_src it)); [discriminate|].
      apply (inv_exists _ _ _ _ I _ _ Hi). rewrite <- HdR. exact Hc.
    - intros q Hq Hex Hn. rewrite fs_get_write in Hex.
      apply (inv_hasitem _ _ _ _ I q Hq).
      + destruct (path_eqb p q) eqn:Ep; [|exact Hex]. apply path_eqb_eq in Ep. subst q.
        rewrite Hfu. intros Hnone. apply Hn. unfold d', track, fs_is_file. rewrite Hnone, Hq. left. reflexivity.
      + intros Hin. apply Hn. unfold d', track. destruct (fs_is_file u p); [exact Hin|].
        destruct (is_source p); [right; exact Hin|exact Hin].
    - intros q Hq. rewrite fs_get_write.
      destruct (path_eqb p q) eqn:Ep; [apply path_eqb_eq in Ep; congruence|].
      apply (inv_out _ _ _ _ I q Hq).
    - intros q Hq. rewrite !fs_get_write. destruct (path_eqb p q); [reflexivity|].
      apply (inv_user _ _ _ _ I q Hq).
    - intros q. rewrite fs_get_write. destruct (path_eqb p q) eqn:Ep.
      + apply path_eqb_eq in Ep. subst q. intros _. exact HE.
      + apply (inv_ufs_E _ _ _ _ I).
    - intros q Hq. rewrite fs_get_write.
      destruct (path_eqb p q) eqn:Ep; [apply path_eqb_eq in Ep; congruence|].
      apply (inv_ufs_out _ _ _ _ I q Hq).
  Qed.

  Lemma step_FsRemove c0 d u w p :
    inv c0 d u w -> touches_out outp p = false ->
    inv c0 (track cfg inp u d (FsRemove p)) (fs_del u p)
        (mkWorld (fs_del (w_fs w) p) (w_cfg w) (w_tree w)).
  Proof.
    intros I Ht. apply touches_out_false in Ht as [Hpo _].
    pose proof (inv_wf _ _ _ _ I) as W. cbn [track].
    constructor; cbn [w_tree w_fs dC dN dR].
    - exact W.
    - apply (inv_hash _ _ _ _ I).
    - intros i it Hi Hd [Hc1 [Hc2 Hc3]]. cbn [dC dR] in *.
      assert (Hclean : clean_item d it).
      { split; [intros H; apply Hc1; right; exact H|]. split.
        - cbn [covered existsb] in Hc2. apply orb_false_iff in Hc2 as [_ Hc2]. exact Hc2.
        - intros x Hx H. apply (Hc3 x Hx). right. exact H. }
      pose proof (inv_good _ _ _ _ I _ _ Hi Hd Hclean) as G.
      apply (good_frame _ (w_fs w)); [exact G| | |].
      + rewrite fs_get_del. destruct (path_eqb p (i_src it)) eqn:Ep; [|reflexivity].
        apply path_eqb_eq in Ep. exfalso. apply Hc1. left. exact Ep.
      + intros x Hx. rewrite fs_get_del. destruct (path_eqb p x) eqn:Ep; [|reflexivity].
        apply path_eqb_eq in Ep. exfalso. apply (Hc3 x Hx). left. exact Ep.
      + rewrite fs_get_del. destruct (path_eqb p (i_out it)) eqn:Ep; [|reflexivity].
        apply path_eqb_eq in Ep. pose proof (item_out_under _ _ _ W Hi) as Ho. rewrite <- Ep in Ho. congruence.
    - intros i it Hi Hc. cbn [covered existsb] in Hc. apply orb_false_iff in Hc as [Hc1 Hc2].
      rewrite fs_get_del. destruct (path_eqb p (i_src it)) eqn:Ep.
      + apply path_eqb_eq in Ep. rewrite Ep, starts_with_refl in Hc1. discriminate.
      + apply (inv_exists _ _ _ _ I _ _ Hi Hc2).
    - intros q Hq Hex Hn. rewrite fs_get_del in Hex. destruct (path_eqb p q); [congruence|].
      apply (inv_hasitem _ _ _ _ I q Hq Hex Hn).
    - intros q Hq. rewrite fs_get_del.
      destruct (path_eqb p q) eqn:Ep; [apply path_eqb_eq in Ep; congruence|].
      apply (inv_out _ _ _ _ I q Hq).
    - intros q Hq. rewrite !fs_get_del. destruct (path_eqb p q); [reflexivity|].
      apply (inv_user _ _ _ _ I q Hq).
    - intros q. rewrite fs_get_del. destruct (path_eqb p q); [congruence|]. apply (inv_ufs_E _ _ _ _ I).
    - intros q Hq. rewrite fs_get_del.
      destruct (path_eqb p q) eqn:Ep; [apply path_eqb_eq in Ep; congruence|].
      apply (inv_ufs_out _ _ _ _ I q Hq).
  Qed.

  Lemma step_FsRemoveDir c0 d u w dd :
    inv c0 d u w -> touches_out outp dd = false ->
    dir_event_ok cfg (w_tree w) (FsRemoveDir dd) = true ->
    inv c0 (track cfg inp u d (FsRemoveDir dd)) (fs_del_under u dd)
        (mkWorld (fs_del_under (w_fs w) dd) (w_cfg w) (w_tree w)).
  Proof.
    intros I Ht Hok. pose proof (inv_wf _ _ _ _ I) as W. cbn [track].
    assert (Hdeps : forall i it x, get_slot (slots (w_tree w)) i = Some it -> In x (i_deps it) ->
                                   starts_with dd x = false).
    { intros i it x Hi Hx. cbn [dir_event_ok] in Hok. rewrite forallb_forall in Hok.
      assert (Hin : In it (all_items (w_tree w))) by (apply all_items_spec; eauto).
      specialize (Hok _ Hin). rewrite forallb_forall in Hok. specialize (Hok _ Hx).
      apply negb_true_iff in Hok. exact Hok. }
    constructor; cbn [w_tree w_fs dC dN dR].
    - exact W.
    - apply (inv_hash _ _ _ _ I).
    - intros i it Hi Hd [Hc1 [Hc2 Hc3]]. cbn [dC dR] in *.
      cbn [covered existsb] in Hc2. apply orb_false_iff in Hc2 as [Hc2a Hc2].
      assert (Hclean : clean_item d it) by (split; [exact Hc1|split; [exact Hc2|exact Hc3]]).
      pose proof (inv_good _ _ _ _ I _ _ Hi Hd Hclean) as G.
      apply (good_frame _ (w_fs w)); [exact G| | |].
      + rewrite fs_get_del_under, Hc2a. reflexivity.
      + intros x Hx. rewrite fs_get_del_under, (Hdeps _ _ _ Hi Hx). reflexivity.
      + rewrite fs_get_del_under.
        rewrite (under_out_not_under _ _ Ht (item_out_under _ _ _ W Hi)). reflexivity.
    - intros i it Hi Hc. cbn [covered existsb] in Hc. apply orb_false_iff in Hc as [Hc1 Hc2].
      rewrite fs_get_del_under, Hc1. apply (inv_exists _ _ _ _ I _ _ Hi Hc2).
    - intros q Hq Hex Hn. rewrite fs_get_del_under in Hex. destruct (starts_with dd q); [congruence|].
      apply (inv_hasitem _ _ _ _ I q Hq Hex Hn).
    - intros q Hq. rewrite fs_get_del_under, (under_out_not_under _ _ Ht Hq).
      apply (inv_out _ _ _ _ I q Hq).
    - intros q Hq. rewrite !fs_get_del_under. destruct (starts_with dd q); [reflexivity|].
      apply (inv_user _ _ _ _ I q Hq).
    - intros q. rewrite fs_get_del_under. destruct (starts_with dd q); [congruence|]. apply (inv_ufs_E _ _ _ _ I).
    - intros q Hq. rewrite fs_get_del_under, (under_out_not_under _ _ Ht Hq).
      apply (inv_ufs_out _ _ _ _ I q Hq).
  Qed.

  (** * Calls of the watcher *)

  Lemma restart_work_as_all t i : restart_work t i = restart_all t [i].
  Proof. cbn [restart_all]. destruct (restart_work t i); reflexivity. Qed.

  (** [source_changed] / the restarts of the other calls: two rounds of restarts *)
  Lemma two_restarts t idxs p :
    wf t -> (forall i, In i idxs -> get_slot (slots t) i <> None) ->
    exists t1 t2,
      restart_all t idxs = Ok t1 /\ update_external_dependencies t1 p = Ok t2 /\ wf t1 /\ wf t2 /\
      rmf t2 = rmf t /\ last_hash t2 = last_hash t /\ free t2 = free t /\
      (forall j, get_slot (slots t1) j = option_map (reset_if (mem_nat j idxs)) (get_slot (slots t) j)) /\
      (forall j, get_slot (slots t2) j =
                 option_map (reset_if (mem_nat j (ext_get (ext t1) p))) (get_slot (slots t1) j)).
  Proof.
    intros W Hocc.
    destruct (restart_all_ok inp outp E t idxs W Hocc) as [t1 [R1 [W1 [Hr1 [Hh1 [Hf1 [_ [_ Hg1]]]]]]]].
    destruct (restart_all_ok inp outp E t1 (ext_get (ext t1) p) W1 (ext_occupied inp outp E t1 p W1))
      as [t2 [R2 [W2 [Hr2 [Hh2 [Hf2 [_ [_ Hg2]]]]]]]].
    exists t1, t2. unfold update_external_dependencies.
    split; [exact R1|]. split; [exact R2|]. split; [exact W1|]. split; [exact W2|].
    split; [congruence|]. split; [congruence|]. split; [congruence|]. split; [exact Hg1|exact Hg2].
  Qed.

  Lemma reset_if_src b it : i_src (reset_if b it) = i_src it.
  Proof. destruct b; reflexivity. Qed.
  Lemma reset_if_out b it : i_out (reset_if b it) = i_out it.
  Proof. destruct b; reflexivity. Qed.
  Lemma reset_if_done b it : is_done (i_st (reset_if b it)) = true -> b = false /\ is_done (i_st it) = true.
  Proof. destruct b; cbn; [discriminate|auto]. Qed.

  Lemma step_SrcChanged c0 d u w p :
    inv c0 d u w ->
    exists t', source_changed (w_tree w) p = Ok t' /\
               inv c0 (track cfg inp u d (SrcChanged p)) u (mkWorld (w_fs w) (w_cfg w) t').
  Proof.
    intros I. pose proof (inv_wf _ _ _ _ I) as W. set (t := w_tree w) in *.
    set (idxs := match node_of t p with Some i => [i] | None => nodes_under (slots t) p 0 end).
    assert (Hocc : forall i, In i idxs -> get_slot (slots t) i <> None).
    { intros i Hi. unfold idxs in Hi. destruct (node_of t p) as [k|] eqn:En.
      - destruct Hi as [<-|[]]. apply node_of_some in En as [it [H _]]. congruence.
      - apply nodes_under_in in Hi as [it [H _]]. congruence. }
    destruct (two_restarts t idxs p W Hocc) as [t1 [t2 [R1 [R2 [W1 [W2 [Hr [Hh [Hf [Hg1 Hg2]]]]]]]]]].
    exists t2. split.
    { unfold source_changed. fold t. destruct (node_of t p) as [k|] eqn:En.
      - rewrite restart_work_as_all. unfold idxs in R1. rewrite R1. exact R2.
      - unfold idxs in R1. rewrite R1. exact R2. }
    assert (Hitem : forall j it2, get_slot (slots t2) j = Some it2 ->
                                  exists it, get_slot (slots t) j = Some it /\
                                             it2 = reset_if (mem_nat j (ext_get (ext t1) p)) (reset_if (mem_nat j idxs) it)).
    { intros j it2 Hj. rewrite Hg2, Hg1 in Hj. destruct (get_slot (slots t) j) as [it|]; [|discriminate].
      cbn in Hj. inversion Hj. eauto. }
    apply inv_tree_change with (d := d); try assumption.
    - intros j it2 Hj Hd. destruct (Hitem _ _ Hj) as [it [Hs ->]].
      apply reset_if_done in Hd as [-> Hd]. apply reset_if_done in Hd as [-> Hd]. exact Hs.
    - intros j it2 Hj Hd [Hc1 [Hc2 Hc3]]. cbn [track dC dR] in *.
      destruct (Hitem _ _ Hj) as [it [Hs Heq]]. subst it2.
      apply reset_if_done in Hd as [Hb2 Hd]. rewrite Hb2 in *. cbn [reset_if] in *.
      apply reset_if_done in Hd as [Hb1 Hd]. rewrite Hb1 in *. cbn [reset_if] in *.
      split; [|split; [exact Hc2|]].
      + intros Hin. destruct (path_eq_dec (i_src it) p) as [Heq|Hne].
        * (* the item of p itself is restarted *)
          assert (Hin1 : In j idxs).
          { unfold idxs. destruct (node_of t p) as [k|] eqn:En.
            - apply node_of_some in En as [itk [Hk Hsk]]. left.
              eapply (wf_nodup _ _ _ _ W); [exact Hk|exact Hs|congruence].
            - exfalso. eapply node_of_none; eassumption. }
          apply mem_nat_In in Hin1. congruence.
        * apply Hc1. apply drop_In. auto.
      + intros x Hx Hin. destruct (path_eq_dec x p) as [Heq|Hne].
        * subst x. assert (Hs1 : get_slot (slots t1) j = Some it) by (rewrite Hg1, Hs, Hb1; reflexivity).
          pose proof (wf_linked _ _ _ _ W1 _ _ _ Hs1 Hx) as Hl. apply mem_nat_In in Hl. congruence.
        * apply (Hc3 x Hx). apply drop_In. auto.
    - intros j it2 Hj Hc. cbn [track dR] in Hc. destruct (Hitem _ _ Hj) as [it [Hs ->]].
      rewrite !reset_if_src in *. eapply (inv_exists _ _ _ _ I); eassumption.
    - intros q Hq Hex Hn. cbn [track dN] in Hn.
      pose proof (inv_hasitem _ _ _ _ I q Hq Hex Hn) as Hnode.
      apply node_of_ne_none in Hnode as [i [it [Hi Hsrc]]].
      eapply node_of_exists with (i := i).
      + rewrite Hg2, Hg1. fold t in Hi. rewrite Hi. reflexivity.
      + rewrite !reset_if_src. exact Hsrc.
    - intros j it Hj. left. exists j. eexists. split.
      + rewrite Hg2, Hg1. fold t in Hj. rewrite Hj. reflexivity.
      + rewrite !reset_if_out. reflexivity.
    - intros q Hq. rewrite Hr. exact Hq.
  Qed.
End Step.
