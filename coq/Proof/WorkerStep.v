(** The semantic invariant of the worker model and its preservation by every event except
    [Process] (which is in [Proof/WorkerProcess.v]). *)
From Coq Require Import Arith PeanoNat Lia.
From DL Require Import Lib.Bytes Model.WorkerFs Model.Worker Proof.WorkerBasics Proof.WorkerInv.
Open Scope N_scope.

Lemma node_of_ne_none t q :
  node_of t q <> None -> exists i it, get_slot (slots t) i = Some it /\ i_src it = q.
Proof.
  destruct (node_of t q) as [i|] eqn:En; [|congruence]. intros _.
  apply node_of_some in En as [it [H1 H2]]. eauto.
Qed.

Lemma drop_In p q l : In q (drop p l) <-> In q l /\ q <> p.
Proof. unfold drop. rewrite filter_In, negb_true_iff, path_eqb_neq. tauto. Qed.

Lemma covered_spec l p : covered l p = true <-> exists r, In r l /\ starts_with r p = true.
Proof. unfold covered. apply existsb_exists. Qed.

Lemma covered_false l p : covered l p = false <-> forall r, In r l -> starts_with r p = false.
Proof.
  split.
  - intros H r Hr. destruct (starts_with r p) eqn:E; [|reflexivity].
    assert (covered l p = true) by (apply covered_spec; eauto). congruence.
  - intros H. destruct (covered l p) eqn:E; [|reflexivity].
    apply covered_spec in E as [r [H1 H2]]. rewrite (H r H1) in H2. discriminate.
Qed.

Section Step.
  Variable cfg : Type.
  Variable hash : cfg -> N.
  Variable xform : cfg -> path -> content -> fs -> option content * list path.
  Variable inp outp : path.

  Hypothesis io_disjoint1 : starts_with inp outp = false.
  Hypothesis io_disjoint2 : starts_with outp inp = false.
  (** a successful transformation only depends on the source text and the files it registered *)
  Hypothesis xform_frame : forall c q t f f',
      fst (xform c q t f) <> None ->
      (forall d, In d (snd (xform c q t f)) -> fs_get f' d = fs_get f d) ->
      xform c q t f' = xform c q t f.
  (** the dependencies registered by a successful transformation are files that were read,
      outside the output folder *)
  Hypothesis deps_exist : forall c q t f d,
      fst (xform c q t f) <> None -> In d (snd (xform c q t f)) -> fs_get f d <> None.
  Hypothesis deps_outside : forall c q t f d,
      fst (xform c q t f) <> None -> In d (snd (xform c q t f)) -> starts_with outp d = false.

  Notation out_of := (out_of inp outp).
  Notation is_source := (is_source inp).
  Notation step := (step cfg hash xform inp outp).

  Variable f0 : fs.
  Variable E : list path.
  Hypothesis E_nonest : forall a b, In a E -> In b E -> starts_with a b = true -> a = b.

  Notation wf := (wf inp outp E).

  Definition good (c : cfg) (f : fs) (it : item) : Prop :=
    exists txt o, fs_get f (i_src it) = Some txt /\
      fst (xform c (i_src it) txt f) = Some o /\
      (forall x, In x (i_deps it) <-> In x (snd (xform c (i_src it) txt f))) /\
      i_st it = DoneOk /\ fs_get f (i_out it) = Some o.

  Definition clean_item (d : dirty) (it : item) : Prop :=
    ~ In (i_src it) (dC d) /\ covered (dR d) (i_src it) = false /\
    forall x, In x (i_deps it) -> ~ In x (dC d).

  Record inv (c0 : cfg) (d : dirty) (u : fs) (w : world cfg) : Prop := mkInv {
    inv_wf : wf (w_tree w);
    inv_hash : forall i it, get_slot (slots (w_tree w)) i = Some it -> is_done (i_st it) = true ->
                            last_hash (w_tree w) = Some (hash c0);
    inv_good : forall i it, get_slot (slots (w_tree w)) i = Some it -> is_done (i_st it) = true ->
                            clean_item d it -> good c0 (w_fs w) it;
    inv_exists : forall i it, get_slot (slots (w_tree w)) i = Some it ->
                              covered (dR d) (i_src it) = false -> fs_get (w_fs w) (i_src it) <> None;
    inv_hasitem : forall q, is_source q = true -> fs_get (w_fs w) q <> None -> ~ In q (dN d) ->
                            node_of (w_tree w) q <> None;
    inv_out : forall p, starts_with outp p = true ->
                        (exists i it, get_slot (slots (w_tree w)) i = Some it /\ i_out it = p)
                        \/ In p (rmf (w_tree w)) \/ fs_get (w_fs w) p = fs_get f0 p;
    inv_user : forall p, starts_with outp p = false -> fs_get (w_fs w) p = fs_get u p;
    inv_ufs_E : forall p, fs_get u p <> None -> In p E;
    inv_ufs_out : forall p, starts_with outp p = true -> fs_get u p = fs_get f0 p;
    inv_noerr : forall i it, get_slot (slots (w_tree w)) i = Some it -> i_st it <> DoneErr
  }.

  Lemma good_frame c f f' it :
    good c f it ->
    fs_get f' (i_src it) = fs_get f (i_src it) ->
    (forall x, In x (i_deps it) -> fs_get f' x = fs_get f x) ->
    fs_get f' (i_out it) = fs_get f (i_out it) ->
    good c f' it.
  Proof.
    intros [txt [o [Hs [Hok [Hd [Hst Ho]]]]]] Hsrc Hdeps Hout. exists txt, o.
    assert (Hx : xform c (i_src it) txt f' = xform c (i_src it) txt f).
    { apply xform_frame; [congruence|]. intros x Hx. apply Hdeps. apply Hd. exact Hx. }
    rewrite Hx, Hsrc, Hout. auto.
  Qed.

  Lemma touches_out_false p : touches_out outp p = false ->
                              starts_with outp p = false /\ starts_with p outp = false.
  Proof. unfold touches_out. intros H. apply orb_false_iff in H. exact H. Qed.

  (** a path under the output folder is not under a directory that does not touch it *)
  Lemma under_out_not_under dd p :
    touches_out outp dd = false -> starts_with outp p = true -> starts_with dd p = false.
  Proof.
    intros H Ho. apply touches_out_false in H as [H1 H2].
    destruct (starts_with dd p) eqn:Ed; [|reflexivity].
    destruct (prefixes_comparable _ _ _ Ho Ed); congruence.
  Qed.

  Lemma item_out_under t i it : wf t -> get_slot (slots t) i = Some it -> starts_with outp (i_out it) = true.
  Proof. intros W H. destruct (wf_item _ _ _ _ W _ _ H) as [-> _]. apply rebase_starts. Qed.

  Lemma item_src_not_out t i it : wf t -> get_slot (slots t) i = Some it -> starts_with outp (i_src it) = false.
  Proof.
    intros W H. destruct (wf_item _ _ _ _ W _ _ H) as [_ [Hs _]].
    eapply source_not_out; eassumption.
  Qed.

  (** * A generic way to re-establish the invariant after a tree operation *)

  Lemma inv_tree_change c0 d d' u w t' :
    inv c0 d u w -> wf t' ->
    last_hash t' = last_hash (w_tree w) ->
    (forall j it, get_slot (slots t') j = Some it -> is_done (i_st it) = true ->
                  get_slot (slots (w_tree w)) j = Some it) ->
    (forall j it, get_slot (slots t') j = Some it -> is_done (i_st it) = true ->
                  clean_item d' it -> clean_item d it) ->
    (forall j it, get_slot (slots t') j = Some it -> covered (dR d') (i_src it) = false ->
                  fs_get (w_fs w) (i_src it) <> None) ->
    (forall q, is_source q = true -> fs_get (w_fs w) q <> None -> ~ In q (dN d') -> node_of t' q <> None) ->
    (forall j it, get_slot (slots (w_tree w)) j = Some it ->
                  (exists k it', get_slot (slots t') k = Some it' /\ i_out it' = i_out it)
                  \/ In (i_out it) (rmf t')) ->
    (forall p, In p (rmf (w_tree w)) -> In p (rmf t')) ->
    inv c0 d' u (mkWorld (w_fs w) (w_cfg w) t').
  Proof.
    intros I W' Hh H1 H2 H3 H4 H5 H6. constructor; cbn [w_tree w_fs].
    - exact W'.
    - intros i it Hi Hd. rewrite Hh. eapply (inv_hash _ _ _ _ I); [apply H1; eassumption|exact Hd].
    - intros i it Hi Hd Hc. eapply (inv_good _ _ _ _ I); [apply H1; eassumption|exact Hd|eapply H2; eassumption].
    - exact H3.
    - exact H4.
    - intros p Hp. destruct (inv_out _ _ _ _ I p Hp) as [[i [it [Hi Ho]]]|[Hr|Hf]].
      + destruct (H5 _ _ Hi) as [[k [it' [Hk Ho']]]|Hr].
        * left. exists k, it'. split; [exact Hk|congruence].
        * right. left. congruence.
      + right. left. apply H6. exact Hr.
      + right. right. exact Hf.
    - apply (inv_user _ _ _ _ I).
    - apply (inv_ufs_E _ _ _ _ I).
    - apply (inv_ufs_out _ _ _ _ I).
    - intros i it Hi. destruct (is_done (i_st it)) eqn:Ed.
      + eapply (inv_noerr _ _ _ _ I). apply H1; eassumption.
      + destruct (i_st it); [discriminate|discriminate|discriminate].
  Qed.

  (** * User events *)

  Lemma step_FsWrite c0 d u w p c :
    inv c0 d u w -> touches_out outp p = false -> In p E ->
    inv c0 (track cfg inp u d (FsWrite p c)) (fs_write u p c)
        (mkWorld (fs_write (w_fs w) p c) (w_cfg w) (w_tree w)).
  Proof.
    intros I Ht HE. apply touches_out_false in Ht as [Hpo _].
    pose proof (inv_wf _ _ _ _ I) as W.
    assert (Hfu : fs_get (w_fs w) p = fs_get u p) by (apply (inv_user _ _ _ _ I); exact Hpo).
    set (d' := track cfg inp u d (FsWrite p c)).
    assert (HdC : forall x, In x (dC d) -> In x (dC d')).
    { intros x Hx. unfold d', track. destruct (fs_is_file u p); [right; exact Hx|]. destruct (is_source p); exact Hx. }
    assert (HdR : dR d' = dR d).
    { unfold d', track. destruct (fs_is_file u p); [reflexivity|]. destruct (is_source p); reflexivity. }
    constructor; cbn [w_tree w_fs].
    - exact W.
    - apply (inv_hash _ _ _ _ I).
    - intros i it Hi Hd [Hc1 [Hc2 Hc3]].
      assert (Hclean : clean_item d it).
      { split; [auto|]. split; [rewrite <- HdR; exact Hc2|]. intros x Hx Hin. apply (Hc3 x Hx). auto. }
      pose proof (inv_good _ _ _ _ I _ _ Hi Hd Hclean) as G.
      assert (Hne : forall x, (x = i_src it \/ In x (i_deps it)) -> x <> p).
      { intros x Hx ->. destruct (fs_is_file u p) eqn:Ef.
        - (* the file existed: p is dirty *)
          assert (Hin : In p (dC d')) by (unfold d', track; rewrite Ef; left; reflexivity).
          destruct Hx as [->|Hx]; [apply Hc1; exact Hin|apply (Hc3 _ Hx); exact Hin].
        - (* the file did not exist: nothing clean mentions it *)
          assert (Hnone : fs_get (w_fs w) p = None).
          { rewrite Hfu. unfold fs_is_file in Ef. destruct (fs_get u p); [discriminate|reflexivity]. }
          destruct Hx as [->|Hx].
          + apply (inv_exists _ _ _ _ I _ _ Hi); [rewrite <- HdR; exact Hc2|exact Hnone].
          + destruct G as [txt [o [_ [Hok [Hdeps _]]]]]. apply Hdeps in Hx.
            apply deps_exist in Hx; [contradiction|congruence]. }
      apply (good_frame _ (w_fs w)); [exact G| | |].
      + rewrite fs_get_write. destruct (path_eqb p (i_src it)) eqn:Ep; [|reflexivity].
        apply path_eqb_eq in Ep. exfalso. eapply Hne; [left; reflexivity|auto].
      + intros x Hx. rewrite fs_get_write. destruct (path_eqb p x) eqn:Ep; [|reflexivity].
        apply path_eqb_eq in Ep. exfalso. eapply Hne; [right; exact Hx|auto].
      + rewrite fs_get_write. destruct (path_eqb p (i_out it)) eqn:Ep; [|reflexivity].
        apply path_eqb_eq in Ep. pose proof (item_out_under _ _ _ W Hi) as Ho. rewrite <- Ep in Ho. congruence.
    - intros i it Hi Hc. rewrite fs_get_write. destruct (path_eqb p (i_src it)); [discriminate|].
      apply (inv_exists _ _ _ _ I _ _ Hi). rewrite <- HdR. exact Hc.
    - intros q Hq Hex Hn. rewrite fs_get_write in Hex.
      apply (inv_hasitem _ _ _ _ I q Hq).
      + destruct (path_eqb p q) eqn:Ep; [|exact Hex]. apply path_eqb_eq in Ep. subst q.
        rewrite Hfu. intros Hnone. apply Hn. unfold d', track, fs_is_file. rewrite Hnone, Hq. left. reflexivity.
      + intros Hin. apply Hn. unfold d', track. destruct (fs_is_file u p); [exact Hin|].
        destruct (is_source p); [right; exact Hin|exact Hin].
    - intros q Hq. rewrite fs_get_write.
      destruct (path_eqb p q) eqn:Ep; [apply path_eqb_eq in Ep; congruence|].
      apply (inv_out _ _ _ _ I q Hq).
    - intros q Hq. rewrite !fs_get_write. destruct (path_eqb p q); [reflexivity|].
      apply (inv_user _ _ _ _ I q Hq).
    - intros q. rewrite fs_get_write. destruct (path_eqb p q) eqn:Ep.
      + apply path_eqb_eq in Ep. subst q. intros _. exact HE.
      + apply (inv_ufs_E _ _ _ _ I).
    - intros q Hq. rewrite fs_get_write.
      destruct (path_eqb p q) eqn:Ep; [apply path_eqb_eq in Ep; congruence|].
      apply (inv_ufs_out _ _ _ _ I q Hq).
    - apply (inv_noerr _ _ _ _ I).
  Qed.

  Lemma step_FsRemove c0 d u w p :
    inv c0 d u w -> touches_out outp p = false ->
    inv c0 (track cfg inp u d (FsRemove p)) (fs_del u p)
        (mkWorld (fs_del (w_fs w) p) (w_cfg w) (w_tree w)).
  Proof.
    intros I Ht. apply touches_out_false in Ht as [Hpo _].
    pose proof (inv_wf _ _ _ _ I) as W. cbn [track].
    constructor; cbn [w_tree w_fs dC dN dR].
    - exact W.
    - apply (inv_hash _ _ _ _ I).
    - intros i it Hi Hd [Hc1 [Hc2 Hc3]]. cbn [dC dR] in *.
      assert (Hclean : clean_item d it).
      { split; [intros H; apply Hc1; right; exact H|]. split.
        - cbn [covered existsb] in Hc2. apply orb_false_iff in Hc2 as [_ Hc2]. exact Hc2.
        - intros x Hx H. apply (Hc3 x Hx). right. exact H. }
      pose proof (inv_good _ _ _ _ I _ _ Hi Hd Hclean) as G.
      apply (good_frame _ (w_fs w)); [exact G| | |].
      + rewrite fs_get_del. destruct (path_eqb p (i_src it)) eqn:Ep; [|reflexivity].
        apply path_eqb_eq in Ep. exfalso. apply Hc1. left. exact Ep.
      + intros x Hx. rewrite fs_get_del. destruct (path_eqb p x) eqn:Ep; [|reflexivity].
        apply path_eqb_eq in Ep. exfalso. apply (Hc3 x Hx). left. exact Ep.
      + rewrite fs_get_del. destruct (path_eqb p (i_out it)) eqn:Ep; [|reflexivity].
        apply path_eqb_eq in Ep. pose proof (item_out_under _ _ _ W Hi) as Ho. rewrite <- Ep in Ho. congruence.
    - intros i it Hi Hc. cbn [covered existsb] in Hc. apply orb_false_iff in Hc as [Hc1 Hc2].
      rewrite fs_get_del. destruct (path_eqb p (i_src it)) eqn:Ep.
      + apply path_eqb_eq in Ep. rewrite Ep, starts_with_refl in Hc1. discriminate.
      + apply (inv_exists _ _ _ _ I _ _ Hi Hc2).
    - intros q Hq Hex Hn. rewrite fs_get_del in Hex. destruct (path_eqb p q); [congruence|].
      apply (inv_hasitem _ _ _ _ I q Hq Hex Hn).
    - intros q Hq. rewrite fs_get_del.
      destruct (path_eqb p q) eqn:Ep; [apply path_eqb_eq in Ep; congruence|].
      apply (inv_out _ _ _ _ I q Hq).
    - intros q Hq. rewrite !fs_get_del. destruct (path_eqb p q); [reflexivity|].
      apply (inv_user _ _ _ _ I q Hq).
    - intros q. rewrite fs_get_del. destruct (path_eqb p q); [congruence|]. apply (inv_ufs_E _ _ _ _ I).
    - intros q Hq. rewrite fs_get_del.
      destruct (path_eqb p q) eqn:Ep; [apply path_eqb_eq in Ep; congruence|].
      apply (inv_ufs_out _ _ _ _ I q Hq).
    - apply (inv_noerr _ _ _ _ I).
  Qed.

  Lemma step_FsRemoveDir c0 d u w dd :
    inv c0 d u w -> touches_out outp dd = false ->
    dir_event_ok cfg (w_tree w) (FsRemoveDir dd) = true ->
    inv c0 (track cfg inp u d (FsRemoveDir dd)) (fs_del_under u dd)
        (mkWorld (fs_del_under (w_fs w) dd) (w_cfg w) (w_tree w)).
  Proof.
    intros I Ht Hok. pose proof (inv_wf _ _ _ _ I) as W. cbn [track].
    assert (Hdeps : forall i it x, get_slot (slots (w_tree w)) i = Some it -> In x (i_deps it) ->
                                   starts_with dd x = false).
    { intros i it x Hi Hx. cbn [dir_event_ok] in Hok. rewrite forallb_forall in Hok.
      assert (Hin : In it (all_items (w_tree w))) by (apply all_items_spec; eauto).
      specialize (Hok _ Hin). rewrite forallb_forall in Hok. specialize (Hok _ Hx).
      apply negb_true_iff in Hok. exact Hok. }
    constructor; cbn [w_tree w_fs dC dN dR].
    - exact W.
    - apply (inv_hash _ _ _ _ I).
    - intros i it Hi Hd [Hc1 [Hc2 Hc3]]. cbn [dC dR] in *.
      cbn [covered existsb] in Hc2. apply orb_false_iff in Hc2 as [Hc2a Hc2].
      assert (Hclean : clean_item d it) by (split; [exact Hc1|split; [exact Hc2|exact Hc3]]).
      pose proof (inv_good _ _ _ _ I _ _ Hi Hd Hclean) as G.
      apply (good_frame _ (w_fs w)); [exact G| | |].
      + rewrite fs_get_del_under, Hc2a. reflexivity.
      + intros x Hx. rewrite fs_get_del_under, (Hdeps _ _ _ Hi Hx). reflexivity.
      + rewrite fs_get_del_under.
        rewrite (under_out_not_under _ _ Ht (item_out_under _ _ _ W Hi)). reflexivity.
    - intros i it Hi Hc. cbn [covered existsb] in Hc. apply orb_false_iff in Hc as [Hc1 Hc2].
      rewrite fs_get_del_under, Hc1. apply (inv_exists _ _ _ _ I _ _ Hi Hc2).
    - intros q Hq Hex Hn. rewrite fs_get_del_under in Hex. destruct (starts_with dd q); [congruence|].
      apply (inv_hasitem _ _ _ _ I q Hq Hex Hn).
    - intros q Hq. rewrite fs_get_del_under, (under_out_not_under _ _ Ht Hq).
      apply (inv_out _ _ _ _ I q Hq).
    - intros q Hq. rewrite !fs_get_del_under. destruct (starts_with dd q); [reflexivity|].
      apply (inv_user _ _ _ _ I q Hq).
    - intros q. rewrite fs_get_del_under. destruct (starts_with dd q); [congruence|]. apply (inv_ufs_E _ _ _ _ I).
    - intros q Hq. rewrite fs_get_del_under, (under_out_not_under _ _ Ht Hq).
      apply (inv_ufs_out _ _ _ _ I q Hq).
    - apply (inv_noerr _ _ _ _ I).
  Qed.

  (** * Calls of the watcher *)

  Lemma restart_work_as_all t i : restart_work t i = restart_all t [i].
  Proof. cbn [restart_all]. destruct (restart_work t i); reflexivity. Qed.

  (** [source_changed] / the restarts of the other calls: two rounds of restarts *)
  Lemma two_restarts t idxs p :
    wf t -> (forall i, In i idxs -> get_slot (slots t) i <> None) ->
    exists t1 t2,
      restart_all t idxs = Ok t1 /\ update_external_dependencies t1 p = Ok t2 /\ wf t1 /\ wf t2 /\
      rmf t2 = rmf t /\ last_hash t2 = last_hash t /\ free t2 = free t /\
      (forall j, get_slot (slots t1) j = option_map (reset_if (mem_nat j idxs)) (get_slot (slots t) j)) /\
      (forall j, get_slot (slots t2) j =
                 option_map (reset_if (mem_nat j (ext_get (ext t1) p))) (get_slot (slots t1) j)).
  Proof.
    intros W Hocc.
    destruct (restart_all_ok inp outp E t idxs W Hocc) as [t1 [R1 [W1 [Hr1 [Hh1 [Hf1 [_ [_ Hg1]]]]]]]].
    destruct (restart_all_ok inp outp E t1 (ext_get (ext t1) p) W1 (ext_occupied inp outp E t1 p W1))
      as [t2 [R2 [W2 [Hr2 [Hh2 [Hf2 [_ [_ Hg2]]]]]]]].
    exists t1, t2. unfold update_external_dependencies.
    split; [exact R1|]. split; [exact R2|]. split; [exact W1|]. split; [exact W2|].
    split; [congruence|]. split; [congruence|]. split; [congruence|]. split; [exact Hg1|exact Hg2].
  Qed.

  Lemma reset_if_src b it : i_src (reset_if b it) = i_src it.
  Proof. destruct b; reflexivity. Qed.
  Lemma reset_if_out b it : i_out (reset_if b it) = i_out it.
  Proof. destruct b; reflexivity. Qed.
  Lemma reset_if_done b it : is_done (i_st (reset_if b it)) = true -> b = false /\ is_done (i_st it) = true.
  Proof. destruct b; cbn; [discriminate|auto]. Qed.

  Lemma step_SrcChanged c0 d u w p :
    inv c0 d u w ->
    exists t', source_changed (w_tree w) p = Ok t' /\
               inv c0 (track cfg inp u d (SrcChanged p)) u (mkWorld (w_fs w) (w_cfg w) t').
  Proof.
    intros I. pose proof (inv_wf _ _ _ _ I) as W. set (t := w_tree w) in *.
    set (idxs := match node_of t p with Some i => [i] | None => nodes_under (slots t) p 0 end).
    assert (Hocc : forall i, In i idxs -> get_slot (slots t) i <> None).
    { intros i Hi. unfold idxs in Hi. destruct (node_of t p) as [k|] eqn:En.
      - destruct Hi as [<-|[]]. apply node_of_some in En as [it [H _]]. congruence.
      - apply nodes_under_in in Hi as [it [H _]]. congruence. }
    destruct (two_restarts t idxs p W Hocc) as [t1 [t2 [R1 [R2 [W1 [W2 [Hr [Hh [Hf [Hg1 Hg2]]]]]]]]]].
    exists t2. split.
    { unfold source_changed. fold t. destruct (node_of t p) as [k|] eqn:En.
      - rewrite restart_work_as_all. unfold idxs in R1. rewrite R1. exact R2.
      - unfold idxs in R1. rewrite R1. exact R2. }
    assert (Hitem : forall j it2, get_slot (slots t2) j = Some it2 ->
                                  exists it, get_slot (slots t) j = Some it /\
                                             it2 = reset_if (mem_nat j (ext_get (ext t1) p)) (reset_if (mem_nat j idxs) it)).
    { intros j it2 Hj. rewrite Hg2, Hg1 in Hj. destruct (get_slot (slots t) j) as [it|]; [|discriminate].
      cbn in Hj. inversion Hj. eauto. }
    apply inv_tree_change with (d := d); try assumption.
    - intros j it2 Hj Hd. destruct (Hitem _ _ Hj) as [it [Hs ->]].
      apply reset_if_done in Hd as [-> Hd]. apply reset_if_done in Hd as [-> Hd]. exact Hs.
    - intros j it2 Hj Hd [Hc1 [Hc2 Hc3]]. cbn [track dC dR] in *.
      destruct (Hitem _ _ Hj) as [it [Hs Heq]]. subst it2.
      apply reset_if_done in Hd as [Hb2 Hd]. rewrite Hb2 in *. cbn [reset_if] in *.
      apply reset_if_done in Hd as [Hb1 Hd]. rewrite Hb1 in *. cbn [reset_if] in *.
      split; [|split; [exact Hc2|]].
      + intros Hin. destruct (path_eq_dec (i_src it) p) as [Heq|Hne].
        * (* the item of p itself is restarted *)
          assert (Hin1 : In j idxs).
          { unfold idxs. destruct (node_of t p) as [k|] eqn:En.
            - apply node_of_some in En as [itk [Hk Hsk]]. left.
              eapply (wf_nodup _ _ _ _ W); [exact Hk|exact Hs|congruence].
            - exfalso. eapply node_of_none; eassumption. }
          apply mem_nat_In in Hin1. congruence.
        * apply Hc1. apply drop_In. auto.
      + intros x Hx Hin. destruct (path_eq_dec x p) as [Heq|Hne].
        * subst x. assert (Hs1 : get_slot (slots t1) j = Some it) by (rewrite Hg1, Hs, Hb1; reflexivity).
          pose proof (wf_linked _ _ _ _ W1 _ _ _ Hs1 Hx) as Hl. apply mem_nat_In in Hl. congruence.
        * apply (Hc3 x Hx). apply drop_In. auto.
    - intros j it2 Hj Hc. cbn [track dR] in Hc. destruct (Hitem _ _ Hj) as [it [Hs ->]].
      rewrite !reset_if_src in *. eapply (inv_exists _ _ _ _ I); eassumption.
    - intros q Hq Hex Hn. cbn [track dN] in Hn.
      pose proof (inv_hasitem _ _ _ _ I q Hq Hex Hn) as Hnode.
      apply node_of_ne_none in Hnode as [i [it [Hi Hsrc]]].
      eapply node_of_exists with (i := i).
      + rewrite Hg2, Hg1. fold t in Hi. rewrite Hi. reflexivity.
      + rewrite !reset_if_src. exact Hsrc.
    - intros j it Hj. left. exists j. eexists. split.
      + rewrite Hg2, Hg1. fold t in Hj. rewrite Hj. reflexivity.
      + rewrite !reset_if_out. reflexivity.
    - intros q Hq. rewrite Hr. exact Hq.
  Qed.

  (** ** remove_source *)

  Lemma remove_file_branch t i it :
    wf t -> get_slot (slots t) i = Some it ->
    exists t3,
      match restart_work (queue_removal t it) i with
      | Ok t' => Ok (remove_node t' i)
      | Panic => Panic
      end = Ok t3 /\
      wf t3 /\ rmf t3 = (rmf t ++ [i_out it])%list /\ last_hash t3 = last_hash t /\
      forall j, get_slot (slots t3) j = if Nat.eqb i j then None else get_slot (slots t) j.
  Proof.
    intros W Hi. pose proof (get_slot_some_lt _ _ _ Hi) as Hlt.
    destruct (wf_item _ _ _ _ W _ _ Hi) as [Ho [Hs HE]].
    assert (Hneq : path_eqb (i_src it) (i_out it) = false).
    { apply path_eqb_neq. rewrite Ho. eapply source_neq_out; eassumption. }
    destruct (restart_work_ok inp outp E t i it W Hi) as [ta [Ra [Wa [Hra [Hha [Hfa [_ [_ Hga]]]]]]]].
    assert (Hia : get_slot (slots ta) i = Some (item_reset it)) by (rewrite Hga, Nat.eqb_refl; reflexivity).
    destruct (remove_node_ok inp outp io_disjoint1 io_disjoint2 E ta i (item_reset it) Wa Hia eq_refl)
      as [Wb [Hrb [Hhb [_ Hgb]]]].
    exists (queue_removal (remove_node ta i) (item_reset it)). split.
    - unfold restart_work in Ra. rewrite Hi in Ra. inversion Ra as [Hta]. clear Ra.
      unfold queue_removal at 1. rewrite Hneq. unfold restart_work. cbn [slots set_rmf]. rewrite Hi.
      unfold remove_node. cbn [slots set_slots set_ext set_rmf].
      rewrite get_set_slot_same by exact Hlt.
      unfold queue_removal. cbn [i_src i_out item_reset]. rewrite Hneq.
      reflexivity.
    - split; [exact Wb|]. split; [rewrite Hrb, Hra; reflexivity|]. split; [congruence|].
      intros j. rewrite Hgb, Hga. destruct (Nat.eqb i j); reflexivity.
  Qed.

  (** what both arms of [remove_source] establish before the dependents are restarted *)
  Lemma remove_source_finish c0 d u w p tn (removed : nat -> bool) :
    inv c0 d u w -> wf tn ->
    last_hash tn = last_hash (w_tree w) ->
    (forall j, get_slot (slots tn) j = if removed j then None else get_slot (slots (w_tree w)) j) ->
    (forall j it, get_slot (slots (w_tree w)) j = Some it -> removed j = true ->
                  starts_with p (i_src it) = true /\ In (i_out it) (rmf tn)) ->
    (forall j it, get_slot (slots (w_tree w)) j = Some it -> starts_with p (i_src it) = true ->
                  removed j = true) ->
    (forall q, In q (rmf (w_tree w)) -> In q (rmf tn)) ->
    exists t', update_external_dependencies tn p = Ok t' /\
               inv c0 (track cfg inp u d (RemoveSrc p)) u (mkWorld (w_fs w) (w_cfg w) t').
  Proof.
    intros I Wn Hh Hgn Hrem1 Hrem2 Hrmf. set (t := w_tree w) in *.
    destruct (restart_all_ok inp outp E tn (ext_get (ext tn) p) Wn (ext_occupied inp outp E tn p Wn))
      as [t' [R [W' [Hr' [Hh' [_ [_ [_ Hg']]]]]]]].
    exists t'. split; [exact R|].
    assert (Hitem : forall j it2, get_slot (slots t') j = Some it2 ->
                                  exists it, get_slot (slots t) j = Some it /\ removed j = false /\
                                             it2 = reset_if (mem_nat j (ext_get (ext tn) p)) it).
    { intros j it2 Hj. rewrite Hg', Hgn in Hj. destruct (removed j); [discriminate|].
      destruct (get_slot (slots t) j) as [it|]; [|discriminate]. cbn in Hj. inversion Hj. eauto. }
    assert (Hsurv : forall j it, get_slot (slots t) j = Some it -> removed j = false ->
                                 starts_with p (i_src it) = false).
    { intros j it Hj Hr. destruct (starts_with p (i_src it)) eqn:Es; [|reflexivity].
      rewrite (Hrem2 _ _ Hj Es) in Hr. discriminate. }
    assert (Hcov : forall j it, get_slot (slots t) j = Some it -> removed j = false ->
                                covered (drop p (dR d)) (i_src it) = false -> covered (dR d) (i_src it) = false).
    { intros j it Hj Hr Hc. apply covered_false. intros r Hin.
      destruct (path_eq_dec r p) as [->|Hne]; [eapply Hsurv; eassumption|].
      rewrite covered_false in Hc. apply Hc. apply drop_In. auto. }
    apply inv_tree_change with (d := d); try assumption.
    - rewrite Hh', Hh. reflexivity.
    - intros j it2 Hj Hd. destruct (Hitem _ _ Hj) as [it [Hs [Hr ->]]].
      apply reset_if_done in Hd as [-> Hd]. exact Hs.
    - intros j it2 Hj Hd [Hc1 [Hc2 Hc3]]. cbn [track dC dR] in *.
      destruct (Hitem _ _ Hj) as [it [Hs [Hr Heq]]]. subst it2.
      apply reset_if_done in Hd as [Hb Hd]. rewrite Hb in *. cbn [reset_if] in *.
      split; [|split].
      + intros Hin. destruct (path_eq_dec (i_src it) p) as [Heq|Hne].
        * pose proof (Hsurv _ _ Hs Hr) as Hsw. rewrite Heq, starts_with_refl in Hsw. discriminate.
        * apply Hc1. apply drop_In. auto.
      + eapply Hcov; eassumption.
      + intros x Hx Hin. destruct (path_eq_dec x p) as [Heq|Hne].
        * subst x. assert (Hsn : get_slot (slots tn) j = Some it) by (rewrite Hgn, Hr; exact Hs).
          pose proof (wf_linked _ _ _ _ Wn _ _ _ Hsn Hx) as Hl. apply mem_nat_In in Hl. congruence.
        * apply (Hc3 x Hx). apply drop_In. auto.
    - intros j it2 Hj Hc. cbn [track dR] in Hc. destruct (Hitem _ _ Hj) as [it [Hs [Hr ->]]].
      rewrite reset_if_src in *. eapply (inv_exists _ _ _ _ I); [exact Hs|]. eapply Hcov; eassumption.
    - intros q Hq Hex Hn. cbn [track dN] in Hn.
      assert (Hn2 : ~ In q (dN d)) by (intros H; apply Hn; apply in_or_app; right; exact H).
      pose proof (inv_hasitem _ _ _ _ I q Hq Hex Hn2) as Hnode.
      apply node_of_ne_none in Hnode as [i [it [Hi Hsrc]]]. fold t in Hi.
      destruct (removed i) eqn:Er.
      + exfalso. apply Hn. apply in_or_app. left. apply filter_In.
        destruct (Hrem1 _ _ Hi Er) as [Hsw _]. rewrite Hsrc in Hsw. split; [|exact Hsw].
        apply fs_collect_spec. unfold Worker.is_source in Hq. apply andb_true_iff in Hq as [Hq1 Hq2].
        split; [|auto]. rewrite <- (inv_user _ _ _ _ I); [exact Hex|].
        eapply source_not_out; try eassumption. unfold Worker.is_source. rewrite Hq1, Hq2. reflexivity.
      + eapply node_of_exists with (i := i).
        * rewrite Hg', Hgn, Er, Hi. reflexivity.
        * rewrite reset_if_src. exact Hsrc.
    - intros j it Hj. fold t in Hj. destruct (removed j) eqn:Er.
      + right. rewrite Hr'. apply (Hrem1 _ _ Hj Er).
      + left. exists j. eexists. split; [rewrite Hg', Hgn, Er, Hj; reflexivity|].
        rewrite reset_if_out. reflexivity.
    - intros q Hq. rewrite Hr'. apply Hrmf. exact Hq.
  Qed.

  Lemma step_RemoveSrc c0 d u w p :
    inv c0 d u w -> dir_event_ok cfg (w_tree w) (RemoveSrc p) = true ->
    exists t', remove_source (w_tree w) p = Ok t' /\
               inv c0 (track cfg inp u d (RemoveSrc p)) u (mkWorld (w_fs w) (w_cfg w) t').
  Proof.
    intros I Hok. pose proof (inv_wf _ _ _ _ I) as W. set (t := w_tree w) in *.
    unfold remove_source. fold t. destruct (node_of t p) as [i|] eqn:En.
    - (* the path is a work item *)
      destruct (node_of_some _ _ _ En) as [it [Hi Hsrc]]. rewrite Hi.
      destruct (remove_file_branch t i it W Hi) as [t3 [R3 [W3 [Hr3 [Hh3 Hg3]]]]]. rewrite R3.
      apply (remove_source_finish c0 d u w p t3 (Nat.eqb i)); try assumption.
      + intros j itj Hj Er. apply Nat.eqb_eq in Er. subst j. fold t in Hj. rewrite Hi in Hj. inversion Hj; subst itj.
        split; [rewrite Hsrc; apply starts_with_refl|]. rewrite Hr3. apply in_or_app. right. left. reflexivity.
      + intros j itj Hj Hsw. fold t in Hj. apply Nat.eqb_eq.
        destruct (wf_item _ _ _ _ W _ _ Hi) as [_ [_ HE1]]. destruct (wf_item _ _ _ _ W _ _ Hj) as [_ [_ HE2]].
        rewrite Hsrc in HE1. pose proof (E_nonest _ _ HE1 HE2 Hsw) as Heq.
        eapply (wf_nodup _ _ _ _ W); [exact Hi|exact Hj|congruence].
      + intros q Hq. rewrite Hr3. apply in_or_app. left. exact Hq.
    - (* a directory (or nothing) *)
      set (idxs := nodes_under (slots t) p 0).
      assert (Hd : forall j it, In j idxs -> get_slot (slots t) j = Some it -> i_deps it = []).
      { intros j it Hj Hs. cbn [dir_event_ok] in Hok. fold t in Hok. rewrite En in Hok.
        rewrite forallb_forall in Hok.
        assert (Hin : In it (all_items t)) by (apply all_items_spec; eauto).
        specialize (Hok _ Hin). apply orb_true_iff in Hok as [Hok|Hok].
        - apply nodes_under_in in Hj as [it' [Hs' Hsw]]. rewrite Hs in Hs'. inversion Hs'; subst it'.
          rewrite Hsw in Hok. discriminate.
        - destruct (i_deps it); [reflexivity|discriminate]. }
      destruct (remove_nodes_ok inp outp io_disjoint1 io_disjoint2 E idxs t W Hd) as [Wn [Hhn [_ [Hgn Hrn]]]].
      apply (remove_source_finish c0 d u w p (remove_nodes t idxs) (fun j => mem_nat j idxs)); try assumption.
      + intros j itj Hj Er. fold t in Hj. apply mem_nat_In in Er.
        pose proof Er as Er'. apply nodes_under_in in Er' as [it' [Hs' Hsw]]. rewrite Hj in Hs'. inversion Hs'; subst it'.
        split; [exact Hsw|]. apply Hrn. right. exists j, itj. auto.
      + intros j itj Hj Hsw. fold t in Hj. apply mem_nat_In. apply nodes_under_in. eauto.
      + intros q Hq. apply Hrn. left. exact Hq.
  Qed.

  (** ** add_source *)

  Lemma step_AddSrc c0 d u w p :
    inv c0 d u w -> fs_is_file u p = true -> is_source p = true ->
    exists t', add_source (w_tree w) p (out_of p) = Ok t' /\
               inv c0 (track cfg inp u d (AddSrc p)) u (mkWorld (w_fs w) (w_cfg w) t').
  Proof.
    intros I Hfile Hsrc. pose proof (inv_wf _ _ _ _ I) as W. set (t := w_tree w) in *.
    assert (Hup : fs_get u p <> None) by (unfold fs_is_file in Hfile; destruct (fs_get u p); [discriminate|discriminate]).
    assert (HE : In p E) by (apply (inv_ufs_E _ _ _ _ I); exact Hup).
    assert (Hfp : fs_get (w_fs w) p <> None).
    { rewrite (inv_user _ _ _ _ I); [exact Hup|]. eapply source_not_out; eassumption. }
    destruct (restart_all_ok inp outp E t (ext_get (ext t) p) W (ext_occupied inp outp E t p W))
      as [t1 [R1 [W1 [Hr1 [Hh1 [_ [_ [_ Hg1]]]]]]]].
    unfold add_source, update_external_dependencies. fold t. rewrite R1.
    assert (Hitem1 : forall j it1, get_slot (slots t1) j = Some it1 ->
                                   exists it, get_slot (slots t) j = Some it /\
                                              it1 = reset_if (mem_nat j (ext_get (ext t) p)) it).
    { intros j it1 Hj. rewrite Hg1 in Hj. destruct (get_slot (slots t) j) as [it|]; [|discriminate].
      cbn in Hj. inversion Hj. eauto. }
    (* the items that could be clean again only because [p] left the dirty sets were restarted *)
    assert (Hdeps : forall j it, get_slot (slots t) j = Some it -> mem_nat j (ext_get (ext t) p) = false ->
                                 ~ In p (i_deps it)).
    { intros j it Hj Hm Hin. pose proof (wf_linked _ _ _ _ W _ _ _ Hj Hin) as Hl.
      apply mem_nat_In in Hl. congruence. }
    destruct (node_of t1 p) as [i|] eqn:En.
    - (* already a work item: restart it *)
      destruct (node_of_some _ _ _ En) as [it1 [Hi1 Hs1]].
      destruct (restart_work_ok inp outp E t1 i it1 W1 Hi1) as [t2 [R2 [W2 [Hr2 [Hh2 [_ [_ [_ Hg2]]]]]]]].
      exists t2. split; [exact R2|].
      apply inv_tree_change with (d := d); try assumption.
      + rewrite Hh2, Hh1. reflexivity.
      + intros j it2 Hj Hd. rewrite Hg2 in Hj. destruct (Nat.eqb i j); [inversion Hj; subst; discriminate|].
        destruct (Hitem1 _ _ Hj) as [it [Hs ->]]. apply reset_if_done in Hd as [-> _]. exact Hs.
      + intros j it2 Hj Hd [Hc1 [Hc2 Hc3]]. cbn [track dC dR] in *.
        rewrite Hg2 in Hj. destruct (Nat.eqb i j) eqn:Eij; [inversion Hj; subst; discriminate|].
        destruct (Hitem1 _ _ Hj) as [it [Hs Heq]]. subst it2.
        apply reset_if_done in Hd as [Hb Hd]. rewrite Hb in *. cbn [reset_if] in *.
        split; [|split; [exact Hc2|]].
        * intros Hin. destruct (path_eq_dec (i_src it) p) as [Heq|Hne].
          -- exfalso. apply Nat.eqb_neq in Eij. apply Eij.
             eapply (wf_nodup _ _ _ _ W1); [exact Hi1|exact Hj|]. cbn [reset_if]. congruence.
          -- apply Hc1. apply drop_In. auto.
        * intros x Hx Hin. destruct (path_eq_dec x p) as [->|Hne]; [eapply Hdeps; eassumption|].
          apply (Hc3 x Hx). apply drop_In. auto.
      + intros j it2 Hj Hc. cbn [track dR] in Hc. rewrite Hg2 in Hj. destruct (Nat.eqb i j) eqn:Eij.
        * inversion Hj; subst it2. cbn [item_reset i_src]. rewrite Hs1. exact Hfp.
        * destruct (Hitem1 _ _ Hj) as [it [Hs ->]]. rewrite reset_if_src in *.
          eapply (inv_exists _ _ _ _ I); eassumption.
      + intros q Hq Hex Hn. cbn [track dN] in Hn.
        destruct (path_eq_dec q p) as [->|Hne].
        * eapply node_of_exists with (i := i); [rewrite Hg2, Nat.eqb_refl; reflexivity|exact Hs1].
        * assert (Hn2 : ~ In q (dN d)) by (intros H; apply Hn; apply drop_In; auto).
          pose proof (inv_hasitem _ _ _ _ I q Hq Hex Hn2) as Hnode.
          apply node_of_ne_none in Hnode as [k [it [Hk Hsk]]]. fold t in Hk.
          destruct (Nat.eqb i k) eqn:Eik.
          -- apply Nat.eqb_eq in Eik. subst k. rewrite Hg1, Hk in Hi1. cbn in Hi1. inversion Hi1; subst it1.
             rewrite reset_if_src in Hs1. congruence.
          -- eapply node_of_exists with (i := k).
             ++ rewrite Hg2, Eik, Hg1, Hk. reflexivity.
             ++ rewrite reset_if_src. exact Hsk.
      + intros j it Hj. fold t in Hj. left. exists j. destruct (Nat.eqb i j) eqn:Eij.
        * apply Nat.eqb_eq in Eij. subst j. exists (item_reset it1). split; [rewrite Hg2, Nat.eqb_refl; reflexivity|].
          rewrite Hg1, Hj in Hi1. cbn in Hi1. inversion Hi1; subst it1.
          cbn [item_reset i_out]. rewrite reset_if_out. reflexivity.
        * eexists. split; [rewrite Hg2, Eij, Hg1, Hj; reflexivity|]. rewrite reset_if_out. reflexivity.
      + intros q Hq. rewrite Hr2, Hr1. exact Hq.
    - (* a new work item *)
      destruct (insert_source_ok inp outp E t1 p W1 En Hsrc HE) as [W2 [Hr2 [Hh2 [_ [k [Hk Hg2]]]]]].
      eexists. split; [reflexivity|].
      apply inv_tree_change with (d := d); try assumption.
      + rewrite Hh2, Hh1. reflexivity.
      + intros j it2 Hj Hd. rewrite Hg2 in Hj. destruct (Nat.eqb k j); [inversion Hj; subst; discriminate|].
        destruct (Hitem1 _ _ Hj) as [it [Hs ->]]. apply reset_if_done in Hd as [-> _]. exact Hs.
      + intros j it2 Hj Hd [Hc1 [Hc2 Hc3]]. cbn [track dC dR] in *.
        rewrite Hg2 in Hj. destruct (Nat.eqb k j) eqn:Ekj; [inversion Hj; subst; discriminate|].
        destruct (Hitem1 _ _ Hj) as [it [Hs Heq]]. subst it2.
        apply reset_if_done in Hd as [Hb Hd]. rewrite Hb in *. cbn [reset_if] in *.
        split; [|split; [exact Hc2|]].
        * intros Hin. destruct (path_eq_dec (i_src it) p) as [Heq|Hne].
          -- exfalso. eapply node_of_none; [exact En|exact Hj|]. cbn [reset_if]. exact Heq.
          -- apply Hc1. apply drop_In. auto.
        * intros x Hx Hin. destruct (path_eq_dec x p) as [->|Hne]; [eapply Hdeps; eassumption|].
          apply (Hc3 x Hx). apply drop_In. auto.
      + intros j it2 Hj Hc. cbn [track dR] in Hc. rewrite Hg2 in Hj. destruct (Nat.eqb k j) eqn:Ekj.
        * inversion Hj; subst it2. cbn [i_src]. exact Hfp.
        * destruct (Hitem1 _ _ Hj) as [it [Hs ->]]. rewrite reset_if_src in *.
          eapply (inv_exists _ _ _ _ I); eassumption.
      + intros q Hq Hex Hn. cbn [track dN] in Hn.
        destruct (path_eq_dec q p) as [->|Hne].
        * eapply node_of_exists with (i := k); [rewrite Hg2, Nat.eqb_refl; reflexivity|reflexivity].
        * assert (Hn2 : ~ In q (dN d)) by (intros H; apply Hn; apply drop_In; auto).
          pose proof (inv_hasitem _ _ _ _ I q Hq Hex Hn2) as Hnode.
          apply node_of_ne_none in Hnode as [i [it [Hi Hsi]]]. fold t in Hi.
          assert (Hki : Nat.eqb k i = false).
          { apply Nat.eqb_neq. intros ->. rewrite Hg1, Hi in Hk. discriminate. }
          eapply node_of_exists with (i := i).
          -- rewrite Hg2, Hki, Hg1, Hi. reflexivity.
          -- rewrite reset_if_src. exact Hsi.
      + intros j it Hj. fold t in Hj. left. exists j. eexists. split.
        * rewrite Hg2. assert (Hkj : Nat.eqb k j = false).
          { apply Nat.eqb_neq. intros ->. rewrite Hg1, Hj in Hk. discriminate. }
          rewrite Hkj, Hg1, Hj. reflexivity.
        * rewrite reset_if_out. reflexivity.
      + intros q Hq. rewrite Hr2, Hr1. exact Hq.
  Qed.

  (** ** collect_work *)

  Lemma collect_fold_ok l : forall t,
    wf t -> (forall q, In q l -> is_source q = true /\ In q E) ->
    let t' := fold_left (fun t q => add_source_if_missing t q (out_of q)) l t in
    wf t' /\ rmf t' = rmf t /\ last_hash t' = last_hash t /\
    (forall j it, get_slot (slots t) j = Some it -> get_slot (slots t') j = Some it) /\
    (forall j it', get_slot (slots t') j = Some it' ->
                   get_slot (slots t) j = Some it' \/
                   exists q, In q l /\ it' = mkItem q (out_of q) NotStarted []) /\
    (forall q, In q l -> node_of t' q <> None).
  Proof.
    induction l as [|q l IH]; intros t W Hl; cbn [fold_left].
    - cbn. split; [exact W|]. repeat split; auto.
    - assert (Hq : is_source q = true /\ In q E) by (apply Hl; left; reflexivity).
      assert (Hl' : forall q', In q' l -> is_source q' = true /\ In q' E) by (intros q' H; apply Hl; right; exact H).
      destruct (node_of t q) as [i|] eqn:En.
      + assert (Hsame : add_source_if_missing t q (out_of q) = t)
          by (unfold add_source_if_missing; rewrite En; reflexivity).
        rewrite Hsame.
        destruct (IH t W Hl') as [W' [Hr [Hh [Hold [Hnew Hnode]]]]]. cbn zeta in *.
        split; [exact W'|]. split; [exact Hr|]. split; [exact Hh|]. split; [exact Hold|]. split.
        * intros j it' Hj. destruct (Hnew _ _ Hj) as [H|[q' [H1 H2]]]; [left; exact H|].
          right. exists q'. split; [right; exact H1|exact H2].
        * intros q' [<-|Hin]; [|apply Hnode; exact Hin].
          apply node_of_some in En as [it [Hi Hs]]. eapply node_of_exists; [apply Hold; exact Hi|exact Hs].
      + assert (Hsame : add_source_if_missing t q (out_of q) = insert_source t q (out_of q))
          by (unfold add_source_if_missing; rewrite En; reflexivity).
        rewrite Hsame.
        destruct Hq as [Hq1 Hq2].
        destruct (insert_source_ok inp outp E t q W En Hq1 Hq2) as [W1 [Hr1 [Hh1 [_ [k [Hk Hg1]]]]]].
        set (t1 := insert_source t q (out_of q)) in *.
        destruct (IH t1 W1 Hl') as [W' [Hr [Hh [Hold [Hnew Hnode]]]]]. cbn zeta in *.
        split; [exact W'|]. split; [congruence|]. split; [congruence|]. split; [|split].
        * intros j it Hj. apply Hold. rewrite Hg1. destruct (Nat.eqb k j) eqn:Ekj; [|exact Hj].
          apply Nat.eqb_eq in Ekj. subst j. congruence.
        * intros j it' Hj. destruct (Hnew _ _ Hj) as [H|[q' [H1 H2]]].
          -- rewrite Hg1 in H. destruct (Nat.eqb k j); [|left; exact H].
             inversion H. right. exists q. split; [left; reflexivity|reflexivity].
          -- right. exists q'. split; [right; exact H1|exact H2].
        * intros q' [<-|Hin]; [|apply Hnode; exact Hin].
          eapply node_of_exists with (i := k); [apply Hold; rewrite Hg1, Nat.eqb_refl; reflexivity|reflexivity].
  Qed.

  Lemma step_Collect c0 d u w :
    inv c0 d u w ->
    inv c0 (track cfg inp u d (Collect)) u
        (mkWorld (w_fs w) (w_cfg w) (collect_work inp outp (w_tree w) (w_fs w))).
  Proof.
    intros I. pose proof (inv_wf _ _ _ _ I) as W. set (t := w_tree w) in *.
    assert (Hl : forall q, In q (fs_collect (w_fs w) inp) ->
                           is_source q = true /\ In q E /\ fs_get (w_fs w) q <> None).
    { intros q Hq. apply fs_collect_spec in Hq as [H1 [H2 H3]].
      assert (Hs : is_source q = true) by (unfold Worker.is_source; rewrite H2, H3; reflexivity).
      split; [exact Hs|]. split; [|exact H1]. apply (inv_ufs_E _ _ _ _ I).
      rewrite <- (inv_user _ _ _ _ I); [exact H1|]. eapply source_not_out; eassumption. }
    destruct (collect_fold_ok (fs_collect (w_fs w) inp) t W) as [W' [Hr [Hh [Hold [Hnew Hnode]]]]].
    { intros q Hq. destruct (Hl q Hq) as [H1 [H2 _]]. auto. }
    unfold collect_work. cbn zeta in *.
    apply inv_tree_change with (d := d); try assumption.
    - intros j it' Hj Hd. destruct (Hnew _ _ Hj) as [H|[q [_ ->]]]; [exact H|discriminate].
    - intros j it' Hj Hd Hc. exact Hc.
    - intros j it' Hj Hc. cbn [track dR] in Hc. destruct (Hnew _ _ Hj) as [H|[q [Hq ->]]].
      + eapply (inv_exists _ _ _ _ I); eassumption.
      + cbn [i_src]. apply (Hl q Hq).
    - intros q Hq Hex _. apply Hnode. apply fs_collect_spec.
      unfold Worker.is_source in Hq. apply andb_true_iff in Hq as [H1 H2]. auto.
    - intros j it Hj. left. exists j, it. split; [apply Hold; exact Hj|reflexivity].
    - intros q Hq. rewrite Hr. exact Hq.
  Qed.

  (** ** snapshot_output_structure, configuration change *)

  Lemma wf_set_snap t s : wf t -> wf (set_snap t s).
  Proof. intros [H1 H2 H3 H4 H5 H6 H7 H8 H9]. constructor; assumption. Qed.

  Lemma step_Snapshot c0 d u w :
    inv c0 d u w ->
    inv c0 d u (mkWorld (w_fs w) (w_cfg w) (snapshot_output_structure outp (w_tree w) (w_fs w))).
  Proof.
    intros I. unfold snapshot_output_structure.
    destruct (snap (w_tree w)); [destruct w; exact I|].
    destruct (fs_is_file (w_fs w) outp && fs_is_dir (w_fs w) outp); [|destruct w; exact I].
    destruct I as [I1 I2 I3 I4 I5 I6 I7 I8 I9 I10]. constructor; cbn [w_tree w_fs] in *; try assumption.
    apply wf_set_snap. exact I1.
  Qed.

  Lemma step_SetCfg c0 d u w c :
    inv c0 d u w -> inv c0 d u (mkWorld (w_fs w) c (w_tree w)).
  Proof. intros [I1 I2 I3 I4 I5 I6 I7 I8 I9 I10]. constructor; assumption. Qed.
End Step.
